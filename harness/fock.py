"""Independent dense Fock-space reference (numpy): fermionic and qubit operators as matrices.
Index convention: occupation / qubit q is bit q of the basis index."""
import itertools
import numpy as np

PAULI = {"X": np.array([[0, 1], [1, 0]], dtype=complex), "Y": np.array([[0, -1j], [1j, 0]]), "Z": np.diag([1, -1]).astype(complex), "I": np.eye(2, dtype=complex)}


def word_matrix(word, n):
    d = dict(word)
    M = np.eye(1, dtype=complex)
    for q in range(n):
        M = np.kron(PAULI[d.get(q, "I")], M)
    return M


def qubit_matrix(qop, n):
    M = np.zeros((2 ** n, 2 ** n), dtype=complex)
    for w, c in qop.terms.items():
        M = M + c * word_matrix(w, n)
    return M


def ladder(j, dagger, n):
    """a_j (or a_j^dagger) on n modes: (a_j psi)(x) picks x with bit j set, sign (-1)^{#occupied below j}"""
    dim = 2 ** n
    A = np.zeros((dim, dim), dtype=complex)
    for x in range(dim):
        if (x >> j) & 1:
            sign = (-1) ** bin(x & ((1 << j) - 1)).count("1")
            A[x & ~(1 << j), x] = sign
    return A.conj().T if dagger else A


def fermion_matrix(fop, n):
    dim = 2 ** n
    M = np.zeros((dim, dim), dtype=complex)
    lad = {(j, d): ladder(j, d, n) for j in range(n) for d in (0, 1)}
    for term, c in fop.terms.items():
        T = np.eye(dim, dtype=complex)
        for j, d in term:
            T = T @ lad[(j, d)]
        M = M + c * T
    return M


def popcount(x):
    return bin(x).count("1")


def sector_indices(n, pred):
    return [x for x in range(2 ** n) if pred(x)]


def spectra_equal(a, b, tol=1e-7):
    a, b = np.sort(np.real(a)), np.sort(np.real(b))
    return len(a) == len(b) and np.allclose(a, b, atol=tol)


def rand_molecular_hamiltonian(rng, M, const=True):
    """random spin-free Hermitian number- and spin-conserving Hamiltonian on M spatial orbitals (alternating spin order),
    as an openfermion FermionOperator in molecular form"""
    from openfermion.chem.molecular_data import spinorb_from_spatial
    from openfermion import InteractionOperator, get_fermion_operator
    h1 = np.array([[rng.uniform(-1, 1) for _ in range(M)] for _ in range(M)])
    h1 = (h1 + h1.T) / 2
    eri = np.zeros((M, M, M, M))
    for p, q, r, s in itertools.product(range(M), repeat=4):
        v = rng.uniform(-0.5, 0.5)
        for a, b, c, d in [(p, q, r, s), (q, p, r, s), (p, q, s, r), (q, p, s, r), (r, s, p, q), (s, r, p, q), (r, s, q, p), (s, r, q, p)]:
            eri[a, b, c, d] = v
    # physicist <pq|sr> ordering used by openfermion: h2[p,q,r,s] a+_p a+_q a_r a_s with h2[p,q,r,s] = (ps|qr)
    h2 = np.einsum("psqr->pqrs", eri)
    one, two = spinorb_from_spatial(h1, h2)
    iop = InteractionOperator(rng.uniform(-1, 1) if const else 0.0, one, 0.5 * two)
    return get_fermion_operator(iop)


# ---------------------------------------------------------------------------------------------- sparse variants
def ladder_sparse(n):
    """[a_0 .. a_{n-1}] as scipy csr matrices (same conventions as `ladder`)"""
    import scipy.sparse as sp
    out = []
    dim = 2 ** n
    for j in range(n):
        rows, cols, vals = [], [], []
        for x in range(dim):
            if (x >> j) & 1:
                rows.append(x & ~(1 << j))
                cols.append(x)
                vals.append((-1) ** bin(x & ((1 << j) - 1)).count("1"))
        out.append(sp.csr_matrix((vals, (rows, cols)), shape=(dim, dim), dtype=complex))
    return out


def fermion_matrix_sparse(fop, n, lad=None):
    import scipy.sparse as sp
    dim = 2 ** n
    lad = lad or ladder_sparse(n)
    lad_d = [a.conj().T.tocsr() for a in lad]
    M = sp.csr_matrix((dim, dim), dtype=complex)
    for term, c in fop.terms.items():
        if abs(c) < 1e-14:
            continue
        T = sp.identity(dim, dtype=complex, format="csr")
        for j, d in term:
            T = T @ (lad_d[j] if d else lad[j])
        M = M + c * T
    return M


def qubit_diag_element(qop, x):
    """<x| qop |x> for a computational basis state (bit q of x = qubit q): only I/Z words contribute"""
    tot = 0
    for w, c in qop.terms.items():
        if all(l == "Z" for _, l in w):
            s = 1
            for q, _ in w:
                if (x >> q) & 1:
                    s = -s
            tot += c * s
    return tot


def pauli_expect(psi, qop, n):
    """<psi|H|psi> for a qubit operator on a state vector with bit q of the index = qubit q, without building matrices"""
    idx = np.arange(2 ** n)
    tot = 0.0 + 0.0j
    for w, c in qop.terms.items():
        phi = psi
        src = idx.copy()
        phase = np.ones(2 ** n, dtype=complex)
        for q, l in w:
            bit = (idx >> q) & 1
            if l == "Z":
                phase = phase * np.where(bit == 1, -1, 1)
            elif l == "X":
                src = src ^ (1 << q)
            else:
                src = src ^ (1 << q)
                phase = phase * np.where(bit == 1, 1j, -1j)
        tot += c * np.vdot(psi, phase * psi[src])
    return tot
