"""Small molecules for the harness (PySCF through Tangelo), cached per process."""
import functools, warnings
warnings.filterwarnings("ignore")


@functools.lru_cache(maxsize=None)
def molecule(name, frozen=None, uhf=False):
    from tangelo import SecondQuantizedMolecule
    geoms = {
        "H2": ([("H", (0, 0, 0)), ("H", (0, 0, 0.7414))], 0, 0),
        "H4": ([("H", (0, 0, 0)), ("H", (0, 0, 0.85)), ("H", (0, 1.1, 0)), ("H", (0, 1.1, 0.95))], 0, 0),
        "H4+": ([("H", (0, 0, 0)), ("H", (0, 0, 0.85)), ("H", (0, 1.1, 0)), ("H", (0, 1.1, 0.95))], 1, 1),
        "H3+": ([("H", (0, 0, 0)), ("H", (0, 0, 0.9)), ("H", (0, 0.8, 0.45))], 1, 0),
        "H4t": ([("H", (0, 0, 0)), ("H", (0, 0, 0.85)), ("H", (0, 1.1, 0)), ("H", (0, 1.1, 0.95))], 0, 2),
        "LiH": ([("Li", (0, 0, 0)), ("H", (0, 0, 1.6))], 0, 0),
    }
    xyz, q, spin = geoms[name]
    fo = None if frozen is None else (list(frozen) if isinstance(frozen, tuple) else frozen)
    return SecondQuantizedMolecule(xyz, q=q, spin=spin, basis="sto-3g", frozen_orbitals=fo, uhf=uhf)
