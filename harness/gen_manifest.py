"""Write MANIFEST.json from harness/props/*.py (CLAIM dicts) — run by hand after adding a property module."""
import os, sys, json, importlib
HERE = os.path.dirname(os.path.abspath(__file__)); ROOT = os.path.dirname(HERE)
sys.path.insert(0, HERE); sys.path.insert(0, "/repo")
props = [json.loads(l) for l in open(os.path.join(ROOT, "properties.jsonl"))]
base = json.load(open("/root/.vp/BASELINE.json"))
checks, na = [], []
for p in props:
    pid = p["id"]
    mod_path = os.path.join(HERE, "props", pid + ".py")
    claim = None
    if os.path.exists(mod_path):
        src = open(mod_path).read()
        ns = {}
        # CLAIM is a literal dict at module level
        import ast
        tree = ast.parse(src)
        for node in tree.body:
            if isinstance(node, ast.Assign) and getattr(node.targets[0], "id", None) == "CLAIM":
                claim = ast.literal_eval(node.value)
    if claim is None:
        na.append({"property_id": pid, "reason": "check not built yet in this round (planned: see DESIGN.md section 4 for " + pid + ")"})
        continue
    checks.append({
        "property_id": pid,
        "quick_cmd": f"./check {pid} --tier quick",
        "thorough_cmd": f"./check {pid} --tier thorough",
        "evidence_file": f"evidence/{pid}.json",
        "replay_cmd_template": f"./check {pid} --replay {{path}}",
        "engine": "lean4-model+correspondence",
        "level_claimed": {"category": "proof", "text": claim["text"], "design_ref": "DESIGN.md §4 " + pid},
        "level_note": claim["note"],
        "technique": claim.get("technique", "Lean 4 theorems about an executable model + differential correspondence check against the real code"),
    })
man = {
    "version": 1,
    "setup_cmd": "cd lean && lake build TangeloModel TangeloProofs tmodel",
    "hooks": {"guard": "TANGELO_VERIF", "enable": "no hooks are needed: every observation point is callable in-process; the guard name is reserved",
              "baseline_off_cmd": base["cmd"], "source_commits": [], "add_only": True},
    "engines": [{"name": "lean4-model+correspondence", "path": "lean/ + harness/",
                 "serves_properties": [c["property_id"] for c in checks],
                 "kind_free_text": "hand-written executable Lean 4 model (Mathlib-free) with theorems in TangeloProofs/Props; tables regenerated from /repo on every run; Python harness drives real Tangelo and the compiled model through a JSON line protocol and diffs; numpy oracles search for failing inputs"}],
    "checks": checks,
    "not_applicable": na,
    "notes": "See DESIGN.md. known_findings.json lists genuine defects kept as findings and the fix: commits made in /repo.",
}
json.dump(man, open(os.path.join(ROOT, "MANIFEST.json"), "w"), indent=1)
# root of the proofs library: every lemma / property file present
proofs = []
for r, _, fs in os.walk(os.path.join(ROOT, "lean", "TangeloProofs")):
    for f in sorted(fs):
        if f.endswith(".lean"):
            rel = os.path.relpath(os.path.join(r, f), os.path.join(ROOT, "lean"))[:-5].replace(os.sep, ".")
            proofs.append(rel)
open(os.path.join(ROOT, "lean", "TangeloProofs.lean"), "w").write("".join(f"import {m}\n" for m in sorted(proofs)))
print("claimed", [c["property_id"] for c in checks], "not_applicable", len(na))
