"""C17 — circuits and operators survive export/import round trips."""
import json, math, random, re
import numpy as np
import vlib
from vlib import to_tangelo_gate, dump_tangelo_gate, dump_model_gate, ang_float, rand_ang, gspec

CLAIM = {
 "text": "Proof (Lean 4): writers and readers of the IonQ JSON and ProjectQ command formats are modelled on abstract syntax with the name dictionaries regenerated from /repo; proved: read(write g) = g (CNOT = CX as the code's own == has it; the variational flag is not expressible) for EVERY gate the format can express - any targets, control lists and parameters; the ProjectQ dictionary is invertible on the names the reader accepts (kernel decision on the regenerated table); gates outside the dictionary are refused by the writer; WHOLE CIRCUITS: for every circuit of expressible gates that satisfies the metadata invariant of C11 (every reachable circuit does), the written register ('qubits' / the Allocate lines) and the reader's reconstruction (Circuit(n_qubits) + gates / add_gate one by one) are modelled and proved to give back a circuit of the SAME WIDTH - idle qubits included - with the same gates (theorems ionq_circuit_roundtrip, projectq_circuit_roundtrip). Tie to the code: circuits are exported as built, or after trim_qubits() of a circuit built with a declared register size, a copy, or a repetition (no stale register information may survive an operation between construction and export); every record / command line the real writers emit is compared with the model's, the written register size and the re-imported width with the model's whole-circuit functions, the re-imported circuit is compared with the original (gates, qubits, parameters - exact float equality -, width), gates a format cannot express must raise; repr/eval of gates and the cirq operator conversion are checked by round trip on the real code (no model: eval and cirq are the implementation).",
 "note": "Trusted: Lean kernel + standard axioms, table extractor, Python float printing/parsing (float(str(x)) == x), the regular expressions of the ProjectQ reader (validated only by the correspondence), json module. OpenQASM / qiskit / braket writers are not installed: outside the quantifier here. Known finding: the ProjectQ reader drops Measure instructions.",
 "technique": "Lean 4 round-trip theorems over abstract syntax with regenerated dictionaries + record-level correspondence and real round trips"}

RULE = ("random circuits (width 1-6, and 10-101 in a quarter of the cases, fixed width with idle qubits or not) over each format's expressible gate set, parameters from {negative, tiny (1e-05 formatting), large, integer-valued, generic}; "
        "a stream with one inexpressible gate; repr/eval on all gate shapes; operator round trips through cirq; non-trivial if the circuit has >= 2 gates; distinct by hash")
TRUSTED = ["Python float repr round trip"]
ASSUMPTIONS = []

IONQ_SET = ["H", "X", "Y", "Z", "S", "T", "SWAP", "RX", "RY", "RZ", "PHASE", "XX", "CRX", "CRY", "CRZ", "CPHASE", "CX", "CY", "CZ", "CNOT"]
PQ_SET = ["H", "X", "Y", "Z", "S", "T", "RX", "RY", "RZ", "PHASE", "CNOT"]
SPECIAL_FLOATS = [5e-05, -5e-05, 1e-07, 123456.789, 1e16, 3.0, -2.0, 0.0, 7.3, -11.0, 3 * math.pi, 1e-300]


def same(a, b):
    """equality of gates as the library's own == defines it (CNOT = CX; numeric parameters modulo the period of the gate,
    4*pi for controlled rotations), leaving the variational flag aside (no format can express it)"""
    nm = lambda s: "CX" if s == "CNOT" else s
    if not (nm(a["n"]) == nm(b["n"]) and a["t"] == b["t"] and a["c"] == b["c"]):
        return False
    pa, pb = a["p"], b["p"]
    if isinstance(pa, float) and isinstance(pb, float):
        if pa == pb:
            return True
        period = 4 * math.pi if a["n"] in ("CRX", "CRY", "CRZ") else 2 * math.pi
        d = math.fmod(abs(pa - pb), period)
        return min(d, period - d) < 1e-7
    return pa == pb


def rand_circuit(rng, names, max_ctl):
    # mostly small registers; two-digit qubit indices (10+) and registers of 100+ qubits in a share of the cases
    n = rng.randint(1, 6) if rng.random() < 0.75 else rng.choice([10, 11, 12, 13, 20, 101])
    gs = vlib.rand_gate_list(rng, n, rng.randint(0, 10), [g for g in names if g not in ("XX", "SWAP") or n >= 2] or ["H"], max_controls=max_ctl, corr=0.0, var_prob=0.0)
    floats = {}
    for i, g in enumerate(gs):
        if isinstance(g["p"], list) and rng.random() < 0.4:
            floats[i] = rng.choice(SPECIAL_FLOATS)
    fixed = rng.choice([None, n, n + rng.randint(0, 2)])
    return gs, floats, fixed


def build(gs, floats, fixed):
    from tangelo.linq import Circuit, Gate
    out = []
    for i, g in enumerate(gs):
        tg = to_tangelo_gate(g)
        if i in floats:
            tg = Gate(g["n"], g["t"], g["c"], floats[i], g["v"])
        out.append(tg)
    return Circuit(out, n_qubits=fixed)


def prepared(gs, floats, fixed, pre):
    """the circuit to export and its description for the model.  pre = "trim": a circuit built with a declared register
    size and then trimmed (the width changes after construction) / "copy" / "twice" (c * 2): operations between construction
    and export must not leave stale register information behind"""
    c = build(gs, floats, fixed)
    if pre == "trim" and gs:
        c.trim_qubits()
        used = sorted({q for g in gs for q in g["t"] + (g["c"] or [])})
        rank = {q: i for i, q in enumerate(used)}
        gs = [{**g, "t": [rank[q] for q in g["t"]], "c": None if g["c"] is None else [rank[q] for q in g["c"]]} for g in gs]
        fixed = None
    elif pre == "copy":
        c = c.copy()
    elif pre == "twice":
        c = c * 2
        n0 = len(gs)
        gs = gs + [dict(g) for g in gs]
        floats = {**floats, **{k + n0: v for k, v in floats.items()}}
    return c, gs, floats, fixed


def ionq_case(ctx, gs, floats, fixed, pre="none"):
    from tangelo.linq import translate_circuit
    case0 = {"gates": gs, "n": fixed, "pre": pre}
    c, gs, floats, fixed = prepared(gs, floats, fixed, pre)
    ctx.count("pre:" + pre)
    case = {"fmt": "ionq", "gates": gs, "floats": {str(k): v for k, v in floats.items()}, "n": fixed, "built_as": case0}
    orig = [dump_tangelo_gate(g) for g in c]
    try:
        d = translate_circuit(c, "ionq")
        err = None
    except ValueError:
        d, err = None, "ERR:value"
    j = ctx.model.ask({"op": "export", "fmt": "ionq", "gates": gs, "n": fixed})
    ctx.case(case, nontrivial=len(gs) >= 2, sample=len(gs) <= 3)
    ctx.count("ionq")
    model_refuses = any(r is None for r in j["records"])
    if (err is not None) != model_refuses:
        ctx.mismatch(f"ionq writer: code {'refuses' if err else 'accepts'}, model {'refuses' if model_refuses else 'accepts'}", case)
        return False
    if err:
        ctx.count("ionq:refused")
        return True
    d = json.loads(json.dumps(d))
    for rec, mrec, g, i in zip(d["circuit"], j["records"], orig, range(len(orig))):
        mr = dict(mrec)
        if "rotation" in mr and isinstance(mr["rotation"], list):
            mr["rotation"] = floats.get(i, ang_float(mr["rotation"]))
        if rec != mr:
            rec_mismatch = f"ionq record {rec} differs from the model's {mr}"
            break
    else:
        rec_mismatch = None
    try:
        c2 = translate_circuit(d, "tangelo", source="ionq")
    except Exception as e:
        ctx.violation(f"re-importing the IonQ JSON the library itself wrote (width {c.width}, {len(orig)} gates) raises {vlib.err_name(e)}: {str(e)[:100]}", case)
        return False
    back = [dump_tangelo_gate(g) for g in c2]
    if c2.width != c.width or len(back) != len(orig) or not all(same(a, b) for a, b in zip(orig, back)):
        ctx.violation(f"IonQ JSON round trip altered the circuit: width {c.width}->{c2.width}; first difference "
                      f"{next(((a, b) for a, b in zip(orig, back) if not same(a, b)), None)}", case)
        return False
    if rec_mismatch:
        ctx.mismatch(rec_mismatch, case)
        return False
    # whole circuit: the register the writer records and the width the reader rebuilds (model: ionqWriteCirc / ionqReadCirc)
    if j.get("qubits") != d["qubits"] or j.get("back_width") != c2.width:
        ctx.mismatch(f"ionq whole-circuit model: 'qubits' {d['qubits']} vs model {j.get('qubits')}, re-imported width {c2.width} vs model {j.get('back_width')}", case)
        return False
    ctx.count("ionq:whole-circuit")
    mback = [dump_model_gate(g) for g in j["back"]]
    for i in floats:
        mback[i]["p"] = floats[i]
    if not all(same(a, b) for a, b in zip(back, mback)):
        ctx.mismatch("ionq reader: model and code read different gates", case)
        return False
    return True


def pq_tokenise(text):
    lines = []
    for ln in text.split("\n"):
        if not ln or "llocate" in ln:
            continue
        name = re.split(r' \| |\(', ln)[0]
        qs = [int(x) for x in re.findall(r'Qureg\[(\d+)\]', ln)]
        ps = [float(x) for x in re.findall(r'\((.*)\)', ln) if "Qureg" not in x]
        lines.append({"name": name, "qubits": qs, "param": ps[0] if ps else None})
    return lines


def pq_case(ctx, gs, floats, fixed, pre="none"):
    from tangelo.linq import translate_circuit
    case0 = {"gates": gs, "n": fixed, "pre": pre}
    c, gs, floats, fixed = prepared(gs, floats, fixed, pre)
    ctx.count("pre:" + pre)
    case = {"fmt": "projectq", "gates": gs, "floats": {str(k): v for k, v in floats.items()}, "n": fixed, "built_as": case0}
    orig = [dump_tangelo_gate(g) for g in c]
    try:
        text = translate_circuit(c, "projectq")
        err = None
    except ValueError:
        text, err = None, "ERR:value"
    j = ctx.model.ask({"op": "export", "fmt": "projectq", "gates": gs, "n": fixed})
    ctx.case(case, nontrivial=len(gs) >= 2, sample=len(gs) <= 3)
    ctx.count("projectq")
    model_refuses = any(r is None for r in j["records"])
    # the writer only reads control[0]: a multi-controlled CNOT is silently written as a singly-controlled one
    multi = any(g["n"] == "CNOT" and g["c"] and len(g["c"]) > 1 for g in gs)
    if multi and err is None:
        ctx.violation("ProjectQ export wrote a multi-controlled CNOT as a singly-controlled one instead of refusing", case)
        return False
    if (err is not None) != model_refuses:
        ctx.mismatch(f"projectq writer: code {'refuses' if err else 'accepts'}, model {'refuses' if model_refuses else 'accepts'}", case)
        return False
    if err:
        ctx.count("projectq:refused")
        return True
    toks = pq_tokenise(text)
    for tok, mrec, i in zip(toks, j["records"], range(len(orig))):
        mr = dict(mrec)
        if isinstance(mr["param"], list):
            mr["param"] = floats.get(i, ang_float(mr["param"]))
        if tok != mr:
            rec_mismatch = f"projectq line {tok} differs from the model's {mr}"
            break
    else:
        rec_mismatch = None
    try:
        c2 = translate_circuit(text, "tangelo", source="projectq")
    except Exception as e:
        ctx.violation(f"re-importing the ProjectQ text the library itself wrote (width {c.width}, {len(orig)} gates) raises {vlib.err_name(e)}: {str(e)[:100]}", case)
        return False
    back = [dump_tangelo_gate(g) for g in c2]
    n_alloc = len(re.findall(r"Allocate \| Qureg\[\d+\]", text))
    if j.get("qubits") != n_alloc or j.get("back_width") != c2.width:
        ctx.mismatch(f"projectq whole-circuit model: {n_alloc} Allocate lines vs model {j.get('qubits')}, re-imported width {c2.width} vs model {j.get('back_width')}", case)
        return False
    ctx.count("projectq:whole-circuit")
    has_meas = any(g["n"] == "MEASURE" for g in gs)
    if has_meas:
        if len(back) != len(orig):
            ctx.violation("ProjectQ import dropped the MEASURE gates of the exported circuit", case, known_id="C17-projectq-measure-dropped")
        return True
    if c2.width != c.width or len(back) != len(orig) or not all(same(a, b) for a, b in zip(orig, back)):
        ctx.violation(f"ProjectQ round trip altered the circuit: width {c.width}->{c2.width}; first difference "
                      f"{next(((a, b) for a, b in zip(orig, back) if not same(a, b)), None)}", case)
        return False
    if rec_mismatch:
        ctx.mismatch(rec_mismatch, case)
        return False
    return True


def repr_case(ctx, rng):
    from tangelo.linq import Gate
    n = 6
    g = vlib.rand_gate(rng, n, vlib.ALL_UNITARY + ["MEASURE", "CUSTOM"], max_controls=3)
    if g["n"] == "CUSTOM":
        g = gspec("CUSTOM", rng.sample(range(n), rng.randint(1, 3)), None, rand_ang(rng) if rng.random() < 0.5 else None)
    p = g["p"]
    param = "" if p is None else ang_float(p)
    r = rng.random()
    if r < 0.25:
        param = rng.choice(SPECIAL_FLOATS + [2, -3, 0])
    elif r < 0.35:
        param = rng.choice(["theta", "alpha_1", "x"])
    elif r < 0.4:
        param = np.float64(0.25)
    gate = Gate(g["n"], g["t"], g["c"], param, rng.random() < 0.3)
    ctx.count("repr")
    try:
        g2 = eval(repr(gate), {"Gate": Gate, "np": np, "nan": float("nan"), "inf": float("inf")})
    except Exception as e:
        ctx.violation(f"eval(repr(gate)) raised {type(e).__name__} for {gate!r}", {"repr": repr(gate)})
        return False
    if not (g2 == gate) or g2.__dict__ != gate.__dict__:
        ctx.violation(f"eval(repr(gate)) = {g2!r} differs from {gate!r}", {"repr": repr(gate)})
        return False
    return True


def operator_case(ctx, rng):
    from tangelo.toolboxes.operators import QubitOperator
    from tangelo.linq import translate_operator
    op = QubitOperator()
    for _ in range(rng.randint(1, 5)):
        qs = sorted(rng.sample(range(14), rng.randint(0, 4)))
        c = rng.choice([0.5, -1.25, 2.0, 1e-3]) + (rng.choice([0, 0, 0.75j, -2j]))
        if rng.random() < 0.3:
            # real and imaginary parts of very different size (nothing is "negligible" in a conversion), huge and tiny values
            c = rng.choice([12.5 + 1e-4j, 250 + 0.002j, -40 - 3e-4j, 1e-4 + 12.5j, 3e-6 - 250j, 1e5 + 0.3j, 1e-7, 2.5e-9j, 1e8])
        op += QubitOperator(tuple((q, rng.choice("XYZ")) for q in qs), c)
    if not op.terms:
        return True
    ctx.count("operator")
    try:
        back = translate_operator(translate_operator(op, source="tangelo", target="cirq"), source="cirq", target="tangelo")
    except Exception as e:
        ctx.violation(f"operator conversion through cirq raised {type(e).__name__}", {"op": str(op)})
        return False
    exact_same = set(back.terms) == set(op.terms) and all(abs(complex(back.terms[k]) - complex(op.terms[k])) <= 1e-15 * max(1.0, abs(op.terms[k])) for k in op.terms)
    back.compress()
    if back != op or set(back.terms) != set(op.terms) or not exact_same:
        ctx.violation(f"operator round trip through cirq changed the operator: {op} -> {back}", {"op": str(op)})
        return False
    return True


PRES = ["none", "none", "none", "trim", "trim", "copy", "twice"]


def run(ctx):
    rng = ctx.rng
    for i in range(ctx.n(150, 4000)):
        names = IONQ_SET if rng.random() < 0.85 else IONQ_SET + ["CH", "CSWAP", "MEASURE"]
        gs, fl, fixed = rand_circuit(rng, names, 3)
        if not ionq_case(ctx, gs, fl, fixed, rng.choice(PRES)) and len(ctx.violations) + len(ctx.mismatches) >= 3:
            return
    for i in range(ctx.n(150, 4000)):
        names = PQ_SET if rng.random() < 0.85 else PQ_SET + ["CZ", "SWAP", "MEASURE", "CRZ"]
        gs, fl, fixed = rand_circuit(rng, names, 1 if rng.random() < 0.9 else 2)
        if not pq_case(ctx, gs, fl, fixed, rng.choice(PRES)) and len(ctx.violations) + len(ctx.mismatches) >= 3:
            return
    for i in range(ctx.n(300, 5000)):
        if not repr_case(ctx, rng):
            break
    for i in range(ctx.n(60, 1000)):
        if not operator_case(ctx, rng):
            break


def replay(ctx, obj):
    case = obj.get("case") or (obj.get("first_mismatch") or {}).get("case")
    if case and "fmt" in case:
        fl = {int(k): v for k, v in case["floats"].items()}
        b = case.get("built_as") or {"gates": case["gates"], "n": case["n"], "pre": "none"}
        if b["pre"] == "twice":
            fl = {k: v for k, v in fl.items() if k < len(b["gates"])}
        (ionq_case if case["fmt"] == "ionq" else pq_case)(ctx, b["gates"], fl, b["n"], b["pre"])


def search(ctx, broken):
    pass
