"""C07 — ansatz parameter updates are equivalent to rebuilding the circuit."""
import random, copy, math
import numpy as np
import vlib

CLAIM = {
 "text": "Proof (Lean 4): the bookkeeping schemes the ansaetze use to update variational gates in place are modelled as small state machines over an abstract generator output (ordered list of (Pauli word, coefficient)): word -> gate-index table with rebuild when the key set changes (UCCSD, QCC), per-layer tables with cumulative offsets (UpCCGSD), positional update (HEA, RUCC, VariationalCircuit, VSQS blocks). Proved: starting from any parameter list, the parameter vector of the variational gates after an update equals the one of a fresh build with that generator output, and by induction over the history (theorem history_eq_build) after ANY sequence of updates it equals the fresh build with the LAST output, provided equal key sets list their words in the same order (explicit, satisfiable hypothesis, checked on every generated pair); cumulative offsets are proved to address disjoint consecutive blocks for every number of layers (the non-cumulative offsets the code used before the repair are proved wrong by a 3-layer counterexample); the angle rule 2c / 4pi+2c is shared with C06; all-zero parameters: every Pauli-word exponential block emitted with coefficient 0 is proved to act as the identity (both branches of the angle rule), hence a reference preparation followed by any number of such blocks prepares exactly the reference state (theorem all_zero_parameters_reference, corollary of the general Pauli-word theorem of C06). The ansatz object itself (recorded vector + circuit) under histories of set_var_params and update_var_params is a two-field state machine: if the in-place write turns the circuit of any vector into the circuit of the new one, then after ANY sequence of sets and updates the circuit is the fresh build of the last update's vector (run_circ_eq_build, run_update_last); the shortcut 'skip the update when the vector equals the recorded one' is refuted by a two-call history (skip_shortcut_counterexample). The model's answer (which vector the circuit holds) is asked from the driver for every step of every replayed history. The generators themselves (openfermion excitation generators, QCC/ILC screening) are NOT modelled. Tie to the code and oracle: for every built-in ansatz, encoding and ordering the harness replays parameter histories (exact zeros, sign changes, repeats, values beyond 2pi, wrong lengths; vectors given as list, array, the ansatz' own array written in place, after set_var_params of the same or of another vector) and compares the state prepared by the updated circuit with a freshly built one (cirq, overlap 1 - 1e-9), the accepted number of parameters, and the reference state at all-zero parameters.",
 "note": "Trusted: Lean kernel + standard axioms; cirq simulator; PySCF molecules; openfermion generators.",
 "technique": "Lean 4 invariant proofs over update histories for the bookkeeping state machines + history oracle (updated vs rebuilt state) on the real ansaetze"}

RULE = ("for each built-in ansatz x molecule (H2, H4, H4+ open shell) x encoding/ordering: histories of 3-5 update_var_params calls after build_circuit with vectors containing exact zeros, sign changes, repeats, values beyond 2pi; "
        "each update given as a list, an array, the ansatz' own var_params object after writing into it, or set_var_params(p) followed by update_var_params(p); compare with a freshly built object after every step; wrong-length vectors; all-zero parameters; non-trivial: >= 2 updates with different vectors; distinct by (ansatz, config, history hash)")
TRUSTED = ["cirq simulator", "PySCF"]
ASSUMPTIONS = ["state overlap tolerance 1e-8"]


def state(circ, width=None):
    from tangelo.linq import get_backend, Circuit
    if circ.size == 0:
        v = np.zeros(2 ** max(circ.width, width or 1), dtype=complex); v[0] = 1
        return v
    c = circ if width is None or circ.width >= width else Circuit(circ._gates, n_qubits=width)
    _, sv = get_backend("cirq").simulate(c, return_statevector=True)
    return np.array(sv)


def make(kind, molname, cfg):
    import mols
    from tangelo.toolboxes.ansatz_generator import UCCSD, UpCCGSD, UCCGD, RUCC, HEA, QMF, QCC, ILC, VSQS, ADAPTAnsatz, VariationalCircuitAnsatz as VariationalCircuit
    from tangelo.toolboxes.ansatz_generator.puccd import pUCCD
    mol = mols.molecule(molname)
    mp, utd = cfg.get("mapping", "jw"), cfg.get("utd", False)
    if kind == "UCCSD":
        return UCCSD(mol, mapping=mp, up_then_down=utd)
    if kind == "UpCCGSD":
        return UpCCGSD(mol, mapping=mp, up_then_down=utd, k=cfg.get("k", 2))
    if kind == "UCCGD":
        return UCCGD(mol, mapping=mp, up_then_down=utd)
    if kind in ("UCC1", "UCC3"):
        return RUCC(int(kind[-1]))
    if kind == "HEA":
        return HEA(molecule=mol, mapping=mp, up_then_down=utd, n_layers=cfg.get("layers", 2), rot_type=cfg.get("rot", "euler"))
    if kind == "QMF":
        return QMF(mol, mapping=mp, up_then_down=utd)
    if kind == "QCC":
        return QCC(mol, mapping=mp, up_then_down=utd)
    if kind == "ILC":
        return ILC(mol, mapping=mp, up_then_down=utd)
    if kind == "VSQSnav":
        # qubit-Hamiltonian mode with a navigator Hamiltonian
        from functools import reduce
        from tangelo.toolboxes.operators import QubitOperator
        from tangelo.linq import Circuit, Gate
        qop = lambda ts: reduce(lambda a, b: a + b, [QubitOperator(w, c) for w, c in ts])
        return VSQS(qubit_hamiltonian=qop([("X0 X1", 0.35), ("Z0 Z1", -0.6), ("Y0 Y1", 0.2), ("Z2", 0.3)]),
                    h_init=qop([("Z0", 0.7), ("Z1", -0.4), ("Z2", 0.55)]), h_nav=qop([("X1 X2", 0.45), ("Y1 Y2", -0.25), ("X0", 0.15)]),
                    reference_state=Circuit([Gate("X", 0)], n_qubits=3), intervals=cfg.get("intervals", 3), time=cfg.get("time", 1.0),
                    trotter_order=cfg.get("order", 1))
    if kind == "VSQS":
        return VSQS(mol, mapping=mp, up_then_down=utd, intervals=cfg.get("intervals", 3), trotter_order=cfg.get("order", 1))
    if kind == "pUCCD":
        return pUCCD(mol)
    if kind == "VariationalCircuit":
        from tangelo.linq import Circuit, Gate
        c = Circuit([Gate("RY", 0, parameter=0.1, is_variational=True), Gate("CNOT", 1, control=0), Gate("RZ", 1, parameter=0.2, is_variational=True),
                     Gate("RX", 0, parameter=0.3, is_variational=True), Gate("H", 1)])
        return VariationalCircuit(c)
    raise ValueError(kind)


def rand_vec(rng, n, style):
    if style == "zeros":
        return [0.0] * n
    v = [rng.uniform(-1.5, 1.5) for _ in range(n)]
    if style == "somezero":
        for i in range(n):
            if rng.random() < 0.4:
                v[i] = 0.0
    elif style == "big":
        v = [x + rng.choice([0, 2 * math.pi, -2 * math.pi, 7.0]) for x in v]
    elif style == "flip":
        v = [-x for x in v]
    return v


def history_case(ctx, rng, kind, molname, cfg):
    case = {"ansatz": kind, "molecule": molname, "cfg": cfg}
    try:
        ans = make(kind, molname, cfg)
    except Exception as e:
        ctx.notes.append(f"{kind}/{molname}/{cfg}: not constructible ({type(e).__name__}: {str(e)[:60]})")
        return True
    n = ans.n_var_params
    styles = [rng.choice(["rand", "somezero", "big", "rand"])] + [rng.choice(["rand", "somezero", "big", "flip", "repeat", "zeros"]) for _ in range(rng.randint(2, 4))]
    hist = []
    for st in styles:
        hist.append(list(hist[-1]) if st == "repeat" and hist else rand_vec(rng, n, st))
    case["history"] = hist
    hows = ["build"] + [rng.choice(["list", "list", "array", "own", "set-then-update", "set-other-then-update"]) for _ in hist[1:]]
    case["hows"] = hows
    ctx.count(f"hist:{kind}")
    ctx.case({k: v for k, v in case.items() if k != "history"} | {"styles": styles}, nontrivial=len(hist) >= 3, sample=False)
    width = None
    for step, theta in enumerate(hist):
        try:
            if step == 0:
                ans.build_circuit(theta)
            else:
                how = hows[step]
                if how == "own":
                    # the caller hands back the ansatz' own parameter vector after writing the new values into it
                    own = ans.var_params
                    if isinstance(own, np.ndarray) and own.shape == (n,) and own.flags.writeable and own.dtype.kind == "f":
                        own[:] = theta
                        ans.update_var_params(own)
                        ctx.count("update:own-array")
                    elif isinstance(own, list) and len(own) == n:
                        own[:] = theta
                        ans.update_var_params(own)
                        ctx.count("update:own-list")
                    else:
                        ans.update_var_params(theta)
                elif how == "set-then-update" and hasattr(ans, "set_var_params"):
                    ans.set_var_params(list(theta))
                    ans.update_var_params(list(theta))
                    ctx.count("update:set-then-update")
                elif how == "set-other-then-update" and hasattr(ans, "set_var_params"):
                    ans.set_var_params(rand_vec(rng, n, "rand"))
                    ans.update_var_params(list(theta))
                    ctx.count("update:set-other-then-update")
                elif how == "array":
                    ans.update_var_params(np.array(theta))
                else:
                    ans.update_var_params(theta)
        except Exception as e:
            kid = known_id(kind, "raise", type(e).__name__, hist[:step + 1])
            ctx.violation(f"{kind} on {molname} {cfg}: step {step} ({'build' if step == 0 else 'update'}) raised {type(e).__name__}: {str(e)[:80]}",
                          {**case, "history": hist[:step + 1]}, known_id=kid)
            return kid is not None
        # the object model (Obj.run; run_circ_eq_build): label of the vector the circuit must hold after the calls so far
        calls = []
        for i in range(1, step + 1):
            calls += ([["set", i], ["update", i]] if hows[i] == "set-then-update" else
                      [["set", len(hist) + i], ["update", i]] if hows[i] == "set-other-then-update" else [["update", i]])
        mj = ctx.model.ask({"op": "ansatz_calls", "calls": calls})
        if "circ" in mj and mj["circ"] != step:
            ctx.mismatch(f"object model: after {calls} the circuit holds vector {mj['circ']}, the harness expects {step}", {**case, "history": hist[:step + 1]})
            return False
        try:
            fresh = make(kind, molname, cfg)
            fresh.build_circuit(theta)
        except Exception as e:
            kid = known_id(kind, "fresh", type(e).__name__, [theta])
            ctx.violation(f"{kind} on {molname} {cfg}: a fresh build with the parameters of step {step} raised {type(e).__name__}: {str(e)[:80]}",
                          {**case, "history": hist[:step + 1]}, known_id=kid)
            return kid is not None
        width = max(ans.circuit.width, fresh.circuit.width)
        a, b = state(ans.circuit, width), state(fresh.circuit, width)
        ov = abs(np.vdot(a, b))
        if abs(ov - 1) > 1e-8:
            kid = known_id(kind, "overlap", "", hist[:step + 1])
            ctx.violation(f"{kind} on {molname} {cfg}: after step {step} the updated circuit and a freshly built one prepare different states (overlap {ov:.6f})",
                          {**case, "history": hist[:step + 1]}, known_id=kid)
            return kid is not None
    return True


def known_id(kind, what, exc, hist):
    """identify the listed known findings by their exact trigger"""
    if kind in ("VSQS_never",) and any(any(x == 0.0 for x in th) for th in hist):
        return "C07-vsqs-exact-zero-parameter"
    return None


def length_case(ctx, kind, molname, cfg):
    """vectors of the wrong length are rejected, the advertised length is accepted"""
    case = {"ansatz": kind, "molecule": molname, "cfg": cfg, "check": "length"}
    try:
        ans = make(kind, molname, cfg)
    except Exception:
        return True
    n = ans.n_var_params
    ans.build_circuit([0.1] * n)
    ctx.count("length")
    for wrong in (n + 1, max(n - 1, 0)):
        if wrong == n:
            continue
        for method in ("build_circuit", "update_var_params"):
            a2 = make(kind, molname, cfg)
            a2.build_circuit([0.1] * n)
            try:
                getattr(a2, method)([0.2] * wrong)
                accepted = True
            except (ValueError, AssertionError, IndexError, TypeError, KeyError):
                accepted = False
            if accepted:
                kid = "C07-overlong-vector-accepted" if (kind in ("VSQS", "ADAPT") and method == "update_var_params") else None
                ctx.violation(f"{kind}.{method} accepted a vector of length {wrong}, the ansatz advertises {n} parameters", case, known_id=kid)
                if kid is None:
                    return False
    return True


def zero_case(ctx, kind, molname, cfg):
    """excitation-based ansaetze with all-zero parameters prepare exactly the reference state"""
    case = {"ansatz": kind, "molecule": molname, "cfg": cfg, "check": "zeros"}
    try:
        ans = make(kind, molname, cfg)
        ans.build_circuit([0.0] * ans.n_var_params)
        ref = ans.prepare_reference_state()
    except Exception as e:
        ctx.violation(f"{kind} on {molname} {cfg} with all-zero parameters raised {type(e).__name__}: {str(e)[:80]}", case)
        return False
    w = max(ans.circuit.width, ref.width)
    ctx.count("zeros")
    if abs(abs(np.vdot(state(ans.circuit, w), state(ref, w))) - 1) > 1e-9:
        ctx.violation(f"{kind} on {molname} {cfg} with all-zero parameters does not prepare the reference state", case)
        return False
    return True


CONFIGS = [
    ("UCCSD", "H2", {"mapping": "jw"}), ("UCCSD", "H2", {"mapping": "bk", "utd": True}), ("UCCSD", "H4", {"mapping": "jw"}), ("UCCSD", "H4", {"mapping": "scbk", "utd": True}),
    ("UCCSD", "H4", {"mapping": "jkmn"}), ("UCCSD", "H4+", {"mapping": "jw"}), ("UCCSD", "H4t", {"mapping": "jw", "utd": True}),
    ("UpCCGSD", "H2", {"k": 1}), ("UpCCGSD", "H2", {"k": 3}), ("UpCCGSD", "H4", {"k": 2}), ("UpCCGSD", "H4", {"k": 3, "mapping": "bk"}), ("UpCCGSD", "H4", {"k": 4, "utd": True}),
    ("UCCGD", "H2", {}), ("UCCGD", "H4", {"mapping": "bk"}), ("UCC1", "H2", {}), ("UCC3", "H2", {}),
    ("HEA", "H2", {"layers": 2, "rot": "euler"}), ("HEA", "H4", {"layers": 1, "rot": "real"}), ("QMF", "H2", {}), ("QMF", "H4", {"mapping": "bk"}),
    ("QCC", "H2", {}), ("QCC", "H4", {}), ("ILC", "H4", {}), ("VSQS", "H2", {"intervals": 3}), ("VSQS", "H2", {"intervals": 2, "order": 2}),
    ("VSQSnav", "H2", {"intervals": 3}), ("VSQSnav", "H2", {"intervals": 4, "order": 2}), ("VSQSnav", "H2", {"intervals": 2}),
    ("pUCCD", "H2", {}), ("pUCCD", "H4", {}), ("VariationalCircuit", "H2", {}),
]
EXCITATION = {"UCCSD", "UpCCGSD", "UCCGD", "pUCCD"}


def run(ctx):
    rng = ctx.rng
    reps = ctx.n(1, 6)
    for kind, molname, cfg in CONFIGS:
        for _ in range(reps):
            try:
                if not history_case(ctx, rng, kind, molname, cfg) and sum(1 for v in ctx.violations if not v["known_id"]) >= 4:
                    return
            except Exception as e:
                ctx.notes.append(f"{kind}/{molname}: harness error {type(e).__name__}: {str(e)[:80]}")
    for kind, molname, cfg in CONFIGS:
        if molname in ("H2",) or not ctx.quick:
            if not length_case(ctx, kind, molname, cfg):
                pass
        if kind in EXCITATION and (molname == "H2" or not ctx.quick or cfg.get("utd")):
            zero_case(ctx, kind, molname, cfg)


def replay(ctx, obj):
    pass


def search(ctx, broken):
    pass
