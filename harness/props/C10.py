"""C10 — mid-circuit measurement and classical control follow the Born rule."""
import itertools, math, random
import numpy as np
import vlib
from vlib import to_tangelo_gate, dump_tangelo_gate, dump_model_gate, gates_equal, cyc_to_complex
from fractions import Fraction

CLAIM = {
 "text": "Proof (Lean 4), partial: the specification semantics of a run conditioned on an outcome string (project on each measurement, run the gate list the outcome selects, nested) is the model runBranch; proved: the two projections of a measurement are complementary and their probabilities add up to the probability before the measurement (every register size), hence by induction over the number of measurements the branch probabilities of all outcome strings sum to the initial norm whenever the segments between measurements preserve the norm - which is proved for every gate list of the gate set inside the register (isometry theorem of C01), giving the end-to-end statement for every program that interleaves gate lists, MEASURE and CMEASURE with alternatives nested to any depth (inductive family GateProgram); the probability-weighted branch distributions add up to the dephased (unconditioned) distribution of one measurement; splitting a joint frequency dictionary conserves the total. The tie to the code is a correspondence check on all outcome strings of random circuits with MEASURE / CMEASURE gates (dictionary and function control, nested), comparing branch statevector, probability, final frequencies, applied gates, and mid-circuit/final splits with the model's exact values; finite shots are checked for support and totals only.",
 "note": "Trusted: Lean kernel + standard axioms; cirq simulators; numpy; the sampler (only deterministic facts checked). Norm preservation of each unitary gate is proved separately (C01 isometry lemmas) and enters as a hypothesis of the summation theorem. ClassicalControl classes with internal state are exercised only through a stateless mapping.",
 "technique": "Lean 4 theorems on projection/branch algebra + branch-by-branch exact correspondence against the cirq backend"}

RULE = ("random circuits (width 1-4) with 1-3 MEASURE gates anywhere (adjacent, first, last) or CMEASURE gates with dictionary control (nested depth <= 2) or a shared function control; "
        "all outcome strings; optional rational initial statevector; non-trivial if >= 2 branches have non-zero probability; distinct by hash of the program")
TRUSTED = ["cirq state-vector simulator"]
ASSUMPTIONS = ["tolerance 1e-8"]

UNITARY = ["H", "X", "Y", "S", "T", "RX", "RY", "RZ", "PHASE", "CNOT", "CZ", "CRY", "CPHASE", "SWAP", "XX"]


def rand_unitaries(rng, n, k):
    return vlib.rand_gate_list(rng, n, k, [g for g in UNITARY if n >= 2 or g in vlib.ONE_Q + vlib.ONE_Q_P], max_controls=2, ang_profile="generic", corr=0.0)


def rand_prog(rng, n, depth=0, max_meas=3):
    """list of model gate dicts (MEASURE / CMEASURE with on0,on1 / unitary)"""
    prog = []
    n_meas = rng.randint(1, max_meas) if depth == 0 else rng.randint(0, 1)
    slots = sorted(rng.sample(range(6), min(n_meas, 6)))
    pos = 0
    for s in range(6):
        if s in slots:
            q = rng.randrange(n)
            if rng.random() < (0.5 if depth == 0 else 0.3) and depth < 2:
                on0 = rand_prog(rng, n, depth + 1) if rng.random() < 0.7 else []
                on1 = rand_prog(rng, n, depth + 1) if rng.random() < 0.7 else []
                prog.append({"n": "CMEASURE", "t": [q], "on0": on0, "on1": on1})
            else:
                prog.append({"n": "MEASURE", "t": [q], "c": None, "p": None, "v": False})
        elif rng.random() < 0.55:
            prog += rand_unitaries(rng, n, rng.randint(1, 2))
    return prog


def has_cmeasure(prog):
    return any(g["n"] == "CMEASURE" for g in prog)


def to_tangelo_prog(prog):
    from tangelo.linq import Gate
    out = []
    for g in prog:
        if g["n"] == "MEASURE":
            out.append(Gate("MEASURE", g["t"][0]))
        elif g["n"] == "CMEASURE":
            out.append(Gate("CMEASURE", g["t"][0], parameter={"0": to_tangelo_prog(g["on0"]), "1": to_tangelo_prog(g["on1"])}))
        else:
            out.append(to_tangelo_gate(g))
    return out


def dump_applied_py(gs):
    out = []
    for g in gs:
        if g.name in ("MEASURE", "CMEASURE"):
            out.append({"n": g.name, "t": list(g.target), "p": g.parameter})
        else:
            out.append(dump_tangelo_gate(g))
    return out


def dump_applied_model(js):
    return [g if g["n"] in ("MEASURE", "CMEASURE") else dump_model_gate(g) for g in js]


def applied_equal(a, b):
    if len(a) != len(b):
        return False
    for x, y in zip(a, b):
        if x["n"] in ("MEASURE", "CMEASURE") or y["n"] in ("MEASURE", "CMEASURE"):
            if (x["n"], x["t"], x["p"]) != (y["n"], y["t"], y["p"]):
                return False
        elif not gates_equal([x], [y]):
            return False
    return True


def outcome_strings(ctx, prog, n, init_model, maxlen=6):
    """all outcome strings that are complete for the program (ask the model: too short -> unsupported, too long -> leftover)"""
    out = []
    frontier = [""]
    complete = True
    while frontier:
        nxt = []
        for s in frontier:
            j = ctx.model.ask({"op": "branch", "prog": prog, "n": n, "order": "lsq_first", "desired": s, "init": init_model, "terms": None})
            if j.get("r") == "ERR:unsupported":
                if len(s) < maxlen:
                    nxt += [s + "0", s + "1"]
                else:
                    complete = False      # a branch with more than maxlen measurements: the enumeration is cut off
            elif "prob" in j and j["leftover"] == 0:
                out.append((s, j))
        frontier = nxt
    return out, complete


def one_case(ctx, prog, n, init, style="dict"):
    from tangelo.linq import Circuit, Gate, get_backend
    from tangelo.linq.circuit import generate_applied_gates
    case = {"prog": prog, "n": n, "init": None if init is None else [[str(a), str(b)] for a, b in init], "style": style}
    norm, init_np, init_model = 1.0, None, None
    if init is not None:
        vec = np.array([complex(float(a), float(b)) for a, b in init])
        norm = float(np.linalg.norm(vec))
        init_np = vec / norm
        init_model = [vlib.cyc_of_complex_rational(a, b) for a, b in init]
    branches, complete = outcome_strings(ctx, prog, n, init_model)
    if not complete:
        ctx.count("enumeration-cut-off")
    if not branches:
        return True
    cmeas = has_cmeasure(prog)
    sim = get_backend("cirq")
    circ = Circuit(to_tangelo_prog(prog), n_qubits=n)
    total_p, mix = 0.0, {}
    nonzero = 0
    for s, j in branches:
        p_model = cyc_to_complex(j["prob"]).real / norm ** 2
        try:
            freqs, sv = sim.simulate(circ, desired_meas_result=s, return_statevector=True, initial_statevector=init_np,
                                     save_mid_circuit_meas=True)
            err = None
        except ValueError as e:
            freqs, sv, err = None, None, "ERR:value"
        ctx.count("branch")
        if p_model < 1e-20:
            if err is None and circ.success_probabilities.get(s, 0) > 1e-10:
                ctx.violation(f"outcome {s!r} has probability 0 but the simulation reported {circ.success_probabilities.get(s)}", case)
                return False
            continue
        nonzero += 1
        if err is not None:
            ctx.violation(f"outcome {s!r} (probability {p_model:.4g}) was refused: {err}", case)
            return False
        p_code = circ.success_probabilities.get(s)
        msv = np.array([cyc_to_complex(z) for z in j["sv"]]) / norm / math.sqrt(p_model)
        mfr = {k: cyc_to_complex(p).real / norm ** 2 / p_model for k, p in j["probs"]}
        mfr = {k: v for k, v in mfr.items() if v >= 1e-10}
        bad = None
        if p_code is None or abs(p_code - p_model) > 1e-8:
            bad = f"recorded probability of outcome {s!r} is {p_code}, Born rule gives {p_model:.10g}"
        elif not np.allclose(np.array(sv).ravel(), msv, atol=1e-8):
            bad = f"post-measurement state of outcome {s!r} is not the normalised projection"
        elif set(freqs) != set(mfr) or any(abs(freqs[k] - mfr[k]) > 1e-8 for k in mfr):
            if not all(abs(freqs.get(k, 0) - mfr.get(k, 0)) < 1e-8 for k in set(freqs) | set(mfr)):
                bad = f"final distribution of outcome {s!r}: {freqs} vs {mfr}"
        if bad is None and cmeas:
            ap = dump_applied_py(circ.applied_gates)
            am = dump_applied_model(j["applied"])
            if not applied_equal(ap, am):
                bad = f"applied gates for outcome {s!r} are not the gates selected by the outcomes"
            else:
                ga = generate_applied_gates(circ, desired_meas_result=s)
                if ga is not None and not applied_equal(dump_applied_py(ga), am):
                    bad = f"generate_applied_gates({s!r}) differs from the gates selected by the outcomes"
        if bad is None:
            # mid-circuit / final split
            mid = getattr(sim, "mid_circuit_meas_freqs", None)
            # (exact mode with CMEASURE reports the mid-circuit part as '' - the property only asks for conservation)
            if mid is not None and (not set(mid) <= {s, ""} or abs(sum(mid.values()) - 1) > 1e-8):
                bad = f"mid_circuit_meas_freqs {mid} for desired outcome {s!r}"
            allf = getattr(sim, "all_frequencies", {})
            if any(not k.startswith(s) or len(k) != len(s) + n for k in allf) or abs(sum(allf.values()) - 1) > 1e-8:
                bad = f"all_frequencies keys/total wrong for outcome {s!r}: {allf}"
        if bad:
            # the model is the Born rule itself; confirm with an independent numpy run before calling it a violation
            if numpy_branch_agrees(prog, n, init_np, s, p_model, msv):
                ctx.violation(bad, case)
            else:
                ctx.mismatch("model and numpy reference disagree: " + bad, case)
            return False
        total_p += p_code
        for k, v in freqs.items():
            mix[k] = mix.get(k, 0) + p_code * v
    ctx.case(case, nontrivial=nonzero >= 2, sample=len(prog) <= 6)
    if not complete:
        # only a part of the outcome strings was enumerated: each branch was checked, the totals cannot be
        if total_p > 1 + 1e-8:
            ctx.violation(f"branch probabilities of a partial enumeration sum to {total_p} > 1", case)
            return False
        return True
    if abs(total_p - 1) > 1e-8:
        ctx.violation(f"branch probabilities sum to {total_p}, not 1", case)
        return False
    if not cmeas and init is None and circ.width <= 3:
        # unconditioned (sampled) simulation draws from the mixture
        np.random.seed(ctx.rng.randint(0, 2 ** 31))
        fs, _ = get_backend("cirq", n_shots=50).simulate(circ)
        if abs(sum(fs.values()) - 1) > 1e-9 or not set(fs) <= {k for k, v in mix.items() if v > 1e-12}:
            ctx.violation(f"sampled outcomes {fs} outside the support of the mixture {mix}", case)
            return False
        ctx.count("sampled")
    return True


def numpy_branch_agrees(prog, n, init_np, s, p_model, msv):
    """independent reference for the model: dense numpy projection"""
    try:
        psi = np.zeros(2 ** n, dtype=complex); psi[0] = 1
        if init_np is not None:
            psi = lsq_to_model(init_np, n)
        bits = list(s)
        queue = list(prog)
        while queue:
            g = queue.pop(0)
            if g["n"] in ("MEASURE", "CMEASURE"):
                b = int(bits.pop(0)); q = g["t"][0]
                mask = np.array([((x >> q) & 1) == b for x in range(2 ** n)])
                psi = psi * mask
                if g["n"] == "CMEASURE":
                    queue = list(g["on1"] if b else g["on0"]) + queue
            else:
                psi = vlib.np_gate_unitary(g, n) @ psi
        p = float(np.vdot(psi, psi).real)
        return abs(p - p_model) < 1e-8 and np.allclose(lsq_to_model(psi / math.sqrt(p), n), msv, atol=1e-8)
    except Exception:
        return False


def lsq_to_model(v, n):
    out = np.zeros(2 ** n, dtype=complex)
    for idx in range(2 ** n):
        m = sum(((idx >> (n - 1 - q)) & 1) << q for q in range(n))
        out[m] = v[idx]
    return out


def function_control_case(ctx, rng, n):
    """shared function control (repeat-until-success style): every CMEASURE with a string flag calls the same function"""
    from tangelo.linq import Circuit, Gate, get_backend
    from tangelo.linq.circuit import generate_applied_gates
    q = rng.randrange(n)
    retry = rand_unitaries(rng, n, rng.randint(1, 2))
    done = rand_unitaries(rng, n, rng.randint(0, 1))
    head = rand_unitaries(rng, n, rng.randint(1, 2))
    tail = rand_unitaries(rng, n, rng.randint(0, 2))
    depth = 3

    # two ways of writing the same protocol: a plain function, or a ClassicalControl object that keeps the number of the
    # round between calls of return_gates (round r repeats the retry block r times) and resets it in finalize(): the
    # SAME circuit object is simulated for several outcome strings one after the other
    style = rng.choice(["function", "class"])

    def model_cm(d, r=1):
        reps = r if style == "class" else 1
        if d == 0:
            return {"n": "CMEASURE", "t": [q], "on0": [], "on1": []}
        return {"n": "CMEASURE", "t": [q], "on0": retry * reps + [model_cm(d - 1, r + 1)], "on1": done}
    prog = head + [model_cm(depth)] + tail

    def cfunc(measurement):
        if measurement == "0":
            return [to_tangelo_gate(g) for g in retry] + [Gate("CMEASURE", q)]
        return [to_tangelo_gate(g) for g in done]

    from tangelo.linq.circuit import ClassicalControl

    class RoundControl(ClassicalControl):
        def __init__(self):
            self.round = 0

        def return_gates(self, measurement):
            if measurement == "0":
                self.round += 1
                return [to_tangelo_gate(g) for g in retry] * self.round + [Gate("CMEASURE", q)]
            return [to_tangelo_gate(g) for g in done]

        def finalize(self):
            self.round = 0
    control = cfunc if style == "function" else RoundControl()
    circ = Circuit([to_tangelo_gate(g) for g in head] + [Gate("CMEASURE", q)] + [to_tangelo_gate(g) for g in tail], n_qubits=n, cmeasure_control=control)
    sim = get_backend("cirq")
    case = {"prog": prog, "n": n, "style": style}
    ctx.count("function_control:" + style)
    for s in ["1", "01", "001"]:
        j = ctx.model.ask({"op": "branch", "prog": prog, "n": n, "order": "lsq_first", "desired": s, "init": None, "terms": None})
        if "prob" not in j or j["leftover"] != 0:
            continue
        p_model = cyc_to_complex(j["prob"]).real
        if p_model < 1e-12:
            continue
        freqs, sv = sim.simulate(circ, desired_meas_result=s, return_statevector=True, save_mid_circuit_meas=True)
        ctx.count("function_branch")
        msv = np.array([cyc_to_complex(z) for z in j["sv"]]) / math.sqrt(p_model)
        if abs(circ.success_probabilities.get(s, -1) - p_model) > 1e-8 or not np.allclose(np.array(sv).ravel(), msv, atol=1e-8):
            ctx.violation(f"function-controlled CMEASURE, outcome {s!r}: probability/state differ from the Born rule", case)
            return False
        if not applied_equal(dump_applied_py(circ.applied_gates), dump_applied_model(j["applied"])):
            ctx.violation(f"function-controlled CMEASURE, outcome {s!r}: applied gates differ from the selected gates", case)
            return False
        ga = generate_applied_gates(circ, desired_meas_result=s)
        if not applied_equal(dump_applied_py(ga), dump_applied_model(j["applied"])):
            ctx.violation(f"generate_applied_gates, outcome {s!r}: differs from the selected gates", case)
            return False
    ctx.case(case, nontrivial=True, sample=False)
    return True


def wide_sampled_case(ctx, rng):
    """sampled simulation with saved mid-circuit outcomes on a register with MANY classical bits (number of MEASURE gates
    + width between 7 and 14: the shot loop addresses measurement keys by number): X / CNOT programs whose outcomes
    are a deterministic function of at most two coin flips, so every sampled key can be checked exactly"""
    from tangelo.linq import get_backend
    n = rng.randint(3, 8)
    m = rng.randint(max(1, 7 - n), max(2, 14 - n))
    coins = rng.choice([0, 0, 1, 2]) if n >= 3 else 0
    coins = min(coins, m, n - 1)
    ins, evaluate = vlib.classical_meas_prog(rng, n, m, coins)
    circ = vlib.classical_prog_to_circuit(ins, n)
    n_meas = sum(1 for g in ins if g[0] == "MEASURE")
    shots = rng.randint(3, 25)
    case = {"kind": "wide_sampled", "n": n, "ins": [list(g) for g in ins], "n_shots": shots}
    ctx.case(case, nontrivial=True, sample=len(ins) <= 8)
    ctx.count(f"wide_sampled:bits={'<=10' if n + n_meas <= 10 else '>10'}")
    allowed = {}
    import itertools
    for cb in itertools.product([0, 1], repeat=coins):
        mid, fin = evaluate(list(cb))
        allowed[mid] = fin
    np.random.seed(rng.randint(0, 2 ** 31))
    sim = get_backend("cirq", n_shots=shots)
    freqs, _ = sim.simulate(circ, save_mid_circuit_meas=True)
    mid_f = dict(sim.mid_circuit_meas_freqs)
    all_f = dict(sim.all_frequencies)
    bad = None
    if abs(sum(freqs.values()) - 1) > 1e-9 or abs(sum(mid_f.values()) - 1) > 1e-9 or abs(sum(all_f.values()) - 1) > 1e-9:
        bad = f"frequencies do not sum to one: final {freqs}, mid {mid_f}, all {all_f}"
    elif not set(mid_f) <= set(allowed):
        bad = f"mid-circuit outcomes {sorted(mid_f)} are not among the possible ones {sorted(allowed)}"
    elif not set(freqs) <= set(allowed.values()):
        bad = f"final outcomes {sorted(freqs)} are not among the possible ones {sorted(set(allowed.values()))}"
    elif any(k[:n_meas] not in allowed or allowed[k[:n_meas]] != k[n_meas:] for k in all_f):
        bad = f"joint outcomes {sorted(all_f)} do not pair each mid-circuit string with its final state {allowed}"
    if bad:
        ctx.violation(f"sampled run with save_mid_circuit_meas ({n} qubits, {n_meas} MEASUREs, {shots} shots): " + bad, case)
        return False
    # sampling conditioned on one of the possible outcome strings returns that branch
    mid = rng.choice(sorted(allowed))
    np.random.seed(rng.randint(0, 2 ** 31))
    f2, _ = get_backend("cirq", n_shots=200).simulate(circ, desired_meas_result=mid)
    if set(f2) != {allowed[mid]}:
        ctx.violation(f"sampling conditioned on {mid!r} ({n} qubits, {n_meas} MEASUREs) returns {f2}, the branch is the basis state {allowed[mid]!r}", case)
        return False
    return True


def near_certain_case(ctx, rng):
    """outcomes that are almost - not exactly - certain or impossible (float rotation angles a few 1e-3 away from a
    multiple of 2 pi): the branch must still be projected and renormalised, its probability recorded as it is;
    reference: the independent numpy state-vector runner (the exact model only holds angles from its own lattice)"""
    from tangelo.linq import Circuit, Gate, get_backend
    n = rng.randint(1, 3)
    q = rng.randrange(n)
    theta = rng.choice([0, 2 * math.pi, -2 * math.pi, 4 * math.pi]) + rng.choice([-1, 1]) * rng.choice([2e-3, 4e-3, 6e-3, 9e-3, 3e-2])
    gl = [Gate("RY", q, parameter=theta)]
    if n > 1:
        gl += [Gate("CNOT", (q + 1) % n, control=q)] if rng.random() < 0.5 else [Gate("H", (q + 1) % n)]
    style = rng.choice(["MEASURE", "CMEASURE"])
    if style == "MEASURE":
        gl.append(Gate("MEASURE", q))
        circ = Circuit(gl + [Gate("H", q)], n_qubits=n)
    else:
        circ = Circuit(gl + [Gate("CMEASURE", q, parameter={"0": [], "1": [Gate("X", q)]})], n_qubits=n)
    case = {"kind": "near_certain", "n": n, "q": q, "theta": theta, "style": style}
    ctx.case(case, nontrivial=True, sample=False)
    ctx.count("near_certain:" + style)
    sim = get_backend("cirq")
    total = 0.0
    for want in ("0", "1"):
        # reference: project by hand
        ref_gates = [g for g in gl if g.name not in ("MEASURE", "CMEASURE")]
        psi, _ = vlib.np_run_state(ref_gates, n)
        idx = np.arange(2 ** n)
        keep = ((idx >> q) & 1) == int(want)
        p_ref = float(np.sum(np.abs(psi[keep]) ** 2))
        phi = np.where(keep, psi, 0) / math.sqrt(p_ref)
        tail = [Gate("H", q)] if style == "MEASURE" else ([Gate("X", q)] if want == "1" else [])
        phi, _ = vlib.np_run_state(tail, n, psi0=phi)
        freqs, sv = sim.simulate(circ, desired_meas_result=want, return_statevector=True)
        p_code = circ.success_probabilities.get(want)
        got = lsq_to_model(np.array(sv).astype(complex).ravel(), n)
        total += p_code or 0
        if p_code is None or abs(p_code - p_ref) > 1e-10:
            ctx.violation(f"outcome {want!r} of a measurement after RY({theta}) has probability {p_ref!r}, recorded {p_code!r}", case)
            return False
        if not np.allclose(got, phi, atol=1e-9):
            ctx.violation(f"post-measurement state of the almost certain / almost impossible outcome {want!r} (probability {p_ref:.3g}) is not the "
                          f"normalised projection (max deviation {np.abs(got - phi).max():.3g})", case)
            return False
    if abs(total - 1) > 1e-10:
        ctx.violation(f"branch probabilities of one measurement sum to {total!r}", case)
        return False
    return True


def run(ctx):
    rng = ctx.rng
    for i in range(ctx.n(20, 300)):
        if not near_certain_case(ctx, rng):
            return
    for i in range(ctx.n(25, 400)):
        if not wide_sampled_case(ctx, rng):
            return
    for i in range(ctx.n(110, 3000)):
        n = rng.randint(1, ctx.n(3, 4))
        prog = rand_prog(rng, n)
        init = None
        if rng.random() < 0.3:
            from props.C01 import rand_init
            init = rand_init(rng, n)
        if not one_case(ctx, prog, n, init) and len(ctx.violations) + len(ctx.mismatches) >= 3:
            return
    for i in range(ctx.n(15, 300)):
        if not function_control_case(ctx, rng, rng.randint(1, 3)):
            return


def replay(ctx, obj):
    case = obj.get("case") or (obj.get("first_mismatch") or {}).get("case")
    if case and case.get("style") != "function":
        init = None if not case.get("init") else [(Fraction(a), Fraction(b)) for a, b in case["init"]]
        one_case(ctx, case["prog"], case["n"], init)


def search(ctx, broken):
    pass
