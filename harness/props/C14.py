"""C14 — qubit-reduction techniques keep the eigenvalue they are meant to keep."""
import itertools, json, math, random, warnings
import numpy as np
from fractions import Fraction
import vlib, fock

CLAIM = {
 "text": "Proof (Lean 4), partial. Trimming: the classification table of trim_trivial_circuit (idle / one / two single-qubit gates) and the term rule of trim_trivial_operator are modelled exactly; proved for every register size, every state and every Pauli word: a qubit classified b is left in |b> by its gates (X, RX at an odd multiple of pi, Z, RZ on |0>), a word with X or Y on a qubit held in a basis state has pointwise zero overlap, a word with Z or I on such a qubit acts as (-1)^b or 1 times the word without that letter, the string surgery for one trimmed qubit is the deletion of that position, and - end to end for the reindex=False form of trim_trivial_operator - for a state whose trimmed qubits (distinct) are in the recorded basis states, every term either vanishes together with its expectation value or becomes sign * term' with <psi|term|psi> = sign * <psi|term'|psi>, for every register size (induction over the trimmed qubits). The re-indexing of the remaining qubits (deleting positions from circuit and operator alike) is tied by the correspondence and the expectation-value oracle only. Truncation: the loop is modelled exactly over an ordered field; proved: the kept terms are a suffix of the sorted list and the squared coefficients of the discarded prefix sum to at most eps^2 / 2^n (so the discarded operator has Frobenius norm at most eps). Tapering: proved in any ring: for anticommuting involutions sigma, tau the operator U = (sigma + tau)/sqrt2 is an involution exchanging them, conjugation by U is a ring automorphism (products of such U too), an operator commuting with tau is rotated into one commuting with sigma, and eigenvectors of the rotated operator map to eigenvectors of the original with the same eigenvalue. NOT proved in Lean: Weyl's inequality and Frobenius >= operator norm (linear algebra over C), the GF(2) kernel / choice of single-qubit Paulis of the tapering code, sector retention; those are decided numerically: dense spectra of tapered vs. original operators and (N, S_z)-sector ground energies for molecules with random geometries and random symmetric Hamiltonians under JW/BK/JKMN and both orderings; expectation values before / after trimming on random circuits with idle, flipped, phase-only and two-gate qubits; sorted-spectrum shift <= eps for random and adversarial (coherent equal-coefficient stabiliser-group) operators on odd and even registers.",
 "note": "Trusted: Lean kernel + standard axioms; numpy eigensolvers; PySCF integrals; float comparisons of the code (odd-multiple-of-pi test with atol 1e-5, sqrt comparison) are abstracted as exact decisions and unstable cases discarded.",
 "technique": "Lean 4 theorems (trimming soundness on the register semantics, truncation budget invariant, Clifford-rotation algebra) + model/code correspondence for trimming and truncation + dense-spectrum oracle for tapering, trimming and truncation"}

RULE = ("tapering: molecules H2, H3+, H4, H4+, H4 triplet, LiH(frozen) at random geometries and random N,Sz-conserving Hamiltonians (2-3 orbitals) x JW/BK/JKMN x both orderings; "
        "trimming: random circuits (width<=5) whose qubits are idle / X / RX(odd pi, generic, 2pi) / Z / RZ / two-gate combinations / entangled, random operators; "
        "truncation: random operators on 1-5 qubits, eps in 1e-4..0.5, adversarial equal-coefficient families; non-trivial: something is removed; distinct by input")
TRUSTED = ["numpy eigensolvers", "PySCF"]
ASSUMPTIONS = ["tolerance 1e-7 on eigenvalues / expectation values; truncation bound eps*(1+1e-9)+1e-9"]

TOL = 1e-7


# ------------------------------------------------------------------------------------------------ tapering
def sector_ground(H_f, n, n_e, spin):
    na = (n_e + spin) // 2
    nb = n_e - na
    M = fock.fermion_matrix(H_f, n)
    sel = [x for x in range(2 ** n) if fock.popcount(x & 0x55555555) == na and fock.popcount(x & 0xAAAAAAAA) == nb]
    Ms = M[np.ix_(sel, sel)]
    return float(np.linalg.eigvalsh((Ms + Ms.conj().T) / 2)[0])


def taper_case(ctx, label, H_f, n, n_e, spin, mapping, utd, case):
    from tangelo.toolboxes.qubit_mappings.mapping_transform import fermion_to_qubit_mapping
    from tangelo.toolboxes.operators.taper_qubits import QubitTapering
    from tangelo.toolboxes.operators import count_qubits
    q = fermion_to_qubit_mapping(H_f, mapping, n_spinorbitals=n, n_electrons=n_e, up_then_down=utd, spin=spin)
    q_before = dict(q.terms)
    try:
        tap = QubitTapering(q, n, n_e, spin, mapping, utd)
        if dict(q.terms) != q_before:
            ctx.violation(f"QubitTapering modified the operator it was given ({label}, {mapping})", case)
            return False
        if n <= 6:
            # a second tapering object built from the same operator in the same process (nothing of the first may stay behind)
            tap2 = QubitTapering(q, n, n_e, spin, mapping, utd)
            if dict(tap2.z2_tapered_op.qubitoperator.terms) != dict(tap.z2_tapered_op.qubitoperator.terms):
                ctx.violation(f"tapering the same operator twice gives two different operators ({label}, {mapping}, up_then_down={utd})", case)
                return False
            ctx.count("taper:second-call")
    except Exception as e:
        ctx.violation(f"QubitTapering raises {type(e).__name__}: {str(e)[:120]} on {label} ({mapping}, up_then_down={utd})", case)
        return False
    top = tap.z2_tapered_op.qubitoperator
    k = tap.z2_properties["n_symmetries"]
    nt = n - k
    ctx.case(case, nontrivial=k > 0, sample=n <= 4)
    ctx.count(f"taper:{mapping}:k={k}")
    if k < 1 or count_qubits(top) > nt:
        ctx.violation(f"tapering of {label} ({mapping}, up_then_down={utd}) does not reduce the register: {k} symmetries, operator on {count_qubits(top)} qubits", case)
        return False
    ev0 = np.linalg.eigvalsh(fock.qubit_matrix(q, n))
    Mt = fock.qubit_matrix(top, nt)
    if not np.allclose(Mt, Mt.conj().T, atol=1e-9):
        ctx.violation(f"tapered operator of {label} is not Hermitian", case)
        return False
    evt = np.linalg.eigvalsh(Mt)
    for lam in evt:
        if np.min(np.abs(ev0 - lam)) > 1e-6:
            ctx.violation(f"tapered operator of {label} ({mapping}, up_then_down={utd}) has eigenvalue {lam!r} which is not an eigenvalue of the original", case)
            return False
    e_sec = sector_ground(H_f, n, n_e, spin)
    if np.min(np.abs(evt - e_sec)) > 1e-6:
        ctx.violation(f"tapered operator of {label} ({mapping}, up_then_down={utd}, {n_e} electrons, spin {spin}) lost the lowest eigenvalue {e_sec!r} of the target sector (closest {evt[np.argmin(np.abs(evt - e_sec))]!r})", case,
                      known_id=case.get("known_id"))
        return False
    # tapering another operator with the same symmetries: the number operator becomes a constant-sector operator
    return True


def rand_h_geometry(rng, n_atoms):
    pts = []
    while len(pts) < n_atoms:
        p = [round(rng.uniform(-1.3, 1.3), 3) for _ in range(3)]
        if all(math.dist(p, q) > 0.6 for q in pts):
            pts.append(p)
    return [("H", tuple(p)) for p in pts]


def mol_taper_cases(ctx, rng, count):
    from tangelo import SecondQuantizedMolecule
    ok = True
    specs = [("H2", 2, 0, 0), ("H3+", 3, 1, 0), ("H4", 4, 0, 0), ("H4+", 4, 1, 1), ("H4t", 4, 0, 2), ("H3", 3, 0, 1), ("H2-sym", 2, 0, 0), ("H4-sym", 4, 0, 0),
             ("H4-sym", 4, 0, 2), ("H4-sym", 4, 1, 1), ("H3-lin", 3, -1, 0), ("H3-lin", 3, 1, 0), ("H3-lin", 3, 0, 1), ("H4-rect", 4, 0, 0), ("H4-rect", 4, 0, 2)]
    for _ in range(count):
        name, na, q, spin = rng.choice(specs)
        if name == "H2-sym":
            xyz = [("H", (0, 0, 0)), ("H", (0, 0, round(rng.uniform(0.5, 1.8), 3)))]
        elif name == "H4-sym":
            d = round(rng.uniform(0.7, 1.5), 3)
            xyz = [("H", (0, 0, i * d)) for i in range(4)]
        elif name == "H3-lin":
            d = round(rng.uniform(0.7, 1.5), 3)
            xyz = [("H", (0, 0, i * d)) for i in range(3)]
        elif name == "H4-rect":
            a, b = round(rng.uniform(0.7, 1.5), 3), round(rng.uniform(0.7, 1.5), 3)
            xyz = [("H", (0, 0, 0)), ("H", (0, 0, a)), ("H", (0, b, 0)), ("H", (0, b, a))]
        else:
            xyz = rand_h_geometry(rng, na)
        try:
            with warnings.catch_warnings():
                warnings.simplefilter("ignore")
                mol = SecondQuantizedMolecule(xyz, q=q, spin=spin, basis="sto-3g")
        except Exception:
            ctx.count("mol_build_failed")
            continue
        for mapping in ("JW", "BK", "JKMN"):
            utd = rng.random() < 0.5
            case = {"kind": "taper_mol", "xyz": [[a, list(p)] for a, p in xyz], "q": q, "spin": spin, "mapping": mapping, "utd": utd}
            ok &= taper_case(ctx, f"{name} {xyz}", mol.fermionic_hamiltonian, mol.n_active_sos, mol.n_active_electrons, mol.active_spin, mapping, utd, case)
    return ok


def synth_taper_cases(ctx, rng, count):
    ok = True
    for _ in range(count):
        M = rng.choice([2, 2, 3])
        H = fock.rand_molecular_hamiltonian(rng, M)
        n = 2 * M
        n_e = rng.randint(1, n - 1)
        spin = rng.choice([s for s in range(-min(n_e, n - n_e), min(n_e, n - n_e) + 1) if (n_e + s) % 2 == 0 and 0 <= (n_e + s) // 2 <= M and 0 <= n_e - (n_e + s) // 2 <= M and s >= 0])
        mapping = rng.choice(["JW", "BK", "JKMN"])
        utd = rng.random() < 0.5
        case = {"kind": "taper_synth", "terms": [[list(map(list, t)), c] for t, c in H.terms.items()], "M": M, "n_e": n_e, "spin": spin, "mapping": mapping, "utd": utd}
        ok &= taper_case(ctx, f"random spin-symmetric Hamiltonian on {M} orbitals", H, n, n_e, spin, mapping, utd, case)
    return ok


# ------------------------------------------------------------------------------------------------ trimming
ONE_Q = ["idle", "X", "RXpi", "RX3pi", "RX-pi", "RX2pi", "RXgen", "Z", "RZ", "H", "Y", "RYpi", "RYgen", "S", "RXnear", "RXnear"]


def one_gate(kind, q, rng):
    from tangelo.linq import Gate
    if kind in ("X", "Z", "H", "Y", "S"):
        return Gate(kind, q), [kind, None]
    ang = {"RXpi": math.pi, "RX3pi": 3 * math.pi, "RX-pi": -math.pi, "RX2pi": 2 * math.pi, "RYpi": math.pi}.get(kind)
    if kind == "RXnear":
        # close to an odd multiple of pi but clearly outside the documented tolerance (1e-5) of the bit-flip test
        ang = rng.choice([1, 3, -1]) * math.pi + rng.choice([-1, 1]) * rng.choice([3e-5, 1e-4, 1e-3, 5e-3, 2e-2])
    if ang is None:
        ang = round(rng.uniform(0.2, 6.0), 4) if rng.random() < 0.7 else round(4 * math.pi + rng.uniform(0.2, 1.0), 4)
    name = {"RXpi": "RX", "RX3pi": "RX", "RX-pi": "RX", "RX2pi": "RX", "RXgen": "RX", "RZ": "RZ", "RYpi": "RY", "RYgen": "RY", "RXnear": "RX"}[kind]
    return Gate(name, q, parameter=ang), [name, ang]


def rand_operator(rng, n, nterms=None):
    from tangelo.toolboxes.operators import QubitOperator
    op = QubitOperator((), round(rng.uniform(-1, 1), 3))
    for _ in range(nterms or rng.randint(1, 8)):
        w = tuple((q, rng.choice("XYZ")) for q in range(n) if rng.random() < 0.6)
        op += QubitOperator(w, round(rng.uniform(-1, 1), 3))
    return op


def model_gate(desc):
    name, ang = desc
    bit = False
    if name in ("X", "Y"):
        bit = True
    elif name in ("RX", "RY"):
        bit = abs(ang % (2 * math.pi) - math.pi) <= 1e-5
    return {"n": name, "flip": bit}


def trim_case(ctx, rng):
    from tangelo.linq import Circuit, Gate
    from tangelo.toolboxes.operators.trim_trivial_qubits import trim_trivial_qubits, trim_trivial_circuit, trim_trivial_operator
    n = rng.randint(2, 5)
    gates, desc = [], {}
    ent = [q for q in range(n) if rng.random() < 0.35]
    if len(ent) == 1:
        ent = []
    for q in range(n):
        if q in ent:
            continue
        k = rng.choice([0, 1, 1, 2, 2, 2, 3])
        kinds = [rng.choice(ONE_Q[1:]) for _ in range(k)]
        desc[q] = []
        for kd in kinds:
            g, d = one_gate(kd, q, rng)
            gates.append(g)
    rng.shuffle(gates)
    for g in gates:
        desc[g.target[0]].append([g.name, float(g.parameter) if g.parameter != "" else None])
    if ent:
        eg = [Gate("RY", q, parameter=round(rng.uniform(0.3, 2.8), 3)) for q in ent]
        eg += [Gate("CNOT", ent[i + 1], ent[i]) for i in range(len(ent) - 1)]
        eg += [Gate("RZ", ent[-1], parameter=round(rng.uniform(0.3, 2.8), 3))]
        pos = rng.randint(0, len(gates))
        gates = gates[:pos] + eg + gates[pos:]
    circ = Circuit(gates, n_qubits=n)
    op = rand_operator(rng, n)
    case = {"kind": "trim", "n": n, "gates": [[g.name, list(g.target), list(g.control) if g.control else None, g.parameter] for g in gates],
            "op": [[list(map(list, w)), c] for w, c in op.terms.items()]}
    psi, _ = vlib.np_run_state(circ._gates, n)
    before = np.real(np.vdot(psi, fock.qubit_matrix(op, n) @ psi))
    gates_before = [(g.name, tuple(g.target), g.parameter) for g in circ._gates]
    top, tcirc = trim_trivial_qubits(op, circ)
    nt = tcirc.width
    ctx.case(case, nontrivial=nt < n, sample=nt < n and n <= 3)
    ctx.count(f"trim:removed={n - nt}")
    if [(g.name, tuple(g.target), g.parameter) for g in circ._gates] != gates_before or circ.width != n:
        ctx.violation("trim_trivial_qubits modified the circuit passed in", case)
        return False
    from tangelo.toolboxes.operators import count_qubits
    if count_qubits(top) > nt:
        ctx.violation(f"trimmed operator acts on {count_qubits(top)} qubits, trimmed circuit has {nt}", case)
        return False
    phi, _ = vlib.np_run_state(tcirc._gates, nt) if nt > 0 else (np.ones(1, dtype=complex), 1)
    after = np.real(np.vdot(phi, fock.qubit_matrix(top, nt) @ phi))
    if abs(before - after) > TOL:
        _, ts = trim_trivial_circuit(circ)
        ctx.violation(f"expectation value changes from {before!r} to {after!r} when trimming (trim states {ts}, single-qubit gate lists {desc})", case)
        return False
    # model correspondence: classification of every non-entangled qubit and the trimmed terms
    _, ts = trim_trivial_circuit(circ)
    req = {"op": "trim_classify", "qubits": [[model_gate(d) for d in desc[q]] for q in sorted(desc)]}
    j = ctx.model.ask(req)
    code_cls = [ts.get(q) for q in sorted(desc)]
    if j.get("states") != code_cls:
        ctx.mismatch("classification of single-qubit gate lists differs from the model", case, j.get("states"), code_cls)
        return False
    words = []
    for w, c in op.terms.items():
        d = dict(w)
        words.append("".join(d.get(q, "I") for q in range(n)))
    for reindex in (True, False):
        j = ctx.model.ask({"op": "trim_terms", "words": words, "states": [[q, b] for q, b in ts.items()], "reindex": reindex})
        code = trim_trivial_operator(op, ts, n, reindex=reindex)
        model_terms = {}
        for (w, s), (_, c) in zip(j.get("out", []), op.terms.items()):
            if s == 0:
                continue
            key = tuple((i, l) for i, l in enumerate(w) if l != "I")
            model_terms[key] = model_terms.get(key, 0) + s * c
        model_terms = {k: v for k, v in model_terms.items() if abs(v) > 1e-12}
        code_terms = {k: v for k, v in code.terms.items() if abs(v) > 1e-12}
        if set(model_terms) != set(code_terms) or any(abs(model_terms[k] - code_terms[k]) > 1e-9 for k in model_terms):
            ctx.mismatch(f"trim_trivial_operator (reindex={reindex}) differs from the model", case, str(model_terms), str(code_terms))
            return False
    return True


def wide_trim_case(ctx, rng):
    """a wide register (9-13 qubits) in which only 2-4 qubits at sparse positions - some of them >= 8 - are really used:
    all others are idle or carry trivial single-qubit gates and are trimmed; the surviving qubits are re-indexed and
    circuit and operator must be re-indexed alike"""
    from tangelo.linq import Circuit, Gate
    from tangelo.toolboxes.operators import QubitOperator, count_qubits
    from tangelo.toolboxes.operators.trim_trivial_qubits import trim_trivial_qubits
    n = rng.randint(9, 13)
    k = rng.randint(2, 4)
    ent = sorted(rng.sample(range(n), k))
    if rng.random() < 0.7 and max(ent) < 8:
        ent[-1] = rng.randint(8, n - 1)
        ent = sorted(set(ent))
    gates = []
    for q in range(n):
        if q in ent or rng.random() < 0.4:
            continue
        for kd in [rng.choice(["X", "Z", "RXpi", "RZ", "RX-pi"]) for _ in range(rng.randint(1, 2))]:
            gates.append(one_gate(kd, q, rng)[0])
    rng.shuffle(gates)
    order = ent[:]
    rng.shuffle(order)
    eg = [Gate("RY", q, parameter=round(rng.uniform(0.3, 2.8), 3)) for q in order]
    eg += [Gate("CNOT", order[i + 1], order[i]) for i in range(len(order) - 1)]
    eg += [Gate(rng.choice(["RX", "RZ"]), q, parameter=round(rng.uniform(0.3, 2.8), 3)) for q in order]
    pos = rng.randint(0, len(gates))
    gates = gates[:pos] + eg + gates[pos:]
    circ = Circuit(gates, n_qubits=n)
    op = QubitOperator((), round(rng.uniform(-1, 1), 3))
    for _ in range(rng.randint(3, 7)):
        w = [(q, rng.choice("XYZ")) for q in ent if rng.random() < 0.7]
        w += [(q, "Z") for q in range(n) if q not in ent and rng.random() < 0.15]
        op += QubitOperator(tuple(sorted(w)), round(rng.uniform(-1, 1), 3))
    case = {"kind": "wide_trim", "n": n, "active": ent, "gates": [[g.name, list(g.target), list(g.control) if g.control else None, g.parameter] for g in gates],
            "op": [[list(map(list, w)), c] for w, c in op.terms.items()]}
    psi, _ = vlib.np_run_state(circ._gates, n)
    before = float(np.real(fock.pauli_expect(psi, op, n)))
    top, tcirc = trim_trivial_qubits(op, circ)
    nt = tcirc.width
    ctx.case(case, nontrivial=True, sample=False)
    ctx.count(f"wide_trim:survivors{'>=8' if max(ent) >= 8 else '<8'}")
    if count_qubits(top) > nt:
        ctx.violation(f"trimmed operator acts on {count_qubits(top)} qubits, trimmed circuit has {nt}", case)
        return False
    phi, _ = vlib.np_run_state(tcirc._gates, nt) if nt > 0 else (np.ones(1, dtype=complex), 1)
    after = float(np.real(fock.pauli_expect(phi, top, nt)))
    if abs(before - after) > TOL:
        ctx.violation(f"expectation value changes from {before!r} to {after!r} when trimming a {n}-qubit register down to the qubits {ent}", case)
        return False
    return True


# ------------------------------------------------------------------------------------------------ truncation
def stabiliser_family(rng, n):
    """all 2^n products of n independent commuting Pauli words (a stabiliser group up to signs): sum = 2^n * projector"""
    basis = rng.choice(["Z", "X", "mixed"])
    gens = []
    for q in range(n):
        l = basis if basis != "mixed" else rng.choice("XZ")
        gens.append({q: l})
    words = []
    for bits in itertools.product([0, 1], repeat=n):
        w = {}
        for b, g in zip(bits, gens):
            if b:
                w.update(g)
        words.append(tuple(sorted(w.items())))
    return words


def trunc_case(ctx, rng, adversarial):
    from tangelo.toolboxes.operators import QubitOperator
    n = rng.randint(1, 5)
    eps = rng.choice([1e-4, 1e-3, 0.01, 0.05, 0.3, 0.5])
    op = QubitOperator()
    if adversarial:
        words = stabiliser_family(rng, n)
        keep_big = rng.sample(words, rng.randint(0, min(3, len(words) - 1)))
        m = len(words) - len(keep_big)
        # budget: sum c^2 <= eps^2 / 2^n ; m equal coefficients just inside the budget
        c = rng.choice([0.999, 0.9, 0.6, 1.3, 2.0, 3.0]) * eps / math.sqrt(2 ** n * m)   # inside / beyond the budget
        for w in words:
            op += QubitOperator(w, (1.0 + 0.37 * words.index(w)) if w in keep_big else c)
    else:
        for _ in range(rng.randint(1, 40)):
            w = tuple((q, rng.choice("XYZ")) for q in range(n) if rng.random() < 0.6)
            op += QubitOperator(w, rng.gauss(0, 1) * 10 ** rng.uniform(-5, 0))
    terms = dict(op.terms)
    case = {"kind": "trunc", "n": n, "eps": eps, "terms": [[list(map(list, w)), c] for w, c in terms.items()], "adversarial": adversarial}
    before = np.linalg.eigvalsh(fock.qubit_matrix(op, n))
    w = QubitOperator()
    w.terms = dict(terms)
    w.frobenius_norm_compression(eps, n)
    after = np.linalg.eigvalsh(fock.qubit_matrix(w, n))
    removed = len(terms) - len(w.terms)
    ctx.case(case, nontrivial=removed > 0, sample=removed > 0 and n <= 2)
    ctx.count(f"trunc:n={n}:{'adv' if adversarial else 'rand'}")
    shift = float(np.max(np.abs(before - after)))
    if shift > eps * (1 + 1e-9) + 1e-9:
        ctx.violation(f"frobenius_norm_compression(eps={eps}, n={n}) moves an eigenvalue by {shift!r} > eps ({len(terms)} -> {len(w.terms)} terms)", case)
        return False
    if any(k not in terms or terms[k] != v for k, v in w.terms.items()):
        ctx.violation("truncation changed a coefficient of a kept term", case)
        return False
    # model correspondence on the exact rational image of the coefficients (|c| only matters)
    srt = sorted(terms.items(), key=lambda x: abs(x[1]))
    coefs = [Fraction(abs(c)).limit_denominator(10 ** 12) for _, c in srt]
    thr = eps / 2 ** (n / 2)
    acc, unstable = 0.0, False
    for _, c in srt:
        acc += abs(c) ** 2
        if abs(math.sqrt(acc) - thr) < 1e-9 * max(thr, 1):
            unstable = True
    if unstable:
        ctx.discarded += 1
        return True
    j = ctx.model.ask({"op": "frob", "coefs": [vlib.frac_str(c) for c in coefs], "eps": vlib.frac_str(Fraction(eps).limit_denominator(10 ** 9)), "n": n})
    kept_code = [i for i, (k, c) in enumerate(srt) if k in w.terms]
    # compress() afterwards removes |c| < 1e-8 terms: ignore those in both
    kept_model = [i for i in j.get("kept", []) if abs(srt[i][1]) >= 1e-8]
    if kept_model != kept_code:
        ctx.mismatch("kept term positions differ from the model", case, kept_model, kept_code)
        return False
    return True


def run(ctx):
    rng = ctx.rng
    ok = True
    ok &= mol_taper_cases(ctx, rng, ctx.n(5, 30))
    ok &= synth_taper_cases(ctx, rng, ctx.n(12, 80))
    for _ in range(ctx.n(150, 1500)):
        ok &= trim_case(ctx, rng)
    for _ in range(ctx.n(30, 300)):
        ok &= wide_trim_case(ctx, rng)
    for _ in range(ctx.n(60, 500)):
        ok &= trunc_case(ctx, rng, adversarial=False)
    for _ in range(ctx.n(60, 500)):
        ok &= trunc_case(ctx, rng, adversarial=True)
    return ok


def replay(ctx, obj):
    from tangelo.toolboxes.operators import FermionOperator
    k = obj.get("kind")
    if k == "taper_mol":
        from tangelo import SecondQuantizedMolecule
        xyz = [(a, tuple(p)) for a, p in obj["xyz"]]
        mol = SecondQuantizedMolecule(xyz, q=obj["q"], spin=obj["spin"], basis="sto-3g")
        return taper_case(ctx, "replayed molecule", mol.fermionic_hamiltonian, mol.n_active_sos, mol.n_active_electrons, mol.active_spin, obj["mapping"], obj["utd"], obj)
    if k == "taper_synth":
        H = FermionOperator()
        for t, c in obj["terms"]:
            H += FermionOperator(tuple(tuple(x) for x in t), c)
        return taper_case(ctx, "replayed Hamiltonian", H, 2 * obj["M"], obj["n_e"], obj["spin"], obj["mapping"], obj["utd"], obj)
    print("replay of trimming / truncation cases re-runs the generators")
    rng = random.Random(1)
    return all(trim_case(ctx, rng) for _ in range(300)) and all(trunc_case(ctx, rng, a) for a in (False, True) for _ in range(200))


def search(ctx, broken):
    rng = random.Random(777)
    ok = True
    for _ in range(1500):
        ok &= trim_case(ctx, rng)
    for _ in range(400):
        ok &= trunc_case(ctx, rng, adversarial=True)
        ok &= trunc_case(ctx, rng, adversarial=False)
    ok &= synth_taper_cases(ctx, rng, 40)
    return ok
