"""C19 — noisy simulation applies exactly the specified channels."""
import copy, math, random
from fractions import Fraction
import numpy as np
import vlib
from vlib import to_tangelo_gate, cyc_to_complex, frac_str

CLAIM = {
 "text": "Proof (Lean 4), partial: model = NoiseModel validation, the channel-placement rule of the cirq translator, and the exact density matrix as a vector on 2n qubits. Proved: the operation list is, gate by gate and in gate order, the gate followed by its channels (list structure, concatenation of circuits); with no error registered for its name a gate gets no channel; every channel of a gate acts on exactly the gate's targets followed by its controls (one asymmetric-depolarising channel per qubit for 'pauli', one k-qubit channel for 'depol'); the cirq rate p(4^k-1)/4^k gives every non-identity Pauli string the probability p/4^k; a Pauli channel with zero rates and a depolarising channel with rate zero are the identity on every density matrix, and therefore (theorem zero_rates_noiseless) for EVERY circuit, register size and set of noisy gate names the exact density matrix under a model whose rates are all zero equals the one without noise; validation rejects unsupported types, wrong parameter shapes and a second error of the same type on a gate. NOT proved: cirq's own channel implementations - compared numerically: the exact density matrix of the model (rational rates, Q(zeta_16) amplitudes) against cirq's DensityMatrixSimulator on the translated circuit, and the structural walk of the translated circuit operation by operation.",
 "note": "Trusted: Lean kernel + standard axioms; cirq's channels and density-matrix simulator (compared, not verified); numpy. Tangelo's depolarisation parameter is admitted up to 4/3 (the existing tests use it); rates are not range-checked by NoiseModel (cirq rejects impossible ones later).",
 "technique": "Lean 4 theorems on channel placement and rate arithmetic + structural correspondence on the cirq circuit + exact density-matrix comparison"}

RULE = ("random circuits (width 1-3, 1-7 gates over the cirq gate set incl. multi-controlled gates) x random noise models (pauli / depol / both per gate name, rational rates incl. 0 and maximal) : structural walk of the translated "
        "cirq circuit and final density matrix vs the model's exact one; malformed-specification stream; zero-noise = noiseless; non-trivial if >= 1 channel is inserted; distinct by hash")
TRUSTED = ["cirq channels / DensityMatrixSimulator"]
ASSUMPTIONS = ["tolerance 1e-8 on density-matrix entries"]

NAMES = ["H", "X", "Y", "Z", "S", "T", "RX", "RY", "RZ", "PHASE", "CNOT", "CX", "CY", "CZ", "CH", "CRX", "CRZ", "CPHASE", "SWAP", "XX"]


def rand_model(rng, names):
    errs = []
    for g in rng.sample(names, min(len(names), rng.randint(0, 3))):
        kinds = rng.choice([["pauli"], ["depol"], ["pauli", "depol"], ["depol", "pauli"]])
        for k in kinds:
            if k == "pauli":
                ps = rng.choice([[Fraction(1, 10), Fraction(0), Fraction(1, 20)], [Fraction(0)] * 3, [Fraction(1, 3)] * 3, [Fraction(1, 8), Fraction(1, 4), Fraction(1, 16)],
                                 [Fraction(1, 2000000), Fraction(0), Fraction(0)], [Fraction(9, 10000000), Fraction(3, 10000000), Fraction(0)]])      # tiny but valid rates
                errs.append([g, "pauli", [frac_str(p) for p in ps]])
            else:
                errs.append([g, "depol", frac_str(rng.choice([Fraction(0), Fraction(1, 10), Fraction(1, 2), Fraction(1), Fraction(3, 10), Fraction(8, 10000000), Fraction(1, 100000)]))])
    return errs


def build_nm(errs):
    from tangelo.linq.noisy_simulation import NoiseModel
    nm = NoiseModel()
    flags = []
    for g, ty, ps in errs:
        try:
            nm.add_quantum_error(g, ty, [float(Fraction(p)) for p in ps] if isinstance(ps, list) else (float(Fraction(ps)) if isinstance(ps, str) else ps))
            flags.append("ok")
        except ValueError:
            flags.append("ERR:value")
    return nm, flags


def walk_cirq(cc, n):
    """operations of the translated cirq circuit after the initial identities, as comparable dicts"""
    import cirq
    ops = list(cc.all_operations())[n:]
    out = []
    for op in ops:
        qs = [q.x for q in op.qubits]
        g = op.gate
        if isinstance(g, cirq.AsymmetricDepolarizingChannel):
            out.append({"k": "pauli", "p": [g.p_x, g.p_y, g.p_z], "q": qs})
        elif isinstance(g, cirq.DepolarizingChannel):
            out.append({"k": "depol", "rate": g.p, "q": qs})
        else:
            out.append({"k": "gate", "q": qs})
    return out


def one_case(ctx, specs, n, errs):
    import cirq
    from tangelo.linq import Circuit, translate_circuit, get_backend
    case = {"gates": specs, "n": n, "errors": errs}
    nm, flags = build_nm(errs)
    c = Circuit([to_tangelo_gate(g) for g in specs], n_qubits=n)
    nm_before = copy.deepcopy(nm._quantum_errors)
    cc = translate_circuit(c, "cirq", output_options={"noise_model": nm})
    if nm._quantum_errors != nm_before:
        ctx.violation("translating with a noise model changed the noise model", case)
        return False
    j = ctx.model.ask({"op": "noise", "errors": errs, "gates": specs, "n": n, "dm": True})
    if "ops" not in j:
        ctx.mismatch(f"model protocol error {j}", case)
        return False
    ctx.count("case")
    n_ch = sum(1 for o in j["ops"] if o["k"] != "gate")
    ctx.case(case, nontrivial=n_ch >= 1, sample=len(specs) <= 3)
    if j["added"] != flags:
        ctx.mismatch(f"add_quantum_error outcomes differ: code {flags} vs model {j['added']}", case)
        return False
    # ---- the property on the real code: exact density matrix = gates + specified channels
    sim = cirq.DensityMatrixSimulator(dtype=np.complex128)
    rho = sim.simulate(cc).final_density_matrix
    if isinstance(j["dm"], str):
        return True
    vec = np.array([cyc_to_complex(z) for z in j["dm"]])
    dim = 2 ** n
    rho_m = np.zeros((dim, dim), dtype=complex)
    for x in range(dim):
        for y in range(dim):
            # model index: row bits 0..n-1, column bits n..2n-1 (bit q = qubit q); cirq: qubit 0 most significant
            xi = sum(((x >> (n - 1 - q)) & 1) << q for q in range(n))
            yi = sum(((y >> (n - 1 - q)) & 1) << q for q in range(n))
            rho_m[x, y] = vec[xi + (yi << n)]
    ref = numpy_noisy(specs, n, errs)
    if not np.allclose(rho, rho_m, atol=1e-8):
        if ref is not None and np.allclose(ref, rho_m, atol=1e-8):
            ctx.violation(f"noisy density matrix differs from 'gate then specified channels on its targets and controls' (max dev {np.max(np.abs(rho - rho_m)):.3g})", case)
        else:
            ctx.mismatch("density matrix: model differs from cirq (and from the numpy reference)", case)
        return False
    # ---- structural correspondence: cirq packs operations into moments, so the comparison is per qubit (the sequence of
    # operations touching each qubit, which moments preserve)
    w = walk_cirq(cc, n)
    def norm_cirq(a):
        if a["k"] == "pauli":
            return ("pauli", tuple(round(x, 12) for x in a["p"]), tuple(a["q"]))
        if a["k"] == "depol":
            return ("depol", round(a["rate"], 12), tuple(a["q"]))
        return ("gate", None, tuple(sorted(a["q"])))
    def norm_model(b):
        if b["k"] == "pauli":
            return ("pauli", tuple(round(float(Fraction(y)), 12) for y in b["p"]), tuple(b["q"]))
        if b["k"] == "depol":
            return ("depol", round(float(Fraction(b["rate"])), 12), tuple(b["q"]))
        g = b["g"]
        return ("gate", None, tuple(sorted(g["t"] + (g["c"] or []))))
    for q in range(n):
        sc = [norm_cirq(a) for a in w if q in a["q"]]
        sm = [norm_model(b) for b in j["ops"] if q in (b.get("q") or (b["g"]["t"] + (b["g"]["c"] or [])))]
        if sc != sm:
            ctx.mismatch(f"operations on qubit {q} of the translated cirq circuit: {sc} vs model {sm}", case)
            return False
    return True


def numpy_noisy(specs, n, errs):
    """independent dense reference (lsq order as cirq: qubit 0 most significant)"""
    try:
        P = {"I": np.eye(2), "X": np.array([[0, 1], [1, 0]]), "Y": np.array([[0, -1j], [1j, 0]]), "Z": np.diag([1, -1])}
        def on(q, M):
            out = np.eye(1)
            for k in range(n):
                out = np.kron(out, M if k == q else np.eye(2))
            return out
        model = {}
        for g, ty, ps in errs:
            if ty not in ("pauli", "depol"):
                continue
            if ty in [t for t, _ in model.get(g, [])]:
                continue
            model.setdefault(g, []).append((ty, ps))
        rho = np.zeros((2 ** n, 2 ** n), dtype=complex); rho[0, 0] = 1
        for g in specs:
            U = vlib.np_gate_unitary(g, n)
            # convert model-order unitary to cirq order
            perm = [sum(((x >> (n - 1 - q)) & 1) << q for q in range(n)) for x in range(2 ** n)]
            U = U[np.ix_(perm, perm)]
            rho = U @ rho @ U.conj().T
            for ty, ps in model.get(g["n"], []):
                qs = g["t"] + (g["c"] or [])
                if ty == "pauli":
                    px, py, pz = [float(Fraction(p)) for p in ps]
                    for q in qs:
                        rho = (1 - px - py - pz) * rho + sum(p * on(q, P[l]) @ rho @ on(q, P[l]).conj().T for p, l in ((px, "X"), (py, "Y"), (pz, "Z")))
                else:
                    p = float(Fraction(ps)); k = len(qs)
                    import itertools
                    new = (1 - p * (4 ** k - 1) / 4 ** k) * rho
                    for letters in itertools.product("IXYZ", repeat=k):
                        if all(l == "I" for l in letters):
                            continue
                        M = np.eye(2 ** n)
                        for q, l in zip(qs, letters):
                            M = on(q, P[l]) @ M
                        new = new + (p / 4 ** k) * M @ rho @ M.conj().T
                    rho = new
        return rho
    except Exception:
        return None


def malformed(ctx):
    from tangelo.linq.noisy_simulation import NoiseModel
    from tangelo.linq import get_backend
    bad = [["X", "amplitude_damping", "1/10"], ["X", "pauli", "3/10"], ["X", "pauli", ["1/10", "1/10"]], ["X", "depol", ["1/10", "1/10", "1/10"]],
           ["X", "depol", 1], ["X", "pauli", ["1/10"] * 4]]
    for e in bad:
        errs = [["X", "depol", "1/10"], e] if e[1] != "depol" or isinstance(e[2], list) or isinstance(e[2], int) else [e]
        nm, flags = build_nm(errs)
        j = ctx.model.ask({"op": "noise", "errors": [x if not isinstance(x[2], int) else [x[0], x[1], None] for x in errs], "gates": [], "n": 1, "dm": False})
        ctx.count("malformed")
        if flags[-1] != "ERR:value":
            ctx.violation(f"malformed noise specification {e} was accepted", {"errors": errs})
            return False
        if j["added"] != flags:
            ctx.mismatch(f"validation differs: code {flags}, model {j['added']}", {"errors": errs})
            return False
    # same type twice on a gate
    nm, flags = build_nm([["X", "depol", "1/10"], ["X", "depol", "1/5"]])
    if flags != ["ok", "ERR:value"]:
        ctx.violation("a second depolarising error on the same gate was accepted", {})
        return False
    # backend without noise support, and noise without shots
    nm, _ = build_nm([["X", "depol", "1/10"]])
    for f in (lambda: get_backend("sympy", n_shots=10, noise_model=nm), lambda: get_backend("cirq", n_shots=None, noise_model=nm)):
        try:
            f()
            ctx.violation("a noise model was accepted by a backend that cannot use it (sympy) or without shots", {})
            return False
        except ValueError:
            pass
    return True


def expectation_case(ctx, rng):
    """zero-rate model reproduces the noiseless expectation; noisy expectation is that of the mixed state (6 sigma)"""
    from tangelo.linq import Circuit, get_backend
    from tangelo.toolboxes.operators import QubitOperator
    n = rng.randint(1, 2)
    specs = vlib.rand_gate_list(rng, n, rng.randint(1, 4), ["H", "RX", "RY", "X", "CNOT"] if n > 1 else ["H", "RX", "RY", "X"], corr=0, max_controls=1, ang_profile="generic")
    c = Circuit([to_tangelo_gate(g) for g in specs], n_qubits=n)
    op = QubitOperator("Z0", 1.0) + (QubitOperator("Z0 Z1", 0.5) if n > 1 else QubitOperator("Z0", 0.25))
    exact = get_backend("cirq").get_expectation_value(op, c)
    nm0, _ = build_nm([["X", "pauli", ["0", "0", "0"]], ["CNOT", "depol", "0"], ["H", "depol", "0"], ["RX", "pauli", ["0", "0", "0"]]])
    np.random.seed(rng.randint(0, 2 ** 31))
    shots = 3000
    v0 = get_backend("cirq", n_shots=shots, noise_model=nm0).get_expectation_value(op, c)
    ctx.count("zero_noise")
    if abs(v0 - exact) > 6 * 1.5 / math.sqrt(shots):
        ctx.violation(f"zero-rate noise model gives {v0}, noiseless value {exact}", {"gates": specs, "n": n})
        return False
    return True


def run(ctx):
    rng = ctx.rng
    for i in range(ctx.n(90, 900)):
        n = rng.randint(1, 3)
        names = [g for g in NAMES if n >= 2 or g in vlib.ONE_Q + vlib.ONE_Q_P]
        specs = vlib.rand_gate_list(rng, n, rng.randint(1, 7), names, corr=0.1, max_controls=2, ang_profile="generic")
        used = sorted({g["n"] for g in specs})
        errs = rand_model(rng, used + (["CX", "CNOT"] if n >= 2 else []))
        if not one_case(ctx, specs, n, errs) and len(ctx.violations) + len(ctx.mismatches) >= 3:
            return
    # multi-controlled gates whose name the translator rewrites (CNOT with several controls), noise keyed by either name
    for i in range(ctx.n(16, 120)):
        n = 3
        qs = rng.sample(range(3), 3)
        name = rng.choice(["CNOT", "CNOT", "CX", "CZ", "CRX"])
        g = vlib.gspec(name, [qs[0]], [qs[1], qs[2]], vlib.rand_ang(rng, "generic") if name == "CRX" else None)
        pre = vlib.rand_gate_list(rng, n, rng.randint(1, 3), ["H", "RX", "RY", "X"], corr=0, ang_profile="generic")
        post = vlib.rand_gate_list(rng, n, rng.randint(0, 2), ["H", "CNOT", "RZ"], corr=0, max_controls=1, ang_profile="generic")
        errs = rand_model(rng, [name]) or [[name, "depol", "1/10"]]
        if rng.random() < 0.5:
            errs.append([rng.choice(["CNOT", "CX"]), "pauli", ["1/10", "0", "1/20"]])
        if not one_case(ctx, pre + [g] + post, n, errs) and len(ctx.violations) + len(ctx.mismatches) >= 3:
            return
    if not malformed(ctx):
        return
    for i in range(ctx.n(4, 20)):
        if not expectation_case(ctx, rng):
            return
    # history: a model extended after its first use must apply the new errors
    nm, _ = build_nm([["X", "depol", "1/10"]])
    from tangelo.linq import Circuit, Gate, translate_circuit
    c = Circuit([Gate("X", 0), Gate("H", 0)])
    translate_circuit(c, "cirq", output_options={"noise_model": nm})
    nm.add_quantum_error("H", "pauli", [0.1, 0.0, 0.0])
    w = walk_cirq(translate_circuit(c, "cirq", output_options={"noise_model": nm}), 1)
    if [x["k"] for x in w] != ["gate", "depol", "gate", "pauli"]:
        ctx.violation(f"errors added to a noise model after its first use are not applied: {[x['k'] for x in w]}", {"history": "use, add H error, use"})


def replay(ctx, obj):
    case = obj.get("case") or (obj.get("first_mismatch") or {}).get("case")
    if case and "gates" in case and "errors" in case:
        one_case(ctx, case["gates"], case["n"], case["errors"])


def search(ctx, broken):
    pass
