"""C08 — variational solver energies are faithful and variational."""
import itertools, json, random, warnings
import numpy as np
from fractions import Fraction
import vlib, fock

CLAIM = {
 "text": "Proof (Lean 4), partial: the solver's bookkeeping is modelled as a state machine over (target operator, saved operator, parameter vector, energy log) whose operations are energy evaluation, symmetry-expectation request (save / swap / evaluate / restore, with the failure branches of the real code) and parameter update; proved for every operation history: the target operator after any history is the one the solver was built with, every energy reported equals the evaluation of that operator on the circuit for the requested parameters plus deflation_coeff times the sum of the overlap probabilities (fold over any number of deflation circuits), and a convex combination of eigenvalues is never below the smallest one (the variational bound in the eigenbasis, over any ordered field). NOT proved in Lean: that the backend evaluates <psi|H|psi> (C01/C02 correspondence) and the encodings (C03); these are tied by the numerical oracle, which for random parameter vectors compares energy_estimation, deflated energies and operator_expectation of N, S_z, S^2 with an independent numpy state-vector run of the solver's circuit and dense operator matrices, over built-in ansaetze, encodings, orderings, reference-state overrides, projective and deflation circuits. State between solver OBJECTS: a differently configured solver (shots, noise model, penalty) is built before the first solver of every run and before 15% of the others; the backend options every solver ends up with are compared with the option-dictionary model of C12 (per-instance defaults, theorem fresh_history_independent: independent of the solvers built before), the defaults literal being read from VQESolver.__init__ on every run.",
 "note": "Trusted: Lean kernel + standard axioms; numpy (oracle); PySCF integrals; openfermion operator containers.",
 "technique": "Lean 4 state-machine invariant (operator restored, energy formula, deflation fold, variational bound) + independent state-vector/dense-matrix oracle over random parameter vectors and solver configurations"}

RULE = ("solver configurations: molecules H2, H4 (frozen/not), H4+ with ansaetze UCCSD, UpCCGSD, UCCGD, HEA, QMF, QCC, ILC, VSQS, pUCCD(HCB), UCC1/UCC3 and custom circuits over qubit Hamiltonians; encodings JW/BK/scBK/JKMN x both orderings; "
        "reference-state overrides (vector and circuit), projective circuit with post-selection, 0-3 deflation circuits with random weights; 2-3 random parameter vectors each; operation histories mixing energy, expectation (incl. failing requests) and re-evaluation; "
        "non-trivial: non-zero parameter vector; distinct by (configuration, parameters)")
TRUSTED = ["numpy linear algebra", "PySCF", "openfermion containers"]
ASSUMPTIONS = ["tolerance 1e-7 on energies and expectation values"]

TOL = 1e-7


def indep_sym(n_orbs):
    """N, Sz, S^2 as fermionic operators in the alternating (openfermion) ordering, built independently of tangelo"""
    from openfermion import FermionOperator as OF
    N, Sz, Sp = OF(), OF(), OF()
    for i in range(n_orbs):
        N += OF(((2 * i, 1), (2 * i, 0))) + OF(((2 * i + 1, 1), (2 * i + 1, 0)))
        Sz += 0.5 * OF(((2 * i, 1), (2 * i, 0))) - 0.5 * OF(((2 * i + 1, 1), (2 * i + 1, 0)))
        Sp += OF(((2 * i, 1), (2 * i + 1, 0)))
    from openfermion import hermitian_conjugated
    Sm = hermitian_conjugated(Sp)
    S2 = Sz * Sz + 0.5 * (Sp * Sm + Sm * Sp)
    return {"N": N, "Sz": Sz, "S^2": S2}


def solver_state(solver):
    """state prepared by the solver's circuit, by the independent numpy runner"""
    circ = solver.ansatz.circuit if solver.ref_state is None else solver.reference_circuit + solver.ansatz.circuit
    if solver.projective_circuit:
        circ = circ + solver.projective_circuit
    n = circ.width
    desired = solver.simulate_options.get("desired_meas_result") if solver.simulate_options else None
    psi, p = vlib.np_run_state(circ._gates, n, desired=desired)
    return psi, n, p


def expval(M, psi):
    return float(np.real(np.vdot(psi, M @ psi)))


def embed(M, n_sub, n):
    return np.kron(np.eye(2 ** (n - n_sub)), M) if n > n_sub else M


CONFIGS = []


def _cfg(**kw):
    CONFIGS.append(kw)


for _m, _u in itertools.product(["JW", "BK", "scBK", "JKMN"], [False, True]):
    _cfg(mol="H2", ansatz="UCCSD", mapping=_m, utd=_u)
    _cfg(mol="H2", ansatz="UpCCGSD", mapping=_m, utd=_u)
    _cfg(mol="H4f", ansatz="UCCSD", mapping=_m, utd=_u)
    _cfg(mol="H2", ansatz="HEA", mapping=_m, utd=_u)
    _cfg(mol="H2", ansatz="UCCGD", mapping=_m, utd=_u)
for _m in ["JW", "BK", "scBK", "JKMN"]:
    _cfg(mol="H2", ansatz="QCC", mapping=_m, utd=True)
    _cfg(mol="H2", ansatz="QMF", mapping=_m, utd=True)
    _cfg(mol="H2", ansatz="VSQS", mapping=_m, utd=False)
    _cfg(mol="H4+", ansatz="UCCSD", mapping=_m, utd=True)
_cfg(mol="H2", ansatz="UCC1", mapping="JW", utd=True)
_cfg(mol="H2", ansatz="UCC3", mapping="JW", utd=True)
_cfg(mol="H2", ansatz="pUCCD", mapping="HCB", utd=False)
_cfg(mol="H4f", ansatz="pUCCD", mapping="HCB", utd=False)
_cfg(mol="H2", ansatz="ILC", mapping="JW", utd=True)
_cfg(mol="H4", ansatz="UCCSD", mapping="JW", utd=False, heavy=True)
_cfg(mol="H4", ansatz="UCCSD", mapping="scBK", utd=True, heavy=True)


def get_mol(name):
    import mols
    if name == "H4f":
        return mols.molecule("H4", frozen=(0, 3))
    return mols.molecule(name)


def build_solver(cfg, rng, extra=None):
    from tangelo.algorithms.variational import VQESolver, BuiltInAnsatze
    mol = get_mol(cfg["mol"])
    opts = {"molecule": mol, "ansatz": getattr(BuiltInAnsatze, cfg["ansatz"]), "qubit_mapping": cfg["mapping"], "up_then_down": cfg["utd"]}
    if cfg["ansatz"] == "UpCCGSD":
        opts["ansatz_options"] = {"k": 1}
    if cfg["ansatz"] == "HEA":
        opts["ansatz_options"] = {"n_layers": 1}
    if extra:
        opts.update(extra)
    with warnings.catch_warnings():
        warnings.simplefilter("ignore")
        if DECOYS[0] == 0 or rng.random() < 0.15:       # always before the first solver of a run
            # another solver of the same process, configured for sampling, noise and a penalty: nothing of it may leak
            # into the solver built next (defaults shared between instances)
            from tangelo.linq.noisy_simulation import NoiseModel
            nm = NoiseModel(); nm.add_quantum_error("X", "depol", 0.2)
            VQESolver({**opts, "backend_options": {"target": "cirq", "n_shots": 13, "noise_model": nm},
                       "penalty_terms": {"N": [2.5, 0]}} if "qubit_hamiltonian" not in opts and "penalty_terms" not in opts else
                      {**opts, "backend_options": {"target": "cirq", "n_shots": 13, "noise_model": nm}})
            DECOYS[0] += 1
        s = VQESolver(opts)
        # the option-dictionary model (Defaults.afterHistoryFresh; theorem fresh_history_independent): the backend options of
        # this solver are its own options over the defaults written in __init__, whatever solvers were built before
        ctx_ = CTX[0]
        if ctx_ is not None:
            dflt = backend_defaults()
            given = opts.get("backend_options") or {}
            enc = lambda d: [[k, "set" if (k == "noise_model" and v is not None) else v] for k, v in d.items()]
            jd = ctx_.model.ask({"op": "defaults_history", "defaults": enc(dflt), "opts": enc(given),
                                 "history": [enc({"target": "cirq", "n_shots": 13, "noise_model": "set"})] * DECOYS[0]})
            if jd.get("effective") is not None:
                import json as _json
                eff = {k: _json.loads(v) for k, v in jd["effective"]}
                real = {k: ("set" if (k == "noise_model" and v is not None) else v) for k, v in s.backend_options.items()}
                ctx_.count("backend-options-vs-model")
                if eff != real:
                    ctx_.mismatch(f"backend options of a solver built after {DECOYS[0]} differently configured solvers: {real}, per-instance defaults give {eff}",
                                  {"kind": "backend_options", "given": enc(given), "decoys": DECOYS[0]}, eff, real)
        s.build()
    return s, mol


CTX = [None]


def backend_defaults():
    """the defaults dictionary literal of VQESolver.__init__, read from the source on every run"""
    import ast, inspect, textwrap
    from tangelo.algorithms.variational import VQESolver
    tree = ast.parse(textwrap.dedent(inspect.getsource(VQESolver.__init__)))
    for node in ast.walk(tree):
        if isinstance(node, ast.Assign) and any(isinstance(t, ast.Name) and t.id == "default_backend_options" for t in node.targets):
            try:
                return ast.literal_eval(node.value)
            except Exception:
                break
    return {"target": None, "n_shots": None, "noise_model": None}


DECOYS = [0]


def rand_params(rng, n, zero=False):
    if zero:
        return [0.0] * n
    return [round(rng.uniform(-1.5, 1.5), 6) for _ in range(n)]


def ham_matrix(solver, n):
    from tangelo.toolboxes.operators import count_qubits
    nq = max(count_qubits(solver.qubit_hamiltonian), 1)
    return embed(fock.qubit_matrix(solver.qubit_hamiltonian, nq), nq, n) if nq <= n else None


def sym_reference(solver, mol, cfg, which, n):
    """dense matrix of the encoded symmetry operator, built from an independent fermionic operator and the
    encoding (C03 decides the encodings); HCB: each qubit is a doubly occupied orbital"""
    from tangelo.toolboxes.qubit_mappings.mapping_transform import fermion_to_qubit_mapping
    from tangelo.toolboxes.operators import FermionOperator, count_qubits
    if cfg["mapping"].upper() == "HCB":
        nq = mol.n_active_mos
        idx = np.arange(2 ** nq)
        occ = sum(((idx >> q) & 1) for q in range(nq))
        d = {"N": 2.0 * occ, "Sz": 0.0 * occ, "S^2": 0.0 * occ}[which]
        return embed(np.diag(d).astype(complex), nq, n)
    op = indep_sym(mol.n_active_mos)[which]
    f = FermionOperator()
    f.terms = dict(op.terms)
    q = fermion_to_qubit_mapping(f, cfg["mapping"], n_spinorbitals=mol.n_active_sos, n_electrons=mol.n_active_electrons,
                                 up_then_down=cfg["utd"], spin=mol.active_spin)
    nq = mol.n_active_sos - (2 if cfg["mapping"].lower() == "scbk" else 0)
    return embed(fock.qubit_matrix(q, nq), nq, n)


def fermi_min_eig(mol, cfg):
    """lowest eigenvalue of the molecular Hamiltonian (whole Fock space, or the (N, Sz) sector for scBK / HCB seniority-zero)"""
    n = mol.n_active_sos
    H = fock.fermion_matrix(mol.fermionic_hamiltonian, n)
    if cfg["mapping"].lower() == "scbk":
        na = (mol.n_active_electrons + mol.active_spin) // 2
        nb = mol.n_active_electrons - na
        sel = [x for x in range(2 ** n) if fock.popcount(x & 0x55555555) == na and fock.popcount(x & 0xAAAAAAAA) == nb]
        H = H[np.ix_(sel, sel)]
    return float(np.linalg.eigvalsh((H + H.conj().T) / 2)[0])


def energy_case(ctx, cfg, rng, variant):
    from tangelo.linq import Circuit, Gate
    mol = get_mol(cfg["mol"])
    extra = {}
    case = {"kind": "energy", "cfg": cfg, "variant": variant}
    nq_guess = None
    if variant == "ref_vector" and cfg["ansatz"] in ("UCCSD", "UpCCGSD", "UCCGD", "HEA"):
        occ = [0] * mol.n_active_sos
        for i in rng.sample(range(mol.n_active_sos), mol.n_active_electrons):
            occ[i] = 1
        if cfg["mapping"].lower() == "scbk":
            # the reference must stay in the solver's sector
            na = (mol.n_active_electrons + mol.active_spin) // 2
            nb = mol.n_active_electrons - na
            occ = [0] * mol.n_active_sos
            for i in rng.sample(range(mol.n_active_mos), na):
                occ[2 * i] = 1
            for i in rng.sample(range(mol.n_active_mos), nb):
                occ[2 * i + 1] = 1
        extra["ref_state"] = occ
        case["ref_state"] = occ
    elif variant == "ref_circuit" and cfg["ansatz"] in ("UCCSD", "UpCCGSD", "UCCGD", "HEA"):
        nq = mol.n_active_sos - (2 if cfg["mapping"].lower() == "scbk" else 0)
        gl = [Gate("RY", q, parameter=round(rng.uniform(0.2, 2.5), 4)) for q in range(nq)] + [Gate("CNOT", (q + 1) % nq, q) for q in range(nq - 1)]
        extra["ref_state"] = Circuit(gl)
        case["ref_state"] = "circuit:" + json.dumps([[g.name, list(g.target), list(g.control) if g.control else None, g.parameter] for g in gl])
    pen = None
    if variant == "penalty":
        mu = rng.choice([0.5, 1.5, 3.0])
        pen = {"N": [mu, mol.n_active_electrons + rng.choice([0, 0, 1])], "Sz": [mu, rng.choice([0, 0.5 * mol.active_spin])],
               "S^2": [mu, rng.choice([0, 2])]}
        pen = {k: v for k, v in pen.items() if rng.random() < 0.8} or {"N": [mu, mol.n_active_electrons]}
        extra["penalty_terms"] = pen
        case["penalty_terms"] = pen
    try:
        solver, mol = build_solver(cfg, rng, extra)
    except Exception as e:
        ctx.count("build_rejected:" + type(e).__name__)
        return True
    n_par = len(solver.initial_var_params)
    Hfull_min = None
    # the target operator is the encoded molecular Hamiltonian (+ penalties), built with the active-space data
    if cfg["mapping"].upper() != "HCB":
        from tangelo.toolboxes.qubit_mappings.mapping_transform import fermion_to_qubit_mapping
        from tangelo.toolboxes.operators import FermionOperator, count_qubits
        ref_f = FermionOperator()
        ref_f.terms = dict(mol.fermionic_hamiltonian.terms)
        if pen:
            sym = indep_sym(mol.n_active_mos)
            for name, (mu_, tgt) in pen.items():
                d = sym[name] - tgt
                pf = mu_ * d * d
                for t_, c_ in pf.terms.items():
                    ref_f.terms[t_] = ref_f.terms.get(t_, 0) + c_
        ref_q = fermion_to_qubit_mapping(ref_f, cfg["mapping"], n_spinorbitals=mol.n_active_sos, n_electrons=mol.n_active_electrons,
                                         up_then_down=cfg["utd"], spin=mol.active_spin)
        nq_h = mol.n_active_sos - (2 if cfg["mapping"].lower() == "scbk" else 0)
        ctx.count("hamiltonian:" + ("penalty" if pen else "plain"))
        if count_qubits(solver.qubit_hamiltonian) > nq_h or not np.allclose(fock.qubit_matrix(solver.qubit_hamiltonian, nq_h), fock.qubit_matrix(ref_q, nq_h), atol=1e-8):
            ctx.violation(f"the solver's target operator is not the {cfg['mapping']} image of the molecular Hamiltonian{' plus the requested penalties ' + str(pen) if pen else ''} "
                          f"built with the active-space electron / spin data ({cfg})", case)
            return False
    for rep in range(2):
        theta = rand_params(rng, n_par, zero=(rep == 0 and variant == "plain" and rng.random() < 0.3))
        c = {**case, "theta": theta}
        ctx.case({"cfg": cfg, "variant": variant, "theta": theta, "ref": case.get("ref_state")}, nontrivial=any(theta), sample=cfg["mol"] == "H2")
        ctx.count("energy:" + cfg["ansatz"] + ":" + cfg["mapping"])
        ham_before = dict(solver.qubit_hamiltonian.terms)
        E = solver.energy_estimation(theta)
        psi, n, _ = solver_state(solver)
        H = ham_matrix(solver, n)
        Eref = expval(H, psi)
        if abs(E - Eref) > TOL:
            ctx.violation(f"energy_estimation = {E!r} but <psi|H|psi> = {Eref!r} for the state its circuit prepares ({cfg}, {variant})", c)
            return False
        ev = np.linalg.eigvalsh((H + H.conj().T) / 2)
        if E < ev[0] - TOL:
            ctx.violation(f"energy {E!r} below the lowest eigenvalue {ev[0]!r} of the solver's Hamiltonian", c)
            return False
        if cfg["mapping"].upper() != "HCB" and mol.n_active_sos <= 8 and not pen:
            if Hfull_min is None:
                Hfull_min = fermi_min_eig(mol, cfg)
            if cfg["mapping"].lower() == "scbk":
                if abs(ev[0] - Hfull_min) > 1e-6:
                    ctx.violation(f"scBK solver Hamiltonian lowest eigenvalue {ev[0]!r} is not the sector ground energy {Hfull_min!r} of the molecule", c)
                    return False
            elif abs(ev[0] - Hfull_min) > 1e-6 or E < Hfull_min - TOL:
                ctx.violation(f"solver Hamiltonian lowest eigenvalue {ev[0]!r} differs from that of the molecular Hamiltonian {Hfull_min!r}", c)
                return False
        # symmetry expectation values
        for which in ("N", "Sz", "S^2"):
            ctx.count("expect:" + which)
            try:
                kw = {}
                if solver.ref_state is not None and rng.random() < 0.5:
                    kw["ref_state"] = solver.reference_circuit
                    mode = "explicit"
                else:
                    mode = "default"
                v = solver.operator_expectation(which, var_params=theta, **kw)
            except Exception as e:
                if dict(solver.qubit_hamiltonian.terms) != ham_before:
                    ctx.violation(f"operator_expectation('{which}') raised {type(e).__name__} and left the solver with a different target operator", c, known_id=None)
                    return False
                ctx.violation(f"operator_expectation('{which}') raises {type(e).__name__}: {str(e)[:100]} for a supported configuration ({cfg})", c)
                return False
            ref = expval(sym_reference(solver, mol, cfg, which, n), psi)
            if abs(v - ref) > TOL:
                ctx.violation(f"operator_expectation('{which}') = {v!r} but the state whose energy is reported has {ref!r} ({cfg}, {variant}, ref_state arg {mode})", c)
                return False
            if dict(solver.qubit_hamiltonian.terms) != ham_before:
                ctx.violation("operator_expectation did not restore the solver's Hamiltonian", c)
                return False
        E2 = solver.energy_estimation(theta)
        if abs(E2 - E) > 1e-10:
            ctx.violation(f"energy changes from {E!r} to {E2!r} after symmetry expectation requests", c)
            return False
    return True


def deflation_case(ctx, cfg, rng):
    from tangelo.linq import Circuit, Gate
    mol = get_mol(cfg["mol"])
    nq = mol.n_active_sos - (2 if cfg["mapping"].lower() == "scbk" else 0)
    if cfg["mapping"].upper() == "HCB":
        nq = mol.n_active_mos
    k = rng.randint(1, 3)
    coeff = rng.choice([1, 0.4, 2.5, rng.uniform(0.1, 3)])
    circs, dump = [], []
    for _ in range(k):
        # a deflation circuit may be narrower than the ansatz register (it then leaves the upper qubits in |0>): built
        # without n_qubits on the first w qubits only, or with gaps (idle qubits in the middle)
        shape = rng.random()
        w = nq if shape < 0.55 or nq < 2 else rng.randint(1, nq - 1)
        qs = list(range(w))
        if shape > 0.85 and w >= 3:
            qs = sorted(rng.sample(range(w), w - 1))
        gl = [Gate("RY", q, parameter=round(rng.uniform(0.2, 2.9), 4)) for q in qs]
        gl += [Gate("CNOT", qs[(i + 1) % len(qs)], qs[i]) for i in range(len(qs) - 1) if rng.random() < 0.7]
        gl += [Gate("RZ", q, parameter=round(rng.uniform(0.2, 2.9), 4)) for q in qs if rng.random() < 0.5]
        circs.append(Circuit(gl, n_qubits=nq) if w == nq and rng.random() < 0.7 else Circuit(gl))
        ctx.count("deflation:narrow-circuit" if circs[-1].width < nq else "deflation:full-width-circuit")
        dump.append([[g.name, list(g.target), list(g.control) if g.control else None, g.parameter] for g in gl])
    try:
        solver, mol = build_solver(cfg, rng, {"deflation_circuits": circs, "deflation_coeff": coeff})
        plain, _ = build_solver(cfg, rng)
    except Exception as e:
        ctx.count("build_rejected:" + type(e).__name__)
        return True
    theta = rand_params(rng, len(solver.initial_var_params))
    case = {"kind": "deflation", "cfg": cfg, "theta": theta, "coeff": coeff, "circuits": dump}
    ctx.case(case, nontrivial=True, sample=k == 2)
    ctx.count(f"deflation:k={k}")
    E = solver.energy_estimation(theta)
    E0 = plain.energy_estimation(theta)
    psi, n, _ = solver_state(solver)
    ov = 0.0
    for c in circs:
        phi, _ = vlib.np_run_state(c._gates, n)
        ov += abs(np.vdot(phi, psi)) ** 2
    if abs((E - E0) - coeff * ov) > TOL:
        ctx.violation(f"deflated energy exceeds the plain energy by {E - E0!r}, expected coeff*sum|<phi_k|psi>|^2 = {coeff * ov!r} (k={k}, coeff={coeff})", case)
        return False
    return True


def projective_case(ctx, rng):
    """H2 JW UCCSD with an ancilla-based parity projection and post-selection, optional reference circuit"""
    from tangelo.linq import Circuit, Gate
    cfg = {"mol": "H2", "ansatz": "UCCSD", "mapping": "JW", "utd": rng.random() < 0.5}
    mol = get_mol("H2")
    qs = rng.sample(range(4), 2)
    want = rng.choice(["0", "1"])
    proj = Circuit([Gate("CNOT", 4, qs[0]), Gate("CNOT", 4, qs[1]), Gate("MEASURE", 4)])
    extra = {"projective_circuit": proj, "simulate_options": {"desired_meas_result": want}}
    use_ref = rng.random() < 0.6
    if use_ref:
        gl = [Gate("RY", q, parameter=round(rng.uniform(0.2, 2.5), 4)) for q in range(4)] + [Gate("CNOT", 1, 0), Gate("CNOT", 3, 2)]
        extra["ref_state"] = Circuit(gl)
    solver, mol = build_solver(cfg, rng, extra)
    theta = rand_params(rng, len(solver.initial_var_params))
    case = {"kind": "projective", "cfg": cfg, "theta": theta, "qs": qs, "want": want, "ref": use_ref and [[g.name, list(g.target), g.parameter] for g in gl]}
    ctx.case(case, nontrivial=True, sample=True)
    ctx.count("projective" + (":ref" if use_ref else ""))
    try:
        E = solver.energy_estimation(theta)
    except ValueError as e:
        ctx.count("projective:zero-probability")
        return True
    psi, n, p = solver_state(solver)
    if p < 1e-9:
        return True
    H = embed(fock.qubit_matrix(solver.qubit_hamiltonian, 4), 4, n)
    Eref = expval(H, psi)
    if abs(E - Eref) > TOL:
        ctx.violation(f"projective energy {E!r} is not <psi|H|psi> = {Eref!r} of the post-selected state", case)
        return False
    for which in ("N", "Sz", "S^2"):
        kw = {"ref_state": solver.reference_circuit} if (use_ref and rng.random() < 0.5) else {}
        try:
            v = solver.operator_expectation(which, var_params=theta, **kw)
        except Exception as e:
            # the energy of this very state was just evaluated (success probability p > 0): the same post-selection
            # cannot be impossible for the same circuit
            ctx.violation(f"operator_expectation('{which}') raises {vlib.err_name(e)} ({str(e)[:90]}) on the state whose energy was just reported "
                          f"(post-selection probability {p:.3g}; projective circuit, reference circuit {use_ref}, ref_state arg {'explicit' if kw else 'default'})", case)
            return False
        ref = expval(sym_reference(solver, mol, cfg, which, n), psi)
        ctx.count("expect:" + which)
        if abs(v - ref) > TOL:
            ctx.violation(f"operator_expectation('{which}') = {v!r}, the post-selected state whose energy is reported has {ref!r} (projective circuit, reference circuit {use_ref}, ref_state arg {'explicit' if kw else 'default'})", case)
            return False
    return True


def qubit_ham_case(ctx, rng):
    """solver built from a qubit Hamiltonian and a custom circuit / HEA"""
    from tangelo.linq import Circuit, Gate
    from tangelo.toolboxes.operators import QubitOperator
    from tangelo.algorithms.variational import VQESolver, BuiltInAnsatze
    nq = rng.randint(1, 4)
    H = QubitOperator((), round(rng.uniform(-1, 1), 3))
    for _ in range(rng.randint(1, 6)):
        w = tuple((q, rng.choice("XYZ")) for q in sorted(rng.sample(range(nq), rng.randint(1, nq))))
        H += QubitOperator(w, round(rng.uniform(-1, 1), 3))
    gl = []
    for _ in range(rng.randint(2, 8)):
        q = rng.randrange(nq)
        r = rng.random()
        if r < 0.5:
            gl.append(Gate(rng.choice(["RX", "RY", "RZ"]), q, parameter=round(rng.uniform(-2, 2), 3), is_variational=True))
        elif r < 0.75 and nq > 1:
            gl.append(Gate("CNOT", q, (q + 1) % nq))
        else:
            gl.append(Gate(rng.choice(["H", "S", "X"]), q))
    if not any(g.is_variational for g in gl):
        gl.append(Gate("RY", 0, parameter=0.3, is_variational=True))
    circ = Circuit(gl, n_qubits=nq)
    with warnings.catch_warnings():
        warnings.simplefilter("ignore")
        s = VQESolver({"qubit_hamiltonian": H, "ansatz": circ})
        s.build()
    theta = rand_params(rng, len(s.initial_var_params))
    case = {"kind": "qubit_ham", "H": [[list(map(list, w)), c] for w, c in H.terms.items()], "gates": [[g.name, list(g.target), list(g.control) if g.control else None, g.parameter, g.is_variational] for g in gl], "theta": theta}
    ctx.case(case, nontrivial=True, sample=True)
    ctx.count("qubit_ham")
    E = s.energy_estimation(theta)
    psi, n, _ = solver_state(s)
    M = embed(fock.qubit_matrix(H, nq), nq, n)
    Eref = expval(M, psi)
    if abs(E - Eref) > TOL:
        ctx.violation(f"energy_estimation = {E!r}, <psi|H|psi> = {Eref!r} (qubit Hamiltonian + custom circuit)", case)
        return False
    if E < np.linalg.eigvalsh(M)[0] - TOL:
        ctx.violation("energy below the lowest eigenvalue", case)
        return False
    # a qubit operator request evaluates that operator on the same state and restores
    O = QubitOperator(tuple((q, rng.choice("XYZ")) for q in range(nq)), 1.0) + QubitOperator((), 0.25)
    v = s.operator_expectation(O, var_params=theta)
    ref = expval(embed(fock.qubit_matrix(O, nq), nq, n), psi)
    if abs(v - ref) > TOL:
        ctx.violation(f"operator_expectation(QubitOperator) = {v!r} vs {ref!r}", case)
        return False
    # a failing request must leave the solver unchanged
    before = dict(s.qubit_hamiltonian.terms)
    for bad in ("N", "Q", 3.5):
        try:
            s.operator_expectation(bad, var_params=theta)
        except Exception:
            pass
        if dict(s.qubit_hamiltonian.terms) != before:
            ctx.violation(f"a rejected operator_expectation({bad!r}) request leaves the solver with a different target operator", case)
            return False
    if abs(s.energy_estimation(theta) - E) > 1e-10:
        ctx.violation("energy changed after operator_expectation requests", case)
        return False
    return True


# ---------------------------------------------------------------- model correspondence: bookkeeping state machine
def machine_case(ctx, rng):
    """random history over one solver vs the Lean state machine (operators are opaque ids, values are not compared here)"""
    from tangelo.toolboxes.operators import QubitOperator
    cfg = {"mol": "H2", "ansatz": "UCCSD", "mapping": rng.choice(["JW", "BK", "scBK", "JKMN"]), "utd": rng.random() < 0.5}
    solver, mol = build_solver(cfg, rng, {"save_energies": True})
    ids = {}

    def op_id(qop):
        key = tuple(sorted((k, complex(v)) for k, v in qop.terms.items()))
        return ids.setdefault(key, len(ids))

    h0 = op_id(solver.qubit_hamiltonian)
    thetas = [rand_params(rng, 2) for _ in range(3)]

    def cur_params():
        v = [float(x) for x in np.array(solver.ansatz.var_params).ravel()]
        for i, t in enumerate(thetas):
            if np.allclose(v, t, atol=1e-12):
                return i
        return None

    def observe(kind, ev):
        return [kind, ev, op_id(solver.qubit_hamiltonian), cur_params(), len(solver.energies)]

    hist, code_out = [], []
    solver.energy_estimation(thetas[0])
    hist.append({"k": "energy", "theta": 0})
    code_out.append(observe("energy", h0))
    for _ in range(rng.randint(3, 9)):
        r = rng.random()
        t = rng.randrange(3)
        if r < 0.35:
            ham_id = op_id(solver.qubit_hamiltonian)
            solver.energy_estimation(thetas[t])
            hist.append({"k": "energy", "theta": t})
            code_out.append(observe("energy", ham_id))
            continue
        if r < 0.6:
            O, fail, tp = QubitOperator(((rng.randrange(2), rng.choice("XYZ")),), 1.0), "none", thetas[t]
        elif r < 0.7:
            O, fail, tp = "bogus", "invalid", thetas[t]
        elif r < 0.8:
            O, fail, tp = QubitOperator(((0, "X"),), 1.0), "update", thetas[t] + [0.5]        # wrong length: raises while writing the parameters
        elif r < 0.9:
            O, fail, tp = QubitOperator(((11, "X"),), 1.0), "eval", thetas[t]               # acts outside the register: raises while evaluating
        else:
            O, fail, tp = rng.choice(["N", "Sz", "S^2"]), "none", thetas[t]
        oid = op_id(O) if isinstance(O, QubitOperator) else 1000 + ["N", "Sz", "S^2", "bogus"].index(O)
        try:
            solver.operator_expectation(O, var_params=tp)
            kind = "expect"
        except Exception:
            kind = "raised"
        hist.append({"k": "expect", "op": oid, "theta": t, "fail": fail})
        code_out.append(observe(kind, oid if kind == "expect" else None))
    case = {"kind": "machine", "cfg": cfg, "hist": hist}
    ctx.case(case, nontrivial=len(hist) > 3, sample=True)
    ctx.count("machine")
    if any(o[2] != h0 for o in code_out):
        ctx.violation("after an operation history the solver's target operator is not the one it was built with: " + json.dumps(hist), case)
        return False
    j = ctx.model.ask({"op": "vqe_machine", "h0": h0, "hist": hist})
    model_out = j.get("out")
    if model_out != code_out:
        ctx.mismatch("solver bookkeeping differs from the model state machine", case, model_out, code_out)
        return False
    return True


def run(ctx):
    rng = ctx.rng
    ok = True
    CTX[0] = ctx
    DECOYS[0] = 0
    cfgs = [c for c in CONFIGS if not c.get("heavy")] if ctx.quick else list(CONFIGS)
    order = list(cfgs)
    rng.shuffle(order)
    n_cfg = ctx.n(len(order) if len(order) < 26 else 26, len(order))
    # every (ansatz, mapping) family at least once in quick: stratify by ansatz
    chosen, seen = [], set()
    for c in order:
        key = (c["ansatz"], c["mapping"])
        if key not in seen:
            seen.add(key); chosen.append(c)
    for c in order:
        if c not in chosen and len(chosen) < n_cfg:
            chosen.append(c)
    for cfg in (chosen if ctx.quick else order):
        for variant in (["plain", rng.choice(["ref_vector", "ref_circuit"])] if ctx.quick else ["plain", "ref_vector", "ref_circuit"]):
            if variant != "plain" and cfg["ansatz"] not in ("UCCSD", "UpCCGSD", "UCCGD", "HEA"):
                continue
            ok &= energy_case(ctx, cfg, rng, variant)
            if len(ctx.violations) + len(ctx.mismatches) >= 3:
                return ok
    # penalty terms: every encoding, molecules with and without (an odd number of) frozen occupied orbitals
    pen_cfgs = [c for c in cfgs if c["ansatz"] == "UCCSD" and c["mol"] in ("H2", "H4f", "H4+")]
    rng.shuffle(pen_cfgs)
    must = [c for c in pen_cfgs if c["mapping"] == "scBK" and c["mol"] == "H4f"][:2]
    for cfg in must + [c for c in pen_cfgs if c not in must][:ctx.n(4, len(pen_cfgs))]:
        ok &= energy_case(ctx, cfg, rng, "penalty")
        if len(ctx.violations) + len(ctx.mismatches) >= 3:
            return ok
    defl = [c for c in cfgs if c["ansatz"] in ("UCCSD", "UpCCGSD", "HEA", "pUCCD", "QCC") and c["mol"] in ("H2", "H4f")]
    for _ in range(ctx.n(8, 40)):
        ok &= deflation_case(ctx, rng.choice(defl), rng)
        if len(ctx.violations) + len(ctx.mismatches) >= 3:
            return ok
    for _ in range(ctx.n(6, 30)):
        ok &= projective_case(ctx, rng)
    for _ in range(ctx.n(15, 100)):
        ok &= qubit_ham_case(ctx, rng)
    for _ in range(ctx.n(6, 40)):
        ok &= machine_case(ctx, rng)
    return ok


def replay(ctx, obj):
    rng = random.Random(0)
    k = obj.get("kind")
    print("replay of a stored C08 case: re-running the generators with the stored configuration")
    if k == "energy":
        return energy_case(ctx, obj["cfg"], rng, obj["variant"])
    if k == "deflation":
        return deflation_case(ctx, obj["cfg"], rng)
    if k == "projective":
        return all(projective_case(ctx, rng) for _ in range(20))
    if k == "qubit_ham":
        return all(qubit_ham_case(ctx, rng) for _ in range(50))
    return machine_case(ctx, rng)


def search(ctx, broken):
    rng = random.Random(4242)
    ok = True
    for cfg in [c for c in CONFIGS if c["mol"] == "H2"]:
        for variant in ("plain", "ref_vector", "ref_circuit"):
            ok &= energy_case(ctx, cfg, rng, variant)
    for _ in range(30):
        ok &= deflation_case(ctx, {"mol": "H2", "ansatz": "UCCSD", "mapping": "JW", "utd": False}, rng)
        ok &= projective_case(ctx, rng)
        ok &= qubit_ham_case(ctx, rng)
    return ok
