"""C13 — reduced density matrices reproduce energies and electron counts."""
import itertools, json, math, random, warnings
import numpy as np
from fractions import Fraction
import vlib, fock

CLAIM = {
 "text": "Proof (Lean 4), partial. Modelled exactly and proved for every size: (1) index placement of the variational solver (a term a+_i a+_j a_k a_l is accumulated at [i, l, j, k]) and the spin summation i -> i div 2, with the theorem that the accumulation loop yields, at [p, q], exactly the sum of the four spin blocks [2p+s, 2q+t]; (2) the 1-RDM padding (2 on the frozen occupied diagonal, active block scattered to the active positions): its trace is the active trace plus twice the number of frozen occupied orbitals, it is symmetric when the active block is; (3) the energy contraction with the index transposition (0,3,1,2): contracting the transposed integrals with an RDM equals contracting the integrals with the inversely transposed RDM, for arbitrary tensors over a commutative ring (finite sums over Fin n); (4) Hermiticity is carried through the pipeline: if the value stored for the Hermitian conjugate of a term is the conjugate of the term's value, the placed 2-RDM is Hermitian in chemist notation (place2_hermitian), the spin-summed tensor is Hermitian (spinSum_hermitian) and so is the padded 1-RDM (pad1_hermitian); storing ONE value at both positions is Hermitian only for self-conjugate values (same_value_both_positions_not_hermitian). NOT proved in Lean: that measured expectation values are the density-matrix elements (C02/C03 correspondence), the 2-RDM mean-field removal / re-insertion algebra of the padding, and anything inside PySCF (FCI, CCSD lambda, MP2 density matrices). Those are decided by the numerical oracle: for random parameter vectors, encodings and orderings the variational RDMs are compared element-wise with <a+ a> and <a+ a+ a a> of the independently simulated state, contracted to the solver's energy, checked for Hermiticity and traces; FCI / CCSD / MP2 RDMs are contracted, traced and checked for Hermiticity; padded RDMs are contracted with the full-space integrals of the same molecule without frozen orbitals, traced to the total electron count, and the arguments compared with copies taken before the call.",
 "note": "Trusted: Lean kernel + standard axioms; numpy; PySCF integrals and classical solvers; cirq simulator (through the solver's backend).",
 "technique": "Lean 4 theorems on index placement, spin summation, 1-RDM padding and the contraction transposition + element-wise and energy/trace/Hermiticity oracle for all solvers + argument-immutability oracle for the padding helpers"}

RULE = ("variational: H2, H4, H4(frozen), H4+, H4 triplet x UCCSD x JW/BK/scBK/JKMN x both orderings x reference-state override, 2 random parameter vectors, spin-summed and spin-resolved; "
        "classical: FCI, CCSD (RHF/ROHF/UHF), MP2 on H2, H4, H4+, H4 triplet, LiH and random-geometry H chains with frozen-orbital choices (int, lists, non-contiguous, virtual); "
        "padding: restricted and unrestricted with frozen occupied / virtual / per-spin lists; non-trivial: correlated state (non-zero parameters / correlated solver); distinct by configuration")
TRUSTED = ["numpy", "PySCF", "cirq simulator"]
ASSUMPTIONS = ["tolerance 1e-6 on energies (CCSD/MP2 lambda convergence), 1e-7 on variational quantities"]


def get_mol(name, frozen=None, uhf=False):
    import mols
    return mols.molecule(name, frozen=frozen, uhf=uhf)


def herm_defect(r1, r2):
    d1 = float(np.abs(r1 - r1.conj().T).max())
    d2 = float(np.abs(r2 - r2.conj().transpose(1, 0, 3, 2)).max())
    return d1, d2


def fock_state_from_jw(psi, n, utd):
    """qubit state (bit q of index = qubit q) under JW -> Fock state in the alternating spin-orbital ordering"""
    if not utd:
        return psi
    out = np.zeros_like(psi)
    half = n // 2
    for x in range(2 ** n):
        y = 0
        for q in range(n):
            if (x >> q) & 1:
                so = 2 * q if q < half else 2 * (q - half) + 1
                y |= 1 << so
        out[y] = psi[x]
    # sign: reordering fermionic modes permutes creation operators; up-then-down to alternating is a fixed permutation,
    # the sign of the determinant under this relabelling
    for x in range(2 ** n):
        occ = [2 * q if q < half else 2 * (q - half) + 1 for q in range(n) if (x >> q) & 1]
        inv = sum(1 for i in range(len(occ)) for j in range(i + 1, len(occ)) if occ[i] > occ[j])
        y = sum(1 << so for so in occ)
        if inv % 2:
            out[y] = -out[y]
    return out


def full_space_energy(mol, p1, p2, uhf):
    """independent contraction of full-space RDMs with the MO integrals of the molecule's own mean field"""
    from pyscf import ao2mo
    mf = mol.mean_field
    hcore = mf.get_hcore()
    if uhf:
        ca, cb = mf.mo_coeff
        n = ca.shape[1]
        h_a, h_b = ca.T @ hcore @ ca, cb.T @ hcore @ cb
        eri_aa = ao2mo.restore(1, ao2mo.kernel(mf.mol, ca), n)
        eri_bb = ao2mo.restore(1, ao2mo.kernel(mf.mol, cb), n)
        eri_ab = ao2mo.kernel(mf.mol, (ca, ca, cb, cb), compact=False).reshape(n, n, n, n)
        return float(mf.energy_nuc() + np.sum(h_a * p1[0]) + np.sum(h_b * p1[1])
                     + 0.5 * np.sum(eri_aa * p2[0]) + np.sum(eri_ab * p2[1]) + 0.5 * np.sum(eri_bb * p2[2]))
    c = mf.mo_coeff
    n = c.shape[1]
    h = c.T @ hcore @ c
    eri = ao2mo.restore(1, ao2mo.kernel(mf.mol, c), n)
    return float(mf.energy_nuc() + np.sum(h * p1) + 0.5 * np.sum(eri * p2))


def vqe_case(ctx, rng, molname, frozen, mapping, utd, variant):
    from tangelo.algorithms.variational import VQESolver, BuiltInAnsatze
    from tangelo.linq import Circuit, Gate
    mol = get_mol(molname, frozen)
    opts = {"molecule": mol, "ansatz": BuiltInAnsatze.UCCSD, "qubit_mapping": mapping, "up_then_down": utd}
    if variant == "hea":
        # a hardware-efficient ansatz: complex amplitudes, no symmetry conserved (the RDMs must still be Hermitian and
        # reproduce the energy; the trace is <N> of that state)
        opts["ansatz"] = BuiltInAnsatze.HEA
        opts["ansatz_options"] = {"n_layers": 1}
    case = {"kind": "vqe", "mol": molname, "frozen": frozen, "mapping": mapping, "utd": utd, "variant": variant}
    if variant == "ref_vector":
        na = (mol.n_active_electrons + mol.active_spin) // 2
        nb = mol.n_active_electrons - na
        occ = [0] * mol.n_active_sos
        for i in rng.sample(range(mol.n_active_mos), na):
            occ[2 * i] = 1
        for i in rng.sample(range(mol.n_active_mos), nb):
            occ[2 * i + 1] = 1
        opts["ref_state"] = occ
        case["ref_state"] = occ
    with warnings.catch_warnings():
        warnings.simplefilter("ignore")
        s = VQESolver(opts)
        s.build()
    n_par = len(s.initial_var_params)
    ok = True
    for rep in range(2):
        theta = [0.0] * n_par if (rep == 0 and rng.random() < 0.25) else [round(rng.uniform(-0.8, 0.8), 5) for _ in range(n_par)]
        c = {**case, "theta": theta}
        ctx.case(c, nontrivial=any(theta), sample=molname == "H2")
        ctx.count(f"vqe:{mapping}:{'utd' if utd else 'alt'}")
        E = s.energy_estimation(theta)
        r1, r2 = s.get_rdm(theta)
        E_rdm = mol.energy_from_rdms(r1, r2)
        if abs(E - E_rdm) > 1e-7:
            ctx.violation(f"VQE RDMs ({molname}, frozen={frozen}, {mapping}, up_then_down={utd}, {variant}) contract to {E_rdm!r}, the solver's energy is {E!r}", c)
            return False
        d1, d2 = herm_defect(r1, r2)
        if d1 > 1e-7 or d2 > 1e-7:
            ctx.violation(f"VQE RDMs are not Hermitian (defects {d1:.2e}, {d2:.2e}) ({molname}, {mapping})", c)
            return False
        # the trace is <N> of the same state; it is the number of active electrons when that state conserves it. The
        # word-by-word product that implements UCCSD is not bound to (H4 under JKMN: <N> = 4.08 for generic parameters),
        # so conservation is read off the state: <N> = n_e and zero variance.
        n_state = s.operator_expectation("N", theta)
        if abs(np.trace(r1) - n_state) > 1e-7:
            ctx.violation(f"trace of the VQE 1-RDM is {np.trace(r1)!r}, <N> of the same state is {n_state!r}", c)
            return False
        # (all-zero parameters give the reference determinant for the excitation ansaetze, not for HEA: its entangling
        # layer stays)
        conserves = (not any(theta) and variant != "hea") or abs(n_state - mol.n_active_electrons) < 1e-9
        ctx.count("vqe:state-conserves-N" if conserves else "vqe:state-does-not-conserve-N")
        if conserves and abs(np.trace(r1) - mol.n_active_electrons) > 1e-7:
            ctx.violation(f"trace of the VQE 1-RDM is {np.trace(r1)!r}, active electrons {mol.n_active_electrons}", c)
            return False
        s1, s2 = s.get_rdm(theta, sum_spin=False)
        n = mol.n_active_sos
        sum1 = np.zeros_like(r1)
        for i, j in itertools.product(range(n), repeat=2):
            sum1[i // 2, j // 2] += s1[i, j]
        if np.abs(sum1 - r1).max() > 1e-9 or abs(np.trace(s1) - n_state) > 1e-7 or np.abs(s1 - s1.conj().T).max() > 1e-7:
            ctx.violation("spin-resolved 1-RDM is inconsistent with the spin-summed one / not Hermitian / wrong trace", c)
            return False
        # element-wise against the independently simulated state (JW only: qubits are occupations)
        if mapping == "JW":
            circ = s.ansatz.circuit if s.ref_state is None else s.reference_circuit + s.ansatz.circuit
            psi, _ = vlib.np_run_state(circ._gates, n)
            phi = fock_state_from_jw(psi, n, utd)
            lad = [fock.ladder(j, False, n) for j in range(n)]
            for (i, j) in [(a, b) for a in range(n) for b in range(n)]:
                ref = np.vdot(phi, lad[i].conj().T @ (lad[j] @ phi))
                if (((i, 1), (j, 0)) in mol.fermionic_hamiltonian.terms) and abs(s1[i, j] - ref) > 1e-7:
                    ctx.violation(f"spin-resolved 1-RDM element [{i},{j}] = {s1[i, j]!r}, <a+_{i} a_{j}> of the prepared state is {ref!r}", c)
                    return False
            for key in list(mol.fermionic_hamiltonian.terms)[:60]:
                if len(key) != 4:
                    continue
                i, j, k, l = (t[0] for t in key)
                ref = np.vdot(phi, lad[i].conj().T @ (lad[j].conj().T @ (lad[k] @ (lad[l] @ phi))))
                if abs(s2[i, l, j, k] - ref) > 1e-7 and len({(i, j, k, l)}) == 1:
                    # several Hamiltonian terms may be accumulated at one position only if they are the same operator
                    same = [kk for kk in mol.fermionic_hamiltonian.terms if len(kk) == 4 and (kk[0][0], kk[3][0], kk[1][0], kk[2][0]) == (i, l, j, k)]
                    if len(same) == 1:
                        ctx.violation(f"2-RDM element [{i},{l},{j},{k}] = {s2[i, l, j, k]!r}, <a+_{i} a+_{j} a_{k} a_{l}> is {ref!r}", c)
                        return False
    return ok


def classical_case(ctx, rng, solver_name, molname, frozen, uhf):
    from tangelo.algorithms.classical import FCISolver, CCSDSolver, MP2Solver
    try:
        mol = get_mol(molname, frozen, uhf)
    except (TypeError, ValueError, NotImplementedError):
        ctx.count("molecule-rejected")
        return True
    case = {"kind": "classical", "solver": solver_name, "mol": molname, "frozen": frozen, "uhf": uhf}
    ctx.case(case, nontrivial=True, sample=molname == "H2")
    ctx.count(f"{solver_name}:{'uhf' if uhf else 'r'}")
    cls = {"FCI": FCISolver, "CCSD": CCSDSolver, "MP2": MP2Solver}[solver_name]
    try:
        with warnings.catch_warnings():
            warnings.simplefilter("ignore")
            solver = cls(mol)
            E = solver.simulate()
            r1, r2 = solver.get_rdm()
    except (NotImplementedError, RuntimeError) as e:
        ctx.count(f"{solver_name}:not-offered")
        return True
    E_rdm = mol.energy_from_rdms(r1, r2)
    if abs(E - E_rdm) > 1e-6:
        kid = "C13-mp2-rohf-energy" if (solver_name == "MP2" and not uhf and mol.spin != 0 and abs(E - E_rdm) < 2e-3) else None
        ctx.violation(f"{solver_name} RDMs of {molname} (frozen={frozen}, uhf={uhf}) contract to {E_rdm!r}, the solver's energy is {E!r}", case, known_id=kid)
        if kid is None:
            return False
    if uhf:
        tr = float(np.trace(r1[0]) + np.trace(r1[1]))
        herm = max(float(np.abs(r1[i] - r1[i].T).max()) for i in range(2))
    else:
        tr = float(np.trace(r1))
        herm = max(herm_defect(np.asarray(r1), np.asarray(r2)))
    n_act = sum(mol.n_active_electrons) if isinstance(mol.n_active_electrons, (tuple, list)) else mol.n_active_electrons
    if abs(tr - n_act) > 1e-6:
        ctx.violation(f"{solver_name} 1-RDM of {molname} (frozen={frozen}, uhf={uhf}) traces to {tr!r}, active electrons {n_act}", case)
        return False
    if herm > 1e-6:
        ctx.violation(f"{solver_name} RDMs of {molname} (frozen={frozen}, uhf={uhf}) are not Hermitian (defect {herm:.2e})", case)
        return False
    # padding with the frozen orbitals
    if frozen is not None and solver_name != "MP2":
        from tangelo.toolboxes.molecular_computation.rdms import pad_rdms_with_frozen_orbitals_restricted, pad_rdms_with_frozen_orbitals_unrestricted
        ctx.count("pad:" + ("uhf" if uhf else "r"))
        if uhf:
            c1 = [np.array(x, copy=True) for x in r1]
            c2 = [np.array(x, copy=True) for x in r2]
            p1, p2 = pad_rdms_with_frozen_orbitals_unrestricted(mol, r1, r2)
            same = all(np.array_equal(a, b) for a, b in zip(c1, r1)) and all(np.array_equal(a, b) for a, b in zip(c2, r2))
            trp = float(np.trace(p1[0]) + np.trace(p1[1]))
        else:
            c1, c2 = np.array(r1, copy=True), np.array(r2, copy=True)
            p1, p2 = pad_rdms_with_frozen_orbitals_restricted(mol, r1, r2)
            same = np.array_equal(c1, r1) and np.array_equal(c2, r2)
            trp = float(np.trace(p1))
        if not same:
            ctx.violation(f"pad_rdms_with_frozen_orbitals_{'unrestricted' if uhf else 'restricted'} altered the arrays passed in ({molname}, frozen={frozen})", case)
            return False
        if abs(trp - mol.n_electrons) > 1e-6:
            ctx.violation(f"padded 1-RDM of {molname} (frozen={frozen}, uhf={uhf}) traces to {trp!r}, total electrons {mol.n_electrons}", case)
            return False
        E_full = full_space_energy(mol, p1, p2, uhf)
        n_tot = mol.n_electrons
        pairs = (sum(float(np.einsum("iijj", x)) * f for x, f in zip(p2, (1, 2, 1)))) if uhf else float(np.einsum("iijj", p2))
        if abs(pairs - n_tot * (n_tot - 1)) > 1e-5:
            ctx.violation(f"padded 2-RDM of {molname} (frozen={frozen}, uhf={uhf}) carries {pairs!r} electron pairs instead of {n_tot * (n_tot - 1)}", case)
            return False
        if abs(E_full - E) > 1e-6:
            ctx.violation(f"padded RDMs of {molname} (frozen={frozen}, uhf={uhf}, {solver_name}) contract with the full-space integrals to {E_full!r}, the solver's energy is {E!r}", case)
            return False
    return True


def model_case(ctx, rng):
    """index placement, spin summation and 1-RDM padding vs the Lean model on small integer tensors"""
    from tangelo.toolboxes.molecular_computation.rdms import pad_rdms_with_frozen_orbitals_restricted
    n_mos = rng.randint(2, 5)
    n_occ = rng.randint(1, n_mos - 1)
    frozen = sorted(rng.sample(range(n_mos), rng.randint(0, n_mos - 1)))
    active = [i for i in range(n_mos) if i not in frozen]
    frozen_occ = [i for i in frozen if i < n_occ]
    one = [[rng.randint(-3, 3) for _ in active] for _ in active]
    j = ctx.model.ask({"op": "pad1", "n_mos": n_mos, "n_occ": n_occ, "active": active, "one": one})

    class M:
        pass
    m = M()
    m.uhf = False
    m.n_mos = n_mos
    m.n_active_mos = len(active)
    m.mo_occ = np.array([2.0] * n_occ + [0.0] * (n_mos - n_occ))
    m.frozen_occupied = frozen_occ
    m.active_mos = active
    two = np.zeros((len(active),) * 4)
    p1, _ = pad_rdms_with_frozen_orbitals_restricted(m, np.array(one, dtype=float), two)
    case = {"kind": "model", "n_mos": n_mos, "n_occ": n_occ, "active": active, "one": one}
    ctx.case(case, nontrivial=bool(frozen), sample=n_mos <= 3)
    ctx.count("model:pad1")
    code = [[int(round(v)) for v in row] for row in p1.tolist()]
    # the code writes 2 on the first n_occ diagonal entries and then overwrites the active block
    if j.get("out") != code:
        ctx.mismatch("1-RDM padding differs from the model", case, j.get("out"), code)
        return False
    # spin summation of a random spin-resolved 1-tensor
    n = 2 * rng.randint(1, 3)
    s1 = [[rng.randint(-3, 3) for _ in range(n)] for _ in range(n)]
    jj = ctx.model.ask({"op": "spinsum1", "t": s1})
    ref = np.zeros((n // 2, n // 2), dtype=int)
    for a, b in itertools.product(range(n), repeat=2):
        ref[a // 2, b // 2] += s1[a][b]
    ctx.count("model:spinsum")
    if jj.get("out") != ref.tolist():
        ctx.mismatch("spin summation differs from the model", {"kind": "model", "s1": s1}, jj.get("out"), ref.tolist())
        return False
    return True


VQE_CONFIGS = [("H2", None), ("H4", (0, 3)), ("H4+", None), ("H4t", (3,)), ("H4", None), ("H4", (3,))]
CLASSICAL = [("H2", None), ("H4", None), ("H4", (0,)), ("H4", (0, 3)), ("H4", (3,)), ("H4+", None), ("H4+", (0,)), ("H4t", None), ("H4t", (0,)), ("H3+", None), ("H3+", (2,)),
             ("LiH", (0,)), ("LiH", (0, 4, 5)), ("LiH", (0, 3)), ("LiH", None)]
UHF_FROZEN = [None, (0,), (0, 5), ((0,), (0,)), ((0,), ()), ((0, 5), (4,)), ((), (0,))]


def run(ctx):
    rng = ctx.rng
    ok = True
    combos = [(m, f, mp, u) for (m, f) in VQE_CONFIGS for mp in ("JW", "BK", "scBK", "JKMN") for u in (False, True)]
    rng.shuffle(combos)
    heavy = [c for c in combos if (c[0] == "H4" and c[1] is None) or c[0] == "H4+"]
    light = [c for c in combos if c not in heavy]
    # spin-dependent encoding of a high-spin molecule: every run - preceded by the singlet of the same active size under
    # the same encoding and ordering (what one solver computed must not leak into the next one)
    must = []
    for u in (False, True):
        must += [("H4", (3,), "scBK", u), ("H4t", (3,), "scBK", u)]
    chosen = must + [c for c in light if c not in must][:ctx.n(8, len(light))] + heavy[:ctx.n(0, 6)]
    for (m, f, mp, u) in chosen:
        for variant in (["plain"] if rng.random() < 0.6 else ["ref_vector"]):
            ok &= vqe_case(ctx, rng, m, f, mp, u, variant)
    for mp in ("JW", "BK", "scBK", "JKMN")[:ctx.n(2, 4)]:
        ok &= vqe_case(ctx, rng, "H2", None, mp, rng.random() < 0.5, "hea")
    ok &= vqe_case(ctx, rng, "H4", (0, 3), rng.choice(["JW", "BK"]), rng.random() < 0.5, "hea")
    # the listed finding is re-demonstrated on every run
    ok &= classical_case(ctx, rng, "MP2", "H4t", None, False)
    cl = list(CLASSICAL)
    rng.shuffle(cl)
    for (m, f) in cl[:ctx.n(9, len(cl))]:
        for sname in ("FCI", "CCSD", "MP2"):
            ok &= classical_case(ctx, rng, sname, m, f, False)
    uh = [(m, f) for m in ("H4+", "LiH", "H4t") for f in UHF_FROZEN if not (m != "LiH" and f is not None and (5 in (f if not isinstance(f[0], tuple) else f[0] + f[1])))]
    rng.shuffle(uh)
    for (m, f) in uh[:ctx.n(6, len(uh))]:
        ok &= classical_case(ctx, rng, "CCSD", m, f, True)
    for _ in range(ctx.n(40, 400)):
        ok &= model_case(ctx, rng)
    return ok


def replay(ctx, obj):
    rng = random.Random(3)
    k = obj.get("kind")
    tup = lambda f: None if f is None else tuple(tuple(x) if isinstance(x, list) else x for x in f)
    if k == "vqe":
        return vqe_case(ctx, rng, obj["mol"], tup(obj["frozen"]), obj["mapping"], obj["utd"], obj["variant"])
    if k == "classical":
        return classical_case(ctx, rng, obj["solver"], obj["mol"], tup(obj["frozen"]), obj["uhf"])
    return all(model_case(ctx, rng) for _ in range(200))


def search(ctx, broken):
    rng = random.Random(31)
    ok = True
    for (m, f) in [("H2", None), ("H4", (0, 3)), ("H4t", (3,))]:
        for mp in ("JW", "BK", "scBK", "JKMN"):
            for u in (False, True):
                ok &= vqe_case(ctx, rng, m, f, mp, u, "plain")
    for (m, f) in CLASSICAL:
        for sname in ("FCI", "CCSD"):
            ok &= classical_case(ctx, rng, sname, m, f, False)
    for f in UHF_FROZEN:
        ok &= classical_case(ctx, rng, "CCSD", "LiH", f, True)
    return ok
