"""C16 — operator arithmetic returns correct values and never mutates operands."""
import copy, random, itertools
from fractions import Fraction
import numpy as np
import warnings
import vlib
from vlib import frac_str

CLAIM = {
 "text": "Proof (Lean 4): the specification of operator arithmetic is a store of finitely supported maps key -> coefficient (fermionic keys multiply by concatenation, Pauli words by the single-qubit table with phases); binary operations write only their destination by construction. Proved about the symbolic form: for every ring homomorphism of the coefficients with central image and every interpretation of the keys, adding a term, adding two term lists and scaling evaluate to the sum / scalar multiple of the values, and - whenever the interpretation respects the product of two single keys (concatenation of ladder strings, proved; the Pauli-word product with its phase, hypothesis discharged by the single-qubit tables) - the product of two operators evaluates to the product of their values: the canonical-form bookkeeping (sorted keys, merged coefficients, dropped zeros) never changes the operator. Proved about the array (multiform) form for words of ANY length: the product row is the element-wise XOR of the integer codes; exchanging the factors gives the same word with the phase changed by (-1)^(sum a_x b_z + a_z b_x), hence the symplectic test of do_commute is exactly 'the symbolic products agree'; the overall do_commute answer is 'every term commutes with every term'; single-qubit product table: associativity with phases, squares to identity (complete finite tables by kernel decision). Tie to the code: history correspondence - random chains of +, -, *, scalar forms, in-place forms over a store of shared operands of mixed classes (Tangelo / openfermion FermionOperator, QubitOperator, QubitHamiltonian), every binding compared exactly (dyadic coefficients) after every operation; array form: products, collapse and commutation of random operators compared with the model and with the symbolic product.",
 "note": "Trusted: Lean kernel + standard axioms; openfermion's SymbolicOperator type rules (a TypeError refusal for mixed classes is accepted, an AttributeError or a silent change of an operand is not); numpy. Coefficients are dyadic rationals so float arithmetic is exact.",
 "technique": "Lean 4 theorems on the Pauli/array algebra (all word lengths) + specification store + history correspondence with exact coefficients"}

RULE = ("histories of 4-12 operations (+, -, *, scalar*op, op*scalar, op+scalar, scalar-op, +=, *=, copy) over a store of <= 6 operators with shared operands and mixed classes; "
        "every operand and result compared after every op; array form: all pairs of single words on <= 2 qubits and random multi-term pairs on <= 4 qubits; non-trivial history: >= 3 successful ops; distinct by hash")
TRUSTED = ["openfermion SymbolicOperator type checks (refusals)"]
ASSUMPTIONS = ["dyadic coefficients: exact float arithmetic"]

CODE = {"Z": 1, "X": 2, "Y": 3}
LET = {1: "Z", 2: "X", 3: "Y"}
MAPS = {None: -1, "JW": 1, "BK": 2}


def rand_coef(rng):
    re = Fraction(rng.randint(-8, 8), 4)
    im = Fraction(rng.randint(-4, 4), 4) if rng.random() < 0.3 else Fraction(0)
    if re == 0 and im == 0:
        re = Fraction(1)
    return re, im


def to_complex(c):
    return complex(float(c[0]), float(c[1])) if c[1] != 0 else float(c[0])


def typed_scalar(c, zt):
    """the same number (a multiple of 1/4, exactly representable everywhere) as one of the scalar types the operator
    classes accept: python int / float / complex and numpy signed, unsigned, single- and double-precision scalars"""
    re, im = c
    if im != 0:
        return [complex, np.complex128, np.complex64][zt % 3](complex(float(re), float(im)))
    if re.denominator == 1:
        v = int(re)
        kinds = [int, float, np.int64, np.int32, np.float32, np.float64] + ([np.uint8, np.uint16, np.uint64] if v >= 0 else [np.int8])
        return kinds[zt % len(kinds)](v)
    return [float, np.float64, np.float32][zt % 3](float(re))


def rand_terms(rng, kind, n=4, allow_empty=False):
    ts = {}
    for _ in range(rng.randint(0 if (allow_empty and rng.random() < 0.3) else 1, 3) if not (allow_empty and rng.random() < 0.15) else 0):
        if kind == "fermion":
            k = tuple((rng.randrange(n), rng.randint(0, 1)) for _ in range(rng.randint(0, 3)))
        else:
            qs = sorted(rng.sample(range(n), rng.randint(0, min(3, n))))
            k = tuple((q, rng.choice([1, 2, 3])) for q in qs)
        ts[k] = rand_coef(rng)
    return ts


def make_py(cls, terms, attrs):
    import openfermion as of
    from tangelo.toolboxes.operators import FermionOperator, QubitOperator, QubitHamiltonian
    if cls == "tfermion":
        op = FermionOperator(n_spinorbitals=attrs[0], n_electrons=attrs[1], spin=attrs[2])
        for k, c in terms.items():
            op += FermionOperator(k, to_complex(c), n_spinorbitals=attrs[0], n_electrons=attrs[1], spin=attrs[2])
    elif cls == "offermion":
        op = of.FermionOperator()
        for k, c in terms.items():
            op += of.FermionOperator(k, to_complex(c))
    else:
        mk = {"tqubit": lambda k, c: QubitOperator(k, c), "ofqubit": lambda k, c: of.QubitOperator(k, c),
              "qham": lambda k, c: QubitHamiltonian(k, c, mapping=attrs[0], up_then_down=attrs[1])}[cls]
        op = mk((), 0.0)
        op.terms = {}
        for k, c in terms.items():
            op += mk(tuple((q, LET[p]) for q, p in k), to_complex(c))
    return op


def dump_py(op):
    import openfermion as of
    from tangelo.toolboxes.operators import FermionOperator, QubitHamiltonian
    kind = "fermion" if isinstance(op, of.FermionOperator) else "qubit"
    terms = {}
    for k, c in op.terms.items():
        c = complex(c)
        if c == 0:
            continue
        key = tuple((i, (a if kind == "fermion" else CODE[a])) for i, a in k)
        terms[key] = (Fraction(c.real), Fraction(c.imag))
    if isinstance(op, FermionOperator):
        attrs = [(-1 if x is None else int(x)) for x in (op.n_spinorbitals, op.n_electrons, op.spin)]
    elif isinstance(op, QubitHamiltonian):
        attrs = [MAPS.get(op.mapping, 9), -1 if op.up_then_down is None else int(op.up_then_down)]
    else:
        attrs = None
    return {"kind": kind, "terms": terms, "attrs": attrs}


def dump_model(j):
    terms = {}
    for k, c in j["terms"]:
        terms[tuple((a, b) for a, b in k)] = (Fraction(c[0]), Fraction(c[4]))
        if any(Fraction(x) != 0 for i, x in enumerate(c) if i not in (0, 4)):
            return None
    return {"kind": j["kind"], "terms": terms, "attrs": j["attrs"]}


def model_terms(terms):
    return [[[list(f) for f in k], [frac_str(c[0]), 0, 0, 0, frac_str(c[1]), 0, 0, 0]] for k, c in terms.items()]


def enc_hist(hist):
    out = []
    for o in hist:
        o = dict(o)
        if "terms" in o:
            o["terms"] = [[[list(f) for f in k], [str(c[0]), str(c[1])]] for k, c in o["terms"].items()]
        if "z" in o:
            o["z"] = [str(o["z"][0]), str(o["z"][1])]
        if o.get("attrs") is not None:
            o["attrs"] = list(o["attrs"])
        out.append(o)
    return out


def dec_hist(hist):
    out = []
    for o in hist:
        o = dict(o)
        if "terms" in o:
            o["terms"] = {tuple(tuple(f) for f in k): (Fraction(c[0]), Fraction(c[1])) for k, c in o["terms"]}
        if "z" in o:
            o["z"] = (Fraction(o["z"][0]), Fraction(o["z"][1]))
        if o.get("attrs") is not None:
            o["attrs"] = tuple(o["attrs"])
        out.append(o)
    return out


def snapshot(store):
    return {k: dump_py(v) for k, v in store.items()}


def run_history(ctx, hist):
    import openfermion as of
    m = ctx.model
    m.ask({"op": "o_reset"})
    store = {}
    done = []
    n_ok = 0
    for op in hist:
        k = op["op"]
        if any(op.get(r) is not None and op[r] not in store for r in ("a", "b")):
            continue
        before = snapshot(store)
        ids_before = {kk: id(v) for kk, v in store.items()}
        err = None
        try:
            if k == "o_new":
                store[op["dst"]] = make_py(op["cls"], op["terms"], op["attrs"])
            elif k == "o_add":
                store[op["dst"]] = store[op["a"]] + store[op["b"]]
            elif k == "o_sub":
                store[op["dst"]] = store[op["a"]] - store[op["b"]]
            elif k == "o_mul":
                store[op["dst"]] = store[op["a"]] * store[op["b"]]
            elif k == "o_smul":
                z = typed_scalar(op["z"], op.get("zt", 0))
                store[op["dst"]] = (z * store[op["a"]]) if op["left"] else (store[op["a"]] * z)
            elif k == "o_sadd":
                z = typed_scalar(op["z"], op.get("zt", 0))
                if op.get("minus"):
                    store[op["dst"]] = store[op["a"]] - z            # operator - scalar
                else:
                    store[op["dst"]] = (z + store[op["a"]]) if op["left"] else (store[op["a"]] + z)
            elif k == "o_rsub":
                store[op["dst"]] = typed_scalar(op["z"], op.get("zt", 0)) - store[op["a"]]
            elif k == "o_iadd":
                x = store[op["a"]]; x += store[op["b"]]; store[op["a"]] = x
            elif k == "o_imul":
                x = store[op["a"]]; x *= store[op["b"]]; store[op["a"]] = x
            elif k == "o_copy":
                store[op["dst"]] = copy.deepcopy(store[op["a"]])
        except TypeError as e:
            err = "ERR:type"
        except RuntimeError as e:
            err = "ERR:runtime"
        except Exception as e:
            err = vlib.err_name(e) + ":" + type(e).__name__
        done.append(op)
        ctx.count("op:" + k)
        if err:
            ctx.count("err:" + err)
        case = {"history": enc_hist(done)}
        # ---- oracle: operands unchanged (only dst may change; in-place ops change their left operand)
        allowed = {op.get("dst")} if k not in ("o_iadd", "o_imul") else {op["a"]}
        if err:
            allowed = set()
        after = snapshot(store)
        for kk, d in before.items():
            if kk not in allowed and after.get(kk) != d:
                ctx.violation(f"{k}: operand {kk} was changed from {fmt(d)} to {fmt(after.get(kk))}", case)
                return False
        if not err and k not in ("o_iadd", "o_imul", "o_new") and op["dst"] in store:
            for kk, v in store.items():
                if kk != op["dst"] and v is store[op["dst"]] and ids_before.get(kk) == id(v):
                    ctx.violation(f"{k}: the result is the same object as operand {kk}", case)
                    return False
        if err and err.startswith("ERR:attr") or (err and err not in ("ERR:type", "ERR:runtime")):
            ctx.violation(f"{k} raised {err} instead of returning a value or refusing with TypeError/RuntimeError", case)
            return False
        if err == "ERR:type":
            continue            # openfermion refuses this class combination: accepted, nothing to compare
        # ---- correspondence with the specification store
        req = dict(op)
        if k == "o_new":
            req = {"op": "o_new", "dst": op["dst"], "kind": "fermion" if "fermion" in op["cls"] else "qubit", "terms": model_terms(op["terms"]),
                   "attrs": None if op["cls"] in ("offermion", "tqubit", "ofqubit") else
                   ([(-1 if x is None else x) for x in op["attrs"]] if op["cls"] == "tfermion" else [MAPS[op["attrs"][0]], -1 if op["attrs"][1] is None else int(op["attrs"][1])])}
        elif k in ("o_smul", "o_sadd", "o_rsub"):
            sg = -1 if (k == "o_sadd" and op.get("minus")) else 1      # operator - z is operator + (-z) in the specification
            req["z"] = [frac_str(sg * op["z"][0]), 0, 0, 0, frac_str(sg * op["z"][1]), 0, 0, 0]
            req.pop("zt", None); req.pop("minus", None)
        elif k == "o_iadd":
            req = {"op": "o_add", "dst": op["a"], "a": op["a"], "b": op["b"], "inplace": True}
        elif k == "o_imul":
            req = {"op": "o_mul", "dst": op["a"], "a": op["a"], "b": op["b"], "inplace": True}
        j = m.ask(req)
        if "err" in j:
            ctx.mismatch("model protocol error " + j["err"], case)
            return False
        if (j["r"] or None) != err:
            ctx.mismatch(f"{k}: code {err or 'ok'} vs model {j['r'] or 'ok'}", case)
            return False
        if not err:
            n_ok += 1
        for kk, v in store.items():
            dm = dump_model(j["store"][kk]) if kk in j["store"] else None
            dp = dump_py(v)
            if dm is None or dm["kind"] != dp["kind"] or dm["terms"] != dp["terms"]:
                # the specification is the algebra itself: a difference in value is a wrong result
                ctx.violation(f"{k}: value of {kk} is {fmt(dp)}, algebra gives {fmt(dm)}", case)
                return False
    ctx.case({"history": [o["op"] + ":" + str(o.get("cls", "")) for o in done]}, nontrivial=n_ok >= 3)
    return True


def fmt(d):
    if d is None:
        return "None"
    return "{" + ", ".join(f"{k}: {float(c[0])}{'+%sj' % float(c[1]) if c[1] else ''}" for k, c in sorted(d["terms"].items())) + "}"


def rand_history(rng):
    kind = rng.choice(["fermion", "qubit"])
    classes = ["tfermion", "tfermion", "offermion"] if kind == "fermion" else ["tqubit", "ofqubit", "qham", "qham"]
    hist, ids = [], []
    shared_attrs = (4, 2, 0) if rng.random() < 0.4 else (None, None, None)
    for i in range(rng.randint(2, 3)):
        cls = rng.choice(classes)
        if cls == "tfermion":
            attrs = shared_attrs if rng.random() < 0.85 else (6, 2, 0)
        elif cls == "qham":
            attrs = rng.choice([("JW", False), ("JW", False), ("BK", False), ("JW", True), (None, None)])
        else:
            attrs = None
        hist.append({"op": "o_new", "dst": f"o{i}", "cls": cls, "terms": rand_terms(rng, kind, allow_empty=True), "attrs": attrs})
        ids.append(f"o{i}")
    for _ in range(rng.randint(4, 12)):
        k = rng.choice(["o_add", "o_add", "o_sub", "o_sub", "o_mul", "o_mul", "o_smul", "o_sadd", "o_rsub", "o_iadd", "o_iadd", "o_iadd", "o_imul", "o_copy"])
        a, b = rng.choice(ids), rng.choice(ids)
        op = {"op": k, "a": a}
        if k in ("o_iadd", "o_imul") and a == b:
            # x += x / x *= x iterate over the dictionary they modify inside openfermion (third-party): not generated
            k = "o_add"; op["op"] = k
        if k in ("o_add", "o_sub", "o_mul", "o_iadd", "o_imul"):
            op["b"] = b
        if k in ("o_smul", "o_sadd", "o_rsub"):
            op["z"] = rand_coef(rng); op["left"] = rng.random() < 0.5
            op["zt"] = rng.randrange(12)
            if k == "o_sadd" and rng.random() < 0.4:
                op["minus"] = True
        if k not in ("o_iadd", "o_imul"):
            d = f"o{len(ids)}" if rng.random() < 0.8 else rng.choice(ids)
            op["dst"] = d
            if d not in ids:
                ids.append(d)
        hist.append(op)
    return hist


def multiform_case(ctx, ta, tb, n):
    """ta, tb: dict word(tuple (q, code)) -> coef"""
    from tangelo.toolboxes.operators import QubitOperator
    from tangelo.toolboxes.operators.multiformoperator import MultiformOperator, do_commute
    def mk(t):
        op = QubitOperator()
        for k, c in t.items():
            op += QubitOperator(tuple((q, LET[p]) for q, p in k), to_complex(c))
        return op
    qa, qb = mk(ta), mk(tb)
    if not qa.terms or not qb.terms:
        return True
    A, B = MultiformOperator.from_qubitop(qa, n), MultiformOperator.from_qubitop(qb, n)
    case = {"a": {str(k): str(v) for k, v in ta.items()}, "b": {str(k): str(v) for k, v in tb.items()}, "n": n}
    ca, cb = copy.deepcopy(qa), copy.deepcopy(qb)
    try:
        P = A * B
        comm = bool(do_commute(A, B))
        res = [bool(x) for x in do_commute(A, B, term_resolved=True)]
    except Exception as e:
        ctx.violation(f"array-form product / commutation raised {vlib.err_name(e)}: {str(e)[:80]}", case)
        return False
    if qa != ca or qb != cb:
        ctx.violation("array-form product changed an operand", case)
        return False
    rows = lambda M: [[int(x) for x in r] for r in M.integer]
    fj = lambda M: [[frac_str(Fraction(complex(f).real)), 0, 0, 0, frac_str(Fraction(complex(f).imag)), 0, 0, 0] for f in M.factors]
    j = ctx.model.ask({"op": "mf", "a": {"rows": rows(A), "f": fj(A)}, "b": {"rows": rows(B), "f": fj(B)}})
    ctx.count("multiform")
    prod_py = {tuple(int(x) for x in r): (Fraction(complex(f).real), Fraction(complex(f).imag)) for r, f in zip(P.integer, P.factors) if complex(f) != 0}
    prod_mo = {tuple(r): (Fraction(c[0]), Fraction(c[4])) for r, c in j["product"]}
    # symbolic reference (the property): array product = symbolic product
    sym = qa * qb
    prod_sym = {}
    for k, c in sym.terms.items():
        if complex(c) != 0:
            row = [0] * n
            for q, l in k:
                row[q] = CODE[l]
            prod_sym[tuple(row)] = (Fraction(complex(c).real), Fraction(complex(c).imag))
    sym_comm_terms = [all((QubitOperator(ka, 1.) * QubitOperator(kb, 1.)) == (QubitOperator(kb, 1.) * QubitOperator(ka, 1.)) for kb in qb.terms) for ka in qa.terms]
    if prod_py != prod_sym:
        ctx.violation(f"array-form product {prod_py} differs from the symbolic product {prod_sym}", case)
        return False
    if res != sym_comm_terms or comm != all(sym_comm_terms):
        ctx.violation(f"do_commute gives {comm} / {res}, the symbolic products give {all(sym_comm_terms)} / {sym_comm_terms}", case)
        return False
    if prod_mo != prod_py or j["commute"] != comm or j["resolved"] != res:
        ctx.mismatch("array form: model and code differ", case, j, {"product": str(prod_py), "commute": comm})
        return False
    ctx.case(case, nontrivial=len(ta) * len(tb) >= 2, sample=False)
    return True


def collapse_case(ctx, rng, n_rows, n):
    """MultiformOperator.collapse on an int8 array with duplicate rows vs exact summation"""
    from tangelo.toolboxes.operators.multiformoperator import MultiformOperator
    pool = [tuple(rng.randint(0, 3) for _ in range(n)) for _ in range(max(3, n_rows // 3))]
    if n > 8:
        # wide registers: words that differ on the first qubits only (and a few that differ at the end)
        tail = tuple(rng.randint(0, 3) for _ in range(n - 3))
        pool = [tuple(rng.randint(0, 3) for _ in range(3)) + tail for _ in range(max(3, n_rows // 3))]
        pool += [tail[:n - 3] + tuple(rng.randint(0, 3) for _ in range(3)) for _ in range(2)]
    rows = [rng.choice(pool) for _ in range(n_rows)]
    facs = [rand_coef(rng) for _ in range(n_rows)]
    arr = np.array(rows, dtype=np.int8)
    f = np.array([complex(float(a), float(b)) for a, b in facs])
    arr0, f0 = arr.copy(), f.copy()
    case = {"collapse_rows": n_rows, "n": n, "seed_rows": [list(r) for r in rows[:6]]}
    try:
        u, uf = MultiformOperator.collapse(arr, f)
    except Exception as e:
        ctx.violation(f"collapse raised {vlib.err_name(e)}", case)
        return False
    ref = {}
    for r, c in zip(rows, facs):
        a, b = ref.get(r, (Fraction(0), Fraction(0)))
        ref[r] = (a + c[0], b + c[1])
    ref = {k: v for k, v in ref.items() if v != (0, 0)}
    got = {tuple(int(x) for x in r): (Fraction(complex(c).real), Fraction(complex(c).imag)) for r, c in zip(u, uf)}
    ctx.count("collapse")
    ctx.case(case, nontrivial=True, sample=False)
    if not np.array_equal(arr, arr0) or not np.array_equal(f, f0):
        ctx.violation("collapse changed its input arrays", case)
        return False
    if got != ref:
        bad = [k for k in set(got) | set(ref) if got.get(k) != ref.get(k)][:3]
        ctx.violation(f"collapse of {n_rows} rows does not sum duplicate words exactly (e.g. {bad})", case)
        return False
    return True


SCALARS = [3, 0, -2, 0.75, 1.5 - 0.25j, 2j,
           np.int8(-3), np.int32(3), np.int64(-2), np.uint8(3), np.uint16(2), np.uint32(1), np.uint64(3),
           np.float32(0.75), np.float64(-1.25), np.complex64(1.25 - 0.5j), np.complex128(-0.5 + 2j), np.complex64(0.75j)]


def scalar_table_case(ctx):
    """every scalar form (a+z, z+a, a-z, z-a, a*z, z*a, a/z) with every scalar type the classes accept, on every operator
    class: the result is the operator with the arithmetic done on its coefficients, the operand is left as it was"""
    import openfermion as of
    from tangelo.toolboxes.operators import FermionOperator, QubitOperator, QubitHamiltonian
    mk = {"tfermion": lambda: FermionOperator(((2, 1), (0, 0)), 0.5 - 0.25j) + FermionOperator((), 1.5),
          "offermion": lambda: of.FermionOperator(((2, 1), (0, 0)), 0.5 - 0.25j) + of.FermionOperator((), 1.5),
          "tqubit": lambda: QubitOperator(((0, "X"), (2, "Z")), 0.5 - 0.25j) + QubitOperator((), 1.5),
          "ofqubit": lambda: of.QubitOperator(((0, "X"), (2, "Z")), 0.5 - 0.25j) + of.QubitOperator((), 1.5),
          "qham": lambda: QubitHamiltonian(((0, "X"), (2, "Z")), 0.5 - 0.25j, mapping="JW", up_then_down=False) + QubitHamiltonian((), 1.5, mapping="JW", up_then_down=False)}
    for cls, make in mk.items():
        for z in SCALARS:
            zc = complex(z)
            forms = {"a+z": (lambda a: a + z, lambda c, k: c + (zc if k == () else 0)), "z+a": (lambda a: z + a, lambda c, k: c + (zc if k == () else 0)),
                     "a-z": (lambda a: a - z, lambda c, k: c - (zc if k == () else 0)), "z-a": (lambda a: z - a, lambda c, k: -c + (zc if k == () else 0)),
                     "a*z": (lambda a: a * z, lambda c, k: c * zc), "z*a": (lambda a: z * a, lambda c, k: c * zc)}
            if zc != 0:
                forms["a/z"] = (lambda a: a / z, lambda c, k: c / zc)
            for name, (f, g) in forms.items():
                a = make()
                before = dict(a.terms)
                case = {"kind": "scalar_table", "cls": cls, "scalar": f"{type(z).__name__}({z})", "form": name}
                ctx.count("scalar_form:" + name)
                with warnings.catch_warnings():
                    warnings.simplefilter("ignore")
                    try:
                        r = f(a)
                    except Exception as e:
                        ctx.violation(f"{cls}: {name} with z = {type(z).__name__}({z}) raises {type(e).__name__}: {str(e)[:80]}", case)
                        return False
                want = {k: g(complex(c), k) for k, c in before.items()}
                got = {k: complex(c) for k, c in r.terms.items()}
                keys = set(want) | set(got)
                if any(abs(want.get(k, 0) - got.get(k, 0)) > 1e-6 for k in keys):
                    ctx.violation(f"{cls}: {name} with z = {type(z).__name__}({z}) gives {got}, expected {want}", case)
                    return False
                if dict(a.terms) != before:
                    ctx.violation(f"{cls}: {name} with z = {type(z).__name__}({z}) changed its operand", case)
                    return False
    ctx.case({"kind": "scalar_table"}, nontrivial=True, sample=True)
    return True


def empty_accumulator_histories(rng):
    """every operator class: an EMPTY operator as the left operand / accumulator of the first step, then further steps on the
    result (the idiom `acc = Op(); for t in terms: acc += t`, `sum(ops, Op())`); every later step must leave the addends alone"""
    out = []
    for kind, classes in (("fermion", ["tfermion", "offermion"]), ("qubit", ["tqubit", "ofqubit", "qham"])):
        for cls in classes:
            attrs = (4, 2, 0) if cls == "tfermion" else (("JW", False) if cls == "qham" else None)
            def new(i, empty=False):
                t = {} if empty else rand_terms(rng, kind)
                return {"op": "o_new", "dst": f"o{i}", "cls": cls, "terms": t, "attrs": attrs}
            base = [new(0, empty=True), new(1), new(2)]
            z = {"z": rand_coef(rng), "left": False, "zt": 0}
            out.append(base + [{"op": "o_iadd", "a": "o0", "b": "o1"}, {"op": "o_iadd", "a": "o0", "b": "o2"}, {"op": "o_imul", "a": "o0", "b": "o2"}])
            out.append(base + [{"op": "o_add", "a": "o0", "b": "o1", "dst": "o3"}, {"op": "o_iadd", "a": "o3", "b": "o2"}, {"op": "o_imul", "a": "o3", "b": "o1"}])
            out.append(base + [{"op": "o_add", "a": "o1", "b": "o0", "dst": "o3"}, {"op": "o_iadd", "a": "o3", "b": "o2"}, {"op": "o_smul", "a": "o3", "dst": "o3", **z}])
            out.append(base + [{"op": "o_sub", "a": "o0", "b": "o1", "dst": "o3"}, {"op": "o_iadd", "a": "o3", "b": "o2"}])
            out.append(base + [{"op": "o_mul", "a": "o0", "b": "o1", "dst": "o3"}, {"op": "o_iadd", "a": "o3", "b": "o2"}, {"op": "o_iadd", "a": "o3", "b": "o1"}])
            out.append(base + [{"op": "o_copy", "a": "o0", "dst": "o3"}, {"op": "o_iadd", "a": "o3", "b": "o1"}, {"op": "o_iadd", "a": "o3", "b": "o1"}])
    return out


def run(ctx):
    rng = ctx.rng
    if not scalar_table_case(ctx):
        return
    for n_rows in [5, 40, 127, 128, 129, 200, 300] + ([] if ctx.quick else [600, 1000]):
        if not collapse_case(ctx, rng, n_rows, rng.randint(2, 5)):
            return
    for hist in empty_accumulator_histories(rng):
        ctx.count("history:empty-accumulator")
        if not run_history(ctx, hist) and len(ctx.violations) + len(ctx.mismatches) >= 3:
            return
    for i in range(ctx.n(160, 2000)):
        if not run_history(ctx, rand_history(rng)) and len(ctx.violations) + len(ctx.mismatches) >= 3:
            return
    # array form: all pairs of single words on 2 qubits (exhaustive), random multi-term pairs on <= 4 qubits
    words2 = [tuple((q, c) for q, c in enumerate(cs) if c) for cs in itertools.product(range(4), repeat=2)]
    for wa in words2:
        for wb in words2:
            if not multiform_case(ctx, {wa: (Fraction(1), Fraction(0))}, {wb: (Fraction(1, 2), Fraction(0))}, 2):
                return
    for i in range(ctx.n(80, 800)):
        n = rng.randint(1, 4)
        if not multiform_case(ctx, rand_terms(rng, "qubit", n), rand_terms(rng, "qubit", n), n) and len(ctx.violations) >= 3:
            return
    # wide registers (beyond 32 qubits: any packing of a word into a machine integer overflows)
    for n in ([33, 40] if ctx.quick else [16, 31, 32, 33, 34, 40, 64, 70]):
        if not collapse_case(ctx, rng, 30, n):
            return
        hi = n - 1
        ta = {((0, rng.choice([1, 2, 3])), (hi, 3)): rand_coef(rng), ((0, rng.choice([1, 2, 3])), (1, 2), (hi, 3)): rand_coef(rng), ((1, 1), (hi, 3)): rand_coef(rng)}
        tb = {((hi, rng.choice([1, 2]))): rand_coef(rng) for _ in range(1)}
        tb = {((hi, rng.choice([1, 2])),): rand_coef(rng), ((0, 1), (hi - 1, 2)): rand_coef(rng)}
        if not multiform_case(ctx, ta, tb, n):
            return
    # large collapse (duplicate rows beyond 128 terms)
    big_a = {tuple((q, rng.choice([1, 2, 3])) for q in sorted(rng.sample(range(6), 3))): rand_coef(rng) for _ in range(ctx.n(70, 150))}
    multiform_case(ctx, big_a, {((0, 1),): (Fraction(1), Fraction(0)), ((1, 2),): (Fraction(1, 2), Fraction(0))}, 6)


def replay(ctx, obj):
    case = obj.get("case") or (obj.get("first_mismatch") or {}).get("case")
    if case and "history" in case:
        run_history(ctx, dec_hist(case["history"]))


def search(ctx, broken):
    pass
