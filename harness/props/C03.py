"""C03 — fermion-to-qubit encodings are faithful representations."""
import itertools, random
import numpy as np
import random
import vlib, fock
from fractions import Fraction
from vlib import frac_str

CLAIM = {
 "text": "Proof (Lean 4), partial: Jordan-Wigner is modelled term by term (ladder operator -> 1/2 (X -+ iY) Z...Z) together with the spin re-ordering map; proved for every register size, every mode and every Fock state: the encoded annihilation / creation operator acts on the qubit basis state exactly as the fermionic one acts on the occupation state (intertwining with the identity basis map, so every polynomial in the ladder operators - every fermionic operator - has literally the same matrix, hence the same spectrum, and the canonical anticommutation relations are inherited: they are proved on the Fock-space action for the same mode (a a+ + a+ a = 1, a a = a+ a+ = 0) and for different modes (all four combinations anticommute), for every pair of modes and every register size); the up-then-down re-indexing is a bijection of the modes for even n. Bravyi-Kitaev, JKMN, scBK, hard-core-boson and combinatorial encodings call openfermion / tree constructions that are NOT modelled in Lean: they are checked by the numerical oracle only - CAR of all encoded ladder operators, linearity, products and adjoints as exact operator identities, and spectrum equality on the represented space (full space; (N parity, N_alpha parity) sector for scBK; seniority-zero space for HCB; fixed (n_alpha, n_beta) sector for combinatorial) for random Hermitian number- and spin-conserving Hamiltonians, both orderings, operators not touching the top index.",
 "note": "Trusted: Lean kernel + standard axioms; openfermion's jordan_wigner (compared term by term with the model), bravyi_kitaev, bravyi_kitaev_tree; numpy eigvalsh. Register sizes in the oracle: 4 and 6 spin-orbitals.",
 "technique": "Lean 4 intertwining theorem for Jordan-Wigner (all sizes) + term-level correspondence + numerical spectrum/CAR oracle for the other encodings"}

RULE = ("(a) every ladder operator and pair product for n = 4 (quick) / 6 under JW, BK, JKMN, both orderings: CAR, products, adjoints; JW term dictionaries vs the model; (b) random molecular-form Hamiltonians on 2-3 spatial orbitals: "
        "spectra under all six encodings on the represented space, all admissible (n_electrons, spin); written in normal, chemist or annihilator-first order, scaled by 1e-3..1e3 (forced cases every run), with a Zeeman term b*S_z for the full-space encodings and scBK so that a sector and its spin-flipped image differ; (c) operators not touching the top index; non-trivial: operator with >= 2 terms; distinct by hash")
TRUSTED = ["openfermion transforms (numerically checked)", "numpy.linalg.eigvalsh"]
ASSUMPTIONS = ["tolerance 1e-7 on eigenvalues (1e-5 for the complex64 combinatorial mapping)"]

CODE = {"Z": 1, "X": 2, "Y": 3}


_CASE_RNG = random.Random(0)


def spell(mapping):
    """the dispatcher is case-insensitive: spell the encoding name in a random case"""
    return _CASE_RNG.choice([mapping, mapping.upper(), mapping.lower(), mapping.capitalize(), mapping.swapcase()])


def f2q(op, mapping, n, n_e=None, utd=False, spin=0):
    from tangelo.toolboxes.qubit_mappings.mapping_transform import fermion_to_qubit_mapping
    return fermion_to_qubit_mapping(op, spell(mapping), n_spinorbitals=n, n_electrons=n_e, up_then_down=utd, spin=spin)


def ladder_checks(ctx, n, mapping, utd):
    from tangelo.toolboxes.operators import FermionOperator
    from openfermion import hermitian_conjugated
    case = {"kind": "ladder", "n": n, "mapping": mapping, "up_then_down": utd}
    enc = {}
    for j in range(n):
        for d in (0, 1):
            enc[(j, d)] = f2q(FermionOperator(((j, d),)), mapping, n, utd=utd)
    mats = {k: fock.qubit_matrix(v, n) for k, v in enc.items()}
    I = np.eye(2 ** n)
    ctx.count(f"ladder:{mapping}")
    ctx.case(case, nontrivial=True, sample=False)
    for i in range(n):
        if hermitian_conjugated(enc[(i, 0)]) != enc[(i, 1)]:
            ctx.violation(f"{mapping}: encoding of a_{i}^dagger is not the adjoint of the encoding of a_{i}", case)
            return False
        for j in range(n):
            A, Bd, B = mats[(i, 0)], mats[(j, 1)], mats[(j, 0)]
            if not np.allclose(A @ Bd + Bd @ A, I * (i == j), atol=1e-9) or not np.allclose(A @ B + B @ A, 0, atol=1e-9):
                ctx.violation(f"{mapping} (up_then_down={utd}, n={n}): encoded a_{i}, a_{j} violate the canonical anticommutation relations", case)
                return False
            # products map to products
            prod = f2q(FermionOperator(((i, 0), (j, 1))), mapping, n, utd=utd)
            if not np.allclose(fock.qubit_matrix(prod, n), A @ Bd, atol=1e-9):
                ctx.violation(f"{mapping}: encoding of a_{i} a_{j}^dagger is not the product of the encodings", case)
                return False
    return True


def jw_model_case(ctx, rng, n):
    """JW term dictionaries vs the Lean model, for random products of ladder operators, both orderings"""
    from tangelo.toolboxes.operators import FermionOperator
    utd = rng.random() < 0.5
    op = FermionOperator()
    terms = []
    for _ in range(rng.randint(1, 3)):
        t = tuple((rng.randrange(n), rng.randint(0, 1)) for _ in range(rng.randint(1, 4)))
        c = Fraction(rng.randint(-8, 8), 4) or Fraction(1)
        op += FermionOperator(t, float(c))
        terms.append([[list(f) for f in t], [frac_str(c), 0, 0, 0, 0, 0, 0, 0]])
    q = f2q(op, "JW", n, utd=utd)
    j = ctx.model.ask({"op": "jw", "terms": terms, "n": n, "utd": utd})
    ctx.count("jw_model")
    case = {"kind": "jw", "terms": terms, "n": n, "up_then_down": utd}
    ctx.case(case, nontrivial=len(terms) >= 2, sample=len(terms) == 1)
    if "terms" not in j:
        ctx.mismatch(f"model protocol error {j}", case)
        return False
    mo = {tuple((a, b) for a, b in k): complex(Fraction(c[0]), Fraction(c[4])) for k, c in j["terms"]}
    py = {tuple((i, CODE[p]) for i, p in k): complex(v) for k, v in q.terms.items() if abs(v) > 1e-14}
    if set(mo) != set(py) or any(abs(mo[k] - py[k]) > 1e-12 for k in mo):
        # is the code's result still the faithful operator?
        if np.allclose(fock.qubit_matrix(q, n), fock.fermion_matrix(_reordered(op, n, utd), n), atol=1e-9):
            ctx.mismatch("JW term dictionary differs from the model (operator still faithful)", case)
        else:
            ctx.violation(f"Jordan-Wigner (up_then_down={utd}) of {op} does not have the matrix of the fermionic operator", case)
        return False
    return True


def _reordered(op, n, utd):
    from tangelo.toolboxes.operators import FermionOperator
    if not utd:
        return op
    out = FermionOperator()
    for term, c in op.terms.items():
        out += FermionOperator(tuple((i // 2 + (n // 2 if i % 2 else 0), d) for i, d in term), c)
    return out


def spectrum_case(ctx, rng, M, force_scale=None, force_written=False):
    """random molecular Hamiltonian on M spatial orbitals: spectra under every encoding on the represented space"""
    from tangelo.toolboxes.operators import FermionOperator
    from tangelo.toolboxes.qubit_mappings.combinatorial import combinatorial
    n = 2 * M
    Hof = fock.rand_molecular_hamiltonian(rng, M)
    H = FermionOperator()          # Tangelo's class (the HCB route needs its get_coeffs)
    H.terms = dict(Hof.terms)
    if rng.random() < 0.3:
        # an operator that does not touch the highest orbital index
        Hs = FermionOperator()
        for t, c in H.terms.items():
            if all(i < n - 2 for i, _ in t):
                Hs += FermionOperator(t, c)
        H = Hs if Hs.terms else H
    scale = 1.0
    if rng.random() < 0.3 or force_scale:
        # the whole Hamiltonian in other units (coefficients of order 1e-3 ... 1e-5): the encoding is linear, nothing that
        # is large compared with the library's absolute 1e-8 cutoff may be dropped
        scale = force_scale or rng.choice([1e-3, 2e-4])
        H = H * scale
    ctx.count(f"spectrum:scale={scale}")
    Hm = fock.fermion_matrix(H, n)
    written = "normal-ordered"
    if rng.random() < 0.4 or force_written:
        # the same operator written differently: two-body terms in chemist order a+_p a_r a+_q a_s (products of one-body
        # operators / number operators), a+_p a+_q a_r a_s = delta_qr a+_p a_s - a+_p a_r a+_q a_s
        Hw = FermionOperator()
        for t, c in H.terms.items():
            if len(t) == 4 and [d for _, d in t] == [1, 1, 0, 0] and rng.random() < 0.8:
                (p_, _), (q_, _), (r_, _), (s_, _) = t
                Hw += FermionOperator(((p_, 1), (r_, 0), (q_, 1), (s_, 0)), -c)
                if q_ == r_:
                    Hw += FermionOperator(((p_, 1), (s_, 0)), c)
            elif len(t) == 2 and [d for _, d in t] == [1, 0] and rng.random() < 0.5:
                # one-body term with the annihilator first: a+_p a_q = delta_pq - a_q a+_p (normal ordering creates a constant)
                (p_, _), (q_, _) = t
                Hw += FermionOperator(((q_, 0), (p_, 1)), -c)
                if p_ == q_:
                    Hw += FermionOperator((), c)
            else:
                Hw += FermionOperator(t, c)
        if np.abs(fock.fermion_matrix(Hw, n) - Hm).max() < 1e-12:
            H, written = Hw, "chemist-ordered"
    ctx.count("spectrum:written=" + written)
    full = np.linalg.eigvalsh(Hm)
    case = {"kind": "spectrum", "M": M, "terms": len(H.terms), "written": written, "seed_state": rng.getstate()[1][0]}
    ctx.case(case, nontrivial=True, sample=False)
    # for the full-space encodings and scBK: a Zeeman term b * S_z on top (Hermitian, number- and spin-conserving, but NOT
    # symmetric under the exchange of the two spin species: a sector and its spin-flipped image get different spectra)
    H_sf, Hm_sf = H, Hm
    if rng.random() < 0.6:
        b = rng.choice([0.37, -0.81, 1.3]) * scale
        for p_ in range(M):
            H = H + FermionOperator(((2 * p_, 1), (2 * p_, 0)), b / 2) + FermionOperator(((2 * p_ + 1, 1), (2 * p_ + 1, 0)), -b / 2)
        Hm = fock.fermion_matrix(H, n)
        full = np.linalg.eigvalsh(Hm)
        ctx.count("spectrum:zeeman-term")
    for utd in (False, True):
        for mapping in ("JW", "BK", "JKMN"):
            q = f2q(H, mapping, n, utd=utd)
            ctx.count(f"spectrum:{mapping}")
            if not fock.spectra_equal(np.linalg.eigvalsh(fock.qubit_matrix(q, n)), full):
                ctx.violation(f"{mapping} (up_then_down={utd}): spectrum of the encoded Hamiltonian differs from the fermionic one (M={M})", {**case, "mapping": mapping, "utd": utd})
                return False
        # scBK: every (n_electrons, spin) -> (N parity, N_alpha parity) sector
        for n_e in range(0, n + 1):
            for spin in range(-min(n_e, n - n_e), min(n_e, n - n_e) + 1):
                if (n_e + spin) % 2 or abs(spin) > n_e or (n_e + spin) // 2 > M or (n_e - spin) // 2 > M:
                    continue
                n_alpha = (n_e + spin) // 2
                q = f2q(H, "scBK", n, n_e=n_e, utd=utd, spin=spin)
                idx = fock.sector_indices(n, lambda x: fock.popcount(x) % 2 == n_e % 2 and fock.popcount(x & 0x55555555) % 2 == n_alpha % 2)
                sec = np.linalg.eigvalsh(Hm[np.ix_(idx, idx)])
                ctx.count("spectrum:scBK")
                if not fock.spectra_equal(np.linalg.eigvalsh(fock.qubit_matrix(q, n - 2)), sec):
                    ctx.violation(f"scBK (n_electrons={n_e}, spin={spin}, up_then_down={utd}): spectrum differs from the (N parity, N_alpha parity) sector", {**case, "n_e": n_e, "spin": spin, "utd": utd})
                    return False
    # HCB and combinatorial: the spin-free Hamiltonian (their documented domain)
    H, Hm = H_sf, Hm_sf
    # HCB: seniority-zero space, either ordering option
    paired = [x for x in range(2 ** n) if all(((x >> (2 * p)) & 1) == ((x >> (2 * p + 1)) & 1) for p in range(M))]
    for utd in (False, True):
        q = f2q(H, "HCB", n, utd=utd)
        ctx.count("spectrum:HCB")
        if not fock.spectra_equal(np.linalg.eigvalsh(fock.qubit_matrix(q, M)), np.linalg.eigvalsh(Hm[np.ix_(paired, paired)])):
            ctx.violation(f"HCB (up_then_down={utd}): spectrum differs from the Hamiltonian on the paired-electron (seniority-zero) space (M={M})", case)
            return False
    # combinatorial: fixed (n_alpha, n_beta); the tolerance follows the units of the Hamiltonian
    ctol = 2e-5 * scale + 2e-7
    for na in range(0, M + 1):
        for nb in range(0, M + 1):
            if na + nb == 0 or (na, nb) == (M, M) or rng.random() < 0.5:
                continue
            try:
                q = combinatorial(H, M, (na, nb))
            except Exception as e:
                if len(fock.sector_indices(n, lambda x: fock.popcount(x & 0x55555555) == na and fock.popcount(x & 0xAAAAAAAA) == nb)) <= 1:
                    continue       # one-dimensional sector: documented limitation (recursion needs >= 2x2)
                ctx.violation(f"combinatorial(n_modes={M}, n_electrons=({na},{nb})) raised {type(e).__name__}", {**case, "na": na, "nb": nb})
                return False
            idx = fock.sector_indices(n, lambda x: fock.popcount(x & 0x55555555) == na and fock.popcount(x & 0xAAAAAAAA) == nb)
            sec = np.linalg.eigvalsh(Hm[np.ix_(idx, idx)])
            nq = max([i for w in q.terms for i, _ in w], default=-1) + 1
            nq = max(nq, int(np.ceil(np.log2(max(len(idx), 1)))))
            ev = np.linalg.eigvalsh(fock.qubit_matrix(q, nq))
            ctx.count("spectrum:combinatorial")
            # the qubit operator lives on 2^nq >= dim: the extra eigenvalues belong to unused basis states
            rest = list(ev)
            ok, worst = True, 0.0
            for e in sec:
                k = int(np.argmin(np.abs(np.array(rest) - e)))
                worst = max(worst, abs(rest[k] - e))
                if abs(rest[k] - e) > ctol:
                    ok = False
                    break
                rest.pop(k)
            # basis states of the register that encode no configuration are outside the represented space: the property says
            # nothing about them.  (In practice they see 0 or the constant of the normal-ordered operator; counted, not judged.)
            const = float(np.real(Hm[0, 0]))                   # vacuum expectation value = constant of the normal-ordered operator
            if any(min(abs(r), abs(r - const)) > ctol for r in rest):
                ctx.count("spectrum:combinatorial:unused-register-state-sees-something-else")
            if not ok:
                ctx.violation(f"combinatorial(n_modes={M}, n_electrons=({na},{nb})): spectrum differs from the fixed-particle-number sector (deviation {worst:.3g}, tolerance {ctol:.3g}, scale {scale}, {len(q.terms)} Pauli terms; eigenvalues on unused register states {[float(r) for r in rest]}, constant term {const})", {**case, "na": na, "nb": nb, "scale": scale})
                return False
    return True


def linearity_case(ctx, rng, n):
    from tangelo.toolboxes.operators import FermionOperator
    from openfermion import hermitian_conjugated
    def rop():
        op = FermionOperator()
        for _ in range(rng.randint(1, 3)):
            op += FermionOperator(tuple((rng.randrange(n), rng.randint(0, 1)) for _ in range(rng.randint(1, 3))), rng.choice([0.5, -1.5, 2.0, 0.25j]))
        return op
    A, B = rop(), rop()
    utd = rng.random() < 0.5
    mapping = rng.choice(["JW", "BK", "JKMN"])
    a, b = rng.choice([2.0, -0.5, 1.5]), rng.choice([1.0, 3.0, -2.0])
    case = {"kind": "linearity", "A": str(A), "B": str(B), "mapping": mapping, "utd": utd, "n": n}
    ctx.count("linearity")
    lhs = f2q(a * A + b * B, mapping, n, utd=utd)
    rhs = a * f2q(A, mapping, n, utd=utd) + b * f2q(B, mapping, n, utd=utd)
    if not np.allclose(fock.qubit_matrix(lhs, n), fock.qubit_matrix(rhs, n), atol=1e-9):
        ctx.violation(f"{mapping}: encoding is not linear", case)
        return False
    lhs = f2q(A * B, mapping, n, utd=utd)
    if not np.allclose(fock.qubit_matrix(lhs, n), fock.qubit_matrix(f2q(A, mapping, n, utd=utd), n) @ fock.qubit_matrix(f2q(B, mapping, n, utd=utd), n), atol=1e-9):
        ctx.violation(f"{mapping}: encoding of a product is not the product of the encodings", case)
        return False
    if not np.allclose(fock.qubit_matrix(f2q(hermitian_conjugated(A), mapping, n, utd=utd), n), fock.qubit_matrix(f2q(A, mapping, n, utd=utd), n).conj().T, atol=1e-9):
        ctx.violation(f"{mapping}: encoding of the adjoint is not the adjoint of the encoding", case)
        return False
    return True


def run(ctx):
    _CASE_RNG.seed(ctx.rng.randint(0, 2 ** 31))
    rng = ctx.rng
    for n in ([4] if ctx.quick else [4, 6]):
        for mapping in ("JW", "BK", "JKMN"):
            for utd in (False, True):
                if not ladder_checks(ctx, n, mapping, utd):
                    return
    for i in range(ctx.n(60, 1500)):
        if not jw_model_case(ctx, rng, rng.choice([2, 4, 6])):
            if len(ctx.violations) + len(ctx.mismatches) >= 3:
                return
    for i in range(ctx.n(40, 800)):
        if not linearity_case(ctx, rng, rng.choice([4, 4, 6])):
            return
    for i in range(ctx.n(5, 60)):
        if not spectrum_case(ctx, rng, 2 if (ctx.quick or i % 3) else 3):
            return
    # every run: other units, and the other written form, at least once each
    for kw in ({"force_scale": 1e-3}, {"force_scale": 2e-4}, {"force_written": True}, {"force_written": True, "force_scale": 1e-3}):
        if not spectrum_case(ctx, rng, 2, **kw):
            return


def replay(ctx, obj):
    pass


def search(ctx, broken):
    rng = random.Random(ctx.seed + 3)
    for i in range(ctx.n(10, 100)):
        if not spectrum_case(ctx, rng, 2):
            return
