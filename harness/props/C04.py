"""C04 — qubit Hamiltonians reproduce mean-field and full-CI energies."""
import itertools, json, math, random, warnings
import numpy as np
from fractions import Fraction
import vlib, fock

CLAIM = {
 "text": "Proof (Lean 4), partial. Modelled exactly and proved for all sizes: (1) the partition of the orbitals into frozen / active, occupied / virtual from an int, a list or per-spin lists (frozen_orbitals.py): the four classes are pairwise disjoint, their union is all orbitals, and order is preserved, inputs are rejected exactly when no active electron is left or every active orbital is doubly occupied (indices outside the orbital range are ignored, as the code does); (2) the active electron / spin bookkeeping: n_alpha + n_beta is the number of active electrons, n_alpha - n_beta the spin, and both are non-negative integers exactly when parity and range conditions hold; (3) the folding of frozen occupied orbitals for a closed core over an arbitrary commutative ring: for a determinant that occupies every frozen orbital, the energy functional of the full integrals equals the folded constant plus the folded one-body part plus the active two-body part (the algebraic identity behind get_active_space_integrals) - proved for the diagonal (mean-field) functional, and likewise for an UNRESTRICTED reference with different frozen sets for the two spins (fold_core_uhf: the core constant contains the alpha-beta Coulomb repulsion between frozen alpha and frozen beta orbitals, the active one-body parts carry the same-spin Coulomb/exchange field of the frozen orbitals of that spin and the Coulomb field of those of the other). NOT proved in Lean: the AO->MO transformation and anything inside PySCF, the off-diagonal part of the folding, the encodings (C03) and the eigenvalue statements; these are decided numerically: the dense active-space Hamiltonian is rebuilt independently from AO integrals and MO coefficients (restricted, restricted open-shell, unrestricted with per-spin frozen lists) and compared entry by entry with the matrix of the library's fermionic operator; the reference-determinant expectation value is compared with the mean-field energy under JW/BK/scBK/JKMN in both orderings; the lowest eigenvalue of the (N, S_z) sector is compared with FCISolver and, for the encodings, with the penalised lowest eigenvalue of the qubit operator; random rotations among active orbitals must leave the sector eigenvalue unchanged.",
 "note": "Trusted: Lean kernel + standard axioms; PySCF (SCF solution, AO integrals, FCI kernel); numpy/scipy linear algebra.",
 "technique": "Lean 4 theorems (orbital partition, electron bookkeeping, frozen-core folding identity) + partition correspondence + independent dense-Hamiltonian reconstruction and eigenvalue oracle"}

RULE = ("molecules: H2, H3+, H3, H4 (singlet/triplet/cation) at random geometries, HeH+, LiH, OH radical, H2O and BeH2 with frozen orbitals down to <= 4 active orbitals; RHF / ROHF / UHF; frozen: None, int, list, non-contiguous, occupied+virtual, per-spin lists; "
        "encodings JW/BK/scBK/JKMN x both orderings; 2 random active-space rotations each; partition model: random (n_mos, occupations, frozen spec) incl. malformed; non-trivial: frozen orbitals present or open shell; distinct by configuration")
TRUSTED = ["PySCF", "numpy / scipy"]
ASSUMPTIONS = ["tolerance 1e-7 on mean-field energies, 1e-6 on eigenvalues, 5e-7 on matrix entries (the library drops integrals below 1e-8)"]


# ---------------------------------------------------------------------------------------------- independent Hamiltonian
def indep_hamiltonian(mol):
    """dense active-space Hamiltonian (alternating spin-orbital order, bit j = spin-orbital j) rebuilt from AO integrals"""
    mf = mol.mean_field
    pm = mf.mol
    hcore = mf.get_hcore()
    eri = pm.intor("int2e")
    C = mol.mo_coeff
    if mol.uhf:
        Ca, Cb = np.asarray(C[0]), np.asarray(C[1])
        Fa, Fb = list(mol.frozen_occupied[0]), list(mol.frozen_occupied[1])
        Aa, Ab = list(mol.active_mos[0]), list(mol.active_mos[1])
    else:
        Ca = Cb = np.asarray(C)
        Fa = Fb = list(mol.frozen_occupied)
        Aa = Ab = list(mol.active_mos)
        if any(mol.mo_occ[i] != 2 for i in Fa):
            raise NotImplementedError("frozen half-filled orbital")
    Cs, Fs, As = (Ca, Cb), (Fa, Fb), (Aa, Ab)
    h = [c.T @ hcore @ c for c in Cs]

    def mo_eri(s, t):
        return np.einsum("abcd,ap,bq,cr,ds->pqrs", eri, Cs[s], Cs[s], Cs[t], Cs[t], optimize=True)
    g = {(s, t): mo_eri(s, t) for s in (0, 1) for t in (0, 1)}
    e_core = pm.energy_nuc()
    for s in (0, 1):
        for i in Fs[s]:
            e_core += h[s][i, i]
    for s in (0, 1):
        for t in (0, 1):
            for i in Fs[s]:
                for j in Fs[t]:
                    e_core += 0.5 * g[(s, t)][i, i, j, j]
                    if s == t:
                        e_core -= 0.5 * g[(s, s)][i, j, j, i]
    heff = []
    for s in (0, 1):
        m = h[s].copy()
        for t in (0, 1):
            for i in Fs[t]:
                m += g[(s, t)][:, :, i, i]
        for i in Fs[s]:
            m -= g[(s, s)][:, i, i, :]
        heff.append(m)
    n_act = max(len(Aa), len(Ab))
    n = 2 * n_act
    lad = fock.ladder_sparse(n)
    ladd = [a.conj().T.tocsr() for a in lad]
    import scipy.sparse as sp
    H = e_core * sp.identity(2 ** n, dtype=complex, format="csr")
    so = lambda s, p: 2 * p + s
    for s in (0, 1):
        for p, P in enumerate(As[s]):
            for q, Q in enumerate(As[s]):
                v = heff[s][P, Q]
                if abs(v) > 1e-13:
                    H = H + v * (ladd[so(s, p)] @ lad[so(s, q)])
    for s in (0, 1):
        for t in (0, 1):
            for p, P in enumerate(As[s]):
                for q, Q in enumerate(As[s]):
                    for r, Rr in enumerate(As[t]):
                        for u, U in enumerate(As[t]):
                            v = g[(s, t)][P, Q, Rr, U]
                            if abs(v) > 1e-13:
                                H = H + 0.5 * v * (ladd[so(s, p)] @ ladd[so(t, r)] @ lad[so(t, u)] @ lad[so(s, q)])
    return H, n


def sector(n, na, nb):
    return [x for x in range(2 ** n) if fock.popcount(x & 0x55555555) == na and fock.popcount(x & 0xAAAAAAAA) == nb]


def sector_min(H, n, na, nb):
    sel = sector(n, na, nb)
    M = H[np.ix_(sel, sel)] if isinstance(H, np.ndarray) else H[sel, :][:, sel].toarray()
    return float(np.linalg.eigvalsh((M + M.conj().T) / 2)[0])


def rand_geometry(rng, atoms):
    pts = []
    while len(pts) < len(atoms):
        p = [round(rng.uniform(-1.2, 1.2), 3) for _ in range(3)]
        if all(math.dist(p, q) > 0.65 for q in pts):
            pts.append(p)
    return [(a, tuple(p)) for a, p in zip(atoms, pts)]


def fixed_geometry(rng, name):
    s = lambda x: round(x * rng.uniform(0.9, 1.15), 3)
    if name == "LiH":
        return [("Li", (0, 0, 0)), ("H", (0, 0, s(1.6)))]
    if name == "HeH+":
        return [("He", (0, 0, 0)), ("H", (0, 0, s(0.8)))]
    if name == "OH":
        return [("O", (0, 0, 0)), ("H", (0, s(0.31), s(0.93)))]
    if name == "H2O":
        return [("O", (0, 0, 0)), ("H", (0, s(0.76), s(0.59))), ("H", (0, -s(0.76), s(0.59)))]
    if name == "H4sq":
        d = round(rng.uniform(0.9, 1.4), 3)
        return [("H", (0, 0, 0)), ("H", (0, 0, d)), ("H", (0, d, 0)), ("H", (0, d, d))]
    if name == "H4rect":
        # nearly square: the frontier orbitals are almost degenerate and the lowest state of the S_z = 0 sector of the
        # active space is the M_s = 0 component of a triplet, not a singlet
        d = round(rng.uniform(0.95, 1.25), 3)
        return [("H", (0, 0, 0)), ("H", (0, 0, d)), ("H", (0, round(d * rng.choice([1.02, 1.03, 1.04]), 3), 0)), ("H", (0, round(d * 1.03, 3), d))]
    if name == "BeH2":
        return [("Be", (0, 0, 0)), ("H", (0, 0, s(1.3))), ("H", (0, 0, -s(1.3)))]
    raise KeyError(name)


# (name, atoms or fixed, charge, spin, list of frozen specs for restricted, list for uhf)
SYSTEMS = [
    ("H2", ["H"] * 2, 0, 0, [None, 0], [None]),
    ("H3+", ["H"] * 3, 1, 0, [None, [2], 0], [None, [[2], [2]], [[], [2]]]),
    ("H3", ["H"] * 3, 0, 1, [None], [None, [[2], []]]),
    ("H4", ["H"] * 4, 0, 0, [None, 1, [0], [3], [0, 3], [2]], [None, [[0], [0]], [[3], [2, 3]]]),
    ("H4+", ["H"] * 4, 1, 1, [None, 1, [3], [0, 3]], [None, [[0], []], [[3], [0]], [[0], [0]]]),
    ("H4t", ["H"] * 4, 0, 2, [None, [0], [3], 1], [None, [[0], []], [[3], [3]], [[0], [0]]]),
    ("H4sq", "H4sq", 0, 0, [None, [0]], [None]),
    ("H4rect", "H4rect", 0, 0, [[0], [3], [0, 3]], []),
    ("HeH+", "HeH+", 1, 0, [None], [None]),
    ("LiH", "LiH", 0, 0, [[0, 5], [0, 3, 4], 2, [0, 1], [1, 2, 3]], [[[0, 5], [0, 4]], [[0], [0, 5, 4]], [[0, 1], [0, 5]]]),
    ("LiH+", "LiH", 1, 1, [[0, 5], [0, 4]], [[[0, 5], [0, 4]], [[0], [5, 4]], [[0, 3], [0, 1]]]),
    ("OH", "OH", 0, 1, [[0, 1], 2, [0, 1, 2]], [[[0, 1], [0, 5]], [[0], [1]], [[0, 2], [0, 1]], [[0, 1], [0, 1]]]),
    ("H2O", "H2O", 0, 0, [3, [0, 1, 2], [0, 1, 6]], [[[0, 1, 2], [0, 1, 2]], [[0, 1, 2], [0, 1, 3]]]),
    ("BeH2", "BeH2", 0, 0, [[0, 1, 6], 3], [[[0, 1, 6], [0, 1, 5]]]),
]


def build(name, geom, q, spin, frozen, uhf):
    from tangelo import SecondQuantizedMolecule
    with warnings.catch_warnings():
        warnings.simplefilter("ignore")
        return SecondQuantizedMolecule(geom, q=q, spin=spin, basis="sto-3g", frozen_orbitals=frozen, uhf=uhf)


def molecule_case(ctx, rng, sysdef, uhf, frozen, geom=None):
    from tangelo.toolboxes.qubit_mappings.mapping_transform import fermion_to_qubit_mapping
    from tangelo.toolboxes.qubit_mappings.statevector_mapping import get_mapped_vector
    from tangelo.toolboxes.ansatz_generator.fermionic_operators import number_operator, spinz_operator
    name, atoms, q, spin, _, _ = sysdef
    if geom is None:
        geom = fixed_geometry(rng, atoms) if isinstance(atoms, str) else rand_geometry(rng, atoms)
    case = {"kind": "molecule", "name": name, "geom": [[a, list(p)] for a, p in geom], "q": q, "spin": spin, "uhf": uhf, "frozen": frozen}
    try:
        mol = build(name, geom, q, spin, frozen, uhf)
    except Exception as e:
        ctx.count(f"rejected:{type(e).__name__}")
        return True
    n_sos = mol.n_active_sos
    if n_sos > 8 or n_sos < 2:
        ctx.count("skipped:size")
        return True
    na, nb = mol.n_active_ab_electrons
    ctx.case(case, nontrivial=(frozen is not None) or spin != 0, sample=name in ("H2", "H3+"))
    ctx.count(f"mol:{name}:{'uhf' if uhf else 'r'}")
    ferm = mol.fermionic_hamiltonian
    lad = fock.ladder_sparse(n_sos)
    M = fock.fermion_matrix_sparse(ferm, n_sos, lad)
    # (0) the operator is the independently rebuilt active-space Hamiltonian
    try:
        H_ref, n_ref = indep_hamiltonian(mol)
    except NotImplementedError:
        H_ref = None
    if H_ref is not None:
        if n_ref != n_sos:
            ctx.violation(f"active space of {name} (frozen={frozen}, uhf={uhf}) has {n_sos} spin-orbitals, independent construction {n_ref}", case)
            return False
        dev = abs(M - H_ref).max()
        if dev > 5e-7:      # the library drops integrals below 1e-8 (openfermion EQ_TOLERANCE): entries may differ by a few 1e-8
            x, y = np.unravel_index(np.argmax(abs((M - H_ref).toarray())), (2 ** n_sos,) * 2)
            ctx.violation(f"fermionic Hamiltonian of {name} (frozen={frozen}, uhf={uhf}) differs from the Hamiltonian rebuilt from AO integrals by {dev:.3e} (entry <{x:0{n_sos}b}|H|{y:0{n_sos}b}>)", case)
            return False
    # (1) mean-field energy = <reference determinant|H|reference determinant>
    ref_idx = sum(1 << (2 * i) for i in range(na)) + sum(1 << (2 * i + 1) for i in range(nb))
    e_mf = float(mol.mean_field.e_tot)
    rotated = False
    e_det = float(np.real(M[ref_idx, ref_idx]))
    if abs(e_det - e_mf) > 1e-7:
        ctx.violation(f"<reference determinant|H|reference determinant> = {e_det!r} for {name} (frozen={frozen}, uhf={uhf}), mean-field energy {e_mf!r}", case)
        return False
    occ = [0] * n_sos
    for i in range(na):
        occ[2 * i] = 1
    for i in range(nb):
        occ[2 * i + 1] = 1
    e_sec = sector_min(M, n_sos, na, nb)
    encs = [(m, u) for m in ("JW", "BK", "scBK", "JKMN") for u in (False, True)]
    if n_sos >= 8:
        encs = rng.sample(encs, 3)
    for mapping, utd in encs:
        ctx.count(f"enc:{mapping}")
        qop = fermion_to_qubit_mapping(ferm, mapping, n_spinorbitals=n_sos, n_electrons=na + nb, up_then_down=utd, spin=mol.active_spin)
        vec = get_mapped_vector(occ, mapping, utd) if mapping != "scBK" else None
        if mapping == "scBK":
            from tangelo.toolboxes.qubit_mappings.statevector_mapping import get_vector
            vec = get_vector(n_sos, na + nb, "scBK", utd, mol.active_spin)
        x = sum(int(b) << i for i, b in enumerate(vec))
        e_q = float(np.real(fock.qubit_diag_element(qop, x)))
        if abs(e_q - e_mf) > 1e-7:
            ctx.violation(f"{mapping} (up_then_down={utd}) expectation value of the encoded reference determinant of {name} (frozen={frozen}, uhf={uhf}) is {e_q!r}, mean-field energy {e_mf!r}", {**case, "mapping": mapping, "utd": utd})
            return False
        # (2) lowest eigenvalue of the target sector under the encoding (penalised)
        nq = n_sos - (2 if mapping == "scBK" else 0)
        if nq <= 6 or mapping == "JW":
            from tangelo.toolboxes.operators import FermionOperator
            Nq = fermion_to_qubit_mapping(number_operator(n_sos // 2, False), mapping, n_spinorbitals=n_sos, n_electrons=na + nb, up_then_down=utd, spin=mol.active_spin)
            Sq = fermion_to_qubit_mapping(spinz_operator(n_sos // 2, False), mapping, n_spinorbitals=n_sos, n_electrons=na + nb, up_then_down=utd, spin=mol.active_spin)
            Hm = fock.qubit_matrix(qop, nq)
            Nm = fock.qubit_matrix(Nq, nq) - (na + nb) * np.eye(2 ** nq)
            Sm = fock.qubit_matrix(Sq, nq) - 0.5 * (na - nb) * np.eye(2 ** nq)
            P = Hm + 60.0 * (Nm @ Nm + Sm @ Sm)
            lam = float(np.linalg.eigvalsh((P + P.conj().T) / 2)[0])
            if abs(lam - e_sec) > 1e-6:
                ctx.violation(f"lowest eigenvalue of the ({na + nb} electrons, 2S_z={na - nb}) sector of the {mapping} (up_then_down={utd}) Hamiltonian of {name} (frozen={frozen}, uhf={uhf}) is {lam!r}, of the fermionic Hamiltonian {e_sec!r}", {**case, "mapping": mapping, "utd": utd})
                return False
    # (3) classical full CI with the same frozen orbitals
    if not uhf:
        from tangelo.algorithms.classical import FCISolver
        with warnings.catch_warnings():
            warnings.simplefilter("ignore")
            e_fci = float(FCISolver(mol).simulate())
        ctx.count("fci")
        if abs(e_fci - e_sec) > 1e-6:
            ctx.violation(f"FCISolver energy of {name} (q={q}, spin={spin}, frozen={frozen}) is {e_fci!r}, the lowest eigenvalue of the (N={na + nb}, 2S_z={na - nb}) sector of the qubit/fermionic Hamiltonian is {e_sec!r}", case,
                          known_id=None)
            return False
    elif frozen is None and H_ref is not None:
        # full CI does not depend on the orbitals: compare with the restricted calculation of the same geometry
        from tangelo.algorithms.classical import FCISolver
        try:
            with warnings.catch_warnings():
                warnings.simplefilter("ignore")
                e_fci = float(FCISolver(build(name, geom, q, spin, None, False)).simulate())
            ctx.count("fci:uhf-vs-restricted")
            if abs(e_fci - e_sec) > 1e-6:
                ctx.violation(f"sector ground energy {e_sec!r} of the UHF-based Hamiltonian of {name} differs from the full-CI energy {e_fci!r}", case)
                return False
        except Exception:
            pass
    # (4) rotations among active orbitals
    C0 = mol.mo_coeff
    try:
        for _ in range(2):
            ctx.count("rotation")
            if uhf:
                newC = []
                for s in (0, 1):
                    act = list(mol.active_mos[s])
                    A = np.array([[rng.gauss(0, 1) for _ in act] for _ in act])
                    Qm, _ = np.linalg.qr(A)
                    c = np.array(C0[s], copy=True)
                    c[:, act] = c[:, act] @ Qm
                    newC.append(c)
                mol.mo_coeff = newC
            else:
                act = list(mol.active_mos)
                A = np.array([[rng.gauss(0, 1) for _ in act] for _ in act])
                Qm, _ = np.linalg.qr(A)
                c = np.array(C0, copy=True)
                c[:, act] = c[:, act] @ Qm
                mol.mo_coeff = c
            M2 = fock.fermion_matrix_sparse(mol.fermionic_hamiltonian, n_sos, lad)
            e2 = sector_min(M2, n_sos, na, nb)
            if abs(e2 - e_sec) > 1e-6:
                ctx.violation(f"rotating the active orbitals of {name} (frozen={frozen}, uhf={uhf}) moves the lowest sector eigenvalue from {e_sec!r} to {e2!r}", case)
                return False
    finally:
        mol.mo_coeff = C0
    return True


# ---------------------------------------------------------------------------------------------- partition model
def partition_case(ctx, rng):
    from tangelo.toolboxes.molecular_computation.frozen_orbitals import convert_frozen_orbitals
    n_mos = rng.randint(2, 8)
    n_docc = rng.randint(0, n_mos - 1)
    n_socc = rng.randint(0 if n_docc > 0 else 1, max(0 if n_docc > 0 else 1, min(2, n_mos - n_docc - 1)))
    occ = [2.0] * n_docc + [1.0] * n_socc + [0.0] * (n_mos - n_docc - n_socc)
    r = rng.random()
    if r < 0.2:
        spec = None
    elif r < 0.45:
        spec = rng.randint(-1, n_mos + 1)
    else:
        spec = [rng.randint(-1, n_mos) for _ in range(rng.randint(0, n_mos))]
        if rng.random() < 0.7:
            spec = sorted(set(x for x in spec if 0 <= x < n_mos))
            if rng.random() < 0.5:
                rng.shuffle(spec)

    class M:
        pass
    m = M()
    m.uhf = False
    m.n_mos = n_mos
    m.mo_occ = np.array(occ)
    m.n_electrons = int(sum(occ))
    m.n_min_orbitals = 0
    case = {"kind": "partition", "occ": occ, "spec": spec}
    ctx.case(case, nontrivial=spec is not None, sample=n_mos <= 3)
    ctx.count("partition")
    try:
        out = convert_frozen_orbitals(m, spec if not isinstance(spec, list) else list(spec))
        code = ["ok"] + [list(map(int, x)) for x in out]
    except Exception as e:
        code = ["err"]
    j = ctx.model.ask({"op": "partition", "occ": [int(x) for x in occ], "spec": spec})
    model = j.get("out")
    if model != code:
        ctx.mismatch("orbital partition differs from the model", case, model, code)
        return False
    if code[0] == "ok":
        ao, fo, av, fv = code[1:]
        # duplicates in the user's list are kept by the code (not a valid selection): compare as sets
        allidx = sorted(set(ao) | set(av) | set(fo) | set(fv))
        disjoint = not (set(ao) & set(fo)) and not (set(av) & set(fv)) and not ((set(ao) | set(fo)) & (set(av) | set(fv)))
        if allidx != list(range(n_mos)) or not disjoint:
            ctx.violation(f"convert_frozen_orbitals does not partition the orbitals: {code}", case)
            return False
    return True


def run(ctx):
    rng = ctx.rng
    ok = True
    jobs = []
    for sd in SYSTEMS:
        for f in sd[4]:
            jobs.append((sd, False, f))
        for f in sd[5]:
            jobs.append((sd, True, f))
    rng.shuffle(jobs)
    # quick: every system once restricted and once unrestricted, the rest thorough
    chosen, seen = [], set()
    for j in jobs:
        key = (j[0][0], j[1])
        if key not in seen:
            seen.add(key)
            chosen.append(j)
    # high-spin restricted references with frozen orbitals exercise the CAS branch of the classical solver: every run
    chosen += [j for j in jobs if j not in chosen and j[0][3] >= 2 and not j[1] and j[2] is not None]
    # triplet ground state below the closed-shell reference, with frozen orbitals: every run
    chosen += [j for j in jobs if j not in chosen and j[0][0] == "H4rect"]
    extra = [j for j in jobs if j not in chosen]
    chosen += extra[:ctx.n(6, len(extra))]
    for (sd, uhf, f) in chosen:
        ok &= molecule_case(ctx, rng, sd, uhf, f)
    for _ in range(ctx.n(150, 1500)):
        ok &= partition_case(ctx, rng)
    return ok


def replay(ctx, obj):
    rng = random.Random(2)
    if obj.get("kind") == "molecule":
        sd = [s for s in SYSTEMS if s[0] == obj["name"]][0]
        geom = [(a, tuple(p)) for a, p in obj["geom"]]
        return molecule_case(ctx, rng, sd, obj["uhf"], obj["frozen"], geom)
    return all(partition_case(ctx, rng) for _ in range(500))


def search(ctx, broken):
    rng = random.Random(17)
    ok = True
    for sd in SYSTEMS:
        for f in sd[4]:
            ok &= molecule_case(ctx, rng, sd, False, f)
        for f in sd[5]:
            ok &= molecule_case(ctx, rng, sd, True, f)
    return ok
