"""C06 — Pauli-exponential and time-evolution circuits implement exp(-itH)."""
import math, random, itertools
import numpy as np
import vlib
from vlib import ang_float, rand_ang, dump_tangelo_gate, dump_model_gate, gates_equal, np_circuit_unitary, tangelo_dump_to_specs

CLAIM = {
 "text": "Proof (Lean 4), partial: the model of exp_pauliword_to_gates / the Trotter decomposition (orders 1, 2) / the emission loop of get_exponentiated_qubit_operator_circuit / trotterize is tied to the code by gate-list correspondence. Proved for the model: the CNOT ladder around a diagonal rotation acts as the parity-controlled phase on every support (induction over the ladder); the basis-change identities H Z H = X and RX(pi/2)^-1 Z RX(pi/2) = Y as matrix identities; hence exp_pauliword_to_gates implements cos c - i sin c P for every Z-type word of any length, with and without control (controlled version including the phase); and for the GENERAL word (any mix of X, Y, Z letters on distinct qubits, any length, both sign branches of the angle rule, optional control list disjoint from the word): the emitted list - basis changes, CNOT ladder, (C)RZ, reversed ladder, inverse basis changes in reverse order - acts as cos c * psi - i sin c * (P_w psi) where all control bits are 1 and as the identity elsewhere, on every state of every register size (one-qubit operators on different qubits commute, B^-1 Z B = X / Y letter by letter, linearity with coefficients that depend on the control bits only), also instantiated for the executable amplitudes; the angle rule 2c / 4pi+2c denotes the same operator (4pi-periodicity); identity-term contributions equal exp(-ic) (returned phase; PHASE on a single control; multi-controlled phase); order-2 list is the palindrome of two half-time order-1 lists; repeating the circuit n times composes the semantics n times; for an operator whose terms are identity words and Z-type words (a commuting family) the whole emission loop, uncontrolled, is EXACT for every term list and every number of steps: the circuit denotes the diagonal operator x -> (prod_j exp(-+ i c_j))^n, the returned phase angle is the sum of the identity coefficients (emit_diagonal_exact, trotter_diagonal_exact, under the stated hypothesis that the float decision |coef| > 1e-10 keeps every non-identity term; emitStep_dropped shows a rejected term leaves no trace). NOT proved: that the word operator P_w of the model (letter-by-letter one-qubit Pauli matrices) exponentiates to cos - i sin P_w as a matrix exponential (the oracle compares with expm numerically), and the product-formula commutator error bounds (stated; checked numerically with the standard first/second-order bounds).",
 "note": "Trusted: Lean kernel + standard axioms; correspondence harness; scipy.linalg.expm and numpy in the oracle. Coefficients are exact angles so that 2c, 4pi+2c, time scaling by integers and halving are exact; the float tests coef >= 0 and |coef| > 1e-10 are evaluated in Float by the driver (no case within 1e-9 of a threshold is generated except exact zero).",
 "technique": "Lean 4 theorems (CNOT-ladder parity lemma, basis-change identities, periodicity, composition) + gate-list correspondence + expm oracle with commutator bounds"}

RULE = ("(a) all Pauli words on <= 3 qubits placed at random indices of a 6-qubit register x coefficient profiles (0, tiny, generic, negative, beyond 2pi) x control in "
        "{none, int, [q], [q1,q2], [q1,q2,q3]}; (b) random qubit operators (1-5 terms incl. identity, words on <= 3 qubits) with integer scalar or per-term times, orders 1/2, "
        "steps 1-3, optional pauli_order; (b') total times of 1e-5..1e-4 cut into 3000-8000 steps (per-step angle 1e-9..1e-8), commuting and non-commuting, orders 1/2, one step raised to the number of steps (oracle only); (c) fermionic operators through trotterize under JW/BK/scBK (oracle only). Non-trivial: word non-empty and coefficient non-zero; distinct by hash")
TRUSTED = ["scipy.linalg.expm (oracle)"]
ASSUMPTIONS = ["commutator bounds: n*(t/n)^2/2*sum||[Hj,Hk]|| (order 1), Childs-Su second-order bound (order 2)"]

PAULI = {"X": np.array([[0, 1], [1, 0]], dtype=complex), "Y": np.array([[0, -1j], [1j, 0]]), "Z": np.diag([1, -1]).astype(complex), "I": np.eye(2, dtype=complex)}


def word_matrix(word, n):
    """word: list of (idx, 'X'); index convention bit q = qubit q  (kron with qubit 0 least significant)"""
    d = dict(word)
    M = np.eye(1, dtype=complex)
    for q in range(n):
        M = np.kron(PAULI[d.get(q, "I")], M)
    return M


def controlled(U, controls, n):
    """U on the subspace where all control bits are 1"""
    dim = 2 ** n
    out = np.eye(dim, dtype=complex)
    mask = sum(1 << c for c in controls)
    idx = [x for x in range(dim) if x & mask == mask]
    out[np.ix_(idx, idx)] = U[np.ix_(idx, idx)]
    return out


def expm_herm(H, t):
    w, V = np.linalg.eigh(H)
    return (V * np.exp(-1j * t * w)) @ V.conj().T


def rand_word(rng, n, maxlen=3, allow_empty=False):
    k = rng.randint(0 if allow_empty else 1, maxlen)
    qs = sorted(rng.sample(range(n), k))
    return [[q, rng.choice("XYZ")] for q in qs]


def rand_coef(rng):
    p = rng.random()
    if p < 0.08:
        return list(vlib.ZERO_ANG)
    if p < 0.2:
        v = [0] * 7; v[5 + rng.randint(0, 1)] = rng.choice([1, -1, 2]); return v
    v = rand_ang(rng, rng.choice(["generic", "generic", "pi4", "big"]))
    if rng.random() < 0.4:
        v = vlib.ang_neg(v)
    return v


def case_word(ctx, w, gam, control, var):
    from tangelo.toolboxes.ansatz_generator.ansatz_utils import exp_pauliword_to_gates
    from tangelo.linq import Circuit
    n = 6
    coef = ang_float(gam)
    case = {"kind": "word", "w": w, "coef": gam, "control": control, "var": var}
    word = tuple((q, p) for q, p in w)
    try:
        gs = exp_pauliword_to_gates(word, coef, variational=var, control=control)
        py = [dump_tangelo_gate(g) for g in gs]
    except Exception as e:
        py = vlib.err_name(e)
    ctl_model = None if control is None else ([control] if isinstance(control, int) else control)
    j = ctx.model.ask({"op": "exp_pauliword", "w": w, "coef": gam, "var": var, "control": ctl_model})
    ctx.case(case, nontrivial=bool(w) and any(gam))
    ctx.count("word:len%d:ctl%s" % (len(w), "none" if control is None else (1 if isinstance(control, int) else len(control))))
    if isinstance(py, str) or "gates" not in j:
        if not (isinstance(py, str) and "gates" not in j):
            ctx.mismatch(f"exp_pauliword_to_gates: code {py if isinstance(py, str) else 'gates'} vs model {j.get('r', 'gates')}", case)
            return False
        return True
    mo = [dump_model_gate(g) for g in j["gates"]]
    # the code passes an int control as is (Gate turns it into a list)
    ok = gates_equal(py, mo, tol=1e-9)
    # oracle: the circuit is (controlled) exp(-i c P), phase included
    U = np_circuit_unitary(tangelo_dump_to_specs(py), n)
    P = word_matrix(word, n)
    target = math.cos(coef) * np.eye(2 ** n) - 1j * math.sin(coef) * P
    if control is not None:
        target = controlled(target, ctl_model, n)
    if not np.allclose(U, target, atol=1e-8):
        ctx.violation(f"exp_pauliword_to_gates({word}, {coef:.6g}, control={control}) is not {'controlled ' if control is not None else ''}exp(-i c P) "
                      f"(max dev {np.max(np.abs(U - target)):.3g})", case)
        return False
    if not ok:
        ctx.mismatch("exp_pauliword_to_gates: gate list differs from the model (semantics still exact)", case, mo, py)
        return False
    return True


def comm(A, B):
    return A @ B - B @ A


def trotter_bound(Hs, t, order, steps):
    """rigorous product-formula bounds (spectral norm), per step of length t/steps, times steps"""
    dt = t / steps
    nrm = lambda M: np.linalg.norm(M, 2)
    if order == 1:
        b = 0.0
        for j in range(len(Hs)):
            for k in range(j + 1, len(Hs)):
                b += nrm(comm(Hs[j], Hs[k]))
        return steps * (dt ** 2 / 2) * b
    b = 0.0
    for j in range(len(Hs)):
        rest = sum(Hs[j + 1:], np.zeros_like(Hs[0]))
        b += nrm(comm(rest, comm(rest, Hs[j]))) / 12 + nrm(comm(Hs[j], comm(Hs[j], rest))) / 24
    return steps * abs(dt) ** 3 * b


def case_op(ctx, terms, times, order, steps, control, use_pauli_order, scalar_time):
    """terms: list of (word, gamma); times: per-term integer TOTAL times (multiples of steps)"""
    from tangelo.toolboxes.operators import QubitOperator
    from tangelo.toolboxes.ansatz_generator.ansatz_utils import get_exponentiated_qubit_operator_circuit, trotterize
    n = 5
    case = {"kind": "op", "terms": terms, "times": times, "order": order, "steps": steps, "control": control,
            "pauli_order": use_pauli_order, "scalar_time": scalar_time}
    op = QubitOperator()
    for w, g in terms:
        op += QubitOperator(tuple((q, p) for q, p in w), ang_float(g))
    keys = list(op.terms.keys())
    if len(keys) != len(terms):
        return True          # duplicate words were merged by openfermion: not this generator's business
    tdict = {tuple((q, p) for q, p in w): float(t) for (w, _), t in zip(terms, times)}
    time_arg = float(times[0]) if scalar_time else tdict
    op_before, time_before = dict(op.terms), (dict(tdict) if not scalar_time else None)
    try:
        if steps == 1 and use_pauli_order:
            po = [(tuple((q, p) for q, p in w), ang_float(g)) for w, g in terms][::-1]
            circ, phase = get_exponentiated_qubit_operator_circuit(op, time=time_arg, trotter_order=order, control=control,
                                                                   return_phase=True, pauli_order=po)
            mterms, mtimes = terms[::-1], times[::-1]
        else:
            circ, phase = trotterize(op, time=time_arg, n_trotter_steps=steps, trotter_order=order, control=control, return_phase=True)
            mterms, mtimes = terms, times
        py = [dump_tangelo_gate(g) for g in circ]
        # arguments belong to the caller; a second call with the same arguments gives the same circuit
        if dict(op.terms) != op_before or (time_before is not None and tdict != time_before):
            ctx.violation("the time-evolution routine modified the operator or the time dictionary it was given", case)
            return False
        if len(py) <= 60 and not (steps == 1 and use_pauli_order):
            circ2, phase2 = trotterize(op, time=time_arg, n_trotter_steps=steps, trotter_order=order, control=control, return_phase=True)
            if [dump_tangelo_gate(g) for g in circ2] != py or phase2 != phase:
                ctx.violation("a second call of trotterize with the same arguments returns a different circuit / phase", case)
                return False
            ctx.count("op:second-call")
    except Exception as e:
        py, phase = vlib.err_name(e), None
    ctl_model = None if control is None else ([control] if isinstance(control, int) else control)
    j = ctx.model.ask({"op": "exp_qubitop", "terms": [[w, g] for w, g in mterms], "times": [t // steps for t in mtimes], "order": order,
                       "var": False, "control": ctl_model, "steps": steps})
    ctx.case(case, nontrivial=any(w for w, _ in terms))
    ctx.count(f"op:order{order}:steps{steps}:ctl{'none' if control is None else (1 if isinstance(control, int) else len(control))}")
    if j.get("r") == "ERR:inexact":
        return True
    if isinstance(py, str) or "gates" not in j:
        if not (isinstance(py, str) and "gates" not in j):
            ctx.mismatch(f"time-evolution circuit: code {py if isinstance(py, str) else 'gates'} vs model {j.get('r', j.get('err', 'gates'))}", case)
            return False
        return True
    # ---- oracle
    Hs = [ang_float(g) * t * word_matrix(tuple((q, p) for q, p in w), n) for (w, g), t in zip(mterms, mtimes)]
    H = sum(Hs, np.zeros((2 ** n, 2 ** n), dtype=complex))
    exact = expm_herm(H, 1.0)
    U = np_circuit_unitary(tangelo_dump_to_specs(py), n) * phase
    if control is not None:
        exact = controlled(exact, ctl_model, n)
    err = np.linalg.norm(U - exact, 2)
    bound = trotter_bound(Hs, 1.0, order, steps)
    if err > bound + 1e-7:
        ctx.violation(f"time evolution (order {order}, {steps} steps, control={control}): ||circuit*phase - exp(-itH)|| = {err:.3g} exceeds the "
                      f"commutator bound {bound:.3g}", case)
        return False
    mo = [dump_model_gate(g) for g in j["gates"]]
    mphase = np.exp(-1j * ang_float(j["phase"]))
    if not gates_equal(py, mo, tol=1e-9) or abs(mphase - phase) > 1e-9:
        ctx.mismatch("time-evolution circuit: gate list or phase differs from the model", case, {"gates": mo[:6], "phase": str(mphase)}, {"gates": py[:6], "phase": str(phase)})
        return False
    return True


def case_fermion(ctx, rng):
    """fermionic input (oracle only): trotterize under JW / BK / scBK vs expm of the mapped operator"""
    from tangelo.toolboxes.operators import FermionOperator
    from tangelo.toolboxes.ansatz_generator.ansatz_utils import trotterize
    from tangelo.toolboxes.qubit_mappings.mapping_transform import fermion_to_qubit_mapping
    from openfermion import get_sparse_operator
    n_so = 4
    op = FermionOperator()
    terms = []
    for _ in range(rng.randint(1, 3)):
        i, j = rng.sample(range(n_so), 2)
        c = rng.choice([0.3, -0.7, 1.1, 2.5])
        if rng.random() < 0.4:
            # complex hopping amplitude (Hermitian through the conjugate pair); complex with zero real part included
            c = complex(rng.choice([0.0, 0.3, -0.7]), rng.choice([0.45, -0.9, 1.3]))
        op += FermionOperator(((i, 1), (j, 0)), c) + FermionOperator(((j, 1), (i, 0)), np.conj(c))
    if rng.random() < 0.5:
        op += FermionOperator(((0, 1), (0, 0)), 0.4)
    mapping = rng.choice(["jw", "bk", "jkmn"])
    steps, order = rng.randint(1, 3), rng.choice([1, 2])
    use_dict = rng.random() < 0.5
    tval = rng.choice([0.5, 1.0, -0.8])
    time = {k: tval for k in op.terms} if use_dict else tval
    opts = {"qubit_mapping": mapping, "up_then_down": rng.random() < 0.5, "n_spinorbitals": n_so, "n_electrons": 2}
    control = rng.choice([None, 4, 0]) if False else rng.choice([None, 4])
    case = {"kind": "fermion", "terms": {str(k): v for k, v in op.terms.items()}, "mapping": opts, "steps": steps, "order": order,
            "time": tval, "dict_time": use_dict, "control": control}
    f_before = dict(op.terms)
    circ, phase = trotterize(op, time=time, n_trotter_steps=steps, trotter_order=order, mapping_options=opts, control=control, return_phase=True)
    if dict(op.terms) != f_before:
        ctx.violation("trotterize modified the fermionic operator it was given", {"kind": "fermion", "terms": {str(k): v for k, v in f_before.items()}})
        return False
    n = 5
    qop = fermion_to_qubit_mapping(op, mapping, n_spinorbitals=n_so, n_electrons=2, up_then_down=opts["up_then_down"])
    Hs = [np.real(c) * tval * word_matrix(w, n) for w, c in qop.terms.items()]
    H = sum(Hs, np.zeros((2 ** n, 2 ** n), dtype=complex))
    exact = expm_herm(H, 1.0)
    if control is not None:
        exact = controlled(exact, [control], n)
    U = np_circuit_unitary(tangelo_dump_to_specs([dump_tangelo_gate(g) for g in circ]), n) * phase
    err = np.linalg.norm(U - exact, 2)
    bound = trotter_bound(Hs, 1.0, order, steps)
    ctx.case(case, nontrivial=True, sample=False)
    ctx.count("fermion:" + mapping)
    if err > bound + 1e-7:
        ctx.violation(f"trotterize(fermionic, {mapping}, order {order}, steps {steps}, dict_time={use_dict}): error {err:.3g} exceeds bound {bound:.3g}", case)
        return False
    return True


def many_steps_case(ctx, rng, force=None):
    """a fixed (small) total time cut into thousands of steps: the per-step angle is 1e-9 .. 1e-8, the total angle 1e-5 .. 1e-4.
    Whatever is lost per step accumulates linearly with the number of steps ("any number of steps").  Oracle only: the unitary of
    one step (the gate list is checked to be periodic) raised to the number of steps, against exp(-i t H)."""
    from tangelo.toolboxes.operators import QubitOperator
    from tangelo.toolboxes.ansatz_generator.ansatz_utils import trotterize
    n = 3
    steps, order, commuting, per_step, sign, use_dict = force or (rng.choice([3000, 5000, 8000]), rng.choice([1, 2]), rng.random() < 0.5,
                                                                  rng.choice([1.2e-9, 4e-9, 9e-9]), rng.choice([1, -1]), rng.random() < 0.4)
    words = [((0, "Z"),), ((1, "Z"), (2, "Z")), ((0, "Z"), (1, "Z"))] if commuting else [((0, "X"),), ((0, "Z"), (1, "Z")), ((1, "Y"), (2, "X"))]
    coefs = [1.0, -0.5, 0.75]
    t = sign * per_step * steps * (2 if order == 2 else 1)
    op = QubitOperator()
    for w, c in zip(words, coefs):
        op += QubitOperator(w, c)
    time = {w: t for w in words} if use_dict else t
    case = {"kind": "many_steps", "force": [steps, order, commuting, per_step, sign, use_dict]}
    circ, phase = trotterize(op, time=time, n_trotter_steps=steps, trotter_order=order, return_phase=True)
    py = [dump_tangelo_gate(g) for g in circ]
    ctx.case(case, nontrivial=True, sample=False)
    ctx.count(f"many-steps:order{order}:{'commuting' if commuting else 'noncommuting'}")
    L = len(py) // steps if steps and len(py) % steps == 0 else 0
    if L and all(py[i] == py[i % L] for i in range(len(py))):
        U = np.linalg.matrix_power(np_circuit_unitary(tangelo_dump_to_specs(py[:L]), n), steps) * phase
    else:
        U = np_circuit_unitary(tangelo_dump_to_specs(py), n) * phase
    Hs = [c * t * word_matrix(w, n) for w, c in zip(words, coefs)]
    exact = expm_herm(sum(Hs, np.zeros((2 ** n, 2 ** n), dtype=complex)), 1.0)
    err = np.linalg.norm(U - exact, 2)
    bound = trotter_bound(Hs, 1.0, order, steps)
    if err > bound + 1e-7:
        ctx.violation(f"time evolution over total time {t:.3g} in {steps} steps (order {order}, per-step angle {per_step:.2g}, {len(py)} gates): "
                      f"||circuit*phase - exp(-itH)|| = {err:.3g} exceeds the commutator bound {bound:.3g}", case)
        return False
    return True


def run(ctx):
    rng = ctx.rng
    controls = [None, None, 5, [5], [4, 5], [3, 4, 5], [0, 5], 0, [0]]     # the bare integer 0 is falsy: a classic slip
    # (a) single words
    for i in range(ctx.n(160, 4000)):
        ctl = rng.choice(controls)
        forb = set() if ctl is None else set([ctl] if isinstance(ctl, int) else ctl)
        w = [f for f in rand_word(rng, 5, 3) if f[0] not in forb] or [[1, "Z"]]
        if not case_word(ctx, w, rand_coef(rng), ctl, rng.random() < 0.5) and len(ctx.violations) + len(ctx.mismatches) >= 3:
            return
    if not ctx.quick:
        for k in (1, 2, 3):
            for qs in itertools.combinations(range(4), k):
                for ps in itertools.product("XYZ", repeat=k):
                    for gam in ([0, 1, 0, 0, 0, 0, 0], [0, -1, 0, 0, 0, 0, 0], [9, 0, 1, 0, 0, 0, 0]):
                        for ctl in (None, 5, [4, 5]):
                            case_word(ctx, [[q, p] for q, p in zip(qs, ps)], gam, ctl, False)
    # (b) operators
    for i in range(ctx.n(120, 3000)):
        ctl = rng.choice([None, None, 4, [4], [3, 4], [0, 4], 0, 0, [0]])
        forb = set() if ctl is None else set([ctl] if isinstance(ctl, int) else ctl)
        terms, seen = [], set()
        for _ in range(rng.randint(1, 5)):
            w = [f for f in rand_word(rng, 4, 3, allow_empty=True) if f[0] not in forb]
            key = tuple(map(tuple, w))
            if key in seen:
                continue
            seen.add(key)
            g = rand_coef(rng)
            g = [2 * x for x in g] if rng.random() < 0.7 else g      # even components: order 2 halves exactly
            terms.append((w, g))
        steps = rng.choice([1, 1, 2, 3])
        scalar = rng.random() < 0.6
        t0 = steps * rng.choice([1, 1, 2, -1])
        times = [t0] * len(terms) if scalar else [steps * rng.choice([1, 2, -1, 3]) for _ in terms]
        if not case_op(ctx, terms, times, rng.choice([1, 2]), steps, ctl, rng.random() < 0.3, scalar) and len(ctx.violations) + len(ctx.mismatches) >= 3:
            return
    # (b') thousands of tiny steps: one forced case of each order every run, plus random ones
    for force in ((3000, 1, True, 9e-9, 1, False), (5000, 2, False, 4e-9, -1, True)):
        if not many_steps_case(ctx, rng, force):
            return
    for i in range(ctx.n(2, 40)):
        if not many_steps_case(ctx, rng):
            return
    # (c) fermionic input, oracle only
    for i in range(ctx.n(25, 400)):
        if not case_fermion(ctx, rng):
            return


def replay(ctx, obj):
    case = obj.get("case") or (obj.get("first_mismatch") or {}).get("case")
    if not case:
        return
    if case.get("kind") == "word":
        case_word(ctx, case["w"], case["coef"], case["control"], case["var"])
    elif case.get("kind") == "many_steps":
        many_steps_case(ctx, random.Random(0), tuple(case["force"]))
    elif case.get("kind") == "op":
        case_op(ctx, [(w, g) for w, g in case["terms"]], case["times"], case["order"], case["steps"], case["control"], case["pauli_order"], case["scalar_time"])


def search(ctx, broken):
    rng = random.Random(ctx.seed + 31)
    for i in range(ctx.n(300, 3000)):
        if not case_fermion(ctx, rng):
            return
