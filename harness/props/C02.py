"""C02 — expectation values equal <psi|H|psi> on every evaluation path."""
import math, random
import numpy as np
from fractions import Fraction
import vlib
from vlib import to_tangelo_gate, cyc_to_complex, frac_str

CLAIM = {
 "text": "Proof (Lean 4), partial: model = exact <psi|H|psi> computed two ways (statevector route: overlap with the Pauli-circuit image; frequency route: measurement-basis rotation from the table regenerated from /repo, then the parity rule). Proved: the parity rule's sample values are +-1 and the one-term variance over any normalised frequency list equals 1 - E^2; the expectation is linear in the coefficients and the complex split (real part + i * imaginary part evaluated separately) recombines to the value of the complex operator; every row of the measurement-basis table regenerated from /repo rotates its Pauli letter into Z (kernel computation in Q(zeta_16) over the whole table); an identity term contributes its coefficient. Also proved, for every register size, every state and every Pauli word with distinct qubits inside the register: <M phi | chi> = <phi | M^dagger chi> for a one-qubit operator (pairing of the basis states), one-qubit operators on different qubits commute, the rotations RY(-pi/2) / RX(pi/2) / none satisfy B^dagger Z B = X / Y / Z (and the regenerated table is exactly these rows), the Z-string multiplies each amplitude by the parity sign of the masked bit string, hence the frequency route (rotate into the measurement basis, apply the parity rule to the exact outcome probabilities) equals the overlap <psi|P|psi> of the statevector route, term by term and for whole operators; instantiated for the executable amplitudes Q(zeta_16). The array-based executable model is PROVED to compute these function-level quantities (expectWord_is_specified: the driver's statevector route is inner n psi (P psi); freqRoute_is_specified: its frequency route - rotations read from the regenerated measurement-basis table, parity rule on exact frequencies - is the same number; routes_agree_on_driver), for every word inside the register and every state. The tie to the real backends is the correspondence: both routes are evaluated exactly by the model on every generated case and every route of the real code is compared with that value. Finite shots: only that estimates lie within 6 reported standard errors and that variance/standard error follow the exact distribution.",
 "note": "Trusted: Lean kernel + standard axioms; cirq/sympy simulators; numpy; scipy sampler. Coefficients are dyadic rationals so that floats are exact; tolerance 1e-8.",
 "technique": "Lean 4 theorems (route equality for all states and register sizes via the adjoint lemma, variance identity, linearity/complex split, basis-rotation identities) + exact route-by-route correspondence against the real backends"}

RULE = ("random qubit operators (1-6 terms incl. identity; real, integer, numpy and complex dyadic coefficients) x random circuits (width 1-4, C01 generator) with optional rational initial "
        "statevector or MEASURE gates + desired outcome; routes: public get_expectation_value, both private routes, sympy, get_variance / get_standard_error; non-trivial if the exact value "
        "is not an integer multiple of a coefficient sum (|E| not 0/1); distinct by hash")
TRUSTED = ["cirq/sympy simulators"]
ASSUMPTIONS = ["tolerance 1e-8; finite-shot estimates within 6 standard errors"]


def rand_terms(rng, n, complex_ok=True):
    terms, seen = [], set()
    for _ in range(rng.randint(1, 6)):
        k = rng.randint(0, min(3, n))
        qs = sorted(rng.sample(range(n), k))
        w = [[q, rng.choice("XYZ")] for q in qs]
        key = tuple(map(tuple, w))
        if key in seen:
            continue
        seen.add(key)
        re = Fraction(rng.randint(-16, 16), 8)
        im = Fraction(rng.randint(-8, 8), 8) if complex_ok and rng.random() < 0.5 else Fraction(0)
        if re == 0 and im == 0:
            re = Fraction(1, 2)
        terms.append((w, re, im))
    return terms


def build_op(terms, rng, force_complex_type=False):
    from tangelo.toolboxes.operators import QubitOperator
    op = QubitOperator()
    for w, re, im in terms:
        if im != 0 or force_complex_type:
            # every complex scalar type the operator classes accept (the values are multiples of 1/8: exact in single precision)
            c = rng.choice([complex, complex, np.complex128, np.complex64])(complex(float(re), float(im)))
        else:
            c = rng.choice([float(re), np.float64(float(re)), np.float32(float(re)), int(re) if re.denominator == 1 else float(re)])
        op += QubitOperator(tuple((q, p) for q, p in w), c)
    return op


def one_case(ctx, specs, n, init, meas, terms, seed):
    """specs: unitary gate specs; meas: None or list of (position, qubit) to insert MEASURE + desired string"""
    from tangelo.linq import Circuit, Gate, get_backend
    rng = random.Random(seed)
    case = {"gates": specs, "n": n, "init": None if init is None else [[str(a), str(b)] for a, b in init], "meas": meas,
            "terms": [[w, str(re), str(im)] for w, re, im in terms], "seed": seed}
    prog = list(specs)
    desired = None
    if meas:
        desired = meas["desired"]
        for pos, q in sorted(meas["at"], reverse=True):
            prog.insert(min(pos, len(prog)), {"n": "MEASURE", "t": [q], "c": None, "p": None, "v": False})
    circ = Circuit([Gate("MEASURE", g["t"][0]) if g["n"] == "MEASURE" else to_tangelo_gate(g) for g in prog], n_qubits=n)
    norm, init_np, init_model = 1.0, None, None
    if init is not None:
        vec = np.array([complex(float(a), float(b)) for a, b in init])
        norm = float(np.linalg.norm(vec)); init_np = vec / norm
        init_model = [vlib.cyc_of_complex_rational(a, b) for a, b in init]
    mterms = [[w, [frac_str(re), 0, 0, 0, frac_str(im), 0, 0, 0]] for w, re, im in terms]
    j = ctx.model.ask({"op": "branch", "prog": prog, "n": n, "order": "lsq_first", "desired": desired or "", "init": init_model, "terms": mterms})
    if "prob" not in j:
        ctx.mismatch(f"model refused: {j}", case)
        return False
    p = cyc_to_complex(j["prob"]).real
    if p / norm ** 2 < 1e-9:
        return True
    exact = cyc_to_complex(j["exp"]["sv_route"]) / p
    exact_f = cyc_to_complex(j["exp"]["freq_route"]) / p
    if abs(exact - exact_f) > 1e-9:
        ctx.mismatch(f"model: statevector route {exact} and frequency route {exact_f} disagree (exact arithmetic)", case)
        return False
    is_complex = any(im != 0 for _, _, im in terms)
    op = build_op(terms, rng)
    sim = get_backend("cirq")
    results = {}

    def call(tag, f):
        try:
            results[tag] = complex(f())
        except Exception as e:
            results[tag] = vlib.err_name(e) + ":" + str(e)[:80]
    call("public", lambda: sim.get_expectation_value(op, circ, initial_statevector=init_np, desired_meas_result=desired))
    if not is_complex:
        call("freq_route", lambda: sim._get_expectation_value_from_frequencies(op, circ, initial_statevector=init_np, desired_meas_result=desired))
        if (not meas or desired is not None) and specs:     # (the public API never takes this route for an empty circuit)
            call("sv_route", lambda: sim._get_expectation_value_from_statevector(op, circ, initial_statevector=init_np, desired_meas_result=desired))
    if not meas and n <= 3 and len(specs) <= 6 and all(g["n"] not in ("XX", "CSWAP") for g in specs):
        ssim = get_backend("sympy")
        call("sympy", lambda: ssim.get_expectation_value(op, circ, initial_statevector=None if init_np is None else _to_msq(init_np, n)))
    ctx.count("routes", len(results))
    ctx.case(case, nontrivial=abs(abs(exact) - round(abs(exact))) > 1e-6, sample=len(specs) <= 3)
    for tag, val in results.items():
        if isinstance(val, str):
            ctx.violation(f"route {tag} raised {val} where <psi|H|psi> = {exact:.10g}", case)
            return False
        if abs(val - exact) > 1e-7:
            ctx.violation(f"route {tag} returned {val:.10g}, <psi|H|psi> = {exact:.10g}", case)
            return False
    # variance / standard error on exact frequencies (n_shots=None): sum |c|^2 (1 - E_P^2) per term (a complex operator is
    # measured as its real and its imaginary part)
    if True:
        vt = [cyc_to_complex(z).real for z in j["exp"]["variance_terms"]]
        et = [cyc_to_complex(z).real / p for z in j["exp"]["expect_terms"]]
        ref_var = sum((float(re) ** 2 + float(im) ** 2) * (1 - e * e) for (w, re, im), e in zip(terms, et))
        try:
            var = float(sim.get_variance(op, circ, initial_statevector=init_np, desired_meas_result=desired))
            se = float(sim.get_standard_error(op, circ, initial_statevector=init_np, desired_meas_result=desired))
        except Exception as e:
            ctx.violation(f"get_variance raised {vlib.err_name(e)}: {str(e)[:100]} (get_expectation_value answers {exact:.6g})", case,
                          known_id=None)
            return False
        ctx.count("variance")
        if abs(var - ref_var) > 1e-7 or se != 0.0:
            ctx.violation(f"get_variance returned {var:.10g} (standard error {se}); exact frequencies give {ref_var:.10g} and 0", case)
            return False
    return True


def _to_msq(v, n):
    out = np.zeros(2 ** n, dtype=complex)
    for idx in range(2 ** n):
        m = sum(((idx >> (n - 1 - q)) & 1) << q for q in range(n))
        out[m] = v[idx]
    return out


def shots_case(ctx, specs, n, terms, seed):
    """finite shots: the estimate is a draw from the exact distribution: within 6 reported standard errors"""
    from tangelo.linq import Circuit, get_backend
    rng = random.Random(seed)
    op = build_op(terms, rng)
    circ = Circuit([to_tangelo_gate(g) for g in specs], n_qubits=n)
    mterms = [[w, [frac_str(re), 0, 0, 0, 0, 0, 0, 0]] for w, re, im in terms]
    j = ctx.model.ask({"op": "branch", "prog": specs, "n": n, "order": "lsq_first", "desired": "", "init": None, "terms": mterms})
    exact = cyc_to_complex(j["exp"]["sv_route"]).real
    et = [cyc_to_complex(z).real for z in j["exp"]["expect_terms"]]
    ref_var = sum(float(re) ** 2 * (1 - e * e) for (w, re, im), e in zip(terms, et))
    shots = 4000
    np.random.seed(seed % (2 ** 31))
    sim = get_backend("cirq", n_shots=shots)
    est = float(sim.get_expectation_value(op, circ))
    np.random.seed(seed % (2 ** 31))
    var = float(sim.get_variance(op, circ))
    se = float(sim.get_standard_error(op, circ))
    case = {"gates": specs, "n": n, "terms": [[w, str(re), str(im)] for w, re, im in terms], "seed": seed, "n_shots": shots}
    ctx.count("shots")
    tol = 6 * math.sqrt(ref_var / shots) + 1e-9
    if abs(est - exact) > tol:
        ctx.violation(f"finite-shot estimate {est:.6g} is {abs(est - exact) / max(tol / 6, 1e-12):.1f} sigma from <psi|H|psi> = {exact:.6g}", case)
        return False
    if abs(var - ref_var) > 6 * math.sqrt(max(ref_var, 1e-3)) * sum(abs(float(re)) for _, re, _ in terms) / math.sqrt(shots) + 1e-6:
        ctx.violation(f"finite-shot variance {var:.6g} is not that of the exact distribution ({ref_var:.6g})", case)
        return False
    if abs(se - math.sqrt(max(var, 0) / shots)) > 1e-3 * max(1.0, se) + 5 * math.sqrt(ref_var / shots) * 0.2:
        ctx.violation(f"standard error {se:.6g} is not sqrt(variance / n_shots)", case)
        return False
    return True


def big_shots_case(ctx, rng):
    """more shots than one sampling chunk (10**7) on a computational-basis state: every estimate is exact"""
    from tangelo.linq import Circuit, Gate, get_backend
    from tangelo.toolboxes.operators import QubitOperator
    n = rng.randint(1, 3)
    bits = [rng.randrange(2) for _ in range(n)]
    if not any(bits):
        bits[rng.randrange(n)] = 1
    circ = Circuit([Gate("X", q) for q in range(n) if bits[q]], n_qubits=n)
    op = QubitOperator((), 0.25)
    exact = 0.25
    for _ in range(2):
        w = tuple((q, "Z") for q in range(n) if rng.random() < 0.7) or ((0, "Z"),)
        c = rng.choice([0.5, -1.25, 2.0])
        op += QubitOperator(w, c)
        exact += c * (-1) ** sum(bits[q] for q, _ in w)
    shots = rng.choice([12_000_000, 20_000_001])
    case = {"kind": "big_shots", "bits": bits, "n_shots": shots, "terms": [[list(map(list, w)), c] for w, c in op.terms.items()]}
    ctx.case(case, nontrivial=True, sample=True)
    ctx.count("big_shots")
    sim = get_backend("cirq", n_shots=shots)
    freqs, _ = sim.simulate(circ)
    key = "".join(map(str, bits))
    if set(freqs) != {key} or abs(freqs[key] - 1) > 1e-12:
        ctx.violation(f"n_shots={shots} on the basis state |{key}>: frequencies {freqs} instead of {{'{key}': 1.0}}", case)
        return False
    est = float(sim.get_expectation_value(op, circ))
    if abs(est - exact) > 1e-9:
        ctx.violation(f"n_shots={shots} on the basis state |{key}>: expectation value {est!r} instead of {exact!r}", case)
        return False
    return True


def wide_postselect_shots_case(ctx, rng):
    """finite shots + post-selection on mid-circuit outcomes on a register with many classical bits (number of MEASURE
    gates + width between 7 and 14): X / CNOT programs with at most two coin flips, so that the post-selected state is
    a computational-basis state and every Z-type expectation value is exact whatever the number of shots"""
    from tangelo.linq import get_backend
    from tangelo.toolboxes.operators import QubitOperator
    import itertools
    n = rng.randint(3, 10)
    m = rng.randint(1, max(1, 14 - n)) if n >= 6 else rng.randint(max(1, 7 - n), 14 - n)
    coins = min(rng.choice([0, 1, 1, 2]), m, n - 1)
    ins, evaluate = vlib.classical_meas_prog(rng, n, m, coins)
    circ = vlib.classical_prog_to_circuit(ins, n)
    n_meas = sum(1 for g in ins if g[0] == "MEASURE")
    allowed = {}
    for cb in itertools.product([0, 1], repeat=coins):
        mid, fin = evaluate(list(cb))
        allowed[mid] = fin
    desired = rng.choice(sorted(allowed))
    fin = allowed[desired]
    op = QubitOperator((), 0.5)
    exact = 0.5
    for _ in range(3):
        w = tuple((q, "Z") for q in range(n) if rng.random() < 0.4) or ((rng.randrange(n), "Z"),)
        c = rng.choice([0.5, -1.25, 2.0])
        op += QubitOperator(w, c)
        exact += c * (-1) ** sum(int(fin[q]) for q, _ in w)
    shots = rng.randint(60, 300)
    case = {"kind": "wide_postselect_shots", "n": n, "ins": [list(g) for g in ins], "desired": desired, "n_shots": shots,
            "terms": [[list(map(list, w)), c] for w, c in op.terms.items()]}
    ctx.case(case, nontrivial=True, sample=len(ins) <= 8)
    ctx.count(f"wide_postselect_shots:bits={'<=10' if n + n_meas <= 10 else '>10'}")
    np.random.seed(rng.randint(0, 2 ** 31))
    sim = get_backend("cirq", n_shots=shots)
    try:
        est = float(np.real(sim.get_expectation_value(op, circ, desired_meas_result=desired)))
    except Exception as e:
        ctx.violation(f"{shots} shots, post-selection on {desired!r} ({n} qubits, {n_meas} MEASUREs): get_expectation_value raises {vlib.err_name(e)}: {str(e)[:120]}", case)
        return False
    if abs(est - exact) > 1e-9:
        ctx.violation(f"{shots} shots, post-selection on {desired!r} ({n} qubits, {n_meas} MEASUREs): the post-selected state is the basis state "
                      f"|{fin}>, expectation value {est!r} instead of {exact!r}", case)
        return False
    return True


def run(ctx):
    rng = ctx.rng
    from props.C01 import rand_init
    for i in range(ctx.n(20, 300)):
        if not wide_postselect_shots_case(ctx, rng):
            return
    for i in range(ctx.n(140, 4000)):
        n = rng.randint(1, 4)
        specs = vlib.rand_gate_list(rng, n, rng.randint(0, 8), vlib.ALL_UNITARY, corr=0.1, max_controls=2)
        mode = rng.random()
        init, meas = None, None
        if mode < 0.3:
            init = rand_init(rng, n)
        elif mode < 0.55 and specs:
            k = rng.randint(1, 3)
            pos0 = rng.randint(0, len(specs))
            adjacent = rng.random() < 0.5        # back-to-back measurements (no gate in between), also as first instruction
            qs = rng.sample(range(n), min(k, n)) if adjacent else [rng.randrange(n) for _ in range(k)]
            meas = {"at": [(pos0 if adjacent else rng.randint(0, len(specs)), q) for q in qs], "desired": "".join(rng.choice("01") for _ in qs)}
        terms = rand_terms(rng, n)
        if not one_case(ctx, specs, n, init, meas, terms, rng.randint(0, 10 ** 9)) and len(ctx.violations) + len(ctx.mismatches) >= 3:
            return
    # post-selection stress: superposition on every qubit, then back-to-back MEASUREs on distinct qubits, then more gates
    for i in range(ctx.n(30, 600)):
        n = rng.randint(2, 4)
        pre = [vlib.gspec(rng.choice(["RY", "RX", "H"]), [q], None, None) for q in range(n)]
        for g in pre:
            if g["n"] != "H":
                g["p"] = vlib.rand_ang(rng, "generic")
        pre += vlib.rand_gate_list(rng, n, rng.randint(0, 2), ["CNOT", "CRY", "CZ"], corr=0.0, max_controls=1, ang_profile="generic")
        post = vlib.rand_gate_list(rng, n, rng.randint(0, 3), vlib.ALL_UNITARY, corr=0.0, max_controls=1, ang_profile="generic")
        k = rng.randint(2, min(3, n))
        qs = rng.sample(range(n), k)
        meas = {"at": [(len(pre) if rng.random() < 0.8 else 0, q) for q in qs], "desired": "".join(rng.choice("01") for _ in qs)}
        if not one_case(ctx, pre + post, n, rand_init(rng, n) if rng.random() < 0.2 else None, meas, rand_terms(rng, n), rng.randint(0, 10 ** 9)) \
                and len(ctx.violations) + len(ctx.mismatches) >= 3:
            return
    for i in range(ctx.n(6, 60)):
        n = rng.randint(1, 3)
        specs = vlib.rand_gate_list(rng, n, rng.randint(1, 5), vlib.ALL_UNITARY, corr=0.0, max_controls=1, ang_profile="generic")
        if not shots_case(ctx, specs, n, rand_terms(rng, n, complex_ok=False), rng.randint(0, 10 ** 9)):
            return
    for i in range(ctx.n(1, 4)):
        if not big_shots_case(ctx, rng):
            return
    # empty state-preparation circuit (Backend.simulate shortcut), both backends
    from tangelo.linq import Circuit, get_backend
    from tangelo.toolboxes.operators import QubitOperator
    for b in ("cirq", "sympy"):
        try:
            v = complex(get_backend(b).get_expectation_value(QubitOperator("Y0", 0.5) + QubitOperator((), 1.0), Circuit(n_qubits=1)))
            if abs(v - 1.0) > 1e-9:
                ctx.violation(f"{b}: expectation on the empty circuit is {v}, expected 1", {"empty_circuit": b})
        except Exception as e:
            ctx.violation(f"{b}: expectation value on an empty state-preparation circuit raised {vlib.err_name(e)}", {"empty_circuit": b},
                          known_id="C02-sympy-empty-circuit" if b == "sympy" else None)


def replay(ctx, obj):
    case = obj.get("case") or (obj.get("first_mismatch") or {}).get("case")
    if case and "gates" in case and "n_shots" not in case:
        init = None if not case.get("init") else [(Fraction(a), Fraction(b)) for a, b in case["init"]]
        terms = [(w, Fraction(re), Fraction(im)) for w, re, im in case["terms"]]
        one_case(ctx, case["gates"], case["n"], init, case.get("meas"), terms, case["seed"])


def search(ctx, broken):
    pass
