"""C11 — circuit metadata stays consistent under any operation history (state-machine correspondence)."""
import copy, json, random
import vlib, linq_ops as L

RULE = ("random operation histories (5-25 ops) over a store of circuits with/without fixed width; ops: add_gate (valid and malformed), "
        "+, *, copy, inverse, trim, reindex, split, stack, remove_small_rotations, remove_redundant_gates, merge_rotations, simplify "
        "(method and function), translate to cirq/sympy/ionq/projectq, simulate on cirq/sympy, depth. After every op both sides dump "
        "every stored circuit; a history is non-trivial if it holds >= 3 successful mutating ops; distinct by hash of the op list")
TRUSTED = ["CPython set iteration order for qubit indices < 8 (reindex_qubits zips a set)"]
ASSUMPTIONS = ["cirq/sympy simulators and translators of other packages are only exercised as read-only observers"]

CLAIM = {
 "text": "Proof (Lean 4): the metadata invariant (counts, per-arity counts, variational list, used qubits within the index set, index set strictly increasing, fixed-width bound) is proved to hold initially and to be preserved by every modelled operation, hence after every finite history; rejected add_gate and read-only operations are proved to leave the store unchanged in the model; gate-construction rejection rules are proved complete, and proved to look at the upper-cased name only (mk?_spelling: two spellings of one name are accepted or rejected alike, with the same stored gate); width: after every finite history every qubit a gate touches is below the reported width (reachable_used_lt_width), a circuit built with n_qubits = n > 0 reports width n whatever its gates (width_ofGates_fixed), and without n_qubits the width is one more than the largest qubit index in the gate list, 0 for no gates (width_ofGates_free). The model is hand-written from circuit.py/gate.py and tied to the code by a state-machine correspondence check that replays random histories (valid and malformed operations) on real Tangelo circuits and on the compiled model and diffs every stored circuit after every operation; gate-name tables are regenerated from /repo each run.",
 "note": "Trusted: Lean kernel + propext/Classical.choice/Quot.sound; table extractor; correspondence harness (sampled: bounds what is seen of code = model); CPython set order for qubit indices < 8. Not modelled: object identity beyond the store, cirq/sympy internals (used only as read-only observers), float rounding inside == (decisions within 1e-9 of a discontinuity are discarded and counted).",
 "technique": "Lean 4 invariant-by-induction over operation histories + state-machine correspondence (differential) check"}

NAMES = vlib.ALL_UNITARY


def run_history(ctx, ops, record=True):
    """returns (ok, executed_ops)"""
    m = ctx.model
    m.ask({"op": "reset"})
    store = {}
    done = []
    n_mut = 0
    for op in ops:
        op = dict(op)
        refs = [op.get("a"), op.get("b")] + (op.get("ids") or []) + ([op.get("dst")] if op["op"] in ("add_gate", "trim", "reindex") else [])
        if any(r is not None and r not in store for r in refs):
            continue
        if op["op"] == "reindex":
            c = store[op["dst"]]
            k = len(c._qubit_indices)
            r2 = random.Random(op["perm_seed"])
            pool = list(range(max(k, min(8, k + 2))))
            idx = r2.sample(pool, k) if k <= len(pool) else list(range(k))
            if op.get("wrong_len"):
                idx = idx + [7] if k < 7 else idx[:-1]
            op["idx"] = idx
        before = {k: L.py_dump_circuit(c) for k, c in store.items()}
        r_py = L.py_apply(store, op)
        j = m.ask(L.model_req(op))
        done.append(op)
        if "err" in j:
            ctx.mismatch(f"model protocol error {j['err']} on {op['op']}", {"ops": done})
            return False, done
        r_mo = j["r"]
        ctx.count("op:" + op["op"])
        if isinstance(r_py, str) and r_py.startswith("ERR"):
            ctx.count("err:" + r_py)
        elif op["op"] not in L.READ_ONLY:
            n_mut += 1
        # ---- oracle on the real circuits: metadata = recomputation; read-only ops leave operands unchanged
        for k, c in store.items():
            bad = L.check_meta(c)
            if bad:
                ctx.violation(f"after {op['op']}: circuit {k}: {bad}", {"ops": done})
                return False, done
        rejected = isinstance(r_py, str) and r_py.startswith("ERR")
        may_change = set() if rejected else L.mutated_ids(op)
        for k, d in before.items():
            if k in store and k not in may_change and L.dumps_equal(d, L.py_dump_circuit(store[k])) is not None:
                why = L.dumps_equal(d, L.py_dump_circuit(store[k]))
                kind = "rejected" if rejected else ("read-only" if op["op"] in L.READ_ONLY else "out-of-place")
                ctx.violation(f"{op['op']} ({kind}) changed circuit {k}: {why}", {"ops": done})
                return False, done
        # ---- correspondence
        same_r = (r_py == r_mo) or (r_py is None and r_mo is None)
        if not same_r and op["op"] == "ro_entangled":
            same_r = sorted(map(tuple, r_py)) == sorted(map(tuple, r_mo))
        diff = None
        if same_r:
            ms = j["store"]
            if set(ms) != set(store):
                diff = f"stored ids differ {sorted(ms)} vs {sorted(store)}"
            else:
                for k, c in store.items():
                    d = L.dumps_equal(L.py_dump_circuit(c), L.model_dump_circuit(ms[k]))
                    if d:
                        diff = f"circuit {k}: {d}"
                        break
        else:
            diff = f"result {r_py!r} (code) vs {r_mo!r} (model)"
        if diff:
            if not j.get("stable", True):
                ctx.discarded += 1
                return True, done
            ctx.mismatch(f"{op['op']}: {diff}", {"ops": done}, r_mo, r_py)
            return False, done
    if record:
        ctx.case({"ops": [o["op"] for o in done], "first": done[0] if done else None}, nontrivial=n_mut >= 3)
    return True, done


def run(ctx):
    n = ctx.n(250, 6000)
    for i in range(n):
        ops = L.rand_history(ctx.rng, ctx.rng.randint(5, 25), NAMES)
        ok, done = run_history(ctx, ops)
        if not ok and (len(ctx.mismatches) + len(ctx.violations)) >= 5:
            break
    known_probes(ctx)


def known_probes(ctx):
    """gate construction on its own (no circuit involved): every ill-formed gate is refused by Gate(...) itself, whatever
    the spelling of its name (names are case-insensitive); well-formed ones are accepted"""
    from tangelo.linq import Gate
    rng = random.Random(ctx.seed + 1711)
    bad = [g for g in L.MALFORMED[:14]]
    for mk in bad:
        raw = mk(rng, 3)
        names = [raw["n"]] if not isinstance(raw["n"], str) else [raw["n"], raw["n"].lower(), raw["n"].capitalize(), raw["n"][0].lower() + raw["n"][1:]]
        for nm in names:
            p = raw["p"]
            param = "" if p is None else (p if isinstance(p, str) else vlib.ang_float(p))
            case = {"kind": "gate_construction", "name": nm, "target": raw["t"], "control": raw["c"]}
            ctx.count("gate_construction:ill-formed")
            try:
                g = Gate(nm, raw["t"], raw["c"], param, raw["v"])
            except (ValueError, TypeError):
                continue
            except Exception as e:
                ctx.violation(f"Gate({nm!r}, target={raw['t']}, control={raw['c']}) raises {type(e).__name__} instead of refusing with ValueError / TypeError", case)
                return
            ctx.violation(f"Gate({nm!r}, target={raw['t']}, control={raw['c']}) is ill-formed (index, duplicate, control or number of targets) but was accepted as {g}", case)
            return
    for nm, t, c in (("h", [0], None), ("Cnot", [1], [0]), ("swap", [0, 2], None), ("cSwap", [0, 1], [2]), ("rz", [1], None), ("crz", [1], [0, 2])):
        ctx.count("gate_construction:well-formed")
        try:
            g = Gate(nm, t, c, 0.5 if "r" in nm.lower() else "")
            ok = g.name == nm.upper() and list(g.target) == t
        except Exception as e:
            ok = False
        if not ok:
            ctx.violation(f"Gate({nm!r}, target={t}, control={c}) is well-formed but was refused or altered", {"kind": "gate_construction", "name": nm})
            return


def replay(ctx, obj):
    case = obj.get("case") or (obj.get("first_mismatch") or {}).get("case")
    if case:
        run_history(ctx, case["ops"])


def search(ctx, broken):
    """something no longer checks: widen the oracle search on the real code (model not needed)"""
    rng = random.Random(ctx.seed + 77)
    from tangelo.linq import Circuit
    for i in range(ctx.n(400, 4000)):
        ops = L.rand_history(rng, rng.randint(5, 30), NAMES)
        store = {}
        done = []
        for op in ops:
            op = dict(op)
            refs = [op.get("a"), op.get("b")] + (op.get("ids") or []) + ([op.get("dst")] if op["op"] in ("add_gate", "trim", "reindex") else [])
            if any(r is not None and r not in store for r in refs):
                continue
            if op["op"] == "reindex":
                k = len(store[op["dst"]]._qubit_indices)
                op["idx"] = random.Random(op["perm_seed"]).sample(range(max(k, min(8, k + 2))), k)
            before = {k: L.py_dump_circuit(c) for k, c in store.items()}
            r = L.py_apply(store, op)
            done.append(op)
            for k, c in store.items():
                bad = L.check_meta(c)
                if bad:
                    ctx.violation(f"after {op['op']}: circuit {k}: {bad}", {"ops": done})
                    return
            rejected = isinstance(r, str) and r.startswith("ERR")
            may_change = set() if rejected else L.mutated_ids(op)
            for k, d in before.items():
                if k in store and k not in may_change and L.dumps_equal(d, L.py_dump_circuit(store[k])) is not None:
                    ctx.violation(f"{op['op']} changed circuit {k} which it must leave as it was", {"ops": done})
                    return
