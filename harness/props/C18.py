"""C18 — measurement grouping and histogram processing conserve information."""
import copy, itertools, random
from fractions import Fraction
import numpy as np
import vlib
from vlib import frac_str

CLAIM = {
 "text": "Proof (Lean 4): histograms are association lists bitstring -> rational count; proved for every histogram, index set and bitstring length: removing/marginalising qubits conserves the total; bit-order reversal conserves the total; post-selection splits the total into kept + discarded; aggregation of ANY number of histograms adds the totals (for positive counts, which is what a histogram holds and Counter addition keeps; theorem aggregate_total); every weighted sum that only depends on the shortened key is preserved by marginalisation, hence the expectation value of a Z-type term is unchanged by removing qubits outside its support; splitting joint frequencies conserves the total (C10 lemma). Grouping: a certificate checker (merged group terms = operator terms as canonical maps, no term twice, every term diagonal in its group's basis) is proved sound: if it accepts, the group-by-group sum equals the term-by-term sum for ANY assignment of term expectation values. The grouping itself comes from openfermion's randomised clique cover and is certified per call. Tie to the code: every Histogram method / post-processing helper is run on random histograms on both sides and compared exactly (Fractions); group_qwc outputs for random operators and seeds are passed through the checker and exp_value_from_measurement_bases is compared with the term-by-term value on exact distributions.",
 "note": "Trusted: Lean kernel + standard axioms; openfermion's group_into_tensor_product_basis_sets (certified per call, not verified); scipy sampler in resampling (totals and key format only). Constructing a Histogram from probabilities with n_shots rounds every bin separately; construction is not among the operations the property lists and is not claimed.",
 "technique": "Lean 4 conservation theorems over association-list histograms + verified certificate checker for groupings + exact correspondence on Histogram operations"}

RULE = ("random histograms (counts or dyadic probabilities, bitstring length 1-7, 1-12 keys) x chains of operations (remove indices, post_select, reverse, aggregate, split helpers) compared exactly after every step; "
        "random operators (<= 5 qubits, <= 25 terms) x seeds through group_qwc + certificate + expectation assembly; non-trivial: histogram with >= 3 keys / operator with >= 2 groups; distinct by hash")
TRUSTED = ["openfermion clique cover (certified per call)"]
ASSUMPTIONS = []

CODE = {"Z": 1, "X": 2, "Y": 3}


def rand_hist(rng, n=None, counts=True):
    n = n or rng.randint(1, 7)
    keys = set()
    for _ in range(rng.randint(1, 12)):
        keys.add("".join(rng.choice("01") for _ in range(n)))
    keys = sorted(keys)
    rng.shuffle(keys)
    if counts:
        return {k: rng.randint(1, 40) for k in keys}
    w = [rng.randint(1, 16) for _ in keys]
    tot = sum(w)
    # dyadic-free exact probabilities as Fractions; floats handed to the code
    return {k: Fraction(x, tot) for k, x in zip(keys, w)}


def hist_json(d):
    return [[k, frac_str(Fraction(v))] for k, v in d.items()]


def hist_chain(ctx, rng):
    from tangelo.toolboxes.post_processing.histogram import Histogram, aggregate_histograms
    from tangelo.toolboxes.post_processing.post_selection import post_select, strip_post_selection, split_frequency_dict, split_frequency_dict_for_last_n_digits
    h0 = rand_hist(rng)
    n = len(next(iter(h0)))
    msq = rng.random() < 0.3
    H = Histogram(dict(h0), msq_first=msq)
    cur = {(k[::-1] if msq else k): v for k, v in h0.items()}
    steps, case_steps = [], []
    if msq:
        steps.append({"k": "reverse"})
    model_h0 = dict(h0)
    width = n
    ok = True
    for _ in range(rng.randint(1, 5)):
        kind = rng.choice(["remove", "post", "agg", "remove"])
        if width <= 1 and kind in ("remove", "post"):
            kind = "agg"
        if kind == "remove":
            idx = rng.sample(range(width), rng.randint(1, max(1, width - 1)))
            if rng.random() < 0.2:
                idx = idx + [idx[0]]
            H.remove_qubit_indices(*idx)
            steps.append({"k": "remove", "idx": idx})
            width -= len(set(idx))
        elif kind == "post":
            qs = rng.sample(range(width), rng.randint(1, min(2, width - 1)))
            exp = {q: rng.choice("01") for q in qs}
            if not any(all(k[q] == b for q, b in exp.items()) for k in H.counts):
                continue
            H.post_select(exp)
            steps.append({"k": "post", "exp": [[q, b] for q, b in exp.items()]})
            width -= len(qs)
        else:
            other = rand_hist(rng, width)
            H2 = Histogram(dict(other))
            before_other = dict(H2.counts)
            H = H + H2 if rng.random() < 0.5 else aggregate_histograms(H, H2)
            if H2.counts != before_other:
                ctx.violation("aggregation changed one of the aggregated histograms", {"h": hist_json(h0), "steps": steps})
                return False
            steps.append({"k": "agg", "other": hist_json(other)})
    case = {"h": hist_json(h0), "msq_first": msq, "steps": steps}
    j = ctx.model.ask({"op": "hist", "h": hist_json(model_h0), "steps": steps})
    ctx.count("hist_chain")
    ctx.case(case, nontrivial=len(h0) >= 3, sample=len(h0) <= 4)
    if "steps" not in j:
        ctx.mismatch("model protocol error", case)
        return False
    last = j["steps"][-1] if j["steps"] else {"h": hist_json(model_h0), "total": frac_str(sum(h0.values()))}
    mh = {k: Fraction(v) for k, v in last["h"]}
    ph = {k: Fraction(v) for k, v in H.counts.items()}
    # conservation statements (the property), evaluated on the real objects
    expected_total = None
    if all(s["k"] in ("remove", "reverse") for s in steps):
        expected_total = sum(h0.values())
        if H.n_shots != expected_total:
            ctx.violation(f"removing qubits / reversing changed the total counts from {expected_total} to {H.n_shots}", case)
            return False
    if abs(sum(H.frequencies.values()) - 1) > 1e-12:
        ctx.violation("frequencies do not sum to one", case)
        return False
    if ph != mh:
        ctx.mismatch(f"histogram after {[s['k'] for s in steps]}: code {dict(sorted(ph.items()))} vs model {dict(sorted(mh.items()))}", case)
        return False
    return True


def helper_case(ctx, rng):
    """post_select / strip_post_selection / split helpers on frequency dictionaries (exact Fractions via counts)"""
    from tangelo.toolboxes.post_processing.post_selection import post_select, strip_post_selection, split_frequency_dict, split_frequency_dict_for_last_n_digits
    from tangelo.toolboxes.post_processing.histogram import Histogram
    from tangelo.linq import get_expectation_value_from_frequencies_oneterm
    n = rng.randint(2, 6)
    cnt = rand_hist(rng, n)
    tot = sum(cnt.values())
    freqs = {k: v / tot for k, v in cnt.items()}
    case = {"counts": cnt}
    # split for last n digits
    k = rng.randint(0, n)
    a, b = split_frequency_dict_for_last_n_digits(freqs, k)
    if abs(sum(a.values()) - 1) > 1e-12 or abs(sum(b.values()) - 1) > 1e-12 or any(len(x) != n - k for x in a) or any(len(x) != k for x in b):
        ctx.violation(f"split_frequency_dict_for_last_n_digits(n={k}) does not conserve normalisation / key lengths", case)
        return False
    # split on indices, without and with a desired measurement
    idx = sorted(rng.sample(range(n), rng.randint(1, n - 1)))
    if rng.random() < 0.5:
        rng.shuffle(idx)
    mid, rest = split_frequency_dict(freqs, idx)
    if abs(sum(mid.values()) - 1) > 1e-12 or abs(sum(rest.values()) - 1) > 1e-12:
        ctx.violation("split_frequency_dict does not conserve normalisation", case)
        return False
    # independent marginals
    ref_mid, ref_rest = {}, {}
    for key, f in freqs.items():
        km = "".join(key[i] for i in sorted(idx)); kr = "".join(key[i] for i in range(n) if i not in idx)
        ref_mid[km] = ref_mid.get(km, 0) + f; ref_rest[kr] = ref_rest.get(kr, 0) + f
    if any(abs(mid.get(x, 0) - ref_mid.get(x, 0)) > 1e-12 for x in set(mid) | set(ref_mid)) or \
            any(abs(rest.get(x, 0) - ref_rest.get(x, 0)) > 1e-12 for x in set(rest) | set(ref_rest)):
        ctx.violation(f"split_frequency_dict(indices={idx}) marginals are wrong", {**case, "indices": idx})
        return False
    des = "".join(rng.choice("01") for _ in idx)
    sel = {key: f for key, f in freqs.items() if all(key[i] == d for i, d in zip(idx, des))}
    if sel:
        mid2, rest2 = split_frequency_dict(freqs, idx, desired_measurement=des)
        s = sum(sel.values())
        ref = {}
        for key, f in sel.items():
            kr = "".join(key[i] for i in range(n) if i not in idx)
            ref[kr] = ref.get(kr, 0) + f / s
        if any(abs(rest2.get(x, 0) - ref.get(x, 0)) > 1e-12 for x in set(rest2) | set(ref)):
            ctx.violation(f"split_frequency_dict(indices={idx}, desired={des}) does not return the selected, renormalised marginal", {**case, "indices": idx, "desired": des})
            return False
    # marginalising qubits a term does not act on leaves its expectation unchanged
    support = sorted(rng.sample(range(n), rng.randint(1, n - 1)))
    others = [q for q in range(n) if q not in support]
    removed = rng.sample(others, rng.randint(1, len(others)))
    term = tuple((q, "Z") for q in support)
    e_full = get_expectation_value_from_frequencies_oneterm(term, freqs)
    H = Histogram(dict(cnt)); H.remove_qubit_indices(*removed)
    new_pos = {q: q - sum(1 for r in removed if r < q) for q in support}
    e_marg = H.get_expectation_value(tuple((new_pos[q], "Z") for q in support))
    ctx.count("marginal")
    if abs(e_full - e_marg) > 1e-12:
        ctx.violation(f"marginalising qubits {removed} changed <Z{support}> from {e_full} to {e_marg}", {**case, "support": support, "removed": removed})
        return False
    return True


def construct_case(ctx, rng):
    """the same data given as counts, or as probabilities + n_shots, in either bit order, is the same histogram"""
    from tangelo.toolboxes.post_processing.histogram import Histogram
    cnt = rand_hist(rng, rng.randint(1, 6))
    tot = sum(cnt.values())
    probs = {k: v / tot for k, v in cnt.items()}
    ctx.count("construct")
    case = {"counts": cnt}
    a = Histogram(dict(cnt))
    b = Histogram(dict(probs), n_shots=tot)
    c = Histogram({k[::-1]: v for k, v in cnt.items()}, msq_first=True)
    d = Histogram({k[::-1]: v for k, v in probs.items()}, n_shots=tot, msq_first=True)
    for name, h in (("probabilities + n_shots", b), ("counts, msq_first", c), ("probabilities + n_shots, msq_first", d)):
        if h.n_shots != tot or h.counts != a.counts:
            ctx.violation(f"Histogram built from {name} has {h.counts} (total {h.n_shots}); the same data as counts gives {a.counts} (total {tot})", case)
            return False
    return True


def resample_case(ctx, rng, big=False, exact=True):
    from tangelo.toolboxes.post_processing.histogram import Histogram
    cnt = rand_hist(rng, rng.randint(1, 3 if big else 6))
    H = Histogram(dict(cnt))
    # the sampler works in chunks of 10**7 shots: totals at and around the chunk boundaries are sampled too
    n = rng.choice([10 ** 7, 2 * 10 ** 7] if exact else [10 ** 7 + 1, 10 ** 7 - 1]) if big else rng.choice([1, 10, 257])
    np.random.seed(rng.randint(0, 2 ** 31))
    try:
        R = H.resample(n)
    except Exception as e:
        ctx.violation(f"resample({n}) of {H.counts} raises {type(e).__name__}: {e}", {"counts": cnt, "n": n})
        return False
    ctx.count("resample-chunked" if big else "resample")
    if R.n_shots != n or any(len(k) != H.n_qubits for k in R.counts) or not set(R.counts) <= set(H.counts):
        ctx.violation(f"resample({n}) returned {R.counts} from {H.counts}: total/keys/support wrong", {"counts": cnt, "n": n})
        return False
    return True


def key_of(term):
    return [[q, CODE[p]] for q, p in term]


def grouping_case(ctx, rng):
    from tangelo.toolboxes.operators import QubitOperator
    from tangelo.toolboxes.measurements.qubit_terms_grouping import group_qwc, exp_value_from_measurement_bases, check_bases_commute_qwc, map_measurements_qwc
    from tangelo.linq import Circuit, get_backend
    from tangelo.linq.helpers.circuits.measurement_basis import measurement_basis_gates
    n = rng.randint(1, 5)
    op = QubitOperator()
    for _ in range(rng.randint(1, 25)):
        qs = sorted(rng.sample(range(n), rng.randint(0, n)))
        op += QubitOperator(tuple((q, rng.choice("XYZ")) for q in qs), rng.choice([0.5, -0.25, 1.0, 2.0, -1.5]))
    op.compress()
    if not op.terms:
        return True
    seed = rng.randint(0, 10 ** 6)
    before = copy.deepcopy(op)
    groups = group_qwc(op, seed=seed, n_repeat=rng.choice([1, 1, 3]))
    case = {"op": {str(k): v for k, v in op.terms.items()}, "seed": seed}
    if op != before:
        ctx.violation("group_qwc changed its input operator", case)
        return False
    terms_j = [[key_of(k), [frac_str(Fraction(v)), 0, 0, 0, 0, 0, 0, 0]] for k, v in op.terms.items()]
    groups_j = [[key_of(b), [[key_of(k), [frac_str(Fraction(v)), 0, 0, 0, 0, 0, 0, 0]] for k, v in g.terms.items()]] for b, g in groups.items()]
    j = ctx.model.ask({"op": "grouping", "terms": terms_j, "groups": groups_j})
    ctx.count("grouping")
    ctx.case(case, nontrivial=len(groups) >= 2, sample=len(op.terms) <= 4)
    if j.get("ok") is not True:
        ctx.violation(f"group_qwc(seed={seed}) is not a partition into bases in which every term is diagonal (certificate rejected)", case)
        return False
    # expectation assembled from exact per-basis histograms = term-by-term value
    state = vlib.rand_gate_list(rng, n, rng.randint(1, 5), vlib.ONE_Q_P + ["H", "CNOT"] if n > 1 else vlib.ONE_Q_P + ["H"], corr=0, max_controls=1, ang_profile="generic")
    circ = Circuit([vlib.to_tangelo_gate(g) for g in state], n_qubits=n)
    sim = get_backend("cirq")
    hists = {}
    # the histograms come back in any order (job completion order): the two dictionaries are keyed by basis, not aligned
    order = list(groups)
    how = rng.choice(["same", "reversed", "shuffled"])
    if how == "reversed":
        order.reverse()
    elif how == "shuffled":
        rng.shuffle(order)
    for b in order:
        f, _ = sim.simulate(circ + Circuit(measurement_basis_gates(b), n_qubits=n))
        hists[b] = f
    ctx.count("grouping:histogram-order=" + how)
    val = exp_value_from_measurement_bases(groups, hists)
    ref = sim.get_expectation_value(op, circ)
    if abs(val - ref) > 1e-8:
        ctx.violation(f"expectation assembled from the measurement bases ({val}) differs from the term-by-term value ({ref})", case)
        return False
    return True


def run(ctx):
    rng = ctx.rng
    for i in range(ctx.n(250, 6000)):
        if not hist_chain(ctx, rng) and len(ctx.violations) + len(ctx.mismatches) >= 3:
            return
    for i in range(ctx.n(150, 4000)):
        if not helper_case(ctx, rng):
            return
    for i in range(ctx.n(20, 300)):
        if not resample_case(ctx, rng) or not construct_case(ctx, rng):
            return
    for i in range(ctx.n(2, 8)):
        if not resample_case(ctx, rng, big=True, exact=(i % 2 == 0)):
            return
    for i in range(ctx.n(40, 800)):
        if not grouping_case(ctx, rng):
            return


def replay(ctx, obj):
    pass


def search(ctx, broken):
    rng = random.Random(ctx.seed + 18)
    for i in range(ctx.n(500, 5000)):
        if not helper_case(ctx, rng):
            return
