"""C20 — Fourier transform, state initialisation and phase estimation are exact."""
import cmath, itertools, json, math, random, warnings
import numpy as np
from fractions import Fraction
import vlib, fock

CLAIM = {
 "text": "Proof (Lean 4), partial. The QFT gate-list generator (recursive H + controlled-phase ladder, register swap, inverse option) is modelled over an abstract angle type; proved for every list of distinct qubits: the inverse=True list is the gate-by-gate inverse (reversed order, negated angles) of the inverse=False list when swap is off, and differs from it only by the order of the swap layer when swap is on; on the register semantics (every register size, every state) QFT followed by the inverse=True circuit is the identity in both cases (H^2 = 1, controlled phases with opposite angles cancel, the swap layer consists of pairwise disjoint swaps and is an involution), gate counts n + n(n-1)/2 (+ n div 2 swaps), every gate acts inside the listed qubits. The iterative phase-estimation controller (bitplace / accumulated feedback phase / measurement record, reset between shots) is modelled as a state machine over dyadic rationals; proved for every register size n and every representable phase m / 2^n: in round k the total kick-back plus feedback phase is an integer multiple of pi (the outcome is certain), its parity is bit k of m, the reversed record read as a binary fraction is m / 2^n, and this holds for every shot of any number of shots (the controller state after finalize equals the initial one). The bitstring-to-phase conversion of both solvers is proved to invert the binary expansion. The multiplexor base identity (R(a) X R(b) X = R(a-b), R(a) R(b) = R(a+b) for RY and RZ) is proved over any commutative ring with the documented gate matrices. NOT proved in Lean: that the ladder implements the discrete Fourier transform, the Bloch-angle computations of state preparation (arccos / angle of floats), the controlled time evolution; those are decided by the numerical oracle: unitary of the generated circuit against the DFT matrix for random qubit lists inside wider registers, prepared / uncomputed states against random complex vectors (dense, sparse, real) in both orders, and QPE / iQPE runs on exact eigenstates (circuit unitaries, diagonal and non-diagonal commuting Hamiltonians) with several shots.",
 "note": "Trusted: Lean kernel + standard axioms; numpy; cirq simulator for the QPE/iQPE runs (C01 ties it to the gate semantics).",
 "technique": "Lean 4 theorems (QFT inverse structure, iQPE controller exactness by induction over rounds and shots, binary-fraction decoding, multiplexor identities) + generator correspondence + dense-matrix / simulation oracle"}

RULE = ("QFT: random qubit lists (length 1-5, any order, inside registers up to 6 qubits), swap on/off, inverse on/off; state preparation: random complex / real / sparse vectors on 1-4 qubits, both orders; "
        "QPE and iQPE: registers of 1-4 bits, every/random representable phases, circuit unitaries (PHASE / multi-qubit diagonal), Trotter unitaries of diagonal and commuting non-diagonal Hamiltonians, 1-5 shots; non-trivial: length >= 2 / non-basis vector / phase != 0; distinct by input")
TRUSTED = ["numpy", "cirq simulator"]
ASSUMPTIONS = ["tolerance 1e-8 on matrix / vector entries"]

TOL = 1e-8


def circuit_unitary(circ, n):
    cols = []
    for x in range(2 ** n):
        e = np.zeros(2 ** n, dtype=complex)
        e[x] = 1
        psi, _ = vlib.np_run_state(circ._gates, n, psi0=e)
        cols.append(psi)
    return np.array(cols).T


def dft_on(qs, n):
    """DFT of the register qs (qs[0] least significant) embedded in n qubits (bit q of the index = qubit q)"""
    k = len(qs)
    N = 2 ** k
    F = np.zeros((2 ** n, 2 ** n), dtype=complex)
    for x in range(2 ** n):
        xv = sum(((x >> q) & 1) << j for j, q in enumerate(qs))
        rest = x
        for q in qs:
            rest &= ~(1 << q)
        for yv in range(N):
            y = rest
            for j, q in enumerate(qs):
                y |= ((yv >> j) & 1) << q
            F[y, x] = cmath.exp(2j * math.pi * xv * yv / N) / math.sqrt(N)
    return F


def bitrev_on(qs, n):
    P = np.zeros((2 ** n, 2 ** n))
    k = len(qs)
    for x in range(2 ** n):
        y = x
        for q in qs:
            y &= ~(1 << q)
        for j, q in enumerate(qs):
            y |= ((x >> qs[k - 1 - j]) & 1) << q
        P[y, x] = 1
    return P


def qft_case(ctx, rng):
    from tangelo.toolboxes.ansatz_generator.ansatz_utils import get_qft_circuit
    n = rng.randint(1, 6)
    k = rng.randint(1, min(n, 5))
    qs = rng.sample(range(n), k)
    if rng.random() < 0.2:
        qs = sorted(qs)
    swap = rng.random() < 0.6
    case = {"kind": "qft", "n": n, "qubits": qs, "swap": swap}
    ctx.case(case, nontrivial=k >= 2, sample=k == 2)
    ctx.count(f"qft:k={k}:swap={swap}")
    qs_before = list(qs)
    fwd = get_qft_circuit(list(qs), n_qubits=n, inverse=False, swap=swap)
    inv = get_qft_circuit(list(qs), n_qubits=n, inverse=True, swap=swap)
    if qs != qs_before:
        ctx.violation("get_qft_circuit modified the qubit list passed in", case)
        return False
    U = circuit_unitary(fwd, n)
    V = circuit_unitary(inv, n)
    F = dft_on(qs, n)
    if swap:
        if not np.allclose(U, F, atol=TOL):
            ctx.violation(f"get_qft_circuit({qs}, n_qubits={n}) is not the DFT of that register (first listed qubit least significant)", case)
            return False
    else:
        R = bitrev_on(qs, n)
        if not np.allclose(R @ U, F, atol=TOL):
            ctx.violation(f"get_qft_circuit({qs}, swap=False) is not the DFT up to the register reversal", case)
            return False
    if not np.allclose(V, U.conj().T, atol=TOL):
        ctx.violation(f"get_qft_circuit({qs}, inverse=True, swap={swap}) is not the adjoint of the forward transform", case)
        return False
    # int argument = first `qubits` qubits
    if rng.random() < 0.3:
        W = circuit_unitary(get_qft_circuit(k, n_qubits=n), n)
        if not np.allclose(W, dft_on(list(range(k)), n), atol=TOL):
            ctx.violation(f"get_qft_circuit({k}) is not the DFT of qubits 0..{k - 1}", case)
            return False
    # model correspondence: gate lists (angle = prefac * pi / 2^j recorded as (sign, j))
    for inverse in (False, True):
        c = inv if inverse else fwd
        code = []
        for g in c._gates:
            if g.name == "H":
                code.append(["H", g.target[0]])
            elif g.name == "SWAP":
                code.append(["SWAP", g.target[0], g.target[1]])
            else:
                j = round(math.log2(math.pi / abs(g.parameter)))
                if abs(abs(g.parameter) - math.pi / 2 ** j) > 1e-12:
                    ctx.violation(f"QFT rotation angle {g.parameter} is not pi / 2^j", case)
                    return False
                code.append(["CP", g.control[0], g.target[0], -j if g.parameter < 0 else j])
        mj = ctx.model.ask({"op": "qft", "qubits": qs, "inverse": inverse, "swap": swap})
        if mj.get("gates") != code:
            ctx.mismatch(f"QFT gate list (inverse={inverse}, swap={swap}) differs from the model", case, mj.get("gates"), code)
            return False
    return True


def rand_vector(rng, nq):
    N = 2 ** nq
    kind = rng.choice(["complex", "real", "sparse", "sparse", "basis", "negreal", "phases", "global_phase", "tiny_phase", "pair_phases"])
    if kind == "complex":
        v = np.array([complex(rng.gauss(0, 1), rng.gauss(0, 1)) for _ in range(N)])
    elif kind == "real":
        v = np.array([rng.gauss(0, 1) for _ in range(N)], dtype=complex)
    elif kind == "negreal":
        v = -np.abs(np.array([rng.gauss(0, 1) for _ in range(N)])).astype(complex)
    elif kind == "global_phase":
        # a non-negative real vector times ONE overall phase: all relative phases are zero up to rounding (1e-16)
        v = np.abs(np.array([rng.gauss(0, 1) for _ in range(N)])).astype(complex) * cmath.exp(1j * rng.choice([0.3, 0.7, math.pi / 4, 1.1, 2.5, -0.9]))
    elif kind == "tiny_phase":
        # relative phases that are tiny but not zero (1e-13 ... 1e-7)
        v = np.abs(np.array([rng.gauss(0, 1) for _ in range(N)])).astype(complex)
        for i in rng.sample(range(N), max(1, N // 2)):
            v[i] *= cmath.exp(1j * rng.choice([1e-13, 1e-12, 3e-11, 1e-9, 1e-7]) * rng.choice([-1, 1]))
    elif kind == "pair_phases":
        # phases that cancel inside (even, odd) pairs or between the halves of the vector
        a = rng.choice([0.3, 1.2, math.pi / 2])
        v = np.abs(np.array([rng.gauss(0, 1) for _ in range(N)])).astype(complex)
        for i in range(N):
            v[i] *= cmath.exp(1j * a * (1 if (i % 2 == 0) == (rng.random() < 0.9) else -1))
    elif kind == "phases":
        v = np.array([cmath.exp(1j * rng.uniform(0, 2 * math.pi)) for _ in range(N)])
    elif kind == "basis":
        v = np.zeros(N, dtype=complex)
        v[rng.randrange(N)] = rng.choice([1, -1, 1j, cmath.exp(0.7j)])
    else:
        v = np.zeros(N, dtype=complex)
        for i in rng.sample(range(N), rng.randint(1, max(1, N // 2))):
            v[i] = complex(rng.gauss(0, 1), rng.choice([0, rng.gauss(0, 1)]))
    return kind, v / np.linalg.norm(v)


def sv_case(ctx, rng):
    from tangelo.linq.helpers.circuits.statevector import StateVector
    nq = rng.randint(1, 4)
    kind, v = rand_vector(rng, nq)
    order = rng.choice(["msq_first", "lsq_first"])
    case = {"kind": "sv", "nq": nq, "order": order, "vec": [[float(z.real), float(z.imag)] for z in v], "vkind": kind}
    ctx.case(case, nontrivial=kind != "basis", sample=nq == 1)
    ctx.count(f"sv:{kind}:{order}")
    v_before = v.copy()
    sv = StateVector(v, order=order)
    circ, phase = sv.initializing_circuit(return_phase=True)
    unc, uphase = sv.uncomputing_circuit(return_phase=True)
    if not np.array_equal(v, v_before):
        ctx.violation("StateVector modified the coefficient array passed in", case)
        return False
    # target amplitudes in the harness convention (bit q of index = qubit q)
    N = 2 ** nq
    want = np.zeros(N, dtype=complex)
    for i in range(N):
        if order == "lsq_first":      # Tangelo's statevector convention: qubit 0 is the most significant bit of the index
            x = sum(((i >> (nq - 1 - q)) & 1) << q for q in range(nq))
        else:
            x = i
        want[x] = v[i]
    if circ.width > nq or unc.width > nq:
        ctx.violation(f"state-preparation circuit acts on {circ.width} qubits for a {nq}-qubit vector", case)
        return False
    psi, _ = vlib.np_run_state(circ._gates, nq)
    if not np.allclose(cmath.exp(1j * phase) * psi, want, atol=1e-7):
        ctx.violation(f"initializing_circuit (+ returned global phase) does not prepare the given vector ({kind}, {order}, {nq} qubits): max deviation {np.abs(cmath.exp(1j * phase) * psi - want).max():.3e}", case)
        return False
    back, _ = vlib.np_run_state(unc._gates, nq, psi0=want)
    zero = np.zeros(N, dtype=complex)
    zero[0] = 1
    if not np.allclose(cmath.exp(1j * uphase) * back, zero, atol=1e-7):
        ctx.violation(f"uncomputing_circuit (+ returned global phase) does not map the vector to |0..0> ({kind}, {order})", case)
        return False
    return True


# ------------------------------------------------------------------------------------------------ phase estimation
def eigen_setup(rng, n_bits):
    """(options for the solver, exact phase numerator m) for an eigenstate with phase m / 2^n_bits"""
    from tangelo.linq import Circuit, Gate
    from tangelo.toolboxes.operators import QubitOperator
    N = 2 ** n_bits
    m = rng.randrange(N)
    kind = rng.choice(["phase1", "phase2", "diag", "commuting", "circuit_var"])
    if kind == "phase1":
        opts = {"unitary": Circuit([Gate("PHASE", 0, parameter=2 * math.pi * m / N)]), "ref_state": Circuit([Gate("X", 0)])}
    elif kind == "phase2":
        # diagonal two-qubit unitary: phases a on |01>, b on |10|, a+b on |11>; eigenstate |11>
        a = rng.randrange(N)
        b = (m - a) % N
        opts = {"unitary": Circuit([Gate("PHASE", 0, parameter=2 * math.pi * a / N), Gate("PHASE", 1, parameter=2 * math.pi * b / N)]),
                "ref_state": Circuit([Gate("X", 0), Gate("X", 1)])}
    elif kind == "circuit_var":
        opts = {"unitary": Circuit([Gate("PHASE", 0, parameter=2 * math.pi * m / N, is_variational=True), Gate("X", 1), Gate("X", 1)]),
                "ref_state": Circuit([Gate("X", 0)]), "unitary_options": {"control_method": "variational"}}
    elif kind == "diag":
        # H = c0 + c1 Z0 + c2 Z1 + c3 Z0Z1 with dyadic coefficients; eigenstate = basis state
        cs = [Fraction(rng.randrange(-N, N), 4 * N) * 4 for _ in range(4)]
        # the solver lays out its registers from the support of the Hamiltonian: keep both state qubits in it
        # (a reference circuit on a qubit outside the support would collide with the ancilla - not a valid input)
        for i in (1, 2):
            if cs[i] == 0:
                cs[i] = Fraction(rng.choice([-1, 1]) * rng.randrange(1, N + 1), N)
        bits = [rng.randrange(2), rng.randrange(2)]
        s0, s1 = (-1) ** bits[0], (-1) ** bits[1]
        E = cs[0] + cs[1] * s0 + cs[2] * s1 + cs[3] * s0 * s1
        m = int(E * N) % N
        H = QubitOperator((), float(cs[0])) + QubitOperator("Z0", float(cs[1])) + QubitOperator("Z1", float(cs[2])) + QubitOperator("Z0 Z1", float(cs[3]))
        ref = Circuit([Gate("X", q) for q in range(2) if bits[q]], n_qubits=2)
        opts = {"qubit_hamiltonian": H, "ref_state": ref,
                "unitary_options": {"time": -2 * math.pi, "n_trotter_steps": 1, "n_steps_method": "repeat", "trotter_order": rng.choice([1, 2])}}
    else:
        # H = a X0X1 + b Z0Z1 (commuting), Bell states are eigenstates
        a, b = Fraction(rng.randrange(-N, N), N), Fraction(rng.randrange(-N, N), N)
        if a == 0 and b == 0:
            a = Fraction(1, N)
        which = rng.randrange(4)
        # |00>+|11>: XX=+1, ZZ=+1 ; |00>-|11>: XX=-1, ZZ=+1 ; |01>+|10>: XX=+1, ZZ=-1 ; |01>-|10>: XX=-1, ZZ=-1
        sx, sz = [(1, 1), (-1, 1), (1, -1), (-1, -1)][which]
        E = a * sx + b * sz
        m = int(E * N) % N
        H = QubitOperator("X0 X1", float(a)) + QubitOperator("Z0 Z1", float(b))
        gl = []
        if sz == -1:
            gl.append(Gate("X", 1))
        if sx == -1:
            gl.append(Gate("X", 0))
        gl += [Gate("H", 0), Gate("CNOT", 1, 0)]
        opts = {"qubit_hamiltonian": H, "ref_state": Circuit(gl, n_qubits=2),
                "unitary_options": {"time": -2 * math.pi, "n_trotter_steps": 1, "n_steps_method": "repeat", "trotter_order": rng.choice([1, 2])}}
    return kind, opts, m


def describe(opts):
    d = {}
    for k, v in opts.items():
        if hasattr(v, "_gates"):
            d[k] = [[g.name, list(g.target), list(g.control) if g.control else None, g.parameter, g.is_variational] for g in v._gates]
        elif hasattr(v, "terms"):
            d[k] = [[list(map(list, w)), c] for w, c in v.terms.items()]
        else:
            d[k] = v
    return d


def pe_case(ctx, rng, iterative):
    from tangelo.algorithms.projective.qpe import QPESolver
    from tangelo.algorithms.projective.iqpe import IterativeQPESolver
    n_bits = rng.randint(1, 4)
    kind, opts, m = eigen_setup(rng, n_bits)
    shots = rng.choice([1, 2, 3, 5]) if iterative else rng.choice([None, None, 10])
    opts = dict(opts)
    opts["size_qpe_register"] = n_bits
    opts["backend_options"] = {"target": "cirq", "n_shots": shots, "noise_model": None}
    case = {"kind": "iqpe" if iterative else "qpe", "n_bits": n_bits, "m": m, "setup": kind, "shots": shots, "opts": describe(opts)}
    ctx.case(case, nontrivial=m != 0, sample=n_bits <= 2 and m != 0)
    ctx.count(f"{'iqpe' if iterative else 'qpe'}:{kind}:bits={n_bits}")
    want_bits = format(m, f"0{n_bits}b")
    want = m / 2 ** n_bits
    with warnings.catch_warnings():
        warnings.simplefilter("ignore")
        solver = (IterativeQPESolver if iterative else QPESolver)(opts)
        solver.build()
        reps = 2 if iterative and rng.random() < 0.4 else 1
        for rep in range(reps):
            e = solver.simulate()
            freqs = {k: v for k, v in solver.qpe_freqs.items() if v > 1e-9}
            if set(freqs) != {want_bits} or abs(freqs[want_bits] - 1) > 1e-7 or abs(e - want) > 1e-12:
                ctx.violation(f"{'iterative ' if iterative else ''}phase estimation on an exact eigenstate with phase {m}/2^{n_bits} ({kind}, shots={shots}, run {rep + 1}) returns {e!r} with outcome frequencies {freqs} instead of {want_bits!r} with certainty", case)
                return False
    if iterative:
        # model correspondence: the controller's record for this phase
        mj = ctx.model.ask({"op": "iqpe", "n": n_bits, "m": m, "shots": shots or 1})
        code_rec = list(solver.cfunc.measurements[:shots or 1])
        if mj.get("records") != code_rec:
            ctx.mismatch("iQPE measurement records differ from the model controller", case, mj.get("records"), code_rec)
            return False
    return True


def decode_case(ctx, rng):
    """bitstring -> phase conversion of both solvers vs the model"""
    from tangelo.algorithms.projective.qpe import QPESolver
    from tangelo.algorithms.projective.iqpe import IterativeQPESolver
    n = rng.randint(1, 12)
    bits = "".join(rng.choice("01") for _ in range(n))
    case = {"kind": "decode", "bits": bits}
    ctx.case(case, nontrivial="1" in bits, sample=n <= 3)
    ctx.count("decode")
    want = Fraction(int(bits, 2), 2 ** n)
    for cls in (QPESolver, IterativeQPESolver):
        v = cls.energy_estimation(None, bits)
        if Fraction(v) != want:
            ctx.violation(f"{cls.__name__}.energy_estimation({bits!r}) = {v!r}, binary fraction is {want}", case)
            return False
    mj = ctx.model.ask({"op": "binfrac", "bits": bits})
    if mj.get("value") != vlib.frac_str(want):
        ctx.mismatch("binary-fraction decoding differs from the model", case, mj.get("value"), vlib.frac_str(want))
        return False
    return True


def run(ctx):
    rng = ctx.rng
    ok = True
    for _ in range(ctx.n(60, 600)):
        ok &= qft_case(ctx, rng)
    for _ in range(ctx.n(120, 1200)):
        ok &= sv_case(ctx, rng)
    for _ in range(ctx.n(40, 400)):
        ok &= pe_case(ctx, rng, iterative=False)
    for _ in range(ctx.n(40, 400)):
        ok &= pe_case(ctx, rng, iterative=True)
    for _ in range(ctx.n(40, 300)):
        ok &= decode_case(ctx, rng)
    return ok


def replay(ctx, obj):
    print("replay of a stored C20 case re-runs the generators of that kind")
    rng = random.Random(5)
    k = obj.get("kind")
    if k == "qft":
        return all(qft_case(ctx, rng) for _ in range(300))
    if k == "sv":
        return all(sv_case(ctx, rng) for _ in range(500))
    if k in ("qpe", "iqpe"):
        return all(pe_case(ctx, rng, k == "iqpe") for _ in range(40))
    return all(decode_case(ctx, rng) for _ in range(100))


def search(ctx, broken):
    rng = random.Random(99)
    ok = True
    for _ in range(400):
        ok &= qft_case(ctx, rng)
        ok &= sv_case(ctx, rng)
    for _ in range(40):
        ok &= pe_case(ctx, rng, False)
        ok &= pe_case(ctx, rng, True)
    return ok
