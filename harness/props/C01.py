"""C01 — backend simulation matches the documented gate semantics (exact simulation correspondence)."""
import math, random
import numpy as np
import vlib
from vlib import to_tangelo_gate, cyc_to_complex, frac_str, dump_tangelo_gate, gspec
from fractions import Fraction

CLAIM = {
 "text": "Proof (Lean 4), partial: the documented operation of every gate name (Gate.toOp / Op.sem, arbitrary control lists, arbitrary positions, any register size) is the model; proved for it: semantics of a gate list is the left fold and composes under concatenation; every operation of the gate set (any control list, swaps, XX) whose qubits are distinct and inside an n-qubit register preserves the sum of |amplitude|^2 over the 2^n basis states, for every n and every state, over any commutative star ring with the documented constants (2x2 unitarity of every gate matrix + a pairing argument over the basis states), hence every circuit does, and for the executable amplitudes Q(zeta_16) the state prepared from |0...0> has norm 1 so exact frequencies sum to one; the amplitude-index -> bitstring conversion is injective below 2^n and lists qubit 0 first for the advertised order and its mirror for the other order; the laws assumed of the constants (Consts.Laws, Consts.StarLaws) are proved for the executable constants. The simulators themselves (cirq, sympy) are NOT verified: they are tied to the model by an exact-simulation correspondence check - every amplitude and every frequency of random circuits over the full gate set (multi-controls, edge angles, optional rational initial statevector) is compared with the model's exact result in Q(zeta_16); sampled mode is checked for support, totals and key order only (cirq with gates; both backends from a given statevector including the no-gate shortcut).",
 "note": "Trusted: Lean kernel + propext/Classical.choice/Quot.sound, cirq and sympy simulators (compared, not verified), numpy; float64 rounding (tolerance 1e-8 on amplitudes); scipy sampler (only support/total checked). Frequencies within 1e-13 of the 1e-10 threshold are discarded.",
 "technique": "Lean 4 theorems on the gate-semantics model (fold/composition, isometry, index-bitstring bijection) + exact differential simulation against cirq and sympy"}

RULE = ("random circuits over H,X,Y,Z,S,T,RX,RY,RZ,PHASE,CNOT,CX,CY,CZ,CH,CRX,CRY,CRZ,CPHASE,XX,SWAP,CSWAP with 0-3 controls anywhere, "
        "every controlled gate name with 2 and 3 controls in superposition on both backends (every run); width 1-5 (cirq) / 1-4 (sympy), 1-12 gates, exact angles (multiples of pi/4, generic, near 0/2pi/4pi, >2pi), with or without a random "
        "rational initial statevector, with or without fixed width (idle qubits); non-trivial if the final state has >= 2 non-zero amplitudes; "
        "distinct by hash of (backend, gates, width, init)")
TRUSTED = ["cirq / sympy simulators (compared against, not verified)"]
ASSUMPTIONS = ["tolerance 1e-8 absolute on amplitudes and probabilities"]

SYMPY_NAMES = [n for n in vlib.ALL_UNITARY if n not in ("XX", "CSWAP")]


def rand_init(rng, n):
    """random sparse-ish Gaussian-rational vector (unnormalised), as Fractions"""
    dim = 2 ** n
    v = []
    for i in range(dim):
        if rng.random() < 0.5:
            v.append((Fraction(0), Fraction(0)))
        else:
            v.append((Fraction(rng.randint(-4, 4), rng.choice([1, 2, 3])), Fraction(rng.randint(-4, 4), rng.choice([1, 2, 5]))))
    if all(a == 0 and b == 0 for a, b in v):
        v[rng.randrange(dim)] = (Fraction(1), Fraction(0))
    return v


def one_case(ctx, backend_name, specs, n, fixed, init):
    from tangelo.linq import Circuit, get_backend
    order = "lsq_first" if backend_name == "cirq" else "msq_first"
    case = {"backend": backend_name, "gates": specs, "width": n, "n_qubits": fixed, "init": None if init is None else [[str(a), str(b)] for a, b in init]}
    c = Circuit([to_tangelo_gate(g) for g in specs], n_qubits=fixed)
    if c.width != n:
        return True
    sim = get_backend(backend_name)
    if sim.backend_info()["statevector_order"] != order:
        ctx.mismatch(f"{backend_name} advertises statevector order {sim.backend_info()['statevector_order']}, model expects {order}", case)
        return False
    norm = 1.0
    init_np = None
    init_model = None
    if init is not None:
        vec = np.array([complex(float(a), float(b)) for a, b in init])
        norm = float(np.linalg.norm(vec))
        init_np = vec / norm
        init_model = [vlib.cyc_of_complex_rational(a, b) for a, b in init]
    try:
        freqs, sv = sim.simulate(c, return_statevector=True, initial_statevector=init_np)
        err = None
    except Exception as e:
        freqs, sv, err = None, None, vlib.err_name(e)
    j = ctx.model.ask({"op": "backend_sim", "gates": specs, "n": n, "order": order, "init": init_model, "thr": 1e-10 * norm * norm})
    if "err" in j:
        ctx.mismatch("model protocol error " + j["err"], case)
        return False
    if j.get("r") == "ERR:unsupported" or err is not None:
        # the model has no documented unitary for it, or the backend refused: both must refuse (value error)
        ok = (j.get("r") == "ERR:unsupported") == (err is not None)
        if backend_name == "sympy" and err == "ERR:value" and any(g["n"] in ("XX", "CSWAP") for g in specs):
            ok = True     # sympy documents no XX / CSWAP: refusing is allowed
        if not ok:
            ctx.mismatch(f"refusal differs: code {err}, model {j.get('r')}", case)
        return ok
    msv = np.array([cyc_to_complex(z) for z in j["sv"]]) / norm
    sv = np.array(sv).astype(complex).ravel()
    ctx.count(f"{backend_name}:w{n}")
    nontrivial = int(np.sum(np.abs(msv) > 1e-9)) >= 2
    ctx.case(case, nontrivial=nontrivial, sample=len(specs) <= 4)
    if sv.shape != msv.shape or not np.allclose(sv, msv, atol=1e-8):
        # a genuine violation only if an independent numpy computation agrees with the model
        U = vlib.np_circuit_unitary(specs, n)
        start = np.zeros(2 ** n, dtype=complex); start[0] = 1
        if init is not None:
            start = _to_model_order(init_np, n, order)
        ref = _from_model_order(U @ start, n, order)
        if sv.shape == ref.shape and np.allclose(ref, msv, atol=1e-8):
            ctx.violation(f"{backend_name}: returned statevector differs from the documented semantics in the advertised order {order} "
                          f"(max |diff| {np.max(np.abs(sv - ref)):.3g})", case)
        else:
            ctx.mismatch(f"{backend_name}: statevector differs from the model (and the model from numpy)", case)
        return False
    mfr = {k: cyc_to_complex(p).real / (norm * norm) for k, p in j["freqs"]}
    cfr = {k: complex(v).real for k, v in freqs.items()}
    if any(abs(complex(v).imag) > 1e-8 for v in freqs.values()):
        ctx.violation(f"{backend_name}: a returned frequency is not real", case)
        return False
    keys_bad = set(mfr) != set(cfr)
    if keys_bad or any(abs(mfr[k] - cfr[k]) > 1e-8 for k in mfr):
        if not j.get("stable", True) or (keys_bad and all(abs(mfr.get(k, 0) - cfr.get(k, 0)) < 1e-8 for k in set(mfr) | set(cfr))):
            ctx.discarded += 1
            return True
        ctx.violation(f"{backend_name}: outcome frequencies differ from the Born rule of the documented state (qubit 0 first): "
                      f"code {dict(sorted(cfr.items()))} vs {dict(sorted((k, round(v, 10)) for k, v in mfr.items()))}", case)
        return False
    if (len(specs) + n) % 3 == 0:
        # the same backend object and the same circuit object once more, after another circuit of another width was run
        # in between: nothing of a run may stay behind in the backend, the circuit or the initial state handed in
        gates_before = [dump_tangelo_gate(g) for g in c]
        init_before = None if init_np is None else init_np.copy()
        try:
            sim.simulate(Circuit([to_tangelo_gate(gspec("H", [0], None, None)), to_tangelo_gate(gspec("X", [n], None, None))]), return_statevector=True)
            freqs2, sv2 = sim.simulate(c, return_statevector=True, initial_statevector=init_np)
        except Exception as e:
            ctx.violation(f"{backend_name}: simulating the same circuit a second time on the same backend object raises {vlib.err_name(e)}: {str(e)[:80]}", case)
            return False
        ctx.count(f"{backend_name}:second-run")
        if [dump_tangelo_gate(g) for g in c] != gates_before or c.width != n or (init_before is not None and not np.array_equal(init_before, init_np)):
            ctx.violation(f"{backend_name}: simulate modified the circuit or the initial state vector it was given", case)
            return False
        if not np.allclose(np.array(sv2).astype(complex).ravel(), sv, atol=1e-10) or set(freqs2) != set(freqs) or any(abs(complex(freqs2[k]) - complex(freqs[k])) > 1e-10 for k in freqs):
            ctx.violation(f"{backend_name}: a second exact simulation of the same circuit on the same backend object gives a different state / distribution", case)
            return False
    return True


def _to_model_order(v, n, order):
    if order == "msq_first":
        return np.array(v)
    out = np.zeros(2 ** n, dtype=complex)
    for idx in range(2 ** n):
        m = sum(((idx >> (n - 1 - q)) & 1) << q for q in range(n))
        out[m] = v[idx]
    return out


def _from_model_order(v, n, order):
    return _to_model_order(v, n, order)    # bit reversal is an involution


def sampled_case(ctx, specs, n):
    """finite shots: support within the exact support, totals, key length, determinism on basis circuits"""
    from tangelo.linq import Circuit, get_backend
    c = Circuit([to_tangelo_gate(g) for g in specs], n_qubits=n)
    np.random.seed(ctx.rng.randint(0, 2 ** 31))
    shots = ctx.rng.choice([1, 17, 400])
    freqs, _ = get_backend("cirq", n_shots=shots).simulate(c)
    j = ctx.model.ask({"op": "backend_sim", "gates": specs, "n": n, "order": "lsq_first", "init": None, "thr": 1e-10})
    if "freqs" not in j:
        return True
    exact = {k: cyc_to_complex(p).real for k, p in j["freqs"]}
    case = {"backend": "cirq", "gates": specs, "width": n, "n_shots": shots}
    ctx.count("sampled")
    if abs(sum(freqs.values()) - 1) > 1e-9 or any(len(k) != n for k in freqs) or not set(freqs) <= set(exact):
        ctx.violation(f"sampled frequencies {freqs} are not draws from the exact distribution {exact}", case)
        return False
    if any(abs(v * shots - round(v * shots)) > 1e-9 for v in freqs.values()):
        ctx.violation("sampled frequencies are not multiples of 1/n_shots", case)
        return False
    return True


def sampled_init_case(ctx, backend_name, n, specs):
    """finite shots starting from a given statevector (incl. the no-gate shortcut), both backends: the sampled
    bitstrings must lie in the support of the exact distribution, qubit 0 first"""
    from tangelo.linq import Circuit, get_backend
    rng = ctx.rng
    dim = 2 ** n
    psi = np.zeros(dim, dtype=complex)
    for x in rng.sample(range(dim), rng.randint(1, max(1, dim // 2))):
        psi[x] = complex(rng.randint(1, 4), rng.randint(-2, 2))
    psi = psi / np.linalg.norm(psi)
    shots = rng.choice([1, 23, 200])
    b = get_backend(backend_name, n_shots=shots)
    init = _from_model_order(psi, n, b.statevector_order)
    c = Circuit([to_tangelo_gate(g) for g in specs], n_qubits=n)
    np.random.seed(rng.randint(0, 2 ** 31))
    case = {"backend": backend_name, "gates": specs, "width": n, "n_shots": shots, "init_model_order": [[z.real, z.imag] for z in psi]}
    ctx.case(case, nontrivial=True, sample=False)
    ctx.count(f"sampled_init:{backend_name}:{'nogate' if not specs else 'gates'}")
    try:
        freqs, _ = b.simulate(c, initial_statevector=init)
    except Exception as e:
        ctx.count("sampled_init:rejected:" + type(e).__name__)
        return True
    U = vlib.np_circuit_unitary(specs, n) if specs else np.eye(dim)
    out = U @ psi
    support = {"".join(str((x >> q) & 1) for q in range(n)) for x in range(dim) if abs(out[x]) ** 2 > 1e-12}
    if abs(sum(freqs.values()) - 1) > 1e-9 or not set(freqs) <= support:
        ctx.violation(f"{backend_name}, n_shots={shots}, initial statevector{' and no gate' if not specs else ''}: sampled outcomes {sorted(freqs)} "
                      f"are not in the support {sorted(support)} of the exact distribution (qubit 0 first)", case)
        return False
    return True


def float_angle_case(ctx, rng, backend_name):
    """parameters that are plain floats close to - but not at - the special angles (multiples of pi/2, 0, 2 pi, 4 pi):
    no internal tolerance may snap them; reference: the independent numpy state-vector runner"""
    from tangelo.linq import Circuit, Gate, get_backend
    n = rng.randint(1, 3)
    gl, desc = [], []
    for _ in range(rng.randint(2, 6)):
        name = rng.choice(["RX", "RY", "RZ", "PHASE", "CRX", "CRY", "CRZ", "CPHASE", "H", "CNOT"] if n > 1 else ["RX", "RY", "RZ", "PHASE", "H"])
        qs = rng.sample(range(n), 2 if name.startswith("C") else 1)
        if name in ("H", "CNOT"):
            gl.append(Gate(name, qs[0], control=qs[1] if name == "CNOT" else None)); desc.append([name, qs, None])
            continue
        theta = rng.choice([0, 1, 2, 3, 4, -1, -2, 8]) * math.pi / 2 + rng.choice([-1, 1]) * rng.choice([3e-7, 5e-6, 8e-5, 9e-5, 3e-4, 2e-3])
        gl.append(Gate(name, qs[0], control=qs[1] if name.startswith("C") else None, parameter=theta)); desc.append([name, qs, theta])
    c = Circuit(gl, n_qubits=n)
    case = {"kind": "float_angles", "backend": backend_name, "n": n, "gates": desc}
    ctx.case(case, nontrivial=True, sample=False)
    ctx.count(f"{backend_name}:float-angles-near-special")
    order = "lsq_first" if backend_name == "cirq" else "msq_first"
    try:
        freqs, sv = get_backend(backend_name).simulate(c, return_statevector=True)
    except Exception as e:
        ctx.violation(f"{backend_name}: simulate raises {vlib.err_name(e)} on a circuit with float parameters near special angles", case)
        return False
    ref, _ = vlib.np_run_state(c._gates, n)
    got = _to_model_order(np.array(sv).astype(complex).ravel(), n, order)
    if not np.allclose(got, ref, atol=1e-9):
        ctx.violation(f"{backend_name}: state differs from the documented gate definitions by {np.abs(got - ref).max():.3g} for parameters close to "
                      f"(not at) special angles: {[d for d in desc if d[2] is not None]}", case)
        return False
    return True


def run(ctx):
    rng = ctx.rng
    for i in range(ctx.n(60, 1500)):
        if not float_angle_case(ctx, rng, "cirq" if i % 4 else "sympy"):
            return
    n_cirq, n_sympy = ctx.n(260, 8000), ctx.n(40, 600)
    for i in range(n_cirq):
        n = rng.randint(1, ctx.n(5, 7))
        specs = vlib.rand_gate_list(rng, n, rng.randint(1, 12), vlib.ALL_UNITARY, corr=0.15)
        used = max([q for g in specs for q in g["t"] + (g["c"] or [])]) + 1
        fixed = rng.choice([None, n, n])
        w = n if fixed else used
        init = rand_init(rng, w) if rng.random() < 0.35 else None
        if not one_case(ctx, "cirq", specs, w, fixed, init) and len(ctx.mismatches) + len(ctx.violations) >= 3:
            return
        if i % 8 == 0 and w <= 4:
            if not sampled_case(ctx, specs, w):
                return
    for i in range(n_sympy):
        n = rng.randint(1, 4)
        specs = vlib.rand_gate_list(rng, n, rng.randint(1, 7), SYMPY_NAMES if rng.random() < 0.9 else vlib.ALL_UNITARY, corr=0.1, ang_profile="generic")
        used = max([q for g in specs for q in g["t"] + (g["c"] or [])]) + 1
        fixed = rng.choice([None, n])
        w = n if fixed else used
        init = rand_init(rng, w) if rng.random() < 0.3 else None
        if not one_case(ctx, "sympy", specs, w, fixed, init) and len(ctx.mismatches) + len(ctx.violations) >= 3:
            return
    # every controlled gate name with 2 and 3 controls in superposition (so that "all controls are 1" is decided per basis state), both backends
    for b in ("cirq", "sympy"):
        for name in vlib.CTL + vlib.CTL_P:
            for n_c in (2, 3):
                qs = rng.sample(range(4), n_c + 1)
                pre = [vlib.gspec(rng.choice(["H", "RY"]), [q]) for q in qs]
                for g in pre:
                    if g["n"] == "RY":
                        g["p"] = vlib.rand_ang(rng, "generic")
                gate = vlib.gspec(name, qs[:1], qs[1:], vlib.rand_ang(rng, "generic") if name in vlib.CTL_P else None)
                ctx.count("multi-control-superposed:" + b)
                if not one_case(ctx, b, pre + [gate], 4, 4, None) and len(ctx.mismatches) + len(ctx.violations) >= 3:
                    return
    # the no-gate shortcut of Backend.simulate (initial statevector straight to frequencies), both backends
    for i in range(ctx.n(10, 100)):
        w = rng.randint(1, 3)
        for b in ("cirq", "sympy"):
            one_case(ctx, b, [], w, w, rand_init(rng, w))
    # finite shots from a given statevector: no-gate shortcut on both backends, and with gates on cirq
    for i in range(ctx.n(12, 120)):
        w = rng.randint(2, 3)
        for b in ("cirq", "sympy"):
            if not sampled_init_case(ctx, b, w, []):
                return
        specs = vlib.rand_gate_list(rng, w, rng.randint(1, 4), ["X", "CNOT", "SWAP", "Z", "S"], corr=0.1)
        if not sampled_init_case(ctx, "cirq", w, specs):
            return


def replay(ctx, obj):
    case = obj.get("case") or (obj.get("first_mismatch") or {}).get("case")
    if case and "gates" in case:
        init = None if not case.get("init") else [(Fraction(a), Fraction(b)) for a, b in case["init"]]
        one_case(ctx, case["backend"], case["gates"], case["width"], case.get("n_qubits"), init)


def search(ctx, broken):
    """numpy-only search on the real backends (no model needed)"""
    from tangelo.linq import Circuit, get_backend
    rng = random.Random(ctx.seed + 5)
    for i in range(ctx.n(600, 5000)):
        b = "cirq" if i % 5 else "sympy"
        n = rng.randint(1, 4)
        specs = vlib.rand_gate_list(rng, n, rng.randint(1, 6), vlib.ALL_UNITARY if b == "cirq" else SYMPY_NAMES, corr=0.1, ang_profile="generic")
        order = "lsq_first" if b == "cirq" else "msq_first"
        c = Circuit([to_tangelo_gate(g) for g in specs], n_qubits=n)
        try:
            fr, sv = get_backend(b).simulate(c, return_statevector=True)
        except Exception:
            continue
        start = np.zeros(2 ** n, dtype=complex); start[0] = 1
        ref = _from_model_order(vlib.np_circuit_unitary(specs, n) @ start, n, get_backend(b).backend_info()["statevector_order"])
        sv = np.array(sv).astype(complex).ravel()
        if not np.allclose(sv, ref, atol=1e-8):
            ctx.violation(f"{b}: statevector differs from the documented semantics", {"backend": b, "gates": specs, "width": n, "n_qubits": n, "init": None})
            return
        pm = _to_model_order(ref, n, get_backend(b).backend_info()["statevector_order"])
        exact = {vlib.bits_lsq_index(i, n): abs(a) ** 2 for i, a in enumerate(pm) if abs(a) ** 2 >= 1e-10}
        if set(exact) != set(fr) or any(abs(exact[k] - complex(fr[k]).real) > 1e-8 for k in exact):
            ctx.violation(f"{b}: frequencies differ from the Born rule (qubit 0 first)", {"backend": b, "gates": specs, "width": n, "n_qubits": n, "init": None})
            return
