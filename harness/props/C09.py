"""C09 — circuit transformations preserve the implemented operation."""
import copy, math, random
import numpy as np
import vlib, linq_ops as L
from vlib import to_tangelo_gate, dump_tangelo_gate, np_circuit_unitary, same_up_to_phase, tangelo_dump_to_specs

CLAIM = {
 "text": "Proof (Lean 4): for every gate of the supported set Gate.inverse is proved to denote the inverse operation and Circuit.inverse to undo the circuit on every state of every register size (induction over the gate list); the local rewrite rules are proved sound for all angles, targets and control lists (merging two rotations = rotation by the sum; a gate followed by its inverse = identity; rotation by 0 = identity; uncontrolled rotations are 2pi-periodic up to the phase -1 and every rotation is exactly 4pi-periodic); operations on disjoint qubit sets commute (all pairs of kinds). ALL THREE simplification passes are proved as whole passes, by loop invariants over their bookkeeping: merge_rotations (theorem mergeRotations_sound: the per-qubit last-gate table is proved right after every iteration - recorded position holds a gate on that qubit and no later gate touches it - hence every fold of a rotation into an earlier one is a merge at a distance; the output implements EXACTLY the input's operation), remove_small_rotations (removeSmall_sound, up to one sign), remove_redundant_gates (removeRedundant_sound: the per-qubit stacks are proved to list exactly the unmarked earlier gates on that qubit, most recent first, so every cancellation - also cascading ones and interleaved pairs - is a cancellation at a distance; up to one sign), and their iteration simplify (simplify_sound, any max_cycles, induction over the cycles). The float decisions of the code (Gate.__eq__ tolerance, threshold test) enter these theorems as explicit hypotheses on the decision functions (equal gates: same qubits and same operation up to sign; dropped rotations: +- identity), proved satisfied by exact equality / exact zero test (simplify_sound_exec has no float hypothesis left); trim_qubits and reindex_qubits are proved to act on the relabelled register as the original on the original one (an injective relabelling of qubit labels is constructed from the code's index table; theorems trim_sem, reindex_sem); concatenation composes, repetition iterates (add_sem, mul_sem), copy keeps the gate list; the Clifford decomposition table regenerated from /repo is proved correct row by row by kernel computation in Q(zeta_16). stack is proved structurally (stack_sem: the stacked circuit is, block after block, an injectively relabelled copy of each input); split without trimming is proved to return parts which, executed one after the other, implement exactly the original operation and each touch only the qubits of their group (split_sem), because get_entangled_indices is proved to return pairwise disjoint groups that cover every gate (entangled_groupsOK: invariant of its absorb-and-merge loop over any gate list; split_sem_full has no hypothesis left; the executable form groupsOkB of the hypothesis is still evaluated by the driver on every generated circuit). split with trimming returns injectively relabelled copies of those parts (split_trim_sem). NOT proved as a theorem: the disjointness of the blocks of stack (tensor-product statement) - checked per generated instance, exactly, by the model (operator equality up to one global phase in Q(zeta_16)) and numerically on the real code. Tie to the code: transformation correspondence (model output gate list = Tangelo output gate list) on random circuits with correlated neighbours and edge angles.",
 "note": "Trusted: Lean kernel, axioms propext/Classical.choice/Quot.sound, table extractor, correspondence harness (sampled), numpy oracle for the search. Float decisions (== rounding, small-rotation threshold) are abstracted as parameters in the theorems and evaluated in Float by the driver; cases within 1e-9 of a discontinuity are discarded and counted. The threshold bound for dropped rotations (|theta|/2 per gate) is checked numerically only.",
 "technique": "Lean 4 semantic theorems (inverse; whole-pass soundness of merge_rotations, remove_small_rotations, remove_redundant_gates and simplify by loop invariants; relabelling for trim/reindex; periodicity; Clifford table by kernel computation) + transformation correspondence + exact per-instance operator equality in the model"}

RULE = ("random circuits (width 1-5, 1-14 gates) over the invertible gate set with correlated neighbours (repeats, inverses, shifted by 2pi/4pi, "
        "re-parametrised) and angles from {multiples of pi/4, generic, near 0/2pi/4pi, beyond 2pi}; every transformation applied to each; "
        "non-trivial if at least one transformation changes the gate list; distinct by hash of the gate list")
TRUSTED = ["numpy linear algebra in the oracle (unitaries up to width 5)"]
ASSUMPTIONS = ["set iteration order of small ints in CPython (reindex)"]

NAMES = vlib.ALL_UNITARY


def unitary_of(c, n):
    return np_circuit_unitary(tangelo_dump_to_specs([dump_tangelo_gate(g) for g in c]), n)


def relabel(specs, mapping):
    out = []
    for g in specs:
        h = dict(g)
        h["t"] = [mapping[q] for q in g["t"]]
        h["c"] = None if g["c"] is None else [mapping[q] for q in g["c"]]
        out.append(h)
    return out


def oracle_case(ctx, specs, fixed, thr, rng):
    """run every transformation on the real code and check the property with numpy; returns list of (name, changed?)"""
    from tangelo.linq import Circuit, stack
    from tangelo.linq.circuit import remove_small_rotations, remove_redundant_gates, merge_rotations, simplify
    c = Circuit([to_tangelo_gate(g) for g in specs], n_qubits=fixed)
    n = max(c.width, 1)
    before = L.py_dump_circuit(c)
    U = unitary_of(c, n)
    case = {"gates": specs, "n": fixed, "thr": thr}
    changed = []

    def unchanged(tag):
        d = L.dumps_equal(before, L.py_dump_circuit(c))
        if d:
            ctx.violation(f"{tag} altered its input circuit: {d}", case)
            return False
        return True

    def dist_phase(A, B):
        return min(np.linalg.norm(A - B, 2), np.linalg.norm(A + B, 2))

    # inverse
    ci = c.inverse()
    if not unchanged("inverse"):
        return None
    V = unitary_of(ci, n)
    if not np.allclose(V @ U, np.eye(2 ** n), atol=1e-8):
        ctx.violation("Circuit.inverse is not the adjoint", case)
        return None
    for tag, f in [("merge_rotations", lambda: merge_rotations(c)), ("remove_redundant_gates", lambda: remove_redundant_gates(c)),
                   ("copy", lambda: c.copy())]:
        o = f()
        if not unchanged(tag):
            return None
        if o.width > n:
            ctx.violation(f"{tag} widened the circuit", case)
            return None
        if not same_up_to_phase(U, unitary_of(o, n)):
            ctx.violation(f"{tag} changed the operation (not equal up to a global phase)", case)
            return None
        changed.append((tag, o.size != c.size))
    o = remove_small_rotations(c, param_threshold=thr)
    if not unchanged("remove_small_rotations"):
        return None
    ndrop = c.size - o.size
    if dist_phase(U, unitary_of(o, n)) > ndrop * thr / 2 + 1e-8:
        ctx.violation(f"remove_small_rotations(thr={thr}) moved the operator by more than {ndrop}*thr/2", case)
        return None
    changed.append(("remove_small_rotations", ndrop > 0))
    o = simplify(c, param_threshold=thr)
    if not unchanged("simplify"):
        return None
    if dist_phase(U, unitary_of(o, n)) > c.size * thr / 2 + 1e-8:
        ctx.violation(f"simplify(thr={thr}) moved the operator by more than size*thr/2", case)
        return None
    changed.append(("simplify", o.size != c.size))
    # + and *
    k = rng.randint(1, 3)
    o = c * k
    if not unchanged("*"):
        return None
    if not np.allclose(unitary_of(o, n), np.linalg.matrix_power(U, k), atol=1e-8):
        ctx.violation("c * k is not the k-fold repetition", case)
        return None
    o = c + ci
    if not unchanged("+") or not np.allclose(unitary_of(o, n), np.eye(2 ** n), atol=1e-8):
        ctx.violation("c + c.inverse() is not the identity", case)
        return None
    # split (no trim): product of the pieces (they commute) equals the circuit
    parts = c.split(trim_qubits=False)
    if not unchanged("split"):
        return None
    P = np.eye(2 ** n, dtype=complex)
    for p in parts:
        P = unitary_of(p, n) @ P
    if not np.allclose(P, U, atol=1e-8):
        ctx.violation("split(trim_qubits=False): the pieces do not multiply to the circuit", case)
        return None
    ent = c.get_entangled_indices()
    for i, a in enumerate(ent):
        for b in ent[i + 1:]:
            if a & b:
                ctx.violation("get_entangled_indices returned overlapping sets", case)
                return None
    parts_t = c.split(trim_qubits=True)
    for p, s in zip(parts_t, ent):
        m = {q: i for i, q in enumerate(sorted(s))}
        exp = relabel([g for g in specs if set(g["t"] + (g["c"] or [])) & s], m)
        if not np.allclose(unitary_of(p, len(s)), np_circuit_unitary(exp, len(s)), atol=1e-8):
            ctx.violation("split(trim_qubits=True): a piece is not the relabelled sub-circuit", case)
            return None
    # trim / reindex on copies, stack
    used = sorted({q for g in specs for q in g["t"] + (g["c"] or [])})
    ct = c.copy().trim_qubits()
    m = {q: i for i, q in enumerate(used)}
    if used and not np.allclose(unitary_of(ct, len(used)), np_circuit_unitary(relabel(specs, m), len(used)), atol=1e-8):
        ctx.violation("trim_qubits is not the relabelling to the lowest indices", case)
        return None
    cr = c.copy()
    idx = sorted(cr._qubit_indices)
    if idx and max(idx) < 8:
        new = rng.sample(range(max(len(idx), min(8, len(idx) + 2))), len(idx))
        cr.reindex_qubits(new)
        mp = dict(zip(idx, new))
        nn = max(new) + 1
        if not np.allclose(unitary_of(cr, nn), np_circuit_unitary(relabel(specs, mp), nn), atol=1e-8):
            ctx.violation("reindex_qubits is not the stated relabelling", {**case, "new_indices": new})
            return None
    # transformations composed: the result of a repetition / concatenation is a circuit of its own - relabelling it in
    # place must act once on every gate (no gate object shared between the repetitions or with the operands)
    if idx and max(idx) < 8 and len(specs) <= 10 and rng.random() < 0.5:
        for tag, mk in (("c * 2", lambda: c * 2), ("2 * c", lambda: 2 * c), ("c + c", lambda: c + c), ("(c * 2).copy()", lambda: (c * 2).copy())):
            o2 = mk()
            idx2 = sorted(o2._qubit_indices)
            new2 = rng.sample(range(len(idx2) + 1), len(idx2))
            try:
                o2.reindex_qubits(new2)
                V2 = unitary_of(o2, max(new2) + 1)
            except Exception as e:
                ctx.violation(f"reindex_qubits({new2}) on {tag} raises {vlib.err_name(e)}: {str(e)[:80]}", {**case, "new_indices": new2})
                return None
            if not unchanged(tag + " then reindex_qubits"):
                return None
            if not np.allclose(V2, np_circuit_unitary(relabel(specs * 2, dict(zip(idx2, new2))), max(new2) + 1), atol=1e-8):
                ctx.violation(f"reindex_qubits({new2}) on {tag} is not the stated relabelling of the repeated circuit", {**case, "new_indices": new2})
                return None
        if used:
            try:
                o3 = (c * 2).trim_qubits()
                ok3 = np.allclose(unitary_of(o3, len(used)), np_circuit_unitary(relabel(specs * 2, m), len(used)), atol=1e-8)
            except Exception as e:
                ctx.violation(f"trim_qubits on c * 2 raises {vlib.err_name(e)}: {str(e)[:80]}", case)
                return None
            if not ok3:
                ctx.violation("trim_qubits on c * 2 is not the relabelling of the repeated circuit to the lowest indices", case)
                return None
    if used and len(used) <= 3:
        st = stack(c, c)
        if not unchanged("stack"):
            return None
        w = len(used)
        exp = relabel(specs, m) + relabel(specs, {q: i + w for q, i in m.items()})
        if st.width != 2 * w or not np.allclose(unitary_of(st, 2 * w), np_circuit_unitary(exp, 2 * w), atol=1e-8):
            ctx.violation("stack(c, c) is not the tensor product of the trimmed circuits", case)
            return None
    # gate equality: gates that compare equal implement the same operation up to phase
    gs = list(c)
    for i in range(len(gs)):
        for j in range(i + 1, min(i + 4, len(gs))):
            if gs[i] == gs[j]:
                A = np_circuit_unitary(tangelo_dump_to_specs([dump_tangelo_gate(gs[i])]), n)
                B = np_circuit_unitary(tangelo_dump_to_specs([dump_tangelo_gate(gs[j])]), n)
                if not same_up_to_phase(A, B, tol=1e-6):
                    ctx.violation(f"gates compare equal but differ as operations: {gs[i]!r} vs {gs[j]!r}", case)
                    return None
    return changed


def sparse_case(ctx, rng):
    """circuits on a few qubits with sparse, large indices (set iteration order is no longer the numeric order):
    trim / split / stack must relabel to the lowest indices in increasing order"""
    from tangelo.linq import Circuit, stack
    k = rng.randint(2, 4)
    idx = sorted(rng.sample(range(0, 14), k))
    if max(idx) < 8:
        idx[-1] = rng.randint(8, 13)
        idx = sorted(set(idx))
        k = len(idx)
    compact = vlib.rand_gate_list(rng, k, rng.randint(2, 8), NAMES, max_controls=2)
    used_c = sorted({q for g in compact for q in g["t"] + (g["c"] or [])})
    sparse = relabel(compact, {i: idx[i] for i in range(k)})
    used = sorted({q for g in sparse for q in g["t"] + (g["c"] or [])})
    c = Circuit([to_tangelo_gate(g) for g in sparse])
    case = {"kind": "sparse", "gates": sparse}
    ctx.case(case, nontrivial=True, sample=False)
    ctx.count("sparse")
    m = {q: i for i, q in enumerate(used)}
    ref = np_circuit_unitary(relabel(sparse, m), len(used))
    ct = c.copy().trim_qubits()
    if ct.width != len(used) or not np.allclose(unitary_of(ct, len(used)), ref, atol=1e-8):
        ctx.violation(f"trim_qubits on qubits {used} is not the relabelling to 0..{len(used) - 1} in increasing order", case)
        return False
    ent = c.get_entangled_indices()
    for p, sset in zip(c.split(trim_qubits=True), ent):
        mm = {q: i for i, q in enumerate(sorted(sset))}
        exp = relabel([g for g in sparse if set(g["t"] + (g["c"] or [])) & sset], mm)
        if not np.allclose(unitary_of(p, len(sset)), np_circuit_unitary(exp, len(sset)), atol=1e-8):
            ctx.violation(f"split(trim_qubits=True) on qubits {sorted(sset)}: a piece is not the relabelled sub-circuit", case)
            return False
    if len(used) <= 3:
        st = stack(c, c)
        w = len(used)
        exp = relabel(sparse, m) + relabel(sparse, {q: i + w for q, i in m.items()})
        if st.width != 2 * w or not np.allclose(unitary_of(st, 2 * w), np_circuit_unitary(exp, 2 * w), atol=1e-8):
            ctx.violation(f"stack(c, c) with c on qubits {used} is not the tensor product of the trimmed circuits", case)
            return False
    return True


def corr_case(ctx, specs, fixed, thr):
    """model vs code on the gate lists every transformation returns"""
    m = ctx.model
    m.ask({"op": "reset"})
    store = {}
    ops = [{"op": "new", "dst": "c", "gates": specs, "n": fixed},
           {"op": "inverse", "dst": "inv", "a": "c"}, {"op": "fn_merge", "dst": "mg", "a": "c"},
           {"op": "fn_rrg", "dst": "rr", "a": "c", "rq": False}, {"op": "fn_rsr", "dst": "rs", "a": "c", "thr": thr, "rq": False},
           {"op": "fn_simplify", "dst": "sp", "a": "c", "thr": thr, "rq": False, "cycles": 100},
           {"op": "fn_rrg", "dst": "rr2", "a": "c", "rq": True}, {"op": "split", "dst": "pt_", "a": "c", "trim": True},
           {"op": "ro_entangled", "a": "c"}, {"op": "trim", "dst": "inv"}, {"op": "stack", "dst": "st", "ids": ["c", "mg"]}]
    for op in ops:
        refs = [op.get("a"), op.get("b")] + (op.get("ids") or []) + ([op.get("dst")] if op["op"] in ("trim",) else [])
        if any(r is not None and r not in store for r in refs):
            continue
        r_py = L.py_apply(store, op)
        j = m.ask(L.model_req(op))
        if "err" in j:
            ctx.mismatch(f"model protocol error {j['err']}", {"gates": specs, "n": fixed})
            return False
        r_mo = j["r"]
        if op["op"] == "ro_entangled" and not isinstance(r_py, str):
            ok = sorted(map(tuple, r_py)) == sorted(map(tuple, r_mo))
            # hypothesis of the theorem split_sem, evaluated by the model on its own groups (= the code's, compared above)
            if j.get("groups_ok") is False:
                ctx.mismatch("the qubit groups do not cover every gate / are not pairwise disjoint (hypothesis GroupsOK of split_sem)", {"gates": specs, "n": fixed})
                return False
            ctx.count("groups_ok:" + str(j.get("groups_ok")))
        else:
            ok = (r_py == r_mo)
        diff = None if ok else f"result {r_py!r} vs {r_mo!r}"
        if ok:
            for k, c in store.items():
                d = L.dumps_equal(L.py_dump_circuit(c), L.model_dump_circuit(j["store"][k])) if k in j["store"] else "missing in model"
                if d:
                    diff = f"{k}: {d}"
                    break
        if diff:
            if not j.get("stable", True):
                ctx.discarded += 1
                return True
            ctx.mismatch(f"{op['op']}: {diff}", {"gates": specs, "n": fixed, "thr": thr}, r_mo, r_py)
            return False
    # the model's own outputs are semantically equal to the input, exactly (validates the modelled passes)
    n = max([q for g in specs for q in g["t"] + (g["c"] or [])], default=0) + 1
    if n <= 4 and all(g["n"] != "MEASURE" for g in specs):
        for k in ("mg", "rr"):
            if k in j["store"]:
                r = m.ask({"op": "semeq", "a": specs, "b": j["store"][k]["gates"], "n": n})
                ctx.count("model_semeq")
                if r.get("eq") is False:
                    ctx.mismatch(f"model pass {k} is not operator-preserving (exact check)", {"gates": specs})
                    return False
    return True


def clifford_sweep(ctx):
    from tangelo.linq import Gate
    from tangelo.linq.helpers.circuits.clifford_circuits import decompose_gate_to_cliffords
    for name in ["RX", "RY", "RZ", "PHASE"]:
        for kq in range(-16, 17, 2):
            th = kq * math.pi / 4
            for eps in (0.0, 3e-5, -3e-5):
                g = Gate(name, 0, parameter=th + eps)
                try:
                    out = decompose_gate_to_cliffords(g)
                except Exception as e:
                    continue
                A = vlib.np_gate_unitary({"n": name, "t": [0], "c": None, "p": th, "v": False}, 1)
                B = np.eye(2, dtype=complex)
                for h in out:
                    B = vlib.np_gate_unitary({"n": h.name, "t": [0], "c": None, "p": None, "v": False}, 1) @ B
                ctx.count("clifford_rows")
                if not same_up_to_phase(A, B, tol=1e-6):
                    ctx.violation(f"decompose_gate_to_cliffords({name}, {kq}*pi/4{'+eps' if eps else ''}) is not the rotation up to phase",
                                  {"name": name, "kq": kq, "eps": eps})
                    return


def run(ctx):
    rng = ctx.rng
    n = ctx.n(220, 1400)
    for i in range(n):
        w = rng.randint(1, 5)
        specs = vlib.rand_gate_list(rng, w, rng.randint(1, 14), NAMES)
        if w >= 3 and rng.random() < 0.2:
            # rotations on the same target whose control lists differ: a multi-controlled rotation next to the same
            # rotation with fewer / other / exchanged controls (nothing may be merged or cancelled between them)
            nm = rng.choice(["CRX", "CRY", "CRZ", "CPHASE"])
            t, c1, c2 = rng.sample(range(w), 3)
            pair = [vlib.gspec(nm, [t], [c1, c2], vlib.rand_ang(rng)), vlib.gspec(nm, [t], rng.choice([[c1], [c2], [c2, c1], [c1, c2]]), vlib.rand_ang(rng))]
            if rng.random() < 0.3:
                pair[1] = vlib.gspec(nm, [c1], [t, c2], pair[1]["p"])
            if rng.random() < 0.5:
                pair.reverse()
            pos = rng.randint(0, len(specs))
            specs = specs[:pos] + pair + specs[pos:]
            ctx.count("pattern:same-target-different-controls")
        fixed = rng.choice([None, None, w, w + 1])
        thr = rng.choice([1e-3, 1e-3, 0.01, 0.3])
        ch = oracle_case(ctx, specs, fixed, thr, rng)
        if ch is None:
            break
        ok = corr_case(ctx, specs, fixed, thr)
        for tag, c in ch:
            if c:
                ctx.count("changed:" + tag)
        ctx.case({"gates": specs, "n": fixed, "thr": thr}, nontrivial=any(c for _, c in ch))
        if not ok and len(ctx.mismatches) >= 3:
            break
    for i in range(ctx.n(60, 300)):
        if not sparse_case(ctx, rng):
            break
    clifford_sweep(ctx)


def replay(ctx, obj):
    case = obj.get("case") or (obj.get("first_mismatch") or {}).get("case")
    if case and "gates" in case:
        oracle_case(ctx, case["gates"], case.get("n"), case.get("thr", 1e-3), random.Random(1))
        corr_case(ctx, case["gates"], case.get("n"), case.get("thr", 1e-3))


def search(ctx, broken):
    rng = random.Random(ctx.seed + 99)
    for i in range(ctx.n(1500, 10000)):
        w = rng.randint(1, 4)
        specs = vlib.rand_gate_list(rng, w, rng.randint(1, 10), NAMES, corr=0.6)
        if oracle_case(ctx, specs, rng.choice([None, w]), rng.choice([1e-3, 0.01, 0.3]), rng) is None:
            return
    clifford_sweep(ctx)
