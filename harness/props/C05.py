"""C05 — reference-state circuits encode the requested occupations."""
import itertools, random, warnings
import numpy as np
import vlib

CLAIM = {
 "text": "Proof (Lean 4), partial: model = occupation filling from (n_electrons, spin) with Python's slice and floor-division semantics, the alternating -> up-then-down conversion, Jordan-Wigner (identity on the vector) and vector -> X gates. Proved: for every mode and every register size the encoded Jordan-Wigner number operator a_j^dagger a_j acts on a basis state as multiplication by its occupation bit (from the C03 intertwining theorems), so a circuit of X gates on the occupied positions has expectation exactly 1 / 0; X gates on distinct qubits prepare exactly the basis state of the vector; the filling rule for EVERY register size: with spin != 0, matching parity and non-negative n_alpha, n_beta, position i is occupied exactly when it is one of the lowest n_alpha even (alpha) or n_beta odd (beta) positions (Python slice assignment with stride 2 and clipped stop, floor division), and with spin absent or 0 exactly the first n_electrons positions are occupied (a finite table for n <= 10 is kept as an additional kernel-checked test); the ordering conversion preserves the length and, by the C03 theorem on the re-indexing map, is a permutation of the modes. The Bravyi-Kitaev, scBK and JKMN vector transforms (openfermion Fenwick tree / ternary tree) are NOT modelled: for them the property itself is evaluated exhaustively on the real code - every (n_electrons, spin) and every occupation vector for n <= 6 (8 thorough), both orderings: <v| encoded n_i |v> is exactly the requested occupation.",
 "note": "Trusted: Lean kernel + standard axioms; fermion_to_qubit_mapping for BK/scBK/JKMN number operators (C03 oracle). The expectation of a Pauli sum on a computational basis state is evaluated exactly (Z-only words).",
 "technique": "Lean 4 theorems for the Jordan-Wigner path + exhaustive evaluation of the property on the real code for the other encodings"}

RULE = ("exhaustive: even n <= 6 (8 thorough), all n_electrons 0..n, all admissible spins incl. None, negative and odd cases, encodings JW/BK/scBK/JKMN, both orderings (get_reference_circuit); all 2^n user vectors for n <= 4 (6 thorough) "
        "(get_mapped_vector, list and array inputs); non-trivial: at least one occupied orbital; distinct by (n, ne, spin, mapping, ordering)")
TRUSTED = []
ASSUMPTIONS = []


def basis_expectation(qop, bits):
    """<bits| qop |bits> exactly: only I/Z words contribute"""
    val = 0
    for w, c in qop.terms.items():
        if any(p != "Z" for _, p in w):
            continue
        val += c * (-1) ** sum(bits[q] for q, _ in w)
    return val


_NUMOPS = {}


def number_ops(mapping, n, n_e, utd, spin):
    from tangelo.toolboxes.operators import FermionOperator
    from tangelo.toolboxes.qubit_mappings.mapping_transform import fermion_to_qubit_mapping
    key = (mapping, n, n_e if mapping == "scBK" else None, utd, spin if mapping == "scBK" else None)
    if key not in _NUMOPS:
        _NUMOPS[key] = [fermion_to_qubit_mapping(FermionOperator(((i, 1), (i, 0))), mapping, n_spinorbitals=n, n_electrons=n_e, up_then_down=utd, spin=spin or 0)
                        for i in range(n)]
    return _NUMOPS[key]


def circuit_bits(circ, width):
    bits = [0] * width
    for g in circ:
        if g.name != "X" or g.control is not None:
            return None
        bits[g.target[0]] ^= 1
    return bits


def check_vector(ctx, occ, mapping, utd, n_e, spin, source, case):
    """occ: requested occupations in the alternating ordering; source() returns the circuit"""
    n = len(occ)
    try:
        with warnings.catch_warnings():
            warnings.simplefilter("ignore")
            circ = source()
    except Exception as e:
        ctx.violation(f"{case}: raised {type(e).__name__}: {str(e)[:80]}", case)
        return False
    width = n - 2 if mapping == "scBK" else n
    if circ.width != width and not (width == 0):
        ctx.violation(f"{case}: circuit width {circ.width}, expected {width}", case)
        return False
    bits = circuit_bits(circ, width)
    if bits is None:
        ctx.violation(f"{case}: reference circuit is not made of X gates", case)
        return False
    ops = number_ops(mapping, n, n_e, utd, spin)
    for i, q in enumerate(ops):
        e = basis_expectation(q, bits)
        if abs(e - occ[i]) > 1e-12:
            ctx.violation(f"{case}: <n_{i}> = {e} on the prepared state, requested occupation {occ[i]} (vector {occ})", case)
            return False
    return True


def requested_occupation(n, n_e, spin):
    """what get_reference_circuit is asked for: n_alpha lowest alpha and n_beta lowest beta orbitals (alternating order)"""
    occ = [0] * n
    if spin:
        n_alpha = (n_e + spin) // 2
        n_beta = (n_e - spin) // 2
    else:
        n_alpha, n_beta = (n_e + 1) // 2, n_e // 2
    for k in range(n_alpha):
        occ[2 * k] = 1
    for k in range(n_beta):
        occ[2 * k + 1] = 1
    return occ


def run(ctx):
    from tangelo.toolboxes.qubit_mappings.statevector_mapping import get_reference_circuit, get_mapped_vector, vector_to_circuit, get_vector
    max_n = ctx.n(6, 8)
    for n in range(2, max_n + 1, 2):
        for n_e in range(0, n + 1):
            spins = [None] + [s for s in range(-n_e, n_e + 1) if (n_e + s) % 2 == 0 and (n_e + s) // 2 <= n // 2 and (n_e - s) // 2 <= n // 2]
            for spin in spins:
                occ = requested_occupation(n, n_e, spin)
                for mapping in ("JW", "BK", "scBK", "JKMN"):
                    for utd in (False, True):
                        if mapping == "scBK" and n == 2:
                            continue
                        case = {"n": n, "n_electrons": n_e, "spin": spin, "mapping": mapping, "up_then_down": utd}
                        ctx.case(case, nontrivial=n_e > 0, sample=(n == 4 and n_e == 3 and mapping == "BK"))
                        ctx.count(f"ref:{mapping}")
                        sp = spin if spin is not None else (n_e % 2)
                        if not check_vector(ctx, occ, mapping, utd, n_e, sp,
                                            lambda: get_reference_circuit(n, n_e, mapping, up_then_down=utd, spin=spin), case):
                            if len(ctx.violations) >= 3:
                                return
                        if mapping == "JW":
                            j = ctx.model.ask({"op": "refstate", "n": n, "ne": n_e, "spin": spin, "utd": utd})
                            v = get_vector(n, n_e, "JW", up_then_down=utd, spin=spin)
                            py = "".join(str(int(b)) for b in v)
                            if j.get("jw") != py:
                                ctx.mismatch(f"get_vector({n}, {n_e}, JW, utd={utd}, spin={spin}) = {py}, model {j.get('jw')}", case)
                                if len(ctx.mismatches) >= 3:
                                    return
    # state carried over between calls: the vector a call returns belongs to the caller - editing it in place (to build
    # an excited reference, say) must not change what the next call with the same arguments prepares; a user-supplied
    # vector is not modified by the mapping
    n = 4
    for n_e in range(1, n + 1):
        for spin in [s for s in range(-n_e, n_e + 1) if (n_e + s) % 2 == 0 and (n_e + s) // 2 <= n // 2 and (n_e - s) // 2 <= n // 2]:
            occ = requested_occupation(n, n_e, spin)
            for mapping in ("JW", "BK", "scBK", "JKMN"):
                for utd in (False, True):
                    case = {"n": n, "n_electrons": n_e, "spin": spin, "mapping": mapping, "up_then_down": utd, "second_call": True}
                    ctx.case(case, nontrivial=True, sample=False)
                    ctx.count("ref:second-call")
                    v1 = get_vector(n, n_e, mapping, up_then_down=utd, spin=spin)
                    try:
                        v1[:] = 1 - np.asarray(v1)          # the caller edits its own copy
                    except Exception:
                        pass
                    if not check_vector(ctx, occ, mapping, utd, n_e, spin,
                                        lambda: get_reference_circuit(n, n_e, mapping, up_then_down=utd, spin=spin), case):
                        if len(ctx.violations) >= 3:
                            return
                    user = np.array(occ)
                    keep = user.copy()
                    get_mapped_vector(user, mapping, utd)
                    if not np.array_equal(user, keep):
                        ctx.violation(f"get_mapped_vector({mapping}, up_then_down={utd}) modified the occupation vector it was given: {keep.tolist()} -> {user.tolist()}", case)
                        return
    # user-supplied occupation vectors (alternating ordering), as list and as array
    max_u = ctx.n(4, 6)
    for n in range(2, max_u + 1, 2):
        for occ in itertools.product([0, 1], repeat=n):
            occ = list(occ)
            n_e = sum(occ)
            n_alpha = sum(occ[0::2])
            spin = n_alpha - (n_e - n_alpha)
            for mapping in ("JW", "BK", "scBK", "JKMN"):
                if mapping == "scBK" and n == 2:
                    continue
                for utd in (False, True):
                    for as_array in (False, True):
                        case = {"vector": occ, "mapping": mapping, "up_then_down": utd, "array": as_array}
                        ctx.case(case, nontrivial=n_e > 0, sample=False)
                        ctx.count(f"user:{mapping}")
                        vec = np.array(occ) if as_array else list(occ)
                        # scBK operator convention: the operator is built for up_then_down as given
                        if not check_vector(ctx, occ, mapping, utd, n_e, spin,
                                            lambda: vector_to_circuit(get_mapped_vector(vec, mapping, utd)), case):
                            if len(ctx.violations) >= 3:
                                return


def replay(ctx, obj):
    pass


def search(ctx, broken):
    pass
