"""C12 — symmetry operators and penalties are exact; default ansaetze conserve them."""
import json
import itertools, random
import numpy as np
from fractions import Fraction
import vlib, fock

CLAIM = {
 "text": "Proof (Lean 4), partial: N and S_z are modelled as the term lists the code builds (spin-orbital index selection per ordering); proved for every number of orbitals, both orderings and every determinant: a sum of c_p a_p^dagger a_p multiplies the amplitude of a determinant by the sum of c_p over its occupied spin-orbitals, hence N has eigenvalue (number of electrons) and S_z has eigenvalue (n_up - n_down)/2 on every Slater determinant (through the C03 intertwining the same holds for the Jordan-Wigner encoded operators); a penalty mu (O - t)^2 with mu > 0 is non-negative on every eigenvector and vanishes exactly when the eigenvalue equals the target. Commutation is proved too: a diagonal operator whose weight is additive over the occupied modes obeys the shift relations D a+_p = a+_p (D + g_p), D a_q = a_q (D - g_q), hence commutes with every ladder string whose increments cancel and, by linearity, with every operator made of such strings - N with every number-conserving Hamiltonian, S_z with every Hamiltonian whose terms conserve the spin projection (any coefficients, any number of terms, every register size); the increments of N are computed (1 on each of the 2 n_orbs spin-orbitals). The option handling of combined_penalty is modelled as a dictionary of defaults updated with the caller's options: with per-call defaults the effective options of a call are proved independent of every earlier call (fresh_history_independent), while one shared default dictionary is refuted by a two-call history (shared_counterexample - the defect class of three seeded changes); the model's effective options are compared with the penalties the code returns on random call histories. NOT proved in Lean: the structure of S^2 (eigenfunctions, commutation), that the integrals of a particular molecule vanish for non-conserving terms, the other encodings, and conservation by the ansaetze - all evaluated by the numerical oracle: dense Fock-space matrices against an independent construction of N, S_z, S^2 = S_z^2 + (S+S- + S-S+)/2, commutators with random molecular Hamiltonians, penalty spectra and kernels, encoded spectra, and <N>, <N^2>, <S_z>, <S_z^2> on ansatz states at random parameters (variance zero).",
 "note": "Trusted: Lean kernel + standard axioms; openfermion normal_ordered; numpy; cirq (ansatz states); PySCF (molecules for the ansaetze).",
 "technique": "Lean 4 eigenvalue theorems for the diagonal symmetry operators and penalty arithmetic + dense-matrix oracle + ansatz-state conservation oracle"}

RULE = ("operators for n_orbs <= 3 (4 thorough), both orderings: every determinant / independent S^2 / commutation with random molecular Hamiltonians / penalties with random rational targets and weights / encodings JW, BK, JKMN, scBK; "
        "ansaetze UCCSD, UpCCGSD(k<=2), UCCGD, UCC1, UCC3, pUCCD(HCB), ADAPT pools on H2/H4/H4+ with random parameters; non-trivial: n_orbs >= 2; distinct by configuration")
TRUSTED = ["openfermion normal_ordered", "cirq simulator for ansatz states"]
ASSUMPTIONS = ["tolerance 1e-8"]


def indep_ops(n_orbs, utd):
    n = 2 * n_orbs
    up = [(i if utd else 2 * i) for i in range(n_orbs)]
    dn = [(i + n_orbs if utd else 2 * i + 1) for i in range(n_orbs)]
    a = [fock.ladder(j, False, n) for j in range(n)]
    ad = [m.conj().T for m in a]
    N = sum(ad[j] @ a[j] for j in range(n))
    Sz = 0.5 * (sum(ad[p] @ a[p] for p in up) - sum(ad[p] @ a[p] for p in dn))
    Sp = sum(ad[u] @ a[d] for u, d in zip(up, dn))
    Sm = Sp.conj().T
    S2 = Sz @ Sz + 0.5 * (Sp @ Sm + Sm @ Sp)
    return N, Sz, S2


def operators_case(ctx, n_orbs, utd, rng):
    from tangelo.toolboxes.ansatz_generator.fermionic_operators import number_operator, spinz_operator, spin2_operator, number_operator_list, spinz_operator_list
    from tangelo.toolboxes.ansatz_generator.penalty_terms import number_operator_penalty, spin_operator_penalty, spin2_operator_penalty, combined_penalty
    from tangelo.toolboxes.qubit_mappings.mapping_transform import fermion_to_qubit_mapping
    from tangelo.toolboxes.operators import FermionOperator
    n = 2 * n_orbs
    case = {"n_orbs": n_orbs, "up_then_down": utd}
    ctx.case(case, nontrivial=n_orbs >= 2, sample=n_orbs == 2)
    ctx.count("operators")
    Nr, Szr, S2r = indep_ops(n_orbs, utd)
    # the operator a call returns belongs to the caller: scaling it in place must not change what the next call returns
    for f in (number_operator, spinz_operator, spin2_operator):
        first = f(n_orbs, utd)
        first *= 3.0
        first += FermionOperator((), 1.0)
    Nm = fock.fermion_matrix(number_operator(n_orbs, utd), n)
    Szm = fock.fermion_matrix(spinz_operator(n_orbs, utd), n)
    S2m = fock.fermion_matrix(spin2_operator(n_orbs, utd), n)
    for name, A, B in (("N", Nm, Nr), ("Sz", Szm, Szr), ("S^2", S2m, S2r)):
        if not np.allclose(A, B, atol=1e-10):
            x = int(np.argmax(np.abs(A - B).sum(axis=0)))
            ctx.violation(f"{name} (n_orbs={n_orbs}, up_then_down={utd}) is not the physical operator (first differing determinant {x:0{n}b})", case)
            return False
    # every determinant is an eigenvector with the physical eigenvalue
    for x in range(2 ** n):
        if abs(Nm[x, x] - fock.popcount(x)) > 1e-10 or np.abs(Nm[:, x]).sum() - abs(Nm[x, x]) > 1e-10:
            ctx.violation(f"N on determinant {x:0{n}b} is not {fock.popcount(x)}", case)
            return False
    # commutation with a random molecular Hamiltonian (alternating order is what the generator builds)
    H = fock.rand_molecular_hamiltonian(rng, n_orbs)
    if utd:
        from props.C03 import _reordered
        H = _reordered(H, n, True)
    Hm = fock.fermion_matrix(H, n)
    for name, A in (("N", Nm), ("Sz", Szm), ("S^2", S2m)):
        if not np.allclose(A @ Hm - Hm @ A, 0, atol=1e-9):
            ctx.violation(f"{name} does not commute with a molecular Hamiltonian (n_orbs={n_orbs}, up_then_down={utd})", case)
            return False
    # model correspondence for the term lists
    j = ctx.model.ask({"op": "symlists", "n_orbs": n_orbs, "utd": utd})
    py_n = [[t[0][0], str(Fraction(c))] for t, c in number_operator_list(n_orbs, utd)]
    py_s = [[t[0][0], str(Fraction(c).limit_denominator(4))] for t, c in spinz_operator_list(n_orbs, utd)]
    if j.get("number") != py_n or j.get("spinz") != py_s:
        ctx.mismatch(f"term lists of N / Sz differ from the model: {py_n} {py_s} vs {j}", case)
        return False
    # penalties: non-negative, zero exactly on the sector
    for _ in range(3):
        mu = rng.choice([0.5, 1.0, 2.5])
        t_n, t_sz = rng.randint(0, n), rng.choice([-1, -0.5, 0, 0.5, 1])
        s = rng.choice([0, 0.5, 1])
        t_s2 = s * (s + 1)
        for name, pen, O, t in (("N", number_operator_penalty(n_orbs, t_n, mu, utd), Nr, t_n), ("Sz", spin_operator_penalty(n_orbs, t_sz, mu, utd), Szr, t_sz),
                                ("S^2", spin2_operator_penalty(n_orbs, t_s2, mu, utd), S2r, t_s2)):
            P = fock.fermion_matrix(pen, n)
            ref = mu * (O - t * np.eye(2 ** n)) @ (O - t * np.eye(2 ** n))
            ctx.count("penalty")
            if not np.allclose(P, ref, atol=1e-9):
                ctx.violation(f"{name} penalty (target {t}, weight {mu}) is not mu (O - t)^2", {**case, "target": t, "mu": mu})
                return False
            ev = np.linalg.eigvalsh((P + P.conj().T) / 2)
            if ev.min() < -1e-9:
                ctx.violation(f"{name} penalty has a negative eigenvalue {ev.min()}", {**case, "target": t, "mu": mu})
                return False
        comb = combined_penalty(n_orbs, {"N": [mu, t_n], "Sz": [mu, t_sz], "S^2": [mu, t_s2]}, utd)
        C = fock.fermion_matrix(comb, n)
        ref = mu * sum((O - t * np.eye(2 ** n)) @ (O - t * np.eye(2 ** n)) for O, t in ((Nr, t_n), (Szr, t_sz), (S2r, t_s2)))
        if not np.allclose(C, ref, atol=1e-9):
            ctx.violation("combined_penalty is not the sum of the three penalties", {**case, "targets": [t_n, t_sz, t_s2], "mu": mu})
            return False
        # call history: subsets of the keys, in any order, after calls that used other keys
        allp = {"N": ([mu, t_n], Nr, t_n), "Sz": ([mu, t_sz], Szr, t_sz), "S^2": ([mu, t_s2], S2r, t_s2)}
        hist = []
        for _ in range(3):
            keys = rng.sample(list(allp), rng.randint(1, 3))
            hist.append(keys)
            got = fock.fermion_matrix(combined_penalty(n_orbs, {k: list(allp[k][0]) for k in keys}, utd), n)
            want = mu * sum((allp[k][1] - allp[k][2] * np.eye(2 ** n)) @ (allp[k][1] - allp[k][2] * np.eye(2 ** n)) for k in keys)
            ctx.count("penalty_history")
            # the model's effective options for this call after this history (per-call defaults: theorem
            # fresh_history_independent) name the same penalties
            jd = ctx.model.ask({"op": "defaults_history", "defaults": [[k, [0, 0]] for k in ("N", "Sz", "S^2")],
                                "history": [[[k, allp[k][0]] for k in h] for h in hist[:-1]], "opts": [[k, allp[k][0]] for k in keys]})
            eff = {k: json.loads(v) for k, v in jd.get("effective", [])}
            if eff and {k for k, v in eff.items() if v[0] > 0} != {k for k in keys if allp[k][0][0] > 0}:
                ctx.mismatch(f"model: effective penalty options {eff} after history {hist[:-1]} for keys {keys}", {**case, "history": hist})
                return False
            if not np.allclose(got, want, atol=1e-9):
                ctx.violation(f"combined_penalty with keys {keys} (after calls with {hist[:-1]}) is not the sum of the requested penalties", {**case, "history": hist, "mu": mu})
                return False
    # encodings: the encoded N and Sz have the spectrum of the fermionic ones (alternating input, ordering by the mapping)
    if n <= 6:
        for mapping in ("JW", "BK", "JKMN"):
            for op, ref, nm in ((number_operator(n_orbs, False), indep_ops(n_orbs, False)[0], "N"), (spinz_operator(n_orbs, False), indep_ops(n_orbs, False)[1], "Sz")):
                q = fermion_to_qubit_mapping(op, mapping, n_spinorbitals=n, up_then_down=utd)
                ctx.count("encoded")
                if not fock.spectra_equal(np.linalg.eigvalsh(fock.qubit_matrix(q, n)), np.linalg.eigvalsh(ref)):
                    ctx.violation(f"{mapping}-encoded {nm} (up_then_down={utd}) does not have the spectrum of {nm}", {**case, "mapping": mapping})
                    return False
        # symmetry-conserving Bravyi-Kitaev: in every (n_electrons, spin) sector - negative spin projections and odd
        # electron numbers included - the encoded N and Sz are the operators restricted to the (N parity, N_alpha parity)
        # space of that sector (N and Sz are diagonal in the determinants: the values must match as multisets)
        if n >= 4:
            Nd, Szd = np.real(np.diag(indep_ops(n_orbs, False)[0])), np.real(np.diag(indep_ops(n_orbs, False)[1]))
            for n_e in range(0, n + 1):
                for spin in range(-n_e, n_e + 1):
                    n_alpha, n_beta = (n_e + spin) // 2, (n_e - spin) // 2
                    if (n_e + spin) % 2 or not (0 <= n_alpha <= n_orbs and 0 <= n_beta <= n_orbs):
                        continue
                    idx = fock.sector_indices(n, lambda x: fock.popcount(x) % 2 == n_e % 2 and fock.popcount(x & 0x55555555) % 2 == n_alpha % 2)
                    for op, dg, nm in ((number_operator(n_orbs, False), Nd, "N"), (spinz_operator(n_orbs, False), Szd, "Sz")):
                        q = fermion_to_qubit_mapping(op, "scBK", n_spinorbitals=n, n_electrons=n_e, up_then_down=utd, spin=spin)
                        ctx.count("encoded:scBK")
                        if not fock.spectra_equal(np.linalg.eigvalsh(fock.qubit_matrix(q, n - 2)), np.sort(dg[idx])):
                            ctx.violation(f"scBK-encoded {nm} for {n_e} electrons, spin {spin} (up_then_down={utd}) is not {nm} on the (N parity, N_alpha parity) "
                                          f"space of that sector", {**case, "mapping": "scBK", "n_electrons": n_e, "spin": spin})
                            return False
    return True


def ansatz_state(circ):
    from tangelo.linq import get_backend
    _, sv = get_backend("cirq").simulate(circ, return_statevector=True)
    n = circ.width
    out = np.zeros(2 ** n, dtype=complex)
    for idx in range(2 ** n):
        out[sum(((idx >> (n - 1 - q)) & 1) << q for q in range(n))] = sv[idx]
    return out


def ansatz_case(ctx, rng, molname, kind):
    """JW default: states prepared by particle-conserving ansaetze carry exactly the reference N and Sz"""
    import mols
    from tangelo.toolboxes.ansatz_generator import UCCSD, UpCCGSD, UCCGD, RUCC, ADAPTAnsatz
    from tangelo.toolboxes.ansatz_generator.puccd import pUCCD
    from tangelo.toolboxes.ansatz_generator._unitary_cc_openshell import uccsd_openshell_paramsize
    mol = mols.molecule(molname)
    n = mol.n_active_sos
    case = {"molecule": molname, "ansatz": kind}
    try:
        if kind == "UCCSD":
            ans = UCCSD(mol)
        elif kind.startswith("UpCCGSD"):
            ans = UpCCGSD(mol, k=int(kind[-1]))
        elif kind == "UCCGD":
            ans = UCCGD(mol)
        elif kind in ("UCC1", "UCC3"):
            ans = RUCC(n_var_params=int(kind[-1]))
        elif kind == "pUCCD":
            ans = pUCCD(mol)
        else:
            return True
    except Exception as e:
        ctx.notes.append(f"{kind} on {molname}: construction refused ({type(e).__name__})")
        return True
    # a short parameter history: build with some exact zeros, then update (same zero pattern, then a dense vector)
    npar = ans.n_var_params
    if rng.random() < 0.5:
        zero_mask = [rng.random() < 0.35 for _ in range(npar)]
    else:       # exact zeros only among the last parameters (a later layer / the doubles), generic elsewhere
        zero_mask = [(i >= npar - max(1, (2 * npar) // 5)) and rng.random() < 0.6 for i in range(npar)]
    thetas = [[0.0 if z else rng.uniform(-2, 2) for z in zero_mask], [0.0 if z else rng.uniform(-2, 2) for z in zero_mask],
              [rng.uniform(-2, 2) for _ in range(ans.n_var_params)]]
    for step, theta in enumerate(thetas):
        try:
            if step == 0:
                ans.build_circuit(theta)
            else:
                ans.update_var_params(theta)
        except Exception as e:
            ctx.notes.append(f"{kind}/{molname}: step {step} raised {type(e).__name__} (C07's business)")
            return True
        if not _conserved(ctx, ans, mol, kind, molname, {**case, "thetas": thetas[:step + 1]}):
            return False
    return True


def _conserved(ctx, ans, mol, kind, molname, case):
    theta = case["thetas"][-1]
    psi = ansatz_state(ans.circuit)
    w = ans.circuit.width
    ctx.case({k: v for k, v in case.items() if k != "thetas"}, nontrivial=True, sample=False)
    ctx.count(f"ansatz:{kind}")
    if kind == "pUCCD":
        # hard-core bosons: one qubit per orbital, number of pairs conserved
        Np = np.diag([fock.popcount(x) for x in range(2 ** w)]).astype(float)
        e, e2 = np.vdot(psi, Np @ psi).real, np.vdot(psi, Np @ Np @ psi).real
        if abs(e - mol.n_active_electrons / 2) > 1e-8 or abs(e2 - e * e) > 1e-8:
            ctx.violation(f"pUCCD state has <pairs> = {e}, variance {e2 - e * e}", case)
            return False
        return True
    Nd = np.array([fock.popcount(x) for x in range(2 ** w)], dtype=float)
    if kind in ("UCC1", "UCC3"):
        # the reduced UCC circuits are written for the up-then-down ordering (reference |1010>)
        Szd = np.array([0.5 * (fock.popcount(x & 0b0011) - fock.popcount(x & 0b1100)) for x in range(2 ** w)])
    else:
        Szd = np.array([0.5 * (fock.popcount(x & 0x55555555) - fock.popcount(x & 0xAAAAAAAA)) for x in range(2 ** w)])
    p = np.abs(psi) ** 2
    if kind in ("UCC1", "UCC3"):
        n_e, sz = 2, 0.0
    else:
        n_e, sz = mol.n_active_electrons, mol.active_spin / 2
    for name, d, t in (("N", Nd, n_e), ("Sz", Szd, sz)):
        e, e2 = float(p @ d), float(p @ (d * d))
        if abs(e - t) > 1e-7 or abs(e2 - e * e) > 1e-7:
            ctx.violation(f"{kind} on {molname} at random parameters: <{name}> = {e:.8f} (variance {e2 - e * e:.2e}), reference {t}", {**case, "theta": theta})
            return False
    return True


def run(ctx):
    rng = ctx.rng
    for n_orbs in range(1, ctx.n(3, 4) + 1):
        for utd in (False, True):
            if not operators_case(ctx, n_orbs, utd, rng):
                return
    kinds = ["UCCSD", "UpCCGSD1", "UpCCGSD2", "UCCGD", "UCC1", "UCC3", "pUCCD"]
    for molname in (["H2", "H4"] if ctx.quick else ["H2", "H4", "H4+", "H4t"]):
        for kind in kinds:
            for _ in range(ctx.n(3, 8)):
                try:
                    if not ansatz_case(ctx, rng, molname, kind):
                        return
                except Exception as e:
                    ctx.notes.append(f"{kind}/{molname}: {type(e).__name__}: {str(e)[:80]}")


def replay(ctx, obj):
    pass


def search(ctx, broken):
    pass
