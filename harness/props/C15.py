"""C15 — problem-decomposition energies satisfy their defining identities."""
import itertools, json, math, random, warnings
import numpy as np
from fractions import Fraction
import vlib

CLAIM = {
 "text": "Proof (Lean 4), partial. Modelled and proved: (1) ONIOM summation as a fold over fragments each contributing E_low (system) or E_high - E_low (model): the total is E_low(system) when every model has equal high and low energies, and E_high(whole) when the single model is the whole system at the same low level (any ordered list of fragments, any commutative ring); (2) link-atom placement P = A + f (B - A) over any field: P - A is f times the bond vector (P lies on the bond line) and |P - A|^2 = f^2 |B - A|^2; (2b) the distribution of the atoms over the ONIOM fragments (distribute_atoms), modelled WITH the code's shared list object and in-place extension: provided no whole-system fragment carries broken links, every fragment receives exactly its own selected atoms followed by its own capping atoms computed from the original system geometry - independent of the other fragments and of their order, an index outside the geometry being an error in the one exactly when it is in the other (distribute_independent, induction over the fragment list with the invariant that the system list is untouched); without the proviso the aliasing shows (distribute_alias_counterexample); the real loop is compared with the model on 200 / 3000 hand-assembled decompositions per run (no electronic structure), aliasing branch and index errors included; (3) the atom re-ordering of DMET for nested index lists (flatten + sizes): block i of the re-ordered list is exactly fragment i, in order, for every list of fragments; the seeded variant (sorting the fragments but not the sizes) is refuted by a concrete instance; (4) the method-of-increments recursion eps_S = c_S - sum over non-empty proper subsets: the sum of all increments of the subsets of S is c_S, for every finite set and every energy assignment, hence the full-order summation equals the energy of the complete fragment. NOT proved in Lean: anything numerical (SCF, localisation, bath construction, chemical-potential root search, solvers); decided by the oracle: ONIOM runs (HF / CCSD / FCI / MP2-free levels, random H-chain and LiH..H2 geometries, fragments by count or index list, links with random factors) against the solvers run directly; link positions against the formula incl. group alignment; DMET with fragment+bath = whole space against FCISolver, electron-number residual after convergence, atom relabelling and fragment-order invariance; mi_summation on random complete energy tables for 1-5 centres against the full-fragment energy.",
 "note": "Trusted: Lean kernel + standard axioms; PySCF; numpy/scipy. The MI theorem is stated on finite sets (Finset); the code's string-keyed recursion is tied to it by the oracle only.",
 "technique": "Lean 4 theorems (ONIOM telescoping, link placement, DMET re-ordering, inclusion-exclusion of increments) + re-ordering correspondence + numerical identity oracle (ONIOM, DMET, MI)"}

RULE = ("ONIOM: random H4-H6 chains / LiH+H2, model by count or index list (any order), solver pairs from HF/CCSD/FCI, with and without links (factor 0.5-1.2); link placement: random geometries, species H / F / CH3 / custom groups, factors 0.3-1.5; "
        "DMET: H2, H4 chains and rings [2,2], H6 [3,3] with FCI (exact embedding), H4/H6 other fragmentations with CCSD (electron count), permuted atom labels and fragment orders, localisations meta-Lowdin / IAO / NAO; "
        "MI: all 2^n - 1 energies random for n = 1..5, with and without user-provided energies; distinct by input")
TRUSTED = ["PySCF", "numpy / scipy"]
ASSUMPTIONS = ["tolerances: 1e-7 (ONIOM), 1e-9 (link positions, MI), 1e-5 (DMET energies: root search tolerance), 1e-4 (electron residual)"]


def chain(rng, n, ring=False):
    d = round(rng.uniform(0.8, 1.3), 3)
    if ring:
        r = d / (2 * math.sin(math.pi / n))
        return [("H", (round(r * math.cos(2 * math.pi * k / n), 5), round(r * math.sin(2 * math.pi * k / n), 5), 0.0)) for k in range(n)]
    return [("H", (0.0, 0.0, round(k * d + rng.uniform(-0.08, 0.08), 4))) for k in range(n)]


def direct_energy(geom, solver, charge=0, spin=0, frozen=None, basis="sto-3g"):
    from tangelo import SecondQuantizedMolecule
    from tangelo.algorithms.classical import FCISolver, CCSDSolver
    with warnings.catch_warnings():
        warnings.simplefilter("ignore")
        mol = SecondQuantizedMolecule(geom, q=charge, spin=spin, basis=basis, frozen_orbitals=frozen)
        if solver == "HF":
            return float(mol.mf_energy)
        return float({"FCI": FCISolver, "CCSD": CCSDSolver}[solver](mol).simulate())


def oniom_case(ctx, rng, force=None):
    """force = (kind, basis): a 4-atom hydrogen chain with ONE options dictionary shared by all slots"""
    from tangelo.problem_decomposition.oniom.oniom_problem_decomposition import ONIOMProblemDecomposition
    from tangelo.problem_decomposition.oniom._helpers.helper_classes import Fragment, Link
    kind = force[0] if force else rng.choice(["same_levels", "same_levels", "whole_model", "whole_model_list"])
    lih = force is not None and len(force) > 2        # force = (kind, basis, frozen, x_or_high): the LiH + H2 system with frozen orbitals
    if lih or (rng.random() < 0.3 and not force):
        geom = [("Li", (0.0, 0.0, 0.0)), ("H", (0.0, 0.0, round(rng.uniform(1.5, 1.7), 3))), ("H", (0.0, 3.0, 0.3)), ("H", (0.0, 3.0, round(rng.uniform(1.0, 1.1), 3)))]
        model_atoms = rng.choice([[0, 1], [1, 0], 2]) if lih else rng.choice([[0, 1], [1, 0], [2, 3], 2])
        frozen = force[2] if lih else (rng.choice([None, [0], [0, 5]]) if model_atoms in ([0, 1], [1, 0], 2) else None)
    else:
        n = 4 if force else rng.choice([4, 4, 6])
        geom = chain(rng, n)
        k = rng.choice([2, 4]) if n == 6 else 2
        start = rng.choice(range(0, n - k + 1, 2))
        model_atoms = list(range(start, start + k))
        if rng.random() < 0.5:
            rng.shuffle(model_atoms)
        elif start == 0 and rng.random() < 0.5:
            model_atoms = k
        frozen = None
    low = rng.choice(["HF", "CCSD"])
    high = force[3] if lih else rng.choice(["CCSD", "FCI"])
    if force:
        low = "HF"              # forced cases: the two levels differ in kind (equal levels cancel and hide what a slot was built with)
    # a non-default basis for the 4-atom hydrogen chains, and - in 40% of the cases - ONE options dictionary object handed
    # to every slot that takes the same options (the caller's dictionary belongs to the caller)
    basis = rng.choice(["sto-3g", "3-21g"]) if (geom[0][0] == "H" and len(geom) == 4) else "sto-3g"
    shared = rng.random() < 0.4
    if force:
        basis, shared = force[1], not lih
    case = {"kind": "oniom", "sub": kind, "geom": [[a, list(p)] for a, p in geom], "model": model_atoms, "low": low, "high": high, "frozen": frozen,
            "basis": basis, "shared_options": shared}
    ctx.case(case, nontrivial=True, sample=len(geom) == 4)
    ctx.count(f"oniom:{kind}")
    ctx.count(f"oniom:basis={basis}:shared={shared}")
    one_plain = {"basis": basis}
    one_lvl = {"basis": basis, "frozen_orbitals": frozen} if frozen else one_plain
    plain = (lambda: one_plain) if shared else (lambda: {"basis": basis})
    lvl = (lambda: one_lvl) if shared else (lambda: ({"basis": basis, "frozen_orbitals": frozen} if frozen else {"basis": basis}))
    keep_plain, keep_lvl = dict(one_plain), dict(one_lvl)
    with warnings.catch_warnings():
        warnings.simplefilter("ignore")
        if kind == "same_levels":
            x = force[3] if lih else rng.choice(["HF", "CCSD", "FCI"])
            links = None
            # a link is needed when a bond is cut in a chain: cap with H at a random fraction (cancels anyway)
            idx = list(range(model_atoms)) if isinstance(model_atoms, int) else list(model_atoms)
            if geom[0][0] == "H" and rng.random() < 0.6:
                outside = [i for i in range(len(geom)) if i not in idx]
                nb = [(i, o) for i in idx for o in outside if abs(i - o) == 1]
                links = [Link(i, o, round(rng.uniform(0.5, 1.2), 3), "H") for i, o in nb]
                if len(links) % 2 == 1:
                    links = None            # odd number of caps changes the electron parity of the model
            system = Fragment(solver_low=low, options_low=plain())
            model = Fragment(solver_low=x, options_low=lvl(), solver_high=x, options_high=lvl(), selected_atoms=model_atoms, broken_links=links)
            e = ONIOMProblemDecomposition({"geometry": geom, "fragments": [system, model]}).simulate()
            ref = direct_energy(geom, low, basis=basis)
            what = f"model at identical high and low level ({x}, frozen={frozen}, links={bool(links)}): E_ONIOM = {e!r}, E_low(whole system, {low}) = {ref!r}"
        else:
            sel = len(geom) if kind == "whole_model" else rng.sample(range(len(geom)), len(geom))
            system = Fragment(solver_low=low, options_low=plain())
            fr = frozen if geom[0][0] == "Li" else None
            opts_h = {"basis": basis, "frozen_orbitals": fr} if fr else plain()
            model = Fragment(solver_low=low, options_low=plain(), solver_high=high, options_high=opts_h, selected_atoms=sel)
            e = ONIOMProblemDecomposition({"geometry": geom, "fragments": [system, model]}).simulate()
            if isinstance(sel, list):
                ref = direct_energy([geom[i] for i in sel], high, frozen=fr, basis=basis)
            else:
                ref = direct_energy(geom, high, frozen=fr, basis=basis)
            what = f"model = whole system (selected_atoms={sel}): E_ONIOM = {e!r}, E_high(whole system, {high}, frozen={fr}) = {ref!r}"
    if abs(e - ref) > 1e-7:
        ctx.violation("ONIOM, " + what + f" (basis {basis}, one shared options dictionary: {shared})", case)
        return False
    if one_plain != keep_plain or one_lvl != keep_lvl:
        # not a violation of C15 by itself (the property speaks about energies): counted; the energies of the slots that
        # share the dictionary are what is judged above
        ctx.count("oniom:caller-options-modified")
    return True


def oniom_two_capped_case(ctx, rng):
    """two model fragments, each with its own broken bonds and link atoms: every fragment is capped on ITS bonds only;
    the total is the low-level energy of the system plus, per fragment, E_high - E_low of that fragment capped at
    the requested fractions (fragment molecules rebuilt here by hand)"""
    from tangelo.problem_decomposition.oniom.oniom_problem_decomposition import ONIOMProblemDecomposition
    from tangelo.problem_decomposition.oniom._helpers.helper_classes import Fragment, Link
    geom = chain(rng, 6)
    f1, f2 = round(rng.uniform(0.6, 1.1), 3), round(rng.uniform(0.6, 1.1), 3)
    high = rng.choice(["CCSD", "FCI"])
    case = {"kind": "oniom_two_capped", "geom": [[a, list(p)] for a, p in geom], "factors": [f1, f2], "high": high}
    ctx.case(case, nontrivial=True, sample=False)
    ctx.count("oniom:two-capped-fragments")

    def cap(i_in, i_out, f):
        A, B = np.array(geom[i_in][1]), np.array(geom[i_out][1])
        return ("H", tuple(float(x) for x in A + f * (B - A)))
    # fragment 1: atoms 0,1 (bond 1-2 cut; a second cap on 0 would be odd: cap twice on the same bond side is not needed,
    # so fragments of two atoms in the middle are used: atoms 1,2 with bonds 1-0 and 2-3 cut; atoms 3,4 with 3-2 and 4-5 cut)
    fr1, links1 = [1, 2], [Link(1, 0, f1, "H"), Link(2, 3, f1, "H")]
    fr2, links2 = [3, 4], [Link(3, 2, f2, "H"), Link(4, 5, f2, "H")]
    with warnings.catch_warnings():
        warnings.simplefilter("ignore")
        system = Fragment(solver_low="HF", options_low={"basis": "sto-3g"})
        m1 = Fragment(solver_low="HF", options_low={"basis": "sto-3g"}, solver_high=high, options_high={"basis": "sto-3g"}, selected_atoms=fr1, broken_links=links1)
        m2 = Fragment(solver_low="HF", options_low={"basis": "sto-3g"}, solver_high=high, options_high={"basis": "sto-3g"}, selected_atoms=fr2, broken_links=links2)
        e = ONIOMProblemDecomposition({"geometry": geom, "fragments": [system, m1, m2]}).simulate()
        g1 = [geom[1], geom[2], cap(1, 0, f1), cap(2, 3, f1)]
        g2 = [geom[3], geom[4], cap(3, 2, f2), cap(4, 5, f2)]
        ref = direct_energy(geom, "HF") + sum(direct_energy(g, high) - direct_energy(g, "HF") for g in (g1, g2))
    if abs(e - ref) > 1e-7:
        ctx.violation(f"ONIOM with two capped model fragments: E_ONIOM = {e!r}, E_low(system) + sum over fragments of (E_high - E_low) of the fragment "
                      f"capped on its own broken bonds at fractions {f1}, {f2} = {ref!r}", case)
        return False
    return True


def distribute_case(ctx, rng):
    """distribute_atoms against the model (distribute: the loop with its shared list object; distribute_independent: every
    fragment gets its own atoms and caps only).  No electronic structure is run: the object is assembled by hand."""
    from tangelo.problem_decomposition.oniom.oniom_problem_decomposition import ONIOMProblemDecomposition
    from tangelo.problem_decomposition.oniom._helpers.helper_classes import Fragment, Link
    n = rng.randint(3, 7)
    pts = set()
    while len(pts) < n:
        pts.add((1000 * rng.randint(-3, 3), 1000 * rng.randint(-3, 3), 1000 * rng.randint(-3, 3)))
    pts = list(pts)
    rng.shuffle(pts)
    specs = []
    for k in range(rng.randint(1, 4)):
        r = rng.random()
        if k == 0 and r < 0.8:
            sel = None
        elif r < 0.3:
            sel = rng.randint(1, n + 1)
        else:
            sel = rng.sample(range(n), rng.randint(1, n - 1))
            if rng.random() < 0.06:
                sel[rng.randrange(len(sel))] = n + rng.randint(0, 2)       # index outside the geometry
        links = []
        if sel is not None or rng.random() < 0.1:                           # a capped whole-system fragment: the aliasing branch of the model
            for _ in range(rng.choice([0, 0, 1, 2, 3])):
                a, b = rng.sample(range(n), 2)
                if rng.random() < 0.04:
                    b = n + 1
                links.append([a, b, rng.choice([5, 7, 10, 12])])
        specs.append({"sel": sel, "links": links})
    case = {"kind": "distribute", "geom": [list(p) for p in pts], "frags": specs}
    ctx.case(case, nontrivial=any(f["links"] for f in specs), sample=False)
    ctx.count("distribute")
    frags = [Fragment(solver_low="HF", solver_high=None if f["sel"] is None else "CCSD", selected_atoms=f["sel"], broken_links=[Link(a, b, k / 10, "H") for a, b, k in f["links"]] or None) for f in specs]
    obj = ONIOMProblemDecomposition.__new__(ONIOMProblemDecomposition)
    obj.geometry = [("H", (float(x), float(y), float(z))) for x, y, z in pts]
    obj.fragments = frags
    obj.verbose = False
    try:
        obj.distribute_atoms()
        got = [[[float(c) for c in at[1]] for at in f.geometry] for f in frags]
    except IndexError:
        got = "ERR:index"
    j = ctx.model.ask({"op": "oniom_distribute", "geom": case["geom"], "frags": specs})
    if not j:
        return True
    want = j.get("r") or j.get("frags")
    same = (got == want) if isinstance(got, str) or isinstance(want, str) else (
        len(got) == len(want) and all(len(g) == len(w) and all(max(abs(p - q) for p, q in zip(a, b)) < 1e-9 for a, b in zip(g, w)) for g, w in zip(got, want)))
    if not same:
        # which statement is broken?  the independent one (own atoms + own caps) is the property; the aliasing model only explains the code
        ind = j.get("independent")
        no_alias = all(f["sel"] is not None or not f["links"] for f in specs)
        if no_alias and not isinstance(got, str) and ind is not None:
            ctx.violation(f"ONIOM distribute_atoms: fragment geometries {got} differ from each fragment's own atoms plus its own capping atoms {ind}", case)
        else:
            ctx.mismatch("distribute_atoms differs from the model", case, want, got)
        return False
    if isinstance(got, str):
        ctx.count("distribute:index-error")
    if any(f["sel"] is None and f["links"] for f in specs):
        ctx.count("distribute:capped-whole-system (aliasing branch)")
    return True


def link_case(ctx, rng):
    from tangelo.problem_decomposition.oniom._helpers.helper_classes import Link
    n = rng.randint(2, 6)
    geom = [(rng.choice(["C", "H", "N", "O"]), tuple(round(rng.uniform(-3, 3), 4) for _ in range(3))) for _ in range(n)]
    a, b = rng.sample(range(n), 2)
    f = round(rng.uniform(0.3, 1.5), 4)
    r = rng.random()
    if r < 0.4:
        species = rng.choice(["H", "F", "Cl"])
    elif r < 0.7:
        species = rng.choice(["CH3", "CF3", "NH2"])
    else:
        k = rng.randint(1, 3)
        species = [("X", tuple(round(rng.uniform(-1, 1), 3) for _ in range(3)))] + [(rng.choice(["C", "H"]), tuple(round(rng.uniform(-2, 2), 3) for _ in range(3))) for _ in range(k)]
        if math.dist(species[0][1], species[1][1]) < 0.2:
            return True
    case = {"kind": "link", "geom": [[x, list(p)] for x, p in geom], "staying": a, "leaving": b, "factor": f, "species": species if isinstance(species, str) else [[s, list(p)] for s, p in species]}
    ctx.case(case, nontrivial=True, sample=isinstance(species, str) and n <= 3)
    ctx.count("link:" + ("atom" if isinstance(species, str) and len(species) <= 2 else "group"))
    try:
        link = Link(a, b, f, species)
    except ValueError:
        ctx.count("link:rejected")
        return True
    geom_before = [(x, tuple(p)) for x, p in geom]
    out = link.relink(geom)
    if [(x, tuple(p)) for x, p in geom] != geom_before:
        ctx.violation("Link.relink modified the geometry passed in", case)
        return False
    A, B = np.array(geom[a][1]), np.array(geom[b][1])
    want = A + f * (B - A)
    P = np.array(out[0][1])
    if np.abs(P - want).max() > 1e-9:
        ctx.violation(f"link atom placed at {P.tolist()}, the point at fraction {f} of the broken bond is {want.tolist()}", case)
        return False
    # model correspondence (exact rational arithmetic on the 4-decimal inputs)
    j = ctx.model.ask({"op": "link", "a": [vlib.frac_str(Fraction(str(x))) for x in geom[a][1]], "b": [vlib.frac_str(Fraction(str(x))) for x in geom[b][1]], "f": vlib.frac_str(Fraction(str(f)))})
    mp = [float(Fraction(x)) for x in j.get("p", ["0", "0", "0"])]
    if np.abs(np.array(mp) - P).max() > 1e-9:
        ctx.mismatch("link position differs from the model", case, mp, P.tolist())
        return False
    if len(out) > 1:
        # rigid group: internal distances preserved, axis (ghost -> first atom) along the bond
        spec = link.species
        ref_xyz = np.array([s[1] for s in spec if s[0].upper() != "X"], dtype=float)
        new_xyz = np.array([o[1] for o in out], dtype=float)
        for i, k in itertools.combinations(range(len(out)), 2):
            if abs(np.linalg.norm(ref_xyz[i] - ref_xyz[k]) - np.linalg.norm(new_xyz[i] - new_xyz[k])) > 1e-8:
                ctx.violation("capping group is deformed by relink (internal distance changed)", case)
                return False
    return True


class NotConverged(Exception):
    pass


def dmet_energy(geom, frags, solver, basis="sto-3g", loc="meta_lowdin", charge=0, spin=0, uhf=False):
    from tangelo import SecondQuantizedMolecule
    from tangelo.problem_decomposition import DMETProblemDecomposition
    from tangelo.problem_decomposition.dmet import Localization
    with warnings.catch_warnings():
        warnings.simplefilter("ignore")
        mol = SecondQuantizedMolecule(geom, q=charge, spin=spin, basis=basis, uhf=uhf)
        d = DMETProblemDecomposition({"molecule": mol, "fragment_atoms": frags, "fragment_solvers": solver, "electron_localization": getattr(Localization, loc)})
        d.build()
        try:
            e = d.simulate()
        except RuntimeError as ex:
            if "converge" in str(ex):
                raise NotConverged(str(ex))          # scipy's root search gave up: no result to judge
            raise
        resid = d._oneshot_loop(d.chemical_potential)
    return float(e), float(np.real(resid)), mol


def dmet_case(ctx, rng, kind, state=None):
    try:
        return _dmet_case(ctx, rng, kind, state)
    except NotConverged:
        ctx.count("dmet:root-search-not-converged")
        return True


def _dmet_case(ctx, rng, kind, state=None):
    from tangelo.algorithms.classical import FCISolver
    loc = rng.choice(["meta_lowdin", "iao", "nao"])
    if kind == "exact":
        r = rng.random()
        if r < 0.3:
            geom, frags, basis = chain(rng, 2), [1, 1], "sto-3g"
        elif r < 0.85:
            geom, frags, basis = chain(rng, 4, ring=rng.random() < 0.3), [2, 2], "sto-3g"
        else:
            geom, frags, basis = chain(rng, 6), [3, 3], "sto-3g"
        if loc == "iao":
            loc = "meta_lowdin"            # IAO is refused for a minimal basis, and only a minimal basis gives a complete bath
        case = {"kind": "dmet", "sub": kind, "geom": [[a, list(p)] for a, p in geom], "frags": frags, "basis": basis, "loc": loc}
        ctx.case(case, nontrivial=True, sample=len(geom) == 2)
        ctx.count(f"dmet:exact:{loc}")
        e, resid, mol = dmet_energy(geom, frags, "fci", basis, loc)
        with warnings.catch_warnings():
            warnings.simplefilter("ignore")
            ref = float(FCISolver(mol).simulate())
        if abs(e - ref) > 1e-5:
            ctx.violation(f"DMET with fragment+bath spanning the whole space ({len(geom)} H atoms, fragments {frags}, {basis}, {loc}) gives {e!r}, full CI gives {ref!r}", case)
            return False
        if abs(resid) > 1e-4:
            ctx.violation(f"DMET ends with fragment electron numbers off the total by {resid!r}", case)
            return False
        return True
    if kind == "count":
        n = 4 if ctx.quick else rng.choice([4, 6])
        basis = "6-31g" if loc == "iao" else "sto-3g"
        geom = chain(rng, n)
        frags = rng.choice([[1, 1, 1, 1], [1, 3], [3, 1], [2, 1, 1]]) if n == 4 else rng.choice([[2, 2, 2], [1, 2, 3], [4, 2]])
        case = {"kind": "dmet", "sub": kind, "geom": [[a, list(p)] for a, p in geom], "frags": frags, "loc": loc}
        ctx.case(case, nontrivial=True, sample=False)
        ctx.count("dmet:count")
        e, resid, mol = dmet_energy(geom, frags, "ccsd", basis, loc)
        if abs(resid) > 1e-4:
            ctx.violation(f"DMET ({n} H atoms, fragments {frags}, {loc}) ends with fragment electron numbers off the total by {resid!r}", case)
            return False
        return True
    # relabelling: the same physical fragments through permuted atom labels / permuted fragment order
    n = 4
    geom = chain(rng, n)
    parts = rng.choice([[[0, 1], [2, 3]], [[0], [1, 2, 3]], [[0, 1, 2], [3]], [[0], [1], [2, 3]]])
    counts = [len(p) for p in parts]
    solver = rng.choice(["fci", "ccsd"])
    basis = "6-31g" if loc == "iao" else "sto-3g"
    # electronic state: closed shell, or an open-shell (UHF) state whose charge and spin must survive the re-ordering
    charge, spin, uhf = state or rng.choice([(0, 0, False), (0, 0, False), (2, 2, True), (0, 2, True)])
    if uhf:
        solver = "ccsd"
        if loc == "iao":            # IAO localisation does not accept an unrestricted mean field
            loc, basis = "meta_lowdin", "sto-3g"
    try:
        e0, _, _ = dmet_energy(geom, counts, solver, basis, loc, charge, spin, uhf)
    except NotConverged:
        raise
    except Exception as ex:
        if not uhf:
            raise
        ctx.count("dmet:open-shell-count-based-raises:" + type(ex).__name__)     # this state is not supported at all: nothing to compare
        return True
    perm = list(range(n))
    rng.shuffle(perm)                      # new position k holds old atom perm[k]
    geom_p = [geom[perm[k]] for k in range(n)]
    newidx = {old: k for k, old in enumerate(perm)}
    frag_lists = [[newidx[a] for a in p] for p in parts]
    order = list(range(len(parts)))
    for _ in range(6):
        # prefer presentations whose fragment order is not the lexicographic one and whose sizes differ from block to block
        rng.shuffle(order)
        cand = [frag_lists[i] for i in order]
        if cand != sorted(cand) and [len(c) for c in cand] != [len(c) for c in sorted(cand)]:
            break
    frag_lists = [frag_lists[i] for i in order]
    case = {"kind": "dmet", "sub": "relabel", "geom": [[a, list(p)] for a, p in geom], "parts": parts, "perm": perm, "frag_lists": frag_lists, "solver": solver, "loc": loc,
            "charge": charge, "spin": spin, "uhf": uhf}
    ctx.case(case, nontrivial=perm != sorted(perm) or order != sorted(order), sample=False)
    ctx.count("dmet:relabel")
    ctx.count(f"dmet:relabel:q{charge}s{spin}")
    try:
        e1, _, _ = dmet_energy(geom_p, frag_lists, solver, basis, loc, charge, spin, uhf)
    except NotConverged:
        raise
    except Exception as ex:
        ctx.violation(f"DMET with index lists {frag_lists} raises {type(ex).__name__} although the same fragments given as counts {counts} give {e0!r} (charge {charge}, spin {spin})", case)
        return False
    if abs(e0 - e1) > 2e-5:
        ctx.violation(f"DMET energy changes from {e0!r} to {e1!r} when the atoms are relabelled (permutation {perm}) and the same fragments are given as index lists {frag_lists} (count-based fragments {counts}; charge {charge}, spin {spin})", case)
        return False
    # model correspondence for the re-ordering
    j = ctx.model.ask({"op": "dmet_reorder", "frags": frag_lists})
    flat = [a for f in frag_lists for a in f]
    if j.get("flat") != flat or j.get("sizes") != [len(f) for f in frag_lists]:
        ctx.mismatch("DMET re-ordering differs from the model", case, j, {"flat": flat})
        return False
    return True


def mi_case(ctx, rng):
    from tangelo.problem_decomposition.incremental.incremental_helper import MethodOfIncrementsHelper
    n = rng.randint(1, 5)
    e_mf = round(rng.uniform(-80, -1), 6)
    energies = {}
    sub = {}
    for k in range(1, n + 1):
        sub[str(k)] = {}
        for S in itertools.combinations(range(n), k):
            E = round(e_mf - rng.uniform(0.0, 0.3) * k, 8)
            corr = round(rng.uniform(-0.01, 0), 8) if rng.random() < 0.3 else 0.0
            energies[S] = E
            sub[str(k)][str(S)] = {"energy_total": E, "energy_correlation": E - e_mf, "problem_handle": 1234, "correction": corr, "epsilon": 0.0}
    full = {"energy_total": energies[tuple(range(n))], "energy_correlation": energies[tuple(range(n))] - e_mf, "subproblem_data": sub}
    case = {"kind": "mi", "n": n, "e_mf": e_mf, "energies": {str(k): v for k, v in energies.items()}}
    ctx.case(case, nontrivial=n >= 2, sample=n == 2)
    ctx.count(f"mi:n={n}")
    h = MethodOfIncrementsHelper(full_result=json.loads(json.dumps(full)))
    tot = h.mi_summation()
    want = energies[tuple(range(n))]
    if abs(tot - want) > 1e-9:
        ctx.violation(f"mi_summation carried to full order ({n} centres) gives {tot!r}, the energy of the complete fragment is {want!r}", case)
        return False
    # user-provided energies replace the stored ones (plus the stored correction)
    S = tuple(sorted(rng.sample(range(n), rng.randint(1, n))))
    newE = round(e_mf - rng.uniform(0, 0.5), 8)
    tot2 = h.mi_summation({str(S): newE})
    corr = sub[str(len(S))][str(S)]["correction"]
    e2 = dict(energies)
    e2[S] = newE + corr
    # reference by explicit inclusion-exclusion
    eps = {}
    for k in range(1, n + 1):
        for T in itertools.combinations(range(n), k):
            eps[T] = e2[T] - e_mf - sum(eps[U] for j in range(1, k) for U in itertools.combinations(T, j))
    want2 = e_mf + sum(eps.values())
    if abs(tot2 - want2) > 1e-9 or (S == tuple(range(n)) and abs(tot2 - (newE + corr)) > 1e-9):
        ctx.violation(f"mi_summation with a user-provided energy for {S} gives {tot2!r}, inclusion-exclusion gives {want2!r}", case)
        return False
    return True


def run(ctx):
    rng = ctx.rng
    ok = True
    for _ in range(ctx.n(5, 40)):
        ok &= oniom_case(ctx, rng)
    for kind in ("same_levels", "whole_model", "whole_model_list")[:ctx.n(2, 3)]:
        ok &= oniom_case(ctx, rng, force=(kind, "3-21g"))
    # frozen orbitals at one level only / at both levels with a correlated solver, every run (LiH + H2)
    for f in (("same_levels", "sto-3g", [0], "CCSD"), ("whole_model", "sto-3g", [0], "CCSD"), ("whole_model_list", "sto-3g", [0, 5], "CCSD")):
        ok &= oniom_case(ctx, rng, force=f)
    for _ in range(ctx.n(2, 10)):
        ok &= oniom_two_capped_case(ctx, rng)
    for _ in range(ctx.n(150, 1500)):
        ok &= link_case(ctx, rng)
    for _ in range(ctx.n(200, 3000)):
        ok &= distribute_case(ctx, rng)
    for _ in range(ctx.n(6, 40)):
        ok &= dmet_case(ctx, rng, "exact")
    for _ in range(ctx.n(3, 20)):
        ok &= dmet_case(ctx, rng, "count")
    for _ in range(ctx.n(8, 50)):
        ok &= dmet_case(ctx, rng, "relabel")
    for st in ((0, 2, True), (2, 2, True), (0, 2, True)):       # open-shell states, every run
        ok &= dmet_case(ctx, rng, "relabel", state=st)
    for _ in range(ctx.n(100, 1000)):
        ok &= mi_case(ctx, rng)
    return ok


def replay(ctx, obj):
    print("replay of a stored C15 case re-runs the generators of that kind")
    rng = random.Random(8)
    k = obj.get("kind")
    if k == "oniom":
        return all(oniom_case(ctx, rng) for _ in range(10))
    if k == "link":
        return all(link_case(ctx, rng) for _ in range(500))
    if k == "distribute":
        return all(distribute_case(ctx, rng) for _ in range(500))
    if k == "dmet":
        return all(dmet_case(ctx, rng, obj.get("sub", "relabel")) for _ in range(6))
    return all(mi_case(ctx, rng) for _ in range(300))


def search(ctx, broken):
    rng = random.Random(15)
    ok = True
    for _ in range(10):
        ok &= oniom_case(ctx, rng)
    for _ in range(500):
        ok &= link_case(ctx, rng)
        ok &= mi_case(ctx, rng)
    for _ in range(8):
        ok &= dmet_case(ctx, rng, "relabel")
    for _ in range(4):
        ok &= dmet_case(ctx, rng, "exact")
    return ok
