"""Circuit-history operations executed on real Tangelo circuits and on the model driver."""
import copy, math
import vlib
from vlib import gspec, rand_gate, rand_ang, to_tangelo_gate, dump_tangelo_gate, dump_model_gate, gates_equal, err_name


def py_dump_circuit(c):
    return {"gates": [dump_tangelo_gate(g) for g in c._gates], "width": c.width, "size": c.size,
            "counts": dict(c.counts), "nq": {str(k): v for k, v in c.counts_n_qubit.items()},
            "isvar": bool(c.is_variational), "mixed": bool(c.is_mixed_state),
            "vargates": [dump_tangelo_gate(g) for g in c._variational_gates],
            "fixed": c._qubits_simulated}


def model_dump_circuit(j):
    return {"gates": [dump_model_gate(g) for g in j["gates"]], "width": j["width"], "size": j["size"],
            "counts": j["counts"], "nq": j["nq"], "isvar": j["isvar"], "mixed": j["mixed"],
            "vargates": [dump_model_gate(g) for g in j["vargates"]], "fixed": j["fixed"]}


def dumps_equal(a, b):
    for k in ("width", "size", "counts", "nq", "isvar", "mixed"):
        if a[k] != b[k]:
            return f"{k}: {a[k]!r} != {b[k]!r}"
    if not gates_equal(a["gates"], b["gates"]):
        return "gate lists differ"
    if not gates_equal(a["vargates"], b["vargates"]):
        return "variational gate lists differ"
    return None


def recompute_meta(c):
    """independent statement of C11: metadata recomputed from list(circuit)"""
    from collections import Counter
    gs = list(c)
    used = [q for g in gs for q in (g.target + (g.control or []))]
    meta = {"size": len(gs), "counts": dict(Counter(g.name for g in gs)),
            "nq": dict(Counter(len(g.target) + (len(g.control) if g.control is not None else 0) for g in gs)),
            "isvar": any(g.is_variational for g in gs),
            "mixed": any(g.name in ("MEASURE", "CMEASURE") for g in gs),
            "min_width": (max(used) + 1) if used else 0}
    # depth: ASAP layering = longest chain of gates pairwise sharing a qubit
    layer = {}
    d = 0
    for g in gs:
        qs = g.target + (g.control or [])
        l = 1 + max([layer.get(q, 0) for q in qs], default=0)
        for q in qs:
            layer[q] = l
        d = max(d, l)
    meta["depth"] = d
    return meta


def check_meta(c):
    """returns None or a description of the inconsistency between reported and recomputed metadata"""
    m = recompute_meta(c)
    if c.size != m["size"]:
        return f"size {c.size} != {m['size']}"
    if dict(c.counts) != m["counts"]:
        return f"counts {dict(c.counts)} != {m['counts']}"
    if dict(c.counts_n_qubit) != m["nq"]:
        return f"counts_n_qubit {dict(c.counts_n_qubit)} != {m['nq']}"
    if bool(c.is_variational) != m["isvar"]:
        return f"is_variational {c.is_variational} != {m['isvar']}"
    if bool(c.is_mixed_state) != m["mixed"]:
        return f"is_mixed_state {c.is_mixed_state} != {m['mixed']}"
    if c.width < m["min_width"]:
        return f"width {c.width} < highest used qubit + 1 = {m['min_width']}"
    if not c._qubits_simulated and not getattr(c, "_verif_reindexed", False) and c.width != m["min_width"]:
        return f"width {c.width} != {m['min_width']} (no fixed size)"
    try:
        d = c.depth()
    except Exception as e:
        return f"depth() raised {e!r}"
    if d != m["depth"]:
        return f"depth {d} != {m['depth']}"
    vg = [dump_tangelo_gate(g) for g in c._variational_gates]
    vg2 = [dump_tangelo_gate(g) for g in c if g.is_variational]
    if vg != vg2:
        return "variational gate list differs from the variational gates of the gate list"
    return None


READ_ONLY = ["t_cirq", "t_sympy", "t_ionq", "t_projectq", "sim_cirq", "sim_sympy", "depth", "ro_inverse", "ro_copy", "ro_add", "ro_mul",
             "fn_rsr", "fn_rrg", "fn_merge", "fn_simplify", "ro_split", "ro_stack", "ro_eq", "ro_entangled"]


def mutated_ids(op):
    """ids of stored circuits an operation is allowed to change (everything else must stay as it was)"""
    k = op["op"]
    if k in ("add_gate", "trim", "reindex"):
        return {op["dst"]}
    if k in ("rsr", "rrg", "merge", "simplify"):
        return {op["a"]}
    if k in ("new", "add", "mul", "copy", "inverse", "stack", "fn_rsr", "fn_rrg", "fn_merge", "fn_simplify"):
        return {op["dst"]}
    return set()        # split writes fresh ids only; read-only ops change nothing


def py_apply(store, op):
    """apply op to the real circuits; returns result value (comparable) or 'ERR:*' """
    from tangelo.linq import Circuit, Gate, translate_circuit, get_backend, stack
    from tangelo.linq.circuit import remove_small_rotations, remove_redundant_gates, merge_rotations, simplify
    k = op["op"]
    try:
        if k == "new":
            store[op["dst"]] = Circuit([to_tangelo_gate(g) for g in op["gates"]], n_qubits=op["n"])
        elif k == "add_gate":
            raw = op["gate"]
            p = raw["p"]
            param = "" if p is None else (p if isinstance(p, str) else vlib.ang_float(p))
            name = raw["n"]
            g = Gate(name, raw["t"], raw["c"], param, raw["v"])
            store[op["dst"]].add_gate(g)
        elif k in ("add", "ro_add"):
            store[op["dst"]] = store[op["a"]] + store[op["b"]]
        elif k in ("mul", "ro_mul"):
            store[op["dst"]] = store[op["a"]] * op["n"]
        elif k in ("copy", "ro_copy"):
            store[op["dst"]] = store[op["a"]].copy()
        elif k in ("inverse", "ro_inverse"):
            store[op["dst"]] = store[op["a"]].inverse()
        elif k == "trim":
            store[op["dst"]].trim_qubits()
        elif k == "reindex":
            store[op["dst"]].reindex_qubits(op["idx"])
            store[op["dst"]]._verif_reindexed = True
        elif k in ("split", "ro_split"):
            cs = store[op["a"]].split(trim_qubits=op["trim"])
            for i, c in enumerate(cs):
                store[f"{op['dst']}{i}"] = c
            return len(cs)
        elif k in ("stack", "ro_stack"):
            store[op["dst"]] = stack(*[store[i] for i in op["ids"]])
        elif k == "rsr":       # in-place method
            store[op["a"]].remove_small_rotations(param_threshold=op["thr"], remove_qubits=op["rq"])
        elif k == "fn_rsr":
            store[op["dst"]] = remove_small_rotations(store[op["a"]], param_threshold=op["thr"], remove_qubits=op["rq"])
        elif k == "rrg":
            store[op["a"]].remove_redundant_gates(remove_qubits=op["rq"])
        elif k == "fn_rrg":
            store[op["dst"]] = remove_redundant_gates(store[op["a"]], remove_qubits=op["rq"])
        elif k == "merge":
            store[op["a"]].merge_rotations()
        elif k == "fn_merge":
            store[op["dst"]] = merge_rotations(store[op["a"]])
        elif k == "simplify":
            store[op["a"]].simplify(max_cycles=op["cycles"], param_threshold=op["thr"], remove_qubits=op["rq"])
        elif k == "fn_simplify":
            store[op["dst"]] = simplify(store[op["a"]], max_cycles=op["cycles"], param_threshold=op["thr"], remove_qubits=op["rq"])
        elif k == "depth":
            return store[op["a"]].depth()
        elif k == "ro_eq":
            return bool(store[op["a"]] == store[op["b"]])
        elif k == "ro_entangled":
            return [sorted(s) for s in store[op["a"]].get_entangled_indices()]
        elif k in ("t_cirq", "t_sympy", "t_ionq", "t_projectq"):
            try:
                translate_circuit(store[op["a"]], k[2:])
            except (ValueError, KeyError, TypeError, NotImplementedError, AttributeError):
                pass       # unsupported gate for the format: refusing is fine, the source must stay intact
        elif k in ("sim_cirq", "sim_sympy"):
            c = store[op["a"]]
            if c.width and c.width <= 5 and c.size <= 12 and not c.is_mixed_state:
                try:
                    get_backend(k[4:]).simulate(c)
                except (ValueError, KeyError, TypeError, NotImplementedError, AttributeError, IndexError):
                    pass
        else:
            raise RuntimeError("unknown op " + k)
        return None
    except Exception as e:
        if isinstance(e, RuntimeError):
            raise
        return err_name(e)


# how each harness op is sent to the model (op name translation; read-only translations/simulations are no-ops there)
def model_req(op):
    k = op["op"]
    r = dict(op)
    if k in ("t_cirq", "t_sympy", "t_ionq", "t_projectq", "sim_cirq", "sim_sympy"):
        return {"op": "noop"}
    ren = {"ro_add": "add", "ro_mul": "mul", "ro_copy": "copy", "ro_inverse": "inverse", "ro_split": "split", "ro_stack": "stack",
           "ro_eq": "eq", "ro_entangled": "entangled",
           "fn_rsr": "rsr", "fn_rrg": "rrg", "fn_merge": "merge", "fn_simplify": "simplify"}
    if k in ren:
        r["op"] = ren[k]
    if k in ("rsr", "rrg", "merge", "simplify"):
        r["dst"] = op["a"]          # in-place method = function result stored back
    return r


MALFORMED = [
    lambda rng, w: {"n": "H", "t": [-1], "c": None, "p": None, "v": False},
    lambda rng, w: {"n": "X", "t": [0.5], "c": None, "p": None, "v": False},
    lambda rng, w: {"n": "X", "t": [True], "c": None, "p": None, "v": False},
    lambda rng, w: {"n": "CNOT", "t": [0], "c": [0], "p": None, "v": False},
    lambda rng, w: {"n": "SWAP", "t": [1, 1], "c": None, "p": None, "v": False},
    lambda rng, w: {"n": "SWAP", "t": [0], "c": None, "p": None, "v": False},
    lambda rng, w: {"n": "H", "t": [0, 1], "c": None, "p": None, "v": False},
    lambda rng, w: {"n": "CRZ", "t": [0, 1], "c": [2], "p": list(vlib.ZERO_ANG), "v": False},
    lambda rng, w: {"n": "RX", "t": [0], "c": [1], "p": list(vlib.ZERO_ANG), "v": False},
    lambda rng, w: {"n": "X", "t": [0], "c": [1], "p": None, "v": False},
    lambda rng, w: {"n": 7, "t": [0], "c": None, "p": None, "v": False},
    lambda rng, w: {"n": "CNOT", "t": [1], "c": [-2], "p": None, "v": False},
    lambda rng, w: {"n": "CNOT", "t": [1], "c": ["0"], "p": None, "v": False},
    lambda rng, w: {"n": "CSWAP", "t": [0, 1], "c": [1], "p": None, "v": False},
    lambda rng, w: {"n": "cnot", "t": [1], "c": [0], "p": None, "v": False},      # lower case is accepted (upper-cased)
    lambda rng, w: {"n": "CZ", "t": [w + 2], "c": [0], "p": None, "v": False},    # beyond a fixed width
    lambda rng, w: {"n": "H", "t": [w + 1], "c": None, "p": None, "v": True},
]


def respell(rng, gate):
    """gate names are case-insensitive: lower-case and mixed-case spellings in a third of the gates (the validation rules
    apply to the name whatever its spelling)"""
    if isinstance(gate.get("n"), str) and rng.random() < 0.33:
        nm = gate["n"]
        gate = dict(gate)
        gate["n"] = nm.lower() if rng.random() < 0.5 else "".join(ch.lower() if rng.random() < 0.5 else ch.upper() for ch in nm)
    return gate


def rand_history(rng, n_ops, names, max_width=5, allow_measure=True):
    """a random operation history over a small store; returns list of ops"""
    ops = []
    ids = []
    widths = {}

    def fresh():
        i = f"c{len(ids)}"
        ids.append(i)
        return i

    def new_circ():
        w = rng.randint(1, max_width)
        fixed = rng.choice([None, None, w, w + rng.randint(0, 2), 0])
        gs = vlib.rand_gate_list(rng, w, rng.randint(0, 8), names)
        if allow_measure and rng.random() < 0.1 and gs:
            gs.insert(rng.randint(0, len(gs)), gspec("MEASURE", [rng.randint(0, w - 1)]))
        i = fresh()
        widths[i] = max(w, fixed or 0)
        ops.append({"op": "new", "dst": i, "gates": gs, "n": fixed})

    new_circ()
    if rng.random() < 0.7:
        new_circ()
    kinds = ["add_gate"] * 5 + ["add_bad"] * 2 + ["add", "mul", "copy", "inverse", "trim", "reindex", "split", "stack", "rsr", "rrg", "merge",
             "simplify", "fn_rsr", "fn_rrg", "fn_merge", "fn_simplify", "depth", "t_cirq", "t_sympy", "t_ionq", "t_projectq", "sim_cirq",
             "sim_sympy", "new", "ro_eq"]
    for _ in range(n_ops):
        k = rng.choice(kinds)
        a = rng.choice(ids)
        w = max(1, widths.get(a, 3))
        thr = rng.choice([1e-3, 1e-3, 0.01, 1.0])
        if k == "new":
            new_circ()
        elif k == "add_gate":
            ops.append({"op": "add_gate", "dst": a, "gate": respell(rng, rand_gate(rng, min(w + rng.choice([0, 0, 1]), 7), names))})
        elif k == "add_bad":
            ops.append({"op": "add_gate", "dst": a, "gate": respell(rng, rng.choice(MALFORMED)(rng, w))})
        elif k == "add":
            d = fresh(); b = rng.choice(ids[:-1]); widths[d] = max(widths.get(a, 3), widths.get(b, 3))
            ops.append({"op": "add", "dst": d, "a": a, "b": b})
        elif k == "mul":
            d = fresh(); widths[d] = w
            ops.append({"op": "mul", "dst": d, "a": a, "n": rng.choice([1, 2, 3, 0, -1])})
        elif k in ("copy", "inverse"):
            d = fresh(); widths[d] = w
            ops.append({"op": k, "dst": d, "a": a})
        elif k == "trim":
            ops.append({"op": "trim", "dst": a})
        elif k == "reindex":
            # a permutation / injection of the right length is only known at run time: the executor fills "idx"
            ops.append({"op": "reindex", "dst": a, "idx": None, "perm_seed": rng.randint(0, 10 ** 6), "wrong_len": rng.random() < 0.1})
        elif k == "split":
            d = fresh()
            ops.append({"op": "split", "dst": d + "_", "a": a, "trim": rng.random() < 0.7})
        elif k == "stack":
            d = fresh(); b = rng.choice(ids[:-1]); widths[d] = widths.get(a, 3) + widths.get(b, 3)
            ops.append({"op": "stack", "dst": d, "ids": [a, b] if rng.random() < 0.8 else [a, b, a]})
        elif k in ("rsr", "rrg", "merge", "simplify"):
            ops.append({"op": k, "a": a, "thr": thr, "rq": rng.random() < 0.3, "cycles": rng.choice([100, 1, 2])})
        elif k in ("fn_rsr", "fn_rrg", "fn_merge", "fn_simplify"):
            d = fresh(); widths[d] = w
            ops.append({"op": k, "dst": d, "a": a, "thr": thr, "rq": rng.random() < 0.3, "cycles": rng.choice([100, 1, 2])})
        elif k == "ro_eq":
            ops.append({"op": "ro_eq", "a": a, "b": rng.choice(ids)})
        else:
            ops.append({"op": k, "a": a})
    return ops
