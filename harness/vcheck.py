#!/venv/bin/python
"""./check <Cxx> [--tier quick|thorough] [--replay file]

Per property: regenerate tables from /repo -> lake build (proof obligations + model driver)
-> axiom audit -> correspondence session (model vs real Tangelo) -> oracle search when
something broke -> evidence + verdict.  Exit 0 held / 1 violation / 2 infrastructure."""
import os, sys, re, json, time, random, subprocess, importlib, traceback, hashlib, argparse

HERE = os.path.dirname(os.path.abspath(__file__))
ROOT = os.path.dirname(HERE)
sys.path.insert(0, HERE)
REPO = os.environ.get("VERIF_REPO", "/repo")
sys.path.insert(0, REPO)
os.environ.setdefault("PYTHONPATH", REPO)
os.environ.setdefault("OMP_NUM_THREADS", "2")
import vlib

LEAN_DIR = os.path.join(ROOT, "lean")
ALLOWED_AXIOMS = {"propext", "Classical.choice", "Quot.sound"}
FORBIDDEN = re.compile(r"\b(sorry|admit|native_decide|bv_decide|implemented_by)\b|^\s*axiom\s|unsafe\s|maxHeartbeats\s+0")


def sh(cmd, cwd=None, timeout=3600):
    t = time.time()
    p = subprocess.run(cmd, cwd=cwd, shell=isinstance(cmd, str), stdout=subprocess.PIPE, stderr=subprocess.STDOUT, text=True, timeout=timeout)
    return p.returncode, p.stdout, time.time() - t


class Ctx:
    def __init__(self, prop, tier, seed):
        self.prop, self.tier, self.seed = prop, tier, seed
        self.rng = random.Random(seed * 1000003 + int(prop[1:]))
        self.model = None
        self.evaluations = 0
        self.distinct = set()
        self.samples = []
        self.hist = {}
        self.mismatches = []      # correspondence differences (model vs code)
        self.violations = []      # property fails on the real code (oracle-confirmed)
        self.discarded = 0        # near-threshold cases where float and exact may legitimately differ
        self.notes = []
        self.quick = tier == "quick"

    def n(self, quick, thorough):
        return quick if self.quick else thorough

    def count(self, key, k=1):
        self.hist[key] = self.hist.get(key, 0) + k

    last_case = None

    def case(self, obj, nontrivial=True, sample=True):
        self.last_case = obj
        """register one explored case (JSON-serialisable); returns nothing"""
        self.evaluations += 1
        if nontrivial:
            h = hashlib.sha1(json.dumps(obj, sort_keys=True, default=str).encode()).hexdigest()
            self.distinct.add(h)
        if sample and len(self.samples) < 4:
            self.samples.append(obj)

    def mismatch(self, what, case, model_out=None, code_out=None):
        if getattr(self, "in_search", False):
            return
        self.mismatches.append({"what": what, "case": case, "model": model_out, "code": code_out})

    def violation(self, what, case, known_id=None):
        self.violations.append({"what": what, "case": case, "known_id": known_id})


def theorem_names(path):
    names = []
    txt = open(path).read()
    # strip comments
    txt_nc = re.sub(r"/-.*?-/", "", txt, flags=re.S)
    txt_nc = re.sub(r"--.*", "", txt_nc)
    ns = []
    for line in txt_nc.splitlines():
        m = re.match(r"\s*namespace\s+(\S+)", line)
        if m:
            ns.append(m.group(1))
        m = re.match(r"\s*end\s+(\S+)", line)
        if m and ns and ns[-1] == m.group(1):
            ns.pop()
        m = re.match(r"\s*(?:@\[[^\]]*\]\s*)?(?:private\s+|protected\s+)?theorem\s+(\S+)", line)
        if m:
            names.append(".".join(ns + [m.group(1)]))
    return names, txt_nc


def grep_forbidden(paths):
    hits = []
    for p in paths:
        txt = open(p).read()
        txt = re.sub(r"/-.*?-/", "", txt, flags=re.S)
        for i, line in enumerate(txt.splitlines()):
            line = re.sub(r"--.*", "", line)
            if FORBIDDEN.search(line):
                hits.append(f"{os.path.relpath(p, ROOT)}: {line.strip()[:120]}")
    return hits


def lean_sources():
    out = []
    for d in ("TangeloModel", "TangeloProofs"):
        for r, _, fs in os.walk(os.path.join(LEAN_DIR, d)):
            out += [os.path.join(r, f) for f in fs if f.endswith(".lean")]
    return out


def load_known():
    p = os.path.join(ROOT, "known_findings.json")
    if not os.path.exists(p):
        return {"findings": [], "fixed": []}
    return json.load(open(p))


def main():
    ap = argparse.ArgumentParser()
    ap.add_argument("prop")
    ap.add_argument("--tier", default=os.environ.get("VERIF_TIER", "quick"))
    ap.add_argument("--replay", default=None)
    a = ap.parse_args()
    prop, tier = a.prop, a.tier
    if tier not in ("quick", "thorough"):
        tier = "quick"
    seed = int(os.environ.get("VERIF_SEED", "0") or 0)
    t0 = time.time()
    ctx = Ctx(prop, tier, seed)
    try:
        P = importlib.import_module("props." + prop)
    except Exception:
        traceback.print_exc()
        print(f"INFRA: no harness module for {prop}")
        return 2

    broken = []          # (kind, detail) : proof obligations or correspondence that no longer check
    # ---- 1. regenerate tables from /repo
    rc, out, _ = sh(["/venv/bin/python", os.path.join(HERE, "extract_tables.py")])
    if rc != 0:
        # a table no longer has the shape the model was written for: the model cannot be tied to the source
        broken.append(("tables", out.strip()[-400:]))
    # ---- 2. build proof obligations and the model driver
    prop_mod = f"TangeloProofs.Props.{prop}"
    rc_exe, out_exe, t_exe = sh(["lake", "build", "tmodel"], cwd=LEAN_DIR)
    if rc_exe != 0:
        print(out_exe[-3000:])
        print("INFRA: model driver does not build")
        # a driver that does not build after a table change is a broken tie, not an infrastructure glitch,
        # when the tables changed; otherwise infrastructure
        if not broken:
            return 2
    targets = [prop_mod]
    if tier == "thorough":
        # rebuild the property's proof file from scratch
        for ext in ("olean", "ilean", "trace", "hash"):
            f = os.path.join(LEAN_DIR, ".lake", "build", "lib", "lean", "TangeloProofs", "Props", f"{prop}.{ext}")
            if os.path.exists(f):
                os.remove(f)
    rc_pf, out_pf, t_pf = sh(["lake", "build"] + targets, cwd=LEAN_DIR)
    props_file = os.path.join(LEAN_DIR, "TangeloProofs", "Props", f"{prop}.lean")
    names, _ = theorem_names(props_file)
    obligations = len(names)
    discharged = obligations if rc_pf == 0 else 0
    failing_thms = []
    if rc_pf != 0:
        errs = re.findall(r"error: (\S+?\.lean):(\d+):\d+:", out_pf)
        for f, ln in errs[:5]:
            failing_thms.append(f"{f}:{ln}")
        broken.append(("proof", "; ".join(failing_thms) or out_pf.strip()[-300:]))
    # ---- 3. audit: no sorry/axiom/native_decide in sources; axioms of every property theorem
    hits = grep_forbidden(lean_sources())
    axioms_seen = set()
    if hits:
        broken.append(("audit", "; ".join(hits[:5])))
    if rc_pf == 0 and names:
        audit_path = os.path.join(LEAN_DIR, f".audit_{prop}.lean")
        with open(audit_path, "w") as f:
            f.write(f"import {prop_mod}\n" + "\n".join(f"#print axioms {n}" for n in names) + "\n")
        rc_a, out_a, _ = sh(["lake", "env", "lean", audit_path], cwd=LEAN_DIR)
        os.remove(audit_path)
        for m in re.finditer(r"depends on axioms: \[(.*?)\]", out_a, flags=re.S):
            axioms_seen |= {x.strip() for x in m.group(1).split(",")}
        bad = axioms_seen - ALLOWED_AXIOMS
        if rc_a != 0 or bad or "sorryAx" in out_a:
            broken.append(("audit", f"axioms {sorted(bad)} rc={rc_a} {out_a.strip()[-200:]}"))
            discharged = 0
    leanchecker = None
    if tier == "thorough" and rc_pf == 0:
        rc_l, out_l, t_l = sh(["lake", "env", "leanchecker", prop_mod], cwd=LEAN_DIR, timeout=3000)
        leanchecker = {"rc": rc_l, "wall_s": round(t_l, 1)}
        if rc_l != 0:
            broken.append(("leanchecker", out_l.strip()[-300:]))
    # ---- 4. correspondence + oracle
    known = load_known()
    known_ids = {k["id"] for k in known.get("findings", []) if k.get("property") == prop}
    try:
        if rc_exe == 0:
            ctx.model = vlib.Model()
        if a.replay:
            P.replay(ctx, json.load(open(a.replay)))
        else:
            P.run(ctx)
    except Exception as exc:
        tb = traceback.extract_tb(exc.__traceback__)
        lib_frames = [f for f in tb if os.path.realpath(f.filename).startswith(os.path.realpath(REPO) + os.sep)]
        if not lib_frames:
            traceback.print_exc()
            print("INFRA: harness crashed")
            return 2
        # the library itself raised on a generated input and no oracle of the property module expected that: the
        # property quantifies over that input, so this is something that no longer checks. The failing-input search
        # runs next; if it finds nothing the verdict names this exception and the last generated case.
        where = lib_frames[-1]
        broken.append(("library-exception", f"{type(exc).__name__}: {str(exc)[:160]} raised at {os.path.relpath(where.filename, REPO)}:{where.lineno} "
                       f"({where.name}) on the generated input {json.dumps(ctx.last_case, default=str)[:600]}"))
        ctx.notes.append("library exception:\n" + "".join(traceback.format_exception(type(exc), exc, exc.__traceback__))[-1500:])
    finally:
        if ctx.model:
            ctx.model.close()
    for mm in ctx.mismatches[:50]:
        broken.append(("correspondence", mm["what"]))
    # ---- 5. when something broke and no failing input is known yet: search
    real_viol = [v for v in ctx.violations if not (v["known_id"] and v["known_id"] in known_ids)]
    known_hit = [v for v in ctx.violations if v["known_id"] and v["known_id"] in known_ids]
    if broken and not real_viol and hasattr(P, "search") and not a.replay:
        try:
            # the search is oracle-only: the model is not consulted and model/code differences are not re-reported
            ctx.model = vlib.NullModel()
            ctx.in_search = True
            P.search(ctx, broken)
        except Exception:
            traceback.print_exc()
        real_viol = [v for v in ctx.violations if not (v["known_id"] and v["known_id"] in known_ids)]
        known_hit = [v for v in ctx.violations if v["known_id"] and v["known_id"] in known_ids]
    # ---- 6. verdict
    os.makedirs(os.path.join(ROOT, "replays"), exist_ok=True)
    exit_code = 0
    seen_known = set()
    for v in known_hit:
        if v["known_id"] not in seen_known:
            seen_known.add(v["known_id"])
            print(f"KNOWN-FINDING: property={prop} {v['known_id']}: {v['what']}")
    if real_viol:
        v = real_viol[0]
        rp = os.path.join(ROOT, "replays", f"{prop}_{tier}_{seed}.json")
        json.dump({"property": prop, "kind": "failing-input", "what": v["what"], "case": v["case"],
                   "broken": [list(b) for b in broken][:10]}, open(rp, "w"), indent=1, default=str)
        print(f"VIOLATION property={prop} replay={os.path.relpath(rp, ROOT)}")
        for v2 in real_viol[:5]:
            print("  " + v2["what"][:300])
        exit_code = 1
    elif broken:
        rp = os.path.join(ROOT, "replays", f"{prop}_{tier}_{seed}.json")
        json.dump({"property": prop, "kind": "no-failing-input-found",
                   "no_longer_checks": [{"kind": k, "detail": d} for k, d in broken][:20],
                   "first_mismatch": ctx.mismatches[0] if ctx.mismatches else None},
                  open(rp, "w"), indent=1, default=str)
        print(f"VIOLATION property={prop} replay={os.path.relpath(rp, ROOT)} no-failing-input-found")
        for k, d in broken[:5]:
            print(f"  {k}: {d[:300]}")
        exit_code = 1
    # ---- 7. evidence
    wall = time.time() - t0
    ev = {
        "property_id": prop, "tier": tier, "seed": seed, "level": "proof",
        "coverage": {
            "obligations": max(obligations, 1), "discharged": discharged if obligations else 0,
            "checker_cmd": f"cd lean && lake build {prop_mod} tmodel && lake env lean <#print axioms of every theorem in TangeloProofs/Props/{prop}.lean>"
                           + (" && lake env leanchecker " + prop_mod if tier == "thorough" else ""),
            "trusted_base": ["Lean 4.33.0 kernel", "Mathlib v4.33.0 (imported modules)", "axioms: " + ", ".join(sorted(axioms_seen) or ["none"]),
                             "harness/extract_tables.py (table regeneration)", "correspondence harness (differential test, tolerance 1e-9)",
                             "Lean compiler/runtime for the model driver"] + list(getattr(P, "TRUSTED", [])),
            "theorems": names,
            "evaluations": ctx.evaluations, "distinct_nontrivial": len(ctx.distinct),
            "rule": getattr(P, "RULE", ""), "samples": ctx.samples[:4] or ["(no correspondence case was run)"],
            "histogram": ctx.hist, "discarded_near_threshold": ctx.discarded,
            "correspondence_mismatches": len(ctx.mismatches),
            "build": {"driver_s": round(t_exe, 1), "proofs_s": round(t_pf, 1), "proofs_rc": rc_pf}, "leanchecker": leanchecker,
            "known_findings_reproduced": sorted(seen_known), "notes": ctx.notes[:20],
            "exhaustive": False,
        },
        "assumptions": list(getattr(P, "ASSUMPTIONS", [])),
        "wall_s": round(wall, 2), "violations": len(real_viol) + (1 if (broken and not real_viol) else 0),
    }
    os.makedirs(os.path.join(ROOT, "evidence"), exist_ok=True)
    json.dump(ev, open(os.path.join(ROOT, "evidence", f"{prop}.json"), "w"), indent=1, default=str)
    print(f"{prop} {tier} seed={seed}: theorems {discharged}/{obligations}, cases {ctx.evaluations} "
          f"(distinct {len(ctx.distinct)}), mismatches {len(ctx.mismatches)}, discarded {ctx.discarded}, {wall:.1f}s -> exit {exit_code}")
    return exit_code


if __name__ == "__main__":
    sys.exit(main())
