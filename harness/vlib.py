"""Shared harness library: model driver process, angle/amplitude codecs, generators, reporting."""
import os, sys, json, math, cmath, random, subprocess, time, warnings
from fractions import Fraction

warnings.filterwarnings("ignore")
ROOT = os.path.dirname(os.path.dirname(os.path.abspath(__file__)))
LEAN_DIR = os.path.join(ROOT, "lean")
TMODEL = os.path.join(LEAN_DIR, ".lake", "build", "bin", "tmodel")

# ---------------------------------------------------------------- angles
# Atom table (must equal TangeloModel/Ang.lean): half-angle points (c, s); alpha = 2*atan2(s, c)
ATOMS = [(Fraction(3, 5), Fraction(4, 5)), (Fraction(4, 5), Fraction(3, 5)), (Fraction(12, 13), Fraction(5, 13)),
         (Fraction(5, 13), Fraction(12, 13)), (Fraction(63999999, 64000001), Fraction(16000, 64000001)),
         (Fraction(2249999, 2250001), Fraction(3000, 2250001))]
ALPHA = [1.8545904360032246, 1.2870022175865687, 0.789582239399523, 2.35201041419027,
         0.0004999999973958333, 0.0026666662716050434]
assert all(abs(2 * math.atan2(float(s), float(c)) - a) < 1e-15 for (c, s), a in zip(ATOMS, ALPHA))
ZERO_ANG = [0, 0, 0, 0, 0, 0, 0]


def ang_float(v):
    """the double the model computes for the angle vector v = [q, k0..k5] (same operation order)"""
    x = float(v[0]) * (math.pi / 4.0)
    for k, al in zip(v[1:], ALPHA):
        x = x + float(k) * al
    return x


def ang_add(a, b):
    return [x + y for x, y in zip(a, b)]


def ang_neg(a):
    return [-x for x in a]


def rand_ang(rng, profile="mixed"):
    """a random exact angle.  Profiles: 'clifford' (multiples of pi/2), 'pi4', 'generic', 'edge'
    (near 0, +-2pi, +-4pi using the tiny atoms), 'mixed'."""
    if profile == "mixed":
        profile = rng.choice(["generic", "generic", "generic", "pi4", "edge", "clifford", "big"])
    v = [0] * 7
    if profile == "clifford":
        v[0] = 2 * rng.randint(-6, 6)
    elif profile == "pi4":
        v[0] = rng.randint(-9, 9)
    elif profile == "generic":
        v[0] = rng.choice([0, 0, 0, 1, -1, 2, 4, -4])
        for _ in range(rng.randint(1, 2)):
            v[1 + rng.randint(0, 3)] += rng.choice([1, -1, 1, 2, -2])
    elif profile == "edge":
        v[0] = rng.choice([0, 0, 8, -8, 16, -16])
        v[5 + rng.randint(0, 1)] = rng.choice([1, -1, 2, -2, 3])
    elif profile == "big":
        v[0] = rng.choice([8, -8, 16, 24, -24, 9, 17])
        v[1 + rng.randint(0, 3)] += rng.choice([1, -1])
    return v


# ---------------------------------------------------------------- amplitudes
_ZETA = [cmath.exp(1j * math.pi * k / 8) for k in range(8)]


def cyc_to_complex(c):
    """8 rationals (ints or 'n/d' strings) -> complex"""
    z = 0j
    for k, x in enumerate(c):
        if x == 0:
            continue
        f = Fraction(x) if not isinstance(x, str) else Fraction(x)
        z += float(f) * _ZETA[k]
    return z


def frac_str(f):
    f = Fraction(f)
    return str(f.numerator) if f.denominator == 1 else f"{f.numerator}/{f.denominator}"


def cyc_of_complex_rational(re, im):
    """exact rational re + i im -> Cyc coefficient list (i = x^4)"""
    return [frac_str(re), 0, 0, 0, frac_str(im), 0, 0, 0]


# ---------------------------------------------------------------- model process
class Model:
    def __init__(self):
        if not os.path.exists(TMODEL):
            raise RuntimeError("model driver not built: " + TMODEL)
        self.p = subprocess.Popen([TMODEL], stdin=subprocess.PIPE, stdout=subprocess.PIPE, text=True, bufsize=1)
        self.n = 0

    def ask(self, req):
        self.p.stdin.write(json.dumps(req) + "\n")
        self.p.stdin.flush()
        line = self.p.stdout.readline()
        if not line:
            raise RuntimeError("model driver died on request " + json.dumps(req)[:300])
        self.n += 1
        return json.loads(line)

    def close(self):
        try:
            self.p.stdin.close()
            self.p.wait(timeout=5)
        except Exception:
            self.p.kill()


# ---------------------------------------------------------------- gates
ONE_Q = ["H", "X", "Y", "Z", "S", "T"]
ONE_Q_P = ["RX", "RY", "RZ", "PHASE"]
CTL = ["CNOT", "CX", "CY", "CZ", "CH"]
CTL_P = ["CRX", "CRY", "CRZ", "CPHASE"]
TWO_T = ["SWAP"]
ALL_UNITARY = ONE_Q + ONE_Q_P + CTL + CTL_P + ["XX", "SWAP", "CSWAP"]


class NullModel:
    """stands in for the model during the failing-input search (oracle only)"""
    def ask(self, req):
        return {}

    def close(self):
        pass


def gspec(name, target, control=None, param=None, var=False):
    return {"n": name, "t": list(target) if isinstance(target, (list, tuple)) else [target],
            "c": None if control is None else (list(control) if isinstance(control, (list, tuple)) else [control]),
            "p": param, "v": bool(var)}


def rand_gate(rng, width, names=None, max_controls=3, ang_profile="mixed", var_prob=0.15):
    """a random valid gate spec on `width` qubits (width >= 1)"""
    names = names or ALL_UNITARY
    for _ in range(100):
        name = rng.choice(names)
        n_t = 2 if name in ("XX", "SWAP", "CSWAP") else 1
        is_ctl = name[0] == "C"
        n_c = 0
        if is_ctl:
            n_c = 1 if rng.random() < 0.6 else rng.randint(1, max_controls)
        if n_t + n_c > width:
            continue
        qs = rng.sample(range(width), n_t + n_c)
        p = rand_ang(rng, ang_profile) if name in ONE_Q_P + CTL_P + ["XX"] else None
        return gspec(name, qs[:n_t], qs[n_t:] if is_ctl else None, p, rng.random() < var_prob and p is not None)
    return gspec("X", [0])


def rand_gate_list(rng, width, n, names=None, max_controls=3, ang_profile="mixed", corr=0.45, var_prob=0.15):
    """gate list with correlated neighbours: repeats, inverses and re-parametrised copies of earlier gates, so that the
    merge / cancel passes actually fire"""
    gs = []
    for _ in range(n):
        if gs and rng.random() < corr:
            g = dict(rng.choice(gs[-4:]))
            g["t"] = list(g["t"]); g["c"] = None if g["c"] is None else list(g["c"])
            kind = rng.choice(["same", "inv", "newang", "newang", "swapqubits"])
            if isinstance(g["p"], list):
                if kind == "inv":
                    g["p"] = ang_neg(g["p"])
                    if rng.random() < 0.3:       # inverse up to a full period / a half period
                        g["p"] = ang_add(g["p"], [rng.choice([8, -8, 16]), 0, 0, 0, 0, 0, 0])
                elif kind == "newang":
                    g["p"] = rand_ang(rng, ang_profile)
                elif kind == "same" and rng.random() < 0.3:
                    g["p"] = ang_add(g["p"], [rng.choice([8, -8, 16, -16]), 0, 0, 0, 0, 0, 0])
            elif kind == "inv" and g["n"] in ("S", "T"):
                g = gspec("PHASE", g["t"], None, [-2 if g["n"] == "S" else -1, 0, 0, 0, 0, 0, 0], g["v"])
            if kind == "swapqubits" and g["c"]:
                g["t"], g["c"] = [g["c"][0]] + g["t"][1:], g["t"][:1] + g["c"][1:]
            g["v"] = g["v"] if rng.random() < 0.8 else (not g["v"] and g["p"] is not None)
            gs.append(g)
        else:
            gs.append(rand_gate(rng, width, names, max_controls, ang_profile, var_prob))
    return gs


def to_tangelo_gate(spec):
    from tangelo.linq import Gate
    p = spec["p"]
    if p is None:
        param = ""
    elif isinstance(p, str):
        param = p
    else:
        param = ang_float(p)
    return Gate(spec["n"], list(spec["t"]), None if spec["c"] is None else list(spec["c"]), param, spec["v"])


def dump_tangelo_gate(g):
    """Tangelo gate -> comparable dict (parameter as float / str / None)"""
    p = g.parameter
    if isinstance(p, str):
        p = None if p == "" else p
    else:
        try:
            p = float(p)
        except Exception:
            p = repr(p)
    return {"n": g.name, "t": list(g.target), "c": None if g.control is None else list(g.control), "p": p, "v": bool(g.is_variational)}


def dump_model_gate(spec):
    p = spec["p"]
    if isinstance(p, list):
        p = ang_float(p)
    return {"n": spec["n"], "t": spec["t"], "c": spec["c"], "p": p, "v": spec["v"]}


def gates_equal(a, b, tol=1e-9):
    """compare two dumped gate lists; parameters within tol"""
    if len(a) != len(b):
        return False
    for x, y in zip(a, b):
        if (x["n"], x["t"], x["c"], x["v"]) != (y["n"], y["t"], y["c"], y["v"]):
            return False
        px, py = x["p"], y["p"]
        if isinstance(px, float) and isinstance(py, float):
            if abs(px - py) > tol * max(1.0, abs(px)):
                return False
        elif px != py:
            return False
    return True


ERRMAP = [(ValueError, "ERR:value"), (TypeError, "ERR:type"), (AttributeError, "ERR:attr"),
          (KeyError, "ERR:key"), (IndexError, "ERR:index"), (NotImplementedError, "ERR:unsupported")]


def err_name(e):
    if isinstance(e, NotImplementedError):
        return "ERR:unsupported"
    for cls, nm in ERRMAP:
        if isinstance(e, cls):
            return nm
    return "ERR:other"


# ---------------------------------------------------------------- numpy reference semantics (oracle side)
def np_gate_unitary(spec, n):
    """documented matrix of a gate on n qubits, index convention: bit q of the index = qubit q"""
    import numpy as np
    name = spec["n"]
    th = ang_float(spec["p"]) if isinstance(spec["p"], list) else (spec["p"] if isinstance(spec["p"], float) else None)
    I2 = np.eye(2, dtype=complex)
    base = {"SDAG": np.diag([1, -1j]), "H": np.array([[1, 1], [1, -1]]) / math.sqrt(2), "X": np.array([[0, 1], [1, 0]]), "Y": np.array([[0, -1j], [1j, 0]]),
            "Z": np.diag([1, -1]), "S": np.diag([1, 1j]), "T": np.diag([1, cmath.exp(1j * math.pi / 4)])}
    if th is not None:
        c, s = math.cos(th / 2), math.sin(th / 2)
        base.update({"RX": np.array([[c, -1j * s], [-1j * s, c]]), "RY": np.array([[c, -s], [s, c]]),
                     "RZ": np.diag([cmath.exp(-1j * th / 2), cmath.exp(1j * th / 2)]), "PHASE": np.diag([1, cmath.exp(1j * th)])})
    alias = {"CNOT": "X", "CX": "X", "CY": "Y", "CZ": "Z", "CH": "H", "CRX": "RX", "CRY": "RY", "CRZ": "RZ", "CPHASE": "PHASE"}
    dim = 2 ** n
    U = np.zeros((dim, dim), dtype=complex)
    cs = spec["c"] or []
    t = spec["t"]
    for x in range(dim):
        bit = lambda q, x=x: (x >> q) & 1
        if not all(bit(c) for c in cs):
            U[x, x] = 1
            continue
        if name in ("SWAP", "CSWAP"):
            a, b = t
            y = x
            if bit(a) != bit(b):
                y = x ^ (1 << a) ^ (1 << b)
            U[y, x] = 1
        elif name == "XX":
            a, b = t
            y = x ^ (1 << a) ^ (1 << b)
            U[x, x] += math.cos(th / 2)
            U[y, x] += -1j * math.sin(th / 2)
        else:
            m = base[alias.get(name, name)]
            q = t[0]
            x0 = x & ~(1 << q)
            x1 = x | (1 << q)
            U[x0, x] += m[0, bit(q)]
            U[x1, x] += m[1, bit(q)]
    return U


def np_circuit_unitary(specs, n):
    import numpy as np
    U = np.eye(2 ** n, dtype=complex)
    for s in specs:
        U = np_gate_unitary(s, n) @ U
    return U


def same_up_to_phase(U, V, tol=1e-8):
    import numpy as np
    k = np.argmax(np.abs(U))
    idx = np.unravel_index(k, U.shape)
    if abs(V[idx]) < 1e-12:
        return False
    lam = V[idx] / U[idx]
    return abs(abs(lam) - 1) < 1e-6 and np.allclose(lam * U, V, atol=tol)


def tangelo_dump_to_specs(dump):
    """dumped tangelo gates (float params) -> specs usable by np_gate_unitary"""
    return [{"n": g["n"], "t": g["t"], "c": g["c"], "p": g["p"], "v": g["v"]} for g in dump]


def bits_lsq_index(idx, n):
    """model index (bit q = qubit q) -> Tangelo 'lsq_first' bitstring (qubit 0 first)"""
    return "".join(str((idx >> q) & 1) for q in range(n))


def np_run_state(gates, n, psi0=None, desired=None):
    """independent state-vector run of tangelo gates (bit q of the index = qubit q); MEASURE gates project on
    the bits of `desired` (in order of appearance) and renormalise; returns (psi, success probability)"""
    import numpy as np
    psi = np.zeros(2 ** n, dtype=complex)
    if psi0 is None:
        psi[0] = 1
    else:
        psi[:] = psi0
    idx = np.arange(2 ** n)
    prob, k = 1.0, 0
    I = {"H": np.array([[1, 1], [1, -1]]) / math.sqrt(2), "X": np.array([[0, 1], [1, 0]]), "Y": np.array([[0, -1j], [1j, 0]]), "Z": np.diag([1, -1]),
         "S": np.diag([1, 1j]), "T": np.diag([1, cmath.exp(1j * math.pi / 4)])}
    alias = {"CNOT": "X", "CX": "X", "CY": "Y", "CZ": "Z", "CH": "H", "CRX": "RX", "CRY": "RY", "CRZ": "RZ", "CPHASE": "PHASE"}
    for g in gates:
        name = g.name
        if name == "MEASURE":
            q = g.target[0]
            want = int(desired[k]); k += 1
            keep = ((idx >> q) & 1) == want
            psi = np.where(keep, psi, 0)
            p = float(np.vdot(psi, psi).real)
            prob *= p
            psi = psi / math.sqrt(p) if p > 1e-300 else psi
            continue
        cs = list(g.control) if g.control is not None else []
        on = np.ones(2 ** n, dtype=bool)
        for c in cs:
            on &= ((idx >> c) & 1) == 1
        th = float(g.parameter) if g.parameter != "" else None
        new = psi.copy()
        if name in ("SWAP", "CSWAP"):
            a, b = g.target
            src = idx.copy()
            diff = ((idx >> a) & 1) != ((idx >> b) & 1)
            src = np.where(diff, idx ^ (1 << a) ^ (1 << b), idx)
            new = np.where(on, psi[src], psi)
        elif name == "XX":
            a, b = g.target
            new = np.where(on, math.cos(th / 2) * psi - 1j * math.sin(th / 2) * psi[idx ^ (1 << a) ^ (1 << b)], psi)
        else:
            b = alias.get(name, name)
            if b in I:
                m = I[b]
            else:
                c, s = math.cos(th / 2), math.sin(th / 2)
                m = {"RX": np.array([[c, -1j * s], [-1j * s, c]]), "RY": np.array([[c, -s], [s, c]]),
                     "RZ": np.diag([cmath.exp(-1j * th / 2), cmath.exp(1j * th / 2)]), "PHASE": np.diag([1, cmath.exp(1j * th)])}[b]
            for q in g.target:
                bit = (idx >> q) & 1
                r = m[bit, 0] * psi[idx & ~(1 << q)] + m[bit, 1] * psi[idx | (1 << q)]
                new = np.where(on, r, psi)
                psi = new
        psi = new
    return psi, prob


# ---------------------------------------------------------------- classical (reversible) programs with measurements
def classical_meas_prog(rng, n, m, coins=0):
    """A program of X / CNOT gates and m MEASURE gates on n qubits whose outcomes are a deterministic function of
    `coins` coin flips (H on a fresh qubit immediately followed by its MEASURE).
    Returns (instructions, evaluate) where instructions is a list of ("X", q) / ("CNOT", c, t) / ("H", q) / ("MEASURE", q)
    and evaluate(coin_bits) -> (mid_string, final_string), qubit 0 first."""
    ins = []
    fresh = list(range(n))
    rng.shuffle(fresh)
    coin_qubits = fresh[:coins]
    meas_left = m
    coin_left = list(coin_qubits)
    steps = m + rng.randint(n, 2 * n + 2)
    touched = set()
    for s in range(steps):
        r = rng.random()
        if coin_left and r < 0.25:
            q = coin_left.pop()
            ins.append(("H", q)); ins.append(("MEASURE", q)); meas_left -= 1
            touched.add(q)
        elif meas_left > len(coin_left) and r < 0.5:
            ins.append(("MEASURE", rng.randrange(n))); meas_left -= 1
        elif r < 0.75 or n == 1:
            q = rng.choice([x for x in range(n) if x not in coin_left] or [0])
            ins.append(("X", q))
        else:
            c, t = rng.sample(range(n), 2)
            if c in coin_left or t in coin_left:
                continue
            ins.append(("CNOT", c, t))
    for q in coin_left:
        ins.append(("H", q)); ins.append(("MEASURE", q)); meas_left -= 1
    while meas_left > 0:
        ins.append(("MEASURE", rng.randrange(n))); meas_left -= 1

    def evaluate(coin_bits):
        bits = [0] * n
        coin_iter = iter(coin_bits)
        mid = []
        pending_coin = None
        for g in ins:
            if g[0] == "X":
                bits[g[1]] ^= 1
            elif g[0] == "CNOT":
                bits[g[2]] ^= bits[g[1]]
            elif g[0] == "H":
                pending_coin = g[1]
            else:
                if pending_coin == g[1]:
                    bits[g[1]] = next(coin_iter)
                    pending_coin = None
                mid.append(bits[g[1]])
        return "".join(map(str, mid)), "".join(map(str, bits))
    return ins, evaluate


def classical_prog_to_circuit(ins, n):
    from tangelo.linq import Circuit, Gate
    gs = []
    for g in ins:
        if g[0] == "CNOT":
            gs.append(Gate("CNOT", g[2], g[1]))
        else:
            gs.append(Gate(g[0], g[1]))
    return Circuit(gs, n_qubits=n)
