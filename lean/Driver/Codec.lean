import Lean.Data.Json
import TangeloModel
/-! JSON codec for the line protocol (driver only; not part of the model that is reasoned about). -/
open Lean
namespace Tangelo.Codec

def jErr (s : String) : Json := Json.mkObj [("err", Json.str s)]

def getInt? (j : Json) : Option Int := match j with
  | .num n => if n.exponent == 0 then some n.mantissa else none
  | _ => none

def getNat? (j : Json) : Option Nat := (getInt? j).bind (fun i => if i < 0 then none else some i.toNat)

def getIntList? (j : Json) : Option (List Int) := match j with
  | .arr a => a.toList.mapM getInt?
  | _ => none

def getNatList? (j : Json) : Option (List Nat) := match j with
  | .arr a => a.toList.mapM getNat?
  | _ => none

def parseRat? (s : String) : Option Rat :=
  match s.splitOn "/" with
  | [n] => n.toInt?.map (fun i => (i : Rat))
  | [n, d] => do
    let ni ← n.toInt?
    let di ← d.toNat?
    if di == 0 then none else some (mkRat ni di)
  | _ => none

def ratOfJson? (j : Json) : Option Rat := match j with
  | .str s => parseRat? s
  | .num n => if n.exponent == 0 then some (n.mantissa : Rat) else none
  | _ => none

def cycOfJson? (j : Json) : Option Cyc := match j with
  | .arr a => (a.toList.mapM ratOfJson?).map Cyc.ofCoeffs
  | .str s => (parseRat? s).map Cyc.ofRat
  | .num _ => (ratOfJson? j).map Cyc.ofRat
  | _ => none

def ratToJson (r : Rat) : Json := if r.den == 1 then Json.num ⟨r.num, 0⟩ else Json.str s!"{r.num}/{r.den}"
def cycToJson (z : Cyc) : Json := Json.arr (z.coeffs.map ratToJson).toArray

def angOfJson? (j : Json) : Option Ang := (getIntList? j).bind Ang.ofList
def angToJson (a : Ang) : Json := Json.arr (a.toList.map (fun i => Json.num ⟨i, 0⟩)).toArray

def paramOfJson? (j : Json) : Option Param := match j with
  | .null => some .none
  | .str s => some (.sym s)
  | .arr _ => (angOfJson? j).map .ang
  | _ => none

def paramToJson : Param → Json
  | .none => Json.null
  | .sym s => Json.str s
  | .ang a => angToJson a

def natJ (n : Nat) : Json := Json.num ⟨(n : Int), 0⟩
def intJ (n : Int) : Json := Json.num ⟨n, 0⟩
def natListToJson (l : List Nat) : Json := Json.arr (l.map natJ).toArray

def gateToJson (g : Gate) : Json := Json.mkObj [
  ("n", Json.str g.name), ("t", natListToJson g.target),
  ("c", match g.control with | none => Json.null | some c => natListToJson c),
  ("p", paramToJson g.param), ("v", Json.bool g.isVar)]

def rawIdxOfJson (j : Json) : RawIdx := match getInt? j with
  | some i => .int i
  | none => .other

def rawListOfJson? (j : Json) : Option (List RawIdx) := match j with
  | .arr a => some (a.toList.map rawIdxOfJson)
  | _ => none

/-- a gate as the caller writes it (possibly malformed) → the result of `Gate(...)` -/
def gateOfJson (j : Json) : Except String (Except GateErr Gate) := do
  let name : Option String := match j.getObjValD "n" with | .str s => some s | _ => none
  let t ← match rawListOfJson? (j.getObjValD "t") with | some t => pure t | none => throw "bad target"
  let c ← match j.getObjValD "c" with
    | .null => pure none
    | jc => match rawListOfJson? jc with | some c => pure (some c) | none => throw "bad control"
  let p ← match paramOfJson? (j.getObjValD "p") with | some p => pure p | none => throw "bad param"
  let v := match j.getObjValD "v" with | .bool b => b | _ => false
  pure (Gate.mk? name t c p v)

/-- a well-formed gate; protocol error otherwise -/
def gateOfJson! (j : Json) : Except String Gate := do
  match ← gateOfJson j with
  | .ok g => pure g
  | .error _ => throw "gate rejected by Gate.mk?"

def gatesOfJson! (j : Json) : Except String (List Gate) := match j with
  | .arr a => a.toList.mapM gateOfJson!
  | _ => throw "gates: expected array"

def dictToJson {α : Type} (f : α → String) (d : List (α × Nat)) : Json :=
  Json.mkObj (d.map (fun (k, n) => (f k, natJ n)))

def circuitToJson (c : Circuit) : Json := Json.mkObj [
  ("gates", Json.arr (c.gates.map gateToJson).toArray),
  ("fixed", match c.fixed with | none => Json.null | some n => natJ n),
  ("width", natJ c.width), ("size", natJ c.size),
  ("counts", dictToJson id c.counts), ("nq", dictToJson toString c.nqCounts),
  ("isvar", Json.bool c.isVariational), ("mixed", Json.bool c.isMixedState),
  ("vargates", Json.arr (c.varGates.map gateToJson).toArray),
  ("indices", natListToJson c.indices)]

def svToJson (a : SV) : Json := Json.arr (a.map cycToJson)

def svOfJson? (j : Json) : Option SV := match j with
  | .arr a => a.mapM cycOfJson?
  | _ => none

end Tangelo.Codec
