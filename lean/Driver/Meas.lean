import Driver.Gen
/-! handlers for C02 / C10 -/
open Lean
namespace Tangelo.Driver
open Tangelo.Codec

partial def mgateOfJson (j : Json) : Except String MGate :=
  match j.getObjValD "n" with
  | .str "MEASURE" => match getNatList? (j.getObjValD "t") with
      | some [q] => pure (.measure q)
      | _ => throw "MEASURE target"
  | .str "CMEASURE" => match getNatList? (j.getObjValD "t"), j.getObjValD "on0", j.getObjValD "on1" with
      | some [q], .arr a0, .arr a1 => do
          let l0 ← a0.toList.mapM mgateOfJson
          let l1 ← a1.toList.mapM mgateOfJson
          pure (.cmeasure q l0 l1)
      | _, _, _ => throw "CMEASURE shape"
  | _ => do
      let g ← gateOfJson! j
      pure (.op g)

def bitsOfStr (s : String) : List Bool := s.toList.map (· == '1')

def appliedJ : Applied → Json
  | .gate g => gateToJson g
  | .meas q b c => Json.mkObj [("n", Json.str (if c then "CMEASURE" else "MEASURE")), ("t", natListToJson [q]),
      ("p", Json.str (if b then "1" else "0"))]

def termsCycOfJson? (j : Json) : Option (List (PWord × Cyc)) := match j with
  | .arr a => a.toList.mapM (fun (t : Json) => match t with
      | .arr #[w, c] => do
          let w' ← pwordOfJson? w
          let c' ← cycOfJson? c
          pure (w', c')
      | _ => none)
  | _ => none

/-- {"op":"branch","prog":[..],"n":w,"order":..,"desired":"010","init":null|[..],"terms":null|[[w,cyc]..]}
    → unnormalised branch state (backend order), probability, frequencies, applied gates, expectation data -/
def branchOp (j : Json) : Json :=
  match j.getObjValD "prog", getNat? (j.getObjValD "n") with
  | .arr pa, some n =>
    match pa.toList.mapM mgateOfJson with
    | .error e => jErr e
    | .ok prog =>
      let order := orderOfJson (j.getObjValD "order")
      let init : SV := match j.getObjValD "init" with
        | .null => basisSV n 0
        | ji => fromBackendOrder order n ((svOfJson? ji).getD (basisSV n 0))
      let des := bitsOfStr (getStr j "desired")
      match runBranch n 10000 prog des { sv := init, applied := [], used := [] } with
      | none => Json.mkObj [("r", Json.str "ERR:unsupported")]
      | some out =>
        let p := SV.normSq out.sv
        let svB := toBackendOrder order n out.sv
        let exps : Json := match j.getObjValD "terms" with
          | .null => Json.null
          | jt => match termsCycOfJson? jt with
            | none => Json.null
            | some ts => Json.mkObj [
                ("sv_route", cycToJson (expectOp n out.sv ts)),
                ("freq_route", cycToJson (ts.foldl (fun acc (w, c) => acc + c * (if w.isEmpty then p else expectWordFreqRoute n out.sv w)) 0)),
                ("variance_terms", Json.arr (ts.map (fun (w, _) => cycToJson (varianceWord n out.sv w))).toArray),
                ("expect_terms", Json.arr (ts.map (fun (w, _) => cycToJson (expectWordFreqRoute n out.sv w))).toArray)]
        Json.mkObj [("sv", svToJson svB), ("prob", cycToJson p),
          ("probs", Json.arr ((List.range svB.size).map (fun i => Json.arr #[bitsJ (intToBinstr order i n true), cycToJson (Cyc.normSq (svB.getD i 0))])).toArray),
          ("applied", Json.arr (out.applied.map appliedJ).toArray), ("leftover", natJ (des.length - out.used.length)), ("exp", exps)]
  | _, _ => jErr "branch: bad arguments"

end Tangelo.Driver
