import Driver.Meas
/-! handlers for the operator family (C16 …) -/
open Lean
namespace Tangelo.Driver
open Tangelo.Codec Tangelo.SymOp

abbrev OStore := List (String × SymOp)
def OStore.get? (s : OStore) (k : String) : Option SymOp := (s.find? (·.1 == k)).map (·.2)
def OStore.put (s : OStore) (k : String) (c : SymOp) : OStore :=
  if s.any (·.1 == k) then s.map (fun p => if p.1 == k then (k, c) else p) else s ++ [(k, c)]

def keyOfJson? (j : Json) : Option Key := match j with
  | .arr a => a.toList.mapM (fun (f : Json) => match f with
      | .arr #[x, y] => do let x' ← getNat? x; let y' ← getNat? y; pure (x', y')
      | _ => none)
  | _ => none

def keyToJson (k : Key) : Json := Json.arr (k.map (fun (a, b) => Json.arr #[natJ a, natJ b])).toArray

def symTermsOfJson? (j : Json) : Option (List (Key × Cyc)) := match j with
  | .arr a => a.toList.mapM (fun (t : Json) => match t with
      | .arr #[k, c] => do let k' ← keyOfJson? k; let c' ← cycOfJson? c; pure (k', c')
      | _ => none)
  | _ => none

def symOpToJson (o : SymOp) : Json := Json.mkObj [
  ("kind", Json.str (match o.kind with | .fermion => "fermion" | .qubit => "qubit")),
  ("terms", Json.arr (o.terms.map (fun (k, c) => Json.arr #[keyToJson k, cycToJson c])).toArray),
  ("attrs", match o.attrs with | none => Json.null | some l => Json.arr (l.map (fun i => Json.num ⟨i, 0⟩)).toArray)]

def ostoreToJson (s : OStore) : Json := Json.mkObj (s.map (fun (k, o) => (k, symOpToJson o)))

/-- attribute compatibility of a binary operation: result attrs or a RuntimeError -/
def combineAttrs (isAdd isMul inplace : Bool) (a b : SymOp) : Except String (Option (List Int)) :=
  match a.kind with
  | .fermion =>
    -- Tangelo FermionOperator: triples must be equal; an openfermion operand (attrs none) needs a (None,None,None) left triple
    match a.attrs, b.attrs with
    | some x, some y => if x == y then .ok (some x) else .error "ERR:runtime"
    | some x, none => if x == [-1, -1, -1] then .ok (some x) else .error "ERR:runtime"
    -- plain (openfermion) left operand: Python gives priority to the reflected __radd__/__rsub__ of the Tangelo subclass
    | none, some y => if isMul || inplace then .ok none else (if y == [-1, -1, -1] then .ok (some y) else .error "ERR:runtime")
    | none, none => .ok none
  | .qubit =>
    match a.attrs, b.attrs with
    -- QubitHamiltonian checks its annotations in additions only (`__iadd__`)
    | some x, some y => if !isAdd || x.contains (-1) || y.contains (-1) || x == y then .ok (some x) else .error "ERR:runtime"
    | some x, none => .ok (some x)
    | none, _ => .ok none

/-- {"op":"o_new","dst","kind","terms","attrs"} | o_add/o_sub/o_mul {"dst","a","b"} | o_smul {"dst","a","z"} | o_sadd {"dst","a","z"} -/
def opStoreOp (s : OStore) (j : Json) : OStore × Json :=
  let dst := getStr j "dst"
  let fin := fun (s' : OStore) (r : Json) => (s', Json.mkObj [("r", r), ("store", ostoreToJson s')])
  let bin := fun (isAdd isMul : Bool) (f : SymOp → SymOp → List (Key × Cyc)) =>
    match s.get? (getStr j "a"), s.get? (getStr j "b") with
    | some a, some b =>
      if a.kind != b.kind then fin s (Json.str "ERR:type") else
      match combineAttrs isAdd isMul (getBool j "inplace") a b with
      | .error e => fin s (Json.str e)
      | .ok at' => fin (s.put dst { kind := a.kind, terms := f a b, attrs := at' }) Json.null
    | _, _ => fin s (Json.str "ERR:other")
  match getStr j "op" with
  | "o_reset" => fin [] Json.null
  | "o_new" =>
    match symTermsOfJson? (j.getObjValD "terms") with
    | none => (s, jErr "o_new terms")
    | some ts =>
      let kind := if getStr j "kind" == "fermion" then OpKind.fermion else OpKind.qubit
      let attrs := match j.getObjValD "attrs" with | .null => none | ja => getIntList? ja
      fin (s.put dst { kind := kind, terms := addTerms [] ts, attrs := attrs }) Json.null
  | "o_add" => bin true false (fun a b => addTerms a.terms b.terms)
  | "o_sub" => bin false false (fun a b => addTerms a.terms (scale (-1) b.terms))
  | "o_mul" => bin false true (fun a b => mulTerms a.kind a.terms b.terms)
  | "o_smul" =>
    match s.get? (getStr j "a"), cycOfJson? (j.getObjValD "z") with
    | some a, some z => fin (s.put dst { a with terms := scale z a.terms }) Json.null
    | _, _ => fin s (Json.str "ERR:other")
  | "o_sadd" =>
    match s.get? (getStr j "a"), cycOfJson? (j.getObjValD "z") with
    | some a, some z => fin (s.put dst { a with terms := addTerm a.terms [] z }) Json.null
    | _, _ => fin s (Json.str "ERR:other")
  | "o_rsub" =>   -- z - a
    match s.get? (getStr j "a"), cycOfJson? (j.getObjValD "z") with
    | some a, some z => fin (s.put dst { a with terms := addTerm (scale (-1) a.terms) [] z }) Json.null
    | _, _ => fin s (Json.str "ERR:other")
  | "o_copy" =>
    match s.get? (getStr j "a") with
    | some a => fin (s.put dst a) Json.null
    | none => fin s (Json.str "ERR:other")
  | _ => (s, jErr "unknown operator op")

def rowsOfJson? (j : Json) : Option (List PauliAlg.Row) := match j with
  | .arr a => a.toList.mapM getNatList?
  | _ => none

/-- array-form product and commutation: {"op":"mf","a":{"rows":[[..]],"f":[cyc]},"b":{...}} -/
def multiformOp (j : Json) : Json :=
  let ja := j.getObjValD "a"; let jb := j.getObjValD "b"
  match rowsOfJson? (ja.getObjValD "rows"), rowsOfJson? (jb.getObjValD "rows"),
        (match ja.getObjValD "f" with | .arr x => x.toList.mapM cycOfJson? | _ => none),
        (match jb.getObjValD "f" with | .arr x => x.toList.mapM cycOfJson? | _ => none) with
  | some ra, some rb, some fa, some fb =>
    -- product: all pairs, collapse duplicates (as a sorted map on rows)
    let prod : List (Key × Cyc) := (ra.zip fa).foldl (fun acc (a, ca) => (rb.zip fb).foldl (fun acc2 (b, cb) =>
        let (r, p) := PauliAlg.mulRow a b
        SymOp.addTerm acc2 (r.zipIdx.map (fun (c, i) => (i, c))) (ca * cb * SymOp.iPow p)) acc) []
    Json.mkObj [("product", Json.arr (prod.map (fun (k, c) => Json.arr #[natListToJson (k.map (·.2)), cycToJson c])).toArray),
                ("commute", Json.bool (PauliAlg.doCommute ra rb)),
                ("resolved", Json.arr ((PauliAlg.doCommuteResolved ra rb).map Json.bool).toArray)]
  | _, _, _, _ => jErr "mf: bad arguments"

/-- {"op":"ansatz_calls","calls":[["set",i],["update",j],..]} → labels of the recorded vector and of the vector the circuit
    holds after the history (labels are indices into the harness' list of vectors; the build carries label 0) -/
def ansatzCallsOp (j : Json) : Json :=
  let calls : List (Tangelo.AnsatzUpdate.Call Nat) := match j.getObjValD "calls" with
    | .arr a => a.toList.filterMap (fun e => match e with
        | .arr #[.str "set", n] => (getNat? n).map Tangelo.AnsatzUpdate.Call.set
        | .arr #[.str "update", n] => (getNat? n).map Tangelo.AnsatzUpdate.Call.update
        | _ => none)
    | _ => []
  let o := Tangelo.AnsatzUpdate.Obj.run (fun (_ : Nat) θ => θ) ⟨0, 0⟩ calls
  Json.mkObj [("var", Json.num o.var), ("circ", Json.num o.circ)]

/-- {"op":"oniom_distribute","geom":[[x,y,z],..],"frags":[{"sel":null|n|[..],"links":[[staying,leaving,num],..]},..]}
    → {"frags":[[[x,y,z],..],..], "independent":[..same, from fragGeom..]}  or {"r":"ERR:index"} -/
def oniomDistributeOp (j : Json) : Json :=
  let atomOf := fun (a : Json) => match getIntList? a with
    | some [x, y, z] => some ((x, y, z) : Tangelo.Decomp.Atom)
    | _ => none
  let fragOf := fun (f : Json) => do
    let sel ← match f.getObjValD "sel" with
      | .null => some Tangelo.Decomp.Sel.all
      | .arr a => (getNatList? (.arr a)).map Tangelo.Decomp.Sel.idx
      | n => (getNat? n).map Tangelo.Decomp.Sel.first
    let links ← match f.getObjValD "links" with
      | .arr ls => ls.toList.mapM (fun l => match getIntList? l with
          | some [s, v, k] => if s < 0 || v < 0 then none else some (⟨s.toNat, v.toNat, k⟩ : Tangelo.Decomp.LinkSpec)
          | _ => none)
      | _ => some []
    pure (⟨sel, links⟩ : Tangelo.Decomp.FragSpec)
  match j.getObjValD "geom", j.getObjValD "frags" with
  | .arr g, .arr fs =>
    match g.toList.mapM atomOf, fs.toList.mapM fragOf with
    | some geom, some frags =>
      let enc := fun (gs : List (List Tangelo.Decomp.Atom)) =>
        Json.arr (gs.map (fun g => Json.arr (g.map (fun (a : Tangelo.Decomp.Atom) => Json.arr #[Json.num a.1, Json.num a.2.1, Json.num a.2.2])).toArray)).toArray
      match Tangelo.Decomp.distribute geom frags with
      | some out =>
        Json.mkObj [("frags", enc out), ("independent", match frags.mapM (Tangelo.Decomp.fragGeom geom) with | some o => enc o | none => Json.null)]
      | none => Json.mkObj [("r", Json.str "ERR:index")]
    | _, _ => jErr "oniom_distribute: bad arguments"
  | _, _ => jErr "oniom_distribute: bad arguments"

end Tangelo.Driver

namespace Tangelo.Driver
open Tangelo.Codec Tangelo.Export Lean

def ionqRecToJson (r : IonqRec) : Json := Json.mkObj ([("gate", Json.str r.gate), ("targets", natListToJson r.targets)] ++
  (match r.controls with | some c => [("controls", natListToJson c)] | none => []) ++
  (match r.rotation with | some p => [("rotation", paramToJson p)] | none => []))

def ionqRecOfJson? (j : Json) : Option IonqRec := do
  let g ← match j.getObjValD "gate" with | .str s => some s | _ => none
  let t ← getNatList? (j.getObjValD "targets")
  let c := match j.getObjValD "controls" with | .null => none | jc => getNatList? jc
  let r := match j.getObjVal? "rotation" with | .ok jr => paramOfJson? jr | .error _ => none
  pure ⟨g, t, c, r⟩

def pqLineToJson (l : PqLine) : Json := Json.mkObj [("name", Json.str l.name), ("qubits", natListToJson l.qubits),
  ("param", match l.param with | some p => paramToJson p | none => Json.null)]

def pqLineOfJson? (j : Json) : Option PqLine := do
  let n ← match j.getObjValD "name" with | .str s => some s | _ => none
  let q ← getNatList? (j.getObjValD "qubits")
  let p := match j.getObjValD "param" with | .null => none | jp => paramOfJson? jp
  pure ⟨n, p, q⟩

/-- {"op":"export","fmt":"ionq"|"projectq","gates":[..],"n":fixed|null} → records per gate (null = refused), the gates
    read back, and - at the level of the whole circuit - the written register ("qubits" / number of Allocate lines) and
    the width of the circuit the reader rebuilds -/
def exportOp (j : Json) : Json :=
  match gatesOfJson! (j.getObjValD "gates") with
  | .error e => jErr e
  | .ok gs =>
    let circ := Circuit.ofGates gs (getNat? (j.getObjValD "n"))
    let natOpt := fun (o : Option Nat) => match o with | some k => Json.num (Int.ofNat k) | none => Json.null
    if getStr j "fmt" == "ionq" then
      let recs := gs.map ionqWrite
      let whole := match circ with
        | .ok c => match ionqWriteCirc c with
          | some jc => (some jc.qubits, (ionqReadCirc jc).toOption.map Circuit.width)
          | none => (none, none)
        | .error _ => (none, none)
      Json.mkObj [("records", Json.arr (recs.map (fun r => match r with | some x => ionqRecToJson x | none => Json.null)).toArray),
                  ("back", Json.arr (recs.map (fun r => match r.bind ionqRead with | some g => gateToJson g | none => Json.null)).toArray),
                  ("qubits", natOpt whole.1), ("back_width", natOpt whole.2)]
    else
      let ls := gs.map pqWrite
      let whole := match circ with
        | .ok c => match pqWriteCirc c with
          | some pc => (some pc.allocs.length, (pqReadCirc pc).toOption.map Circuit.width)
          | none => (none, none)
        | .error _ => (none, none)
      Json.mkObj [("records", Json.arr (ls.map (fun r => match r with | some x => pqLineToJson x | none => Json.null)).toArray),
                  ("back", Json.arr (ls.map (fun r => match r.bind pqRead with | some g => gateToJson g | none => Json.null)).toArray),
                  ("qubits", natOpt whole.1), ("back_width", natOpt whole.2)]

end Tangelo.Driver

namespace Tangelo.Driver
open Tangelo.Codec Tangelo.Hist Lean

def histOfJson? (j : Json) : Option Hist := match j with
  | .arr a => a.toList.mapM (fun (e : Json) => match e with
      | .arr #[.str k, v] => (ratOfJson? v).map (fun r => (bitsOfStr k, r))
      | _ => none)
  | _ => none

def histToJson (h : Hist) : Json := Json.arr (h.map (fun (k, v) => Json.arr #[bitsJ k, ratToJson v])).toArray

/-- {"op":"hist","h":[["010","3"],..],"steps":[{"k":"remove","idx":[..]}|{"k":"post","exp":[[q,b],..]}|{"k":"reverse"}|{"k":"agg","other":[..]}],
     "mask":[..]} → histogram, total and signed sum after every step -/
def histOp (j : Json) : Json :=
  match histOfJson? (j.getObjValD "h") with
  | none => jErr "hist: bad histogram"
  | some h0 =>
    let steps := match j.getObjValD "steps" with | .arr a => a.toList | _ => []
    let out := steps.foldl (fun (acc : Hist × List Json) (st : Json) =>
      let h := acc.1
      let h' : Hist := match getStr st "k" with
        | "remove" => removeIdx ((getNatList? (st.getObjValD "idx")).getD []) h
        | "reverse" => reverseKeys h
        | "post" =>
          let exp := match st.getObjValD "exp" with
            | .arr a => a.toList.filterMap (fun (e : Json) => match e with
                | .arr #[q, .str b] => (getNat? q).map (fun n => (n, b == "1"))
                | _ => none)
            | _ => []
          postSelect exp h
        | "agg" => aggregate [h, (histOfJson? (st.getObjValD "other")).getD []]
        | _ => h
      (h', acc.2 ++ [Json.mkObj [("h", histToJson h'), ("total", ratToJson (total h'))]])) (h0, [])
    Json.mkObj [("steps", Json.arr out.2.toArray)]

def groupsOfJson? (j : Json) : Option (List (Key × List (Key × Cyc))) := match j with
  | .arr a => a.toList.mapM (fun (g : Json) => match g with
      | .arr #[b, ts] => do let b' ← keyOfJson? b; let ts' ← symTermsOfJson? ts; pure (b', ts')
      | _ => none)
  | _ => none

/-- {"op":"grouping","terms":[[key,cyc]..],"groups":[[basisKey,[[key,cyc]..]]..]} -/
def groupingOp (j : Json) : Json :=
  match symTermsOfJson? (j.getObjValD "terms"), groupsOfJson? (j.getObjValD "groups") with
  | some op, some gs => Json.mkObj [("ok", Json.bool (checkGrouping op gs))]
  | _, _ => jErr "grouping: bad arguments"

end Tangelo.Driver

namespace Tangelo.Driver
open Tangelo.Codec Tangelo.Noise Lean

def rawParamsOfJson (j : Json) : RawParams := match j with
  | .arr a => match a.toList.mapM ratOfJson? with | some l => .list l | none => .other
  | .str s => match parseRat? s with | some r => .float r | none => .other
  | _ => .other

def nopToJson : NOp → Json
  | .gate g => Json.mkObj [("k", Json.str "gate"), ("g", gateToJson g)]
  | .pauliCh a b c q => Json.mkObj [("k", Json.str "pauli"), ("p", Json.arr #[ratToJson a, ratToJson b, ratToJson c]), ("q", natListToJson [q])]
  | .depolCh r qs => Json.mkObj [("k", Json.str "depol"), ("rate", ratToJson r), ("q", natListToJson qs)]

/-- {"op":"noise","errors":[[gate,type,params]..],"gates":[..],"n":w,"dm":bool}
    → validation outcome per error, operation list, exact density matrix (model index order) -/
def noiseOp (j : Json) : Json :=
  let errs := match j.getObjValD "errors" with | .arr a => a.toList | _ => []
  let (model, flags) := errs.foldl (fun (acc : Model × List Json) (e : Json) =>
    match e with
    | .arr #[.str g, .str ty, ps] =>
      (match addError acc.1 g ty (rawParamsOfJson ps) with
       | some m' => (m', acc.2 ++ [Json.str "ok"])
       | none => (acc.1, acc.2 ++ [Json.str "ERR:value"]))
    | _ => (acc.1, acc.2 ++ [Json.str "ERR:value"])) ([], [])
  match gatesOfJson! (j.getObjValD "gates"), getNat? (j.getObjValD "n") with
  | .ok gs, some n =>
    let ops := noisyOps model gs
    let dm : Json := if getBool j "dm" then
        (match runNoisy n ops with | some v => svToJson v | none => Json.str "ERR:unsupported") else Json.null
    Json.mkObj [("added", Json.arr flags.toArray), ("ops", Json.arr (ops.map nopToJson).toArray), ("dm", dm)]
  | _, _ => jErr "noise: bad arguments"

end Tangelo.Driver

namespace Tangelo.Driver
open Tangelo.Codec Lean

/-- {"op":"jw","terms":[[key,cyc]..],"n":n,"utd":bool} → qubit terms -/
def jwOp (j : Json) : Json :=
  match symTermsOfJson? (j.getObjValD "terms"), getNat? (j.getObjValD "n") with
  | some ts, some n =>
    let out := JW.jw n (getBool j "utd") ts
    Json.mkObj [("terms", Json.arr (out.map (fun (k, c) => Json.arr #[keyToJson k, cycToJson c])).toArray)]
  | _, _ => jErr "jw: bad arguments"

end Tangelo.Driver

namespace Tangelo.Driver
open Tangelo.Codec Lean

/-- {"op":"refstate","n":n,"ne":k,"spin":null|s,"utd":bool} → occupation vector, JW-mapped vector, gates -/
def refStateOp (j : Json) : Json :=
  match getNat? (j.getObjValD "n"), getInt? (j.getObjValD "ne") with
  | some n, some ne =>
    let spin := getInt? (j.getObjValD "spin")
    let occ := RefState.occupation n ne spin
    let v := RefState.mappedJW occ (getBool j "utd")
    Json.mkObj [("occ", bitsJ occ), ("jw", bitsJ v), ("gates", gatesJ (RefState.toGates v))]
  | _, _ => jErr "refstate: bad arguments"

end Tangelo.Driver

namespace Tangelo.Driver
open Tangelo.Codec Lean

/-- {"op":"symlists","n_orbs":k,"utd":b} → number / spinz term lists as [[mode, "coef"],..] -/
def symListsOp (j : Json) : Json :=
  match getNat? (j.getObjValD "n_orbs") with
  | some k =>
    let utd := getBool j "utd"
    let f := fun (l : List (Nat × Rat)) => Json.arr (l.map (fun (p, c) => Json.arr #[natJ p, Json.str (if c.den == 1 then toString c.num else s!"{c.num}/{c.den}")])).toArray
    Json.mkObj [("number", f (Symmetry.numberList k utd)), ("spinz", f (Symmetry.spinzList k utd))]
  | none => jErr "symlists"

end Tangelo.Driver

namespace Tangelo.Driver
open Tangelo.Codec Lean

/-- {"op":"vqe_machine","h0":id,"hist":[{"k":"energy","theta":t}|{"k":"expect","op":id,"theta":t,"fail":"none|invalid|update|eval"}]}
    → out: [[kind, evaluated operator|null, target after, params after|null, log length]] -/
def vqeMachineOp (j : Json) : Json :=
  match getInt? (j.getObjValD "h0"), j.getObjValD "hist" with
  | some h0, .arr reqs =>
    let parse : Json → Option Vqe.Req := fun r =>
      match getStr r "k", getNat? (r.getObjValD "theta") with
      | "energy", some t => some (.energy t)
      | "expect", some t =>
        match getInt? (r.getObjValD "op"), getStr r "fail" with
        | some o, "none" => some (.expect o t .none)
        | some o, "invalid" => some (.expect o t .invalid)
        | some o, "update" => some (.expect o t .update)
        | some o, "eval" => some (.expect o t .eval)
        | _, _ => none
      | _, _ => none
    match reqs.toList.mapM parse with
    | some rs =>
      let tr := Vqe.trace { ham := h0, params := none, nLog := 0 } rs
      let optN : Option Nat → Json := fun o => match o with | some n => natJ n | none => Json.null
      let row : Vqe.Out × Vqe.St → Json := fun (o, s) =>
        let (k, ev) := match o with
          | .energy h _ => ("energy", intJ h)
          | .expect op _ => ("expect", intJ op)
          | .raised => ("raised", Json.null)
        Json.arr #[Json.str k, ev, intJ s.ham, optN s.params, natJ s.nLog]
      Json.mkObj [("out", Json.arr (tr.map row).toArray)]
    | none => jErr "vqe_machine: bad request"
  | _, _ => jErr "vqe_machine: bad arguments"

end Tangelo.Driver

namespace Tangelo.Driver
open Tangelo.Codec Lean Tangelo.Reduce

def gnameOf : String → GName
  | "X" => .X | "Y" => .Y | "Z" => .Z | "RX" => .RX | "RY" => .RY | "RZ" => .RZ | _ => .other

/-- {"op":"trim_classify","qubits":[[{"n":name,"flip":b},..],..]} → {"states":[0|1|null,..]} -/
def trimClassifyOp (j : Json) : Json :=
  match j.getObjValD "qubits" with
  | .arr qs =>
    let one : Json → Json := fun q =>
      match q with
      | .arr gs =>
        match classify (gs.toList.map (fun g => { name := gnameOf (getStr g "n"), flip := getBool g "flip" })) with
        | some b => natJ (if b then 1 else 0)
        | none => Json.null
      | _ => Json.null
    Json.mkObj [("states", Json.arr (qs.map one))]
  | _ => jErr "trim_classify"

/-- {"op":"trim_terms","words":["XIZ",..],"states":[[q,b],..],"reindex":bool} → {"out":[[word, sign],..]} (sign 0 = vanishes) -/
def trimTermsOp (j : Json) : Json :=
  match j.getObjValD "words", j.getObjValD "states" with
  | .arr ws, .arr ss =>
    let states : List (Nat × Bool) := ss.toList.filterMap (fun s =>
      match s with
      | .arr #[q, b] => match getNat? q, getNat? b with
        | some q, some b => some (q, b != 0)
        | _, _ => none
      | _ => none)
    let reindex := getBool j "reindex"
    let one : Json → Json := fun w =>
      match w with
      | .str s =>
        match s.toList.mapM Letter.ofChar with
        | some term =>
          match trimTerm term states reindex with
          | some (sg, new) => Json.arr #[Json.str (String.ofList (new.map Letter.toChar)), intJ sg]
          | none => Json.arr #[Json.str "", intJ 0]
        | none => Json.null
      | _ => Json.null
    Json.mkObj [("out", Json.arr (ws.map one))]
  | _, _ => jErr "trim_terms"

/-- {"op":"frob","coefs":["p/q",..] (sorted by magnitude),"eps":"p/q","n":n} → {"kept":[positions]} -/
def frobOp (j : Json) : Json :=
  match j.getObjValD "coefs", getNat? (j.getObjValD "n") with
  | .arr cs, some n =>
    let parse : Json → Option Rat := fun c => match c with | .str s => parseRat? s | _ => none
    match cs.toList.mapM parse, parse (j.getObjValD "eps") with
    | some coefs, some eps =>
      let flags := frobKeep (eps * eps / (2 : Rat) ^ n) 0 coefs
      let kept := (flags.zipIdx.filter (fun p => p.1)).map (fun p => natJ p.2)
      Json.mkObj [("kept", Json.arr kept.toArray)]
    | _, _ => jErr "frob: bad numbers"
  | _, _ => jErr "frob"

end Tangelo.Driver

namespace Tangelo.Driver
open Tangelo.Codec Lean Tangelo.Qft

/-- {"op":"qft","qubits":[..],"inverse":b,"swap":b} → {"gates":[["H",t]|["CP",c,t,±j]|["SWAP",a,b]]} (angle ±π/2^j) -/
def qftOp (j : Json) : Json :=
  match getNatList? (j.getObjValD "qubits") with
  | some qs =>
    let gs : List (QG Int) := qft (fun k => (k : Int)) (fun a => -a) qs (getBool j "inverse") (getBool j "swap")
    let enc : QG Int → Json := fun g => match g with
      | .h t => Json.arr #[Json.str "H", natJ t]
      | .cp c t a => Json.arr #[Json.str "CP", natJ c, natJ t, intJ a]
      | .swap a b => Json.arr #[Json.str "SWAP", natJ a, natJ b]
    Json.mkObj [("gates", Json.arr (gs.map enc).toArray)]
  | none => jErr "qft"

/-- {"op":"iqpe","n":n,"m":m,"shots":k} → {"records":["0110",..]} (null when an outcome is not certain) -/
def iqpeOp (j : Json) : Json :=
  match getNat? (j.getObjValD "n"), getNat? (j.getObjValD "m"), getNat? (j.getObjValD "shots") with
  | some n, some m, some k =>
    match runShots Ctl.finalize m k (Ctl.init n) with
    | some rs => Json.mkObj [("records", Json.arr (rs.map (fun r => Json.str (String.ofList (r.map (fun b => if b then '1' else '0'))))).toArray)]
    | none => Json.mkObj [("records", Json.null)]
  | _, _, _ => jErr "iqpe"

/-- {"op":"binfrac","bits":"0101"} → {"value":"p/q"} -/
def binFracOp (j : Json) : Json :=
  let bs := (getStr j "bits").toList.map (fun c => c == '1')
  Json.mkObj [("value", Json.str (let r := binFrac bs; if r.den == 1 then toString r.num else s!"{r.num}/{r.den}"))]

end Tangelo.Driver

namespace Tangelo.Driver
open Tangelo.Codec Lean Tangelo.Rdm

def matOfJson (j : Json) : Nat → Nat → Int := fun a b =>
  match j with
  | .arr rows => match rows[a]? with
    | some (.arr r) => match r[b]? with
      | some v => (getInt? v).getD 0
      | none => 0
    | _ => 0
  | _ => 0

def matToJson (n : Nat) (f : Nat → Nat → Int) : Json :=
  Json.arr ((List.range n).map (fun p => Json.arr ((List.range n).map (fun q => intJ (f p q))).toArray)).toArray

/-- {"op":"pad1","n_mos":n,"n_occ":k,"active":[..],"one":[[..]]} → {"out":[[..]]} -/
def pad1Op (j : Json) : Json :=
  match getNat? (j.getObjValD "n_mos"), getNat? (j.getObjValD "n_occ"), getNatList? (j.getObjValD "active") with
  | some n, some k, some act => Json.mkObj [("out", matToJson n (pad1 k act (matOfJson (j.getObjValD "one"))))]
  | _, _, _ => jErr "pad1"

/-- {"op":"spinsum1","t":[[..]]} → {"out":[[..]]} -/
def spinSum1Op (j : Json) : Json :=
  match j.getObjValD "t" with
  | .arr rows => Json.mkObj [("out", matToJson (rows.size / 2) (spinSumLoop rows.size (matOfJson (j.getObjValD "t"))))]
  | _ => jErr "spinsum1"

end Tangelo.Driver

namespace Tangelo.Driver
open Tangelo.Codec Lean Tangelo.Frozen

/-- {"op":"partition","occ":[2,2,1,0],"spec":null|k|[..]} → {"out":["ok",ao,fo,av,fv] | ["err"]} -/
def partitionOp (j : Json) : Json :=
  match getNatList? (j.getObjValD "occ") with
  | some occ =>
    let spec? : Option Spec := match j.getObjValD "spec" with
      | .null => some .none
      | .arr a => (getIntList? (.arr a)).map Spec.list
      | v => (getInt? v).map Spec.int
    match spec? with
    | some spec =>
      let nl := fun (l : List Nat) => Json.arr (l.map natJ).toArray
      match partition occ spec with
      | some p => Json.mkObj [("out", Json.arr #[Json.str "ok", nl p.activeOcc, nl p.frozenOcc, nl p.activeVirt, nl p.frozenVirt])]
      | none => Json.mkObj [("out", Json.arr #[Json.str "err"])]
    | none => jErr "partition: spec"
  | none => jErr "partition"

end Tangelo.Driver

namespace Tangelo.Driver
open Tangelo.Codec Lean Tangelo.Decomp

/-- {"op":"link","a":[x,y,z],"b":[..],"f":"p/q"} (rationals as strings) → {"p":[..]} -/
def linkOp (j : Json) : Json :=
  let vec : Json → Option (Rat × Rat × Rat) := fun v => match v with
    | .arr #[x, y, z] => match ratOfJson? x, ratOfJson? y, ratOfJson? z with
      | some a, some b, some c => some (a, b, c)
      | _, _, _ => none
    | _ => none
  match vec (j.getObjValD "a"), vec (j.getObjValD "b"), ratOfJson? (j.getObjValD "f") with
  | some a, some b, some f =>
    let p := place a b f
    let s : Rat → Json := fun r => Json.str (if r.den == 1 then toString r.num else s!"{r.num}/{r.den}")
    Json.mkObj [("p", Json.arr #[s p.1, s p.2.1, s p.2.2])]
  | _, _, _ => jErr "link"

/-- {"op":"dmet_reorder","frags":[[..],..]} → {"flat":[..],"sizes":[..]} -/
def dmetReorderOp (j : Json) : Json :=
  match j.getObjValD "frags" with
  | .arr fs =>
    match fs.toList.mapM getNatList? with
    | some frags =>
      let (flat, sizes) := reorder frags
      Json.mkObj [("flat", Json.arr (flat.map natJ).toArray), ("sizes", Json.arr (sizes.map natJ).toArray)]
    | none => jErr "dmet_reorder"
  | _ => jErr "dmet_reorder"

/-- {"op":"defaults_history","defaults":[[k,v]..],"history":[[[k,v]..]..],"opts":[[k,v]..]} → effective options of the last
    call with per-call defaults (values are opaque JSON, compared as strings) -/
def defaultsHistoryOp (j : Json) : Json :=
  let dictOf := fun (x : Json) => match x with
    | .arr a => a.toList.filterMap (fun e => match e with
        | .arr #[.str k, v] => some (k, v.compress)
        | _ => none)
    | _ => []
  let defaults := dictOf (j.getObjValD "defaults")
  let history := match j.getObjValD "history" with | .arr a => a.toList.map dictOf | _ => []
  let eff := Tangelo.Defaults.afterHistoryFresh defaults history (dictOf (j.getObjValD "opts"))
  Json.mkObj [("effective", Json.arr (eff.map (fun (k, v) => Json.arr #[Json.str k, Json.str v])).toArray)]

end Tangelo.Driver
