import Driver.Linq
/-! Line-protocol handlers for circuit generators (C06, C20). -/
open Lean
namespace Tangelo.Driver
open Tangelo.Codec

def pauliOfStr : String → Option Pauli
  | "X" => some .X | "Y" => some .Y | "Z" => some .Z | _ => none

def pwordOfJson? (j : Json) : Option PWord := match j with
  | .arr a => a.toList.mapM (fun (f : Json) => match f with
      | .arr #[i, .str p] => do
          let n ← getNat? i
          let q ← pauliOfStr p
          pure (n, q)
      | _ => none)
  | _ => none

def controlOfJson (j : Json) : Option (List Nat) := match j with
  | .null => none
  | jc => getNatList? jc

def coefDecide : PauliExp.CoefDecide :=
  ⟨fun a => a.toFloat >= 0.0, fun a => Float.abs a.toFloat > 1e-10⟩

def gatesJ (gs : List Gate) : Json := Json.arr (gs.map gateToJson).toArray

/-- {"op":"exp_pauliword","w":[[0,"X"],..],"coef":ang,"var":bool,"control":null|[..]} -/
def expPauliwordOp (j : Json) : Json :=
  match pwordOfJson? (j.getObjValD "w"), angOfJson? (j.getObjValD "coef") with
  | some w, some γ =>
    match PauliExp.gates w γ (coefDecide.nonneg γ) (getBool j "var") (controlOfJson (j.getObjValD "control")) with
    | some gs => Json.mkObj [("gates", gatesJ gs)]
    | none => Json.mkObj [("r", Json.str "ERR:index")]
  | _, _ => jErr "exp_pauliword: bad arguments"

def termsOfJson? (j : Json) : Option PauliExp.Terms := match j with
  | .arr a => a.toList.mapM (fun (t : Json) => match t with
      | .arr #[w, c] => do
          let w' ← pwordOfJson? w
          let c' ← angOfJson? c
          pure (w', c')
      | _ => none)
  | _ => none

/-- {"op":"exp_qubitop","terms":[[w,ang],..],"times":[int per term],"order":1|2,"var":b,"control":..,"steps":n}
    `times` already holds time/steps per term (an integer); the circuit is repeated `steps` times. -/
def expQubitOp (j : Json) : Json :=
  match termsOfJson? (j.getObjValD "terms"), getIntList? (j.getObjValD "times"), getNat? (j.getObjValD "order") with
  | some ts, some times, some order =>
    if times.length != ts.length then jErr "times length" else
    let pre : PauliExp.Terms := (ts.zip times).map (fun ((w, c), t) => (w, Ang.smulInt t c))
    match PauliExp.decompose pre order 1 with
    | none => Json.mkObj [("r", Json.str "ERR:inexact")]
    | some timed =>
      match PauliExp.emit coefDecide timed (getBool j "var") (controlOfJson (j.getObjValD "control")) with
      | none => Json.mkObj [("r", Json.str "ERR:index")]
      | some out =>
        let steps := (getNat? (j.getObjValD "steps")).getD 1
        Json.mkObj [("gates", gatesJ (List.flatten (List.replicate steps out.gates))),
                    ("phase", angToJson (Ang.smulInt steps out.phaseAngle))]
  | _, _, _ => jErr "exp_qubitop: bad arguments"

end Tangelo.Driver
