import Driver.Linq
import Driver.Gen
import Driver.Meas
import Driver.Ops
open Lean Tangelo Tangelo.Driver Tangelo.Codec

structure DState where
  store : Store := []
  ostore : OStore := []

def handle (st : DState) (j : Json) : DState × Json :=
  match j.getObjValD "op" with
  | .str "reset" => ({ st with store := [] }, Json.mkObj [("r", Json.null)])
  | .str "sim" => (st, simOp j)
  | .str "semeq" => (st, semEqOp j)
  | .str "backend_sim" => (st, backendSimOp j)
  | .str "branch" => (st, branchOp j)
  | .str "mf" => (st, multiformOp j)
  | .str "export" => (st, exportOp j)
  | .str "hist" => (st, histOp j)
  | .str "noise" => (st, noiseOp j)
  | .str "jw" => (st, jwOp j)
  | .str "refstate" => (st, refStateOp j)
  | .str "symlists" => (st, symListsOp j)
  | .str "vqe_machine" => (st, vqeMachineOp j)
  | .str "trim_classify" => (st, trimClassifyOp j)
  | .str "trim_terms" => (st, trimTermsOp j)
  | .str "frob" => (st, frobOp j)
  | .str "qft" => (st, qftOp j)
  | .str "link" => (st, linkOp j)
  | .str "dmet_reorder" => (st, dmetReorderOp j)
  | .str "partition" => (st, partitionOp j)
  | .str "defaults_history" => (st, defaultsHistoryOp j)
  | .str "ansatz_calls" => (st, ansatzCallsOp j)
  | .str "oniom_distribute" => (st, oniomDistributeOp j)
  | .str "pad1" => (st, pad1Op j)
  | .str "spinsum1" => (st, spinSum1Op j)
  | .str "iqpe" => (st, iqpeOp j)
  | .str "binfrac" => (st, binFracOp j)
  | .str "grouping" => (st, groupingOp j)
  | .str "exp_pauliword" => (st, expPauliwordOp j)
  | .str "exp_qubitop" => (st, expQubitOp j)
  | .str "atoms" =>
    let unit := fun (i : Nat) => (Ang.ofList ((0 : Int) :: (List.range 6).map (fun k => if k == i then (1 : Int) else 0))).getD 0
    let es : List Json := (List.range 6).map (fun i => cycToJson (Ang.e (unit i)))
    (st, Json.mkObj [("e", Json.arr es.toArray),
        ("f", Json.arr (Ang.atomFloats.map (fun f => Json.str (toString f))).toArray)])
  | .str op =>
    if op.startsWith "o_" then
      let (s', r) := opStoreOp st.ostore j
      ({ st with ostore := s' }, r)
    else
    let (s', r) := circOp st.store j
    ({ st with store := s' }, r)
  | _ => (st, jErr "no op")

partial def loop (h : IO.FS.Stream) (out : IO.FS.Stream) (st : DState) : IO Unit := do
  let line ← h.getLine
  if line.isEmpty then return ()
  let l := line.trimAscii.toString
  if l.isEmpty then loop h out st
  else
    match Json.parse l with
    | .error e =>
      out.putStrLn (jErr s!"parse: {e}").compress
      out.flush
      loop h out st
    | .ok j =>
      let (st', r) := handle st j
      out.putStrLn r.compress
      out.flush
      loop h out st'

def main : IO Unit := do
  loop (← IO.getStdin) (← IO.getStdout) {}
