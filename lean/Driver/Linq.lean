import Driver.Codec
/-! Line-protocol handlers for the circuit family (C01, C09, C11). -/
open Lean
namespace Tangelo.Driver
open Tangelo.Codec

def storeToJson (s : Store) : Json := Json.mkObj (s.map (fun (k, c) => (k, circuitToJson c)))

def errJson (e : Err) : Json := Json.str e.toStr

/-- decision procedures; `bias` resolves decisions whose margin is below 1e-9 -/
def eqvB (bias : Bool) (g h : Gate) : Bool :=
  if Gate.eqvMargin g h < 1e-9 then
    let bothCnot := (g.name == "CNOT" || g.name == "CX") && (h.name == "CNOT" || h.name == "CX")
    (bothCnot || g.name == h.name) && g.target == h.target && g.control == h.control && g.isVar == h.isVar && bias
  else Gate.eqv g h

def isSmallB (bias : Bool) (thr : Float) (g : Gate) : Bool :=
  match g.param with
  | .ang a => let (b, m) := Circuit.smallTest g.name a thr; if m < 1e-9 then bias else b
  | _ => false

def decideB (bias : Bool) : Decide := ⟨eqvB bias, isSmallB bias⟩

def getStr (j : Json) (k : String) : String := match j.getObjValD k with | .str s => s | _ => ""
def getBool (j : Json) (k : String) : Bool := match j.getObjValD k with | .bool b => b | _ => false
def getFloat (j : Json) (k : String) (d : Float) : Float := match j.getObjValD k with
  | .num n => n.toFloat
  | _ => d

def rawGateOfJson (j : Json) : Except String RawGate := do
  let name : Option String := match j.getObjValD "n" with | .str s => some s | _ => none
  let t ← match rawListOfJson? (j.getObjValD "t") with | some t => pure t | none => throw "bad target"
  let c ← match j.getObjValD "c" with
    | .null => pure none
    | jc => match rawListOfJson? jc with | some c => pure (some c) | none => throw "bad control"
  let p ← match paramOfJson? (j.getObjValD "p") with | some p => pure p | none => throw "bad param"
  let v := match j.getObjValD "v" with | .bool b => b | _ => false
  pure ⟨name, t, c, p, v⟩

def copOfJson (j : Json) : Except String COp := do
  let dst := getStr j "dst"
  let a := getStr j "a"
  let thr := getFloat j "thr" 1e-3
  let rq := getBool j "rq"
  match getStr j "op" with
  | "new" => do
      let gs ← gatesOfJson! (j.getObjValD "gates")
      pure (.new dst gs (getNat? (j.getObjValD "n")))
  | "add_gate" => do
      let g ← rawGateOfJson (j.getObjValD "gate")
      pure (.addGate dst g)
  | "add" => pure (.add dst a (getStr j "b"))
  | "mul" => pure (.mul dst a ((getInt? (j.getObjValD "n")).getD 0))
  | "copy" => pure (.copy dst a)
  | "inverse" => pure (.inverse dst a)
  | "trim" => pure (.trim dst)
  | "reindex" => pure (.reindex dst ((getNatList? (j.getObjValD "idx")).getD []))
  | "split" => pure (.split dst a (getBool j "trim"))
  | "stack" =>
      let ids := match j.getObjValD "ids" with
        | .arr arr => arr.toList.filterMap (fun (x : Json) => match x with | Json.str s => some s | _ => none)
        | _ => []
      pure (.stack dst ids)
  | "rsr" => pure (.rsr dst a thr rq)
  | "rrg" => pure (.rrg dst a rq)
  | "merge" => pure (.merge dst a)
  | "simplify" => pure (.simplify dst a ((getNat? (j.getObjValD "cycles")).getD 100) thr rq)
  | "depth" => pure (.depth a)
  | "eq" => pure (.eq a (getStr j "b"))
  | "entangled" => pure (.entangled a)
  | "noop" => pure .noop
  | o => throw s!"unknown op {o}"

def resToJson : Res → Json
  | .unit => Json.null
  | .nat n => natJ n
  | .bool b => Json.bool b
  | .sets l => Json.arr (l.map natListToJson).toArray
  | .err e => errJson e

/-- one circuit-history operation (C11 / C09): run under both biases, `stable` iff same outcome -/
def circOp (s : Store) (j : Json) : Store × Json :=
  match copOfJson j with
  | .error e => (s, jErr e)
  | .ok op =>
    let (s1, r1) := step (decideB true) s op
    let (s2, r2) := step (decideB false) s op
    let extra : List (String × Json) := match op with
      | .entangled a => match need s a with
        | .ok ca => [("groups_ok", Json.bool (Circuit.groupsOkB ca.entangledIndices ca.gates))]
        | .error _ => []
      | _ => []
    let j1 := Json.mkObj ([("r", resToJson r1), ("store", storeToJson s1)] ++ extra)
    let j2 := Json.mkObj [("r", resToJson r2), ("store", storeToJson s2)]
    (s1, j1.setObjVal! "stable" (Json.bool (j1.compress == j2.compress)))

/-- exact simulation of a gate list: {"op":"sim","gates":[..],"n":w,"init":null|[..]} -/
def simOp (j : Json) : Json :=
  match gatesOfJson! (j.getObjValD "gates") with
  | .error e => jErr e
  | .ok gs =>
    match gatesToOps gs, getNat? (j.getObjValD "n") with
    | some ops, some n =>
      let init : SV := match j.getObjValD "init" with
        | .null => basisSV n 0
        | ji => (svOfJson? ji).getD (basisSV n 0)
      Json.mkObj [("sv", svToJson (simOps n ops init))]
    | none, _ => Json.mkObj [("r", Json.str "ERR:unsupported")]
    | _, none => jErr "n"

def orderOfJson (j : Json) : Order := match j with | .str "msq_first" => .msqFirst | _ => .lsqFirst

def bitsJ (l : List Bool) : Json := Json.str (bitsToStr l)

/-- backend-level exact simulation: {"op":"backend_sim","gates":[..],"n":w,"order":"lsq_first","init":null|[..],"thr":1e-10}
    → statevector in the backend's order and exact frequencies -/
def backendSimOp (j : Json) : Json :=
  match gatesOfJson! (j.getObjValD "gates"), getNat? (j.getObjValD "n") with
  | .ok gs, some n =>
    match gatesToOps gs with
    | none => Json.mkObj [("r", Json.str "ERR:unsupported")]
    | some ops =>
      let order := orderOfJson (j.getObjValD "order")
      let init := match j.getObjValD "init" with | .null => none | ji => svOfJson? ji
      let sv := simulateExact order n ops init
      let (fr, margin) := frequencies order n sv (getFloat j "thr" 1e-10)
      Json.mkObj [("sv", svToJson sv), ("freqs", Json.arr (fr.map (fun (k, p) => Json.arr #[bitsJ k, cycToJson p])).toArray),
                  ("margin", Json.str (toString margin)), ("stable", Json.bool (margin > 1e-13))]
  | _, _ => jErr "backend_sim: bad arguments"

/-- are two gate lists the same operator on n qubits up to one global phase?
    Columns are compared on every basis state: U_b e_k = λ U_a e_k with one common λ. -/
def semEqOp (j : Json) : Json :=
  match gatesOfJson! (j.getObjValD "a"), gatesOfJson! (j.getObjValD "b"), getNat? (j.getObjValD "n") with
  | .ok ga, .ok gb, some n =>
    match gatesToOps ga, gatesToOps gb with
    | some oa, some ob =>
      let cols := (List.range (2 ^ n)).map (fun k => (simOps n oa (basisSV n k), simOps n ob (basisSV n k)))
      -- ⟨a_k | b_k⟩ must be one and the same unit λ for all k and b_k = λ a_k
      let inner := fun (a b : SV) => (a.zip b).foldl (fun acc (x, y) => acc + Cyc.conj x * y) (0 : Cyc)
      match cols with
      | [] => Json.mkObj [("eq", Json.bool true)]
      | (a0, b0) :: _ =>
        let lam := inner a0 b0
        let ok := cols.all (fun (a, b) => (a.zip b).all (fun (x, y) => y == lam * x))
        Json.mkObj [("eq", Json.bool ok), ("phase", cycToJson lam)]
    | _, _ => Json.mkObj [("r", Json.str "ERR:unsupported")]
  | _, _, _ => jErr "semeq: bad arguments"

end Tangelo.Driver
