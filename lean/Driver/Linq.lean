import Driver.Codec
/-! Line-protocol handlers for the circuit family (C01, C09, C11). -/
open Lean
namespace Tangelo.Driver
open Tangelo.Codec

abbrev Store := List (String × Circuit)

def Store.get? (s : Store) (k : String) : Option Circuit := (s.find? (·.1 == k)).map (·.2)
def Store.put (s : Store) (k : String) (c : Circuit) : Store :=
  if s.any (·.1 == k) then s.map (fun p => if p.1 == k then (k, c) else p) else s ++ [(k, c)]

def storeToJson (s : Store) : Json := Json.mkObj (s.map (fun (k, c) => (k, circuitToJson c)))

def errJson (e : Err) : Json := Json.str e.toStr

/-- decision procedures; `bias` resolves decisions whose margin is below 1e-9 -/
def eqvB (bias : Bool) (g h : Gate) : Bool :=
  if Gate.eqvMargin g h < 1e-9 then
    -- all non-parameter fields must still agree
    let bothCnot := (g.name == "CNOT" || g.name == "CX") && (h.name == "CNOT" || h.name == "CX")
    (bothCnot || g.name == h.name) && g.target == h.target && g.control == h.control && g.isVar == h.isVar && bias
  else Gate.eqv g h

def isSmallB (bias : Bool) (thr : Float) (g : Gate) : Bool :=
  match g.param with
  | .ang a => let (b, m) := Circuit.smallTest g.name a thr; if m < 1e-9 then bias else b
  | _ => false

def getStr (j : Json) (k : String) : String := match j.getObjValD k with | .str s => s | _ => ""
def getBool (j : Json) (k : String) : Bool := match j.getObjValD k with | .bool b => b | _ => false
def getFloat (j : Json) (k : String) (d : Float) : Float := match j.getObjValD k with
  | .num n => n.toFloat
  | _ => d

/-- run a store transition under both biases; report `stable` iff both give the same result -/
def both (f : Bool → Except Err (Store × Json)) (s : Store) : Store × Json :=
  let r1 := f true
  let r2 := f false
  let render := fun (r : Except Err (Store × Json)) => match r with
    | .ok (s', j) => (s', Json.mkObj [("r", j), ("store", storeToJson s')])
    | .error e => (s, Json.mkObj [("r", errJson e), ("store", storeToJson s)])
  let (s1, j1) := render r1
  let (_, j2) := render r2
  (s1, j1.setObjVal! "stable" (Json.bool (j1.compress == j2.compress)))

def needC (s : Store) (k : String) : Except Err Circuit := match s.get? k with
  | some c => .ok c
  | none => .error .other

/-- one circuit-history operation (C11 / C09) -/
def circOp (s : Store) (j : Json) : Store × Json :=
  let op := getStr j "op"
  let dst := getStr j "dst"
  let thr := getFloat j "thr" 1e-3
  let rq := getBool j "rq"
  both (fun bias =>
    let eqv := eqvB bias
    let small := isSmallB bias thr
    match op with
    | "new" => do
        let gs ← match gatesOfJson! (j.getObjValD "gates") with | .ok g => pure g | .error _ => throw Err.other
        let c ← Circuit.ofGates gs (getNat? (j.getObjValD "n"))
        pure (s.put dst c, Json.null)
    | "add_gate" => do
        let c ← needC s dst
        match gateOfJson (j.getObjValD "gate") with
        | .error _ => throw Err.other
        | .ok (.error .value) => throw Err.value
        | .ok (.error .type) => throw Err.type
        | .ok (.ok g) =>
          let c' ← c.addGate g
          pure (s.put dst c', Json.null)
    | "add" => do
        let a ← needC s (getStr j "a"); let b ← needC s (getStr j "b")
        let c ← a.add b
        pure (s.put dst c, Json.null)
    | "mul" => do
        let a ← needC s (getStr j "a")
        let n := (getInt? (j.getObjValD "n")).getD 0
        let c ← a.mul n
        pure (s.put dst c, Json.null)
    | "copy" => do
        let a ← needC s (getStr j "a"); let c ← a.copy
        pure (s.put dst c, Json.null)
    | "inverse" => do
        let a ← needC s (getStr j "a"); let c ← a.inverse
        pure (s.put dst c, Json.null)
    | "trim" => do
        let a ← needC s dst; let c ← a.trimQubits
        pure (s.put dst c, Json.null)
    | "reindex" => do
        let a ← needC s dst
        let idx := (getNatList? (j.getObjValD "idx")).getD []
        let c ← a.reindexQubits idx
        pure (s.put dst c, Json.null)
    | "split" => do
        let a ← needC s (getStr j "a")
        let cs ← a.split (getBool j "trim")
        let s' := cs.zipIdx.foldl (fun st (c, i) => st.put s!"{dst}{i}" c) s
        pure (s', natJ cs.length)
    | "stack" => do
        let ids := match j.getObjValD "ids" with | .arr a => a.toList.filterMap (fun (x : Json) => match x with | Json.str s => some s | _ => none) | _ => []
        let cs ← ids.mapM (needC s)
        let c ← Circuit.stack cs
        pure (s.put dst c, Json.null)
    | "rsr" => do
        let a ← needC s (getStr j "a"); let c ← Circuit.removeSmallWith small a rq
        pure (s.put dst c, Json.null)
    | "rrg" => do
        let a ← needC s (getStr j "a"); let c ← Circuit.removeRedundantWith eqv a rq
        pure (s.put dst c, Json.null)
    | "merge" => do
        let a ← needC s (getStr j "a"); let c ← Circuit.mergeRotationsWith eqv a
        pure (s.put dst c, Json.null)
    | "simplify" => do
        let a ← needC s (getStr j "a")
        let c ← Circuit.simplifyWith eqv small a ((getNat? (j.getObjValD "cycles")).getD 100) rq
        pure (s.put dst c, Json.null)
    | "depth" => do
        let a ← needC s (getStr j "a")
        pure (s, natJ a.depth)
    | "eq" => do
        let a ← needC s (getStr j "a"); let b ← needC s (getStr j "b")
        pure (s, Json.bool (Circuit.eqvWith eqv a b))
    | "entangled" => do
        let a ← needC s (getStr j "a")
        pure (s, Json.arr (a.entangledIndices.map natListToJson).toArray)
    | "noop" => pure (s, Json.null)
    | _ => throw Err.other) s

/-- exact simulation of a gate list: {"op":"sim","gates":[..],"n":w,"init":null|[..]} -/
def simOp (j : Json) : Json :=
  match gatesOfJson! (j.getObjValD "gates") with
  | .error e => jErr e
  | .ok gs =>
    match gatesToOps gs, getNat? (j.getObjValD "n") with
    | some ops, some n =>
      let init : SV := match j.getObjValD "init" with
        | .null => basisSV n 0
        | ji => (svOfJson? ji).getD (basisSV n 0)
      Json.mkObj [("sv", svToJson (simOps n ops init))]
    | none, _ => Json.mkObj [("r", Json.str "ERR:unsupported")]
    | _, none => jErr "n"

/-- are two gate lists the same operator on n qubits up to one global phase?
    Columns are compared on every basis state: U_b e_k = λ U_a e_k with one common λ. -/
def semEqOp (j : Json) : Json :=
  match gatesOfJson! (j.getObjValD "a"), gatesOfJson! (j.getObjValD "b"), getNat? (j.getObjValD "n") with
  | .ok ga, .ok gb, some n =>
    match gatesToOps ga, gatesToOps gb with
    | some oa, some ob =>
      let cols := (List.range (2 ^ n)).map (fun k => (simOps n oa (basisSV n k), simOps n ob (basisSV n k)))
      -- ⟨a_k | b_k⟩ must be one and the same unit λ for all k and b_k = λ a_k
      let inner := fun (a b : SV) => (a.zip b).foldl (fun acc (x, y) => acc + Cyc.conj x * y) (0 : Cyc)
      match cols with
      | [] => Json.mkObj [("eq", Json.bool true)]
      | (a0, b0) :: _ =>
        let lam := inner a0 b0
        let ok := cols.all (fun (a, b) => (a.zip b).all (fun (x, y) => y == lam * x))
        Json.mkObj [("eq", Json.bool ok), ("phase", cycToJson lam)]
    | _, _ => Json.mkObj [("r", Json.str "ERR:unsupported")]
  | _, _, _ => jErr "semeq: bad arguments"

end Tangelo.Driver
