import TangeloModel.Sem
import TangeloProofs.CycRing
import TangeloProofs.Lemmas.SemBasic
import TangeloProofs.Lemmas.Isometry
import Mathlib.Algebra.Group.Units.Basic
import Mathlib.Algebra.Group.Basic
import Mathlib.Tactic.Ring
import Mathlib.Tactic.NormNum
import Mathlib.Tactic.IntervalCases
import Mathlib.Tactic.Linarith
/-!
# The executable constants satisfy the laws the theorems assume

Every semantic theorem of this development is stated for an arbitrary commutative ring `R` with constants
`k : Consts R` satisfying `Consts.Laws k`.  The model driver computes in `R = Cyc = ℚ(ζ₁₆)` with
`cycConsts`.  This file proves `Consts.Laws cycConsts`, so those theorems apply to what the driver runs.
-/
namespace Tangelo
open Cyc

namespace Cyc

theorem npow_eq_pow (a : Cyc) (n : Nat) : Cyc.npow a n = a ^ n := by
  induction n with
  | zero => simp [Cyc.npow]
  | succ n ih => simp [Cyc.npow, ih, pow_succ]

theorem two_half : (2 : Cyc) * half = 1 := by
  ext <;> simp [half, ofRat, mul, show (2 : Cyc) = 1 + 1 from by norm_num] <;> norm_num

theorem zeta_mul_star : zeta * star zeta = 1 := by rw [mul_comm]; exact star_zeta_mul

/-- ζ as a unit -/
def zetaU : Cycˣ := ⟨zeta, star zeta, zeta_mul_star, star_zeta_mul⟩

theorem zetaPowNat_mod (n : Nat) : zetaPowNat (n % 16) = zetaPowNat n := by
  simp [zetaPowNat]

theorem zetaPowNat_step (n : Nat) (hn : n < 16) : zetaPowNat ((n + 1) % 16) = zetaPowNat n * zeta := by
  interval_cases n <;> (ext <;> simp [zetaPowNat, zeta, mul])

theorem zetaPowNat_eq_pow (n : Nat) : zetaPowNat n = zeta ^ n := by
  induction n with
  | zero => ext <;> simp [zetaPowNat]
  | succ n ih =>
    have h1 : zetaPowNat (n + 1) = zetaPowNat ((n % 16 + 1) % 16) := by
      rw [← zetaPowNat_mod (n + 1)]; congr 1; omega
    rw [h1, zetaPowNat_step (n % 16) (Nat.mod_lt _ (by decide)), zetaPowNat_mod, ih, pow_succ]

theorem zeta_pow_sixteen : zeta ^ 16 = 1 := by
  have := zetaPowNat_eq_pow 16
  rw [← this]; ext <;> simp [zetaPowNat]

theorem zetaU_pow_sixteen : zetaU ^ 16 = 1 := by
  apply Units.ext
  simp only [Units.val_pow_eq_pow_val, Units.val_one]
  exact zeta_pow_sixteen

theorem zetaPow_eq (n : Int) : zetaPow n = ((zetaU ^ n : Cycˣ) : Cyc) := by
  unfold zetaPow
  have hm : 0 ≤ n % 16 := Int.emod_nonneg n (by decide)
  have hsplit : n = 16 * (n / 16) + n % 16 := (Int.mul_ediv_add_emod n 16).symm
  have h1 : zetaU ^ n = zetaU ^ (n % 16) := by
    conv_lhs => rw [hsplit]
    rw [zpow_add, zpow_mul]
    have : zetaU ^ (16 : Int) = 1 := by
      have := zetaU_pow_sixteen
      rw [← zpow_natCast] at this
      exact_mod_cast this
    rw [this, one_zpow, one_mul]
  rw [h1, zetaPowNat_eq_pow]
  have h2 : zetaU ^ (n % 16) = zetaU ^ ((n % 16).toNat) := by
    rw [← zpow_natCast, Int.toNat_of_nonneg hm]
  rw [h2, Units.val_pow_eq_pow_val]
  rfl

theorem zetaPow_add (a b : Int) : zetaPow (a + b) = zetaPow a * zetaPow b := by
  rw [zetaPow_eq, zetaPow_eq, zetaPow_eq, zpow_add, Units.val_mul]

/-- a rational point of the unit circle as a unit of `Cyc` -/
def ptU (c s : Rat) (h : c * c + s * s = 1) : Cycˣ :=
  ⟨⟨c, 0, 0, 0, s, 0, 0, 0⟩, ⟨c, 0, 0, 0, -s, 0, 0, 0⟩,
   by ext <;> simp [mul] <;> first | exact h | ring,
   by ext <;> simp [mul] <;> first | exact h | ring⟩

end Cyc

namespace Ang

theorem ptPow_eq (c s : Rat) (h : c * c + s * s = 1) (k : Int) :
    ptPow c s k = ((Cyc.ptU c s h ^ k : Cycˣ) : Cyc) := by
  unfold ptPow
  cases k with
  | ofNat n =>
    have hk : ¬ (Int.ofNat n < 0) := by simp
    simp only [hk, if_false, Int.natAbs_natCast, Cyc.npow_eq_pow, Int.ofNat_eq_natCast, zpow_natCast,
      Units.val_pow_eq_pow_val]
    rfl
  | negSucc n =>
    have hk : Int.negSucc n < 0 := Int.negSucc_lt_zero n
    simp only [hk, if_true, Cyc.npow_eq_pow, zpow_negSucc, Int.natAbs_negSucc]
    rw [← inv_pow, Units.val_pow_eq_pow_val]
    rfl

theorem ptPow_add (c s : Rat) (h : c * c + s * s = 1) (a b : Int) :
    ptPow c s (a + b) = ptPow c s a * ptPow c s b := by
  rw [ptPow_eq c s h, ptPow_eq c s h, ptPow_eq c s h, zpow_add, Units.val_mul]

theorem ptPow_zero (c s : Rat) : ptPow c s 0 = 1 := by simp [ptPow, Cyc.npow]

theorem e_unfold (a : Ang) : e a =
    Cyc.zetaPow a.q * ptPow (3/5) (4/5) a.k0 * ptPow (4/5) (3/5) a.k1 * ptPow (12/13) (5/13) a.k2
      * ptPow (5/13) (12/13) a.k3 * ptPow (63999999/64000001) (16000/64000001) a.k4
      * ptPow (2249999/2250001) (3000/2250001) a.k5 := by
  simp [e, ks, atoms]

theorem e_add (a b : Ang) : e (a + b) = e a * e b := by
  rw [e_unfold, e_unfold a, e_unfold b]
  have hq : (a + b).q = a.q + b.q := rfl
  have h0 : (a + b).k0 = a.k0 + b.k0 := rfl
  have h1 : (a + b).k1 = a.k1 + b.k1 := rfl
  have h2 : (a + b).k2 = a.k2 + b.k2 := rfl
  have h3 : (a + b).k3 = a.k3 + b.k3 := rfl
  have h4 : (a + b).k4 = a.k4 + b.k4 := rfl
  have h5 : (a + b).k5 = a.k5 + b.k5 := rfl
  rw [hq, h0, h1, h2, h3, h4, h5, Cyc.zetaPow_add,
    ptPow_add _ _ (by norm_num), ptPow_add _ _ (by norm_num), ptPow_add _ _ (by norm_num),
    ptPow_add _ _ (by norm_num), ptPow_add _ _ (by norm_num), ptPow_add _ _ (by norm_num)]
  ring

theorem e_zero : e 0 = 1 := by
  rw [e_unfold]
  show Cyc.zetaPow 0 * ptPow _ _ 0 * ptPow _ _ 0 * ptPow _ _ 0 * ptPow _ _ 0 * ptPow _ _ 0 * ptPow _ _ 0 = 1
  simp only [ptPow_zero, mul_one]
  ext <;> simp [Cyc.zetaPow, Cyc.zetaPowNat]

theorem e_pi : e Ang.pi = Cyc.I := by
  rw [e_unfold]
  show Cyc.zetaPow 4 * ptPow _ _ 0 * ptPow _ _ 0 * ptPow _ _ 0 * ptPow _ _ 0 * ptPow _ _ 0 * ptPow _ _ 0 = Cyc.I
  simp only [ptPow_zero, mul_one]
  ext <;> simp [Cyc.zetaPow, Cyc.zetaPowNat, Cyc.I]

end Ang

/-- **the executable constants satisfy the laws**: every theorem stated for `Consts.Laws k` holds for the
    amplitudes the model driver computes -/
theorem cycConsts_laws : Consts.Laws cycConsts where
  i_sq := Cyc.I_mul_I
  rsqrt2_sq := Cyc.rsqrt2_sq
  two_half := Cyc.two_half
  e_zero := Ang.e_zero
  e_add := Ang.e_add
  e_pi := Ang.e_pi

/-! ## conjugation -/
namespace Cyc

theorem star_def (a : Cyc) : star a = conj a := rfl

theorem star_zetaPow_mul (n : Int) : star (zetaPow n) * zetaPow n = 1 := by
  unfold zetaPow
  rw [zetaPowNat_eq_pow, star_pow, ← mul_pow, star_zeta_mul, one_pow]

theorem star_zetaPow (n : Int) : star (zetaPow n) = zetaPow (-n) := by
  have h1 := star_zetaPow_mul n
  have h2 : zetaPow (-n) * zetaPow n = 1 := by
    rw [← zetaPow_add]; simp only [neg_add_cancel]
    ext <;> simp [zetaPow, zetaPowNat]
  calc star (zetaPow n) = star (zetaPow n) * (zetaPow (-n) * zetaPow n) := by rw [h2, mul_one]
    _ = (star (zetaPow n) * zetaPow n) * zetaPow (-n) := by ring
    _ = zetaPow (-n) := by rw [h1, one_mul]

end Cyc

namespace Ang

theorem star_ptPow (c s : Rat) (k : Int) : star (ptPow c s k) = ptPow c s (-k) := by
  have hp : star (⟨c, 0, 0, 0, s, 0, 0, 0⟩ : Cyc) = ⟨c, 0, 0, 0, -s, 0, 0, 0⟩ := by
    ext <;> simp [Cyc.star_def, Cyc.conj]
  have hq : star (⟨c, 0, 0, 0, -s, 0, 0, 0⟩ : Cyc) = ⟨c, 0, 0, 0, s, 0, 0, 0⟩ := by
    ext <;> simp [Cyc.star_def, Cyc.conj]
  unfold ptPow
  rcases lt_trichotomy k 0 with hk | hk | hk
  · have h2 : ¬ (-k < 0) := by omega
    simp only [hk, if_true, h2, if_false, Cyc.npow_eq_pow, star_pow, hq, Int.natAbs_neg]
  · subst hk; simp [Cyc.npow]
  · have h1 : ¬ (k < 0) := by omega
    have h2 : -k < 0 := by omega
    simp only [h1, if_false, h2, if_true, Cyc.npow_eq_pow, star_pow, hp, Int.natAbs_neg]

theorem star_e (a : Ang) : star (e a) = e (-a) := by
  rw [e_unfold, e_unfold (-a)]
  simp only [star_mul', Cyc.star_zetaPow, star_ptPow]
  rfl

end Ang

/-- conjugation on the executable constants -/
theorem cycConsts_starLaws : Consts.StarLaws cycConsts where
  star_i := Cyc.star_I
  star_rsqrt2 := by ext <;> simp [cycConsts, Cyc.star_def, Cyc.conj, Cyc.rsqrt2] <;> norm_num
  star_half := by ext <;> simp [cycConsts, Cyc.star_def, Cyc.conj, Cyc.half, Cyc.ofRat]
  star_e := Ang.star_e

end Tangelo
