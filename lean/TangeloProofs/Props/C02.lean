import TangeloModel.Measure
import TangeloProofs.CycRing
import Mathlib.Tactic.Ring
import Mathlib.Tactic.LinearCombination
import Mathlib.Tactic.NormNum
import Mathlib.Algebra.Order.Ring.Rat
/-!
# C02 — expectation values equal ⟨ψ|H|ψ⟩ on every evaluation path
-/
namespace Tangelo.C02
open Tangelo
variable {R : Type} [CommRing R]

/-! ## the parity rule and the one-term variance, over any list of (parity, frequency) samples -/

def signOf (p : Bool) : R := if p then -1 else 1

theorem foldl_add_eq_sum (g : (Bool × R) → R) (l : List (Bool × R)) (init : R) :
    l.foldl (fun acc pf => acc + g pf) init = init + (l.map g).sum := by
  induction l generalizing init with
  | nil => simp
  | cons x xs ih => simp only [List.foldl_cons, List.map_cons, List.sum_cons, ih]; ring

/-- the expectation of one term on frequencies is Σ s·f with s = ±1 -/
theorem expectSamples_eq (l : List (Bool × R)) : expectSamples l = (l.map (fun pf => signOf pf.1 * pf.2)).sum := by
  have h : ∀ (l : List (Bool × R)) (init : R),
      l.foldl (fun acc (pf : Bool × R) => if pf.1 then acc - pf.2 else acc + pf.2) init =
      init + (l.map (fun pf => signOf pf.1 * pf.2)).sum := by
    intro l
    induction l with
    | nil => intro init; simp
    | cons x xs ih =>
      intro init
      simp only [List.foldl_cons, List.map_cons, List.sum_cons, ih]
      obtain ⟨p, f⟩ := x
      cases p <;> simp [signOf] <;> ring
  simpa [expectSamples] using h l 0

theorem varianceSamples_eq (l : List (Bool × R)) :
    varianceSamples l = (l.map (fun pf => pf.2 * ((expectSamples l - signOf pf.1) * (expectSamples l - signOf pf.1)))).sum := by
  simp only [varianceSamples]
  rw [foldl_add_eq_sum (fun pf => pf.2 * ((expectSamples l - (if pf.1 then -1 else 1)) * (expectSamples l - (if pf.1 then -1 else 1)))) l 0]
  simp [signOf]

/-- **variance identity**: on a normalised frequency list the reported one-term variance is 1 − E²
    (every sample value is ±1) -/
theorem variance_identity (l : List (Bool × R)) (hnorm : (l.map (·.2)).sum = 1) :
    varianceSamples l = 1 - expectSamples l * expectSamples l := by
  rw [varianceSamples_eq]
  have hE := expectSamples_eq l
  generalize expectSamples l = E at hE ⊢
  -- Σ f (E − s)² = E² Σ f − 2E Σ s f + Σ f  (s² = 1)
  have key : ∀ (l : List (Bool × R)), (l.map (fun pf => pf.2 * ((E - signOf pf.1) * (E - signOf pf.1)))).sum =
      E * E * (l.map (·.2)).sum - 2 * E * (l.map (fun pf => signOf pf.1 * pf.2)).sum + (l.map (·.2)).sum := by
    intro l
    induction l with
    | nil => simp
    | cons x xs ih =>
      simp only [List.map_cons, List.sum_cons, ih]
      obtain ⟨p, f⟩ := x
      cases p <;> simp [signOf] <;> ring
  rw [key l, hnorm, ← hE]
  ring

/-! ## linearity and the split of complex coefficients -/

/-- Σ cⱼ vⱼ as the code accumulates it -/
def linComb (cv : List (R × R)) : R := cv.foldl (fun acc (p : R × R) => acc + p.1 * p.2) 0

theorem linComb_eq (cv : List (R × R)) : linComb cv = (cv.map (fun p => p.1 * p.2)).sum := by
  have h : ∀ (l : List (R × R)) (init : R), l.foldl (fun acc (p : R × R) => acc + p.1 * p.2) init = init + (l.map (fun p => p.1 * p.2)).sum := by
    intro l
    induction l with
    | nil => intro init; simp
    | cons x xs ih => intro init; simp only [List.foldl_cons, List.map_cons, List.sum_cons, ih]; ring
  simpa [linComb] using h cv 0

/-- evaluating the real-part operator and the imaginary-part operator separately and recombining as
    `re + i·im` gives the value of the operator with complex coefficients -/
theorem complex_split (i : R) (terms : List (R × R × R)) :   -- (re, im, ⟨P⟩)
    linComb (terms.map (fun t => (t.1 + i * t.2.1, t.2.2))) =
      linComb (terms.map (fun t => (t.1, t.2.2))) + i * linComb (terms.map (fun t => (t.2.1, t.2.2))) := by
  simp only [linComb_eq, List.map_map]
  induction terms with
  | nil => simp
  | cons t ts ih => simp only [List.map_cons, List.sum_cons, Function.comp] at ih ⊢; rw [ih]; ring

/-- an identity term contributes its coefficient times the norm (1 for a normalised state) -/
theorem identity_term (c nrm : R) (rest : List (R × R)) : linComb ((c, nrm) :: rest) = c * nrm + linComb rest := by
  simp only [linComb_eq, List.map_cons, List.sum_cons]

/-! ## the model's expectation is that linear combination; the table of basis rotations is right -/

theorem expectFromProbs_is_parity_sum (n : Nat) (a : SV) (w : PWord) :
    expectFromProbs n a w = ((sampleList a w).map (fun pf => signOf pf.1 * pf.2)).sum := expectSamples_eq _

/-- every row of the measurement-basis table regenerated from `measurement_basis_gates` satisfies
    B†·Z·B = letter, exactly (kernel computation in ℚ(ζ₁₆)); X and Y are both covered -/
theorem meas_basis_table_correct : measBasisOk = true := by decide +kernel

/-! ## non-vacuity -/
example : (([(false, 3/4), (true, 1/4)] : List (Bool × ℚ)).map (·.2)).sum = 1 := by norm_num
example : expectSamples (R := ℚ) [(false, 3/4), (true, 1/4)] = 1/2 := by norm_num [expectSamples]

end Tangelo.C02
