import TangeloModel.Measure
import TangeloProofs.CycRing
import TangeloProofs.CycLaws
import TangeloProofs.Lemmas.Adjoint
import TangeloProofs.Lemmas.HalfPi
import Mathlib.Tactic.Ring
import Mathlib.Tactic.LinearCombination
import Mathlib.Tactic.NormNum
import Mathlib.Algebra.Order.Ring.Rat
import TangeloProofs.Lemmas.SimRefines
import Mathlib.Algebra.BigOperators.Fin
/-!
# C02 — expectation values equal ⟨ψ|H|ψ⟩ on every evaluation path
-/
namespace Tangelo.C02
open Tangelo
variable {R : Type} [CommRing R]

/-! ## the parity rule and the one-term variance, over any list of (parity, frequency) samples -/

def signOf (p : Bool) : R := if p then -1 else 1

theorem foldl_add_eq_sum (g : (Bool × R) → R) (l : List (Bool × R)) (init : R) :
    l.foldl (fun acc pf => acc + g pf) init = init + (l.map g).sum := by
  induction l generalizing init with
  | nil => simp
  | cons x xs ih => simp only [List.foldl_cons, List.map_cons, List.sum_cons, ih]; ring

/-- the expectation of one term on frequencies is Σ s·f with s = ±1 -/
theorem expectSamples_eq (l : List (Bool × R)) : expectSamples l = (l.map (fun pf => signOf pf.1 * pf.2)).sum := by
  have h : ∀ (l : List (Bool × R)) (init : R),
      l.foldl (fun acc (pf : Bool × R) => if pf.1 then acc - pf.2 else acc + pf.2) init =
      init + (l.map (fun pf => signOf pf.1 * pf.2)).sum := by
    intro l
    induction l with
    | nil => intro init; simp
    | cons x xs ih =>
      intro init
      simp only [List.foldl_cons, List.map_cons, List.sum_cons, ih]
      obtain ⟨p, f⟩ := x
      cases p <;> simp [signOf] <;> ring
  simpa [expectSamples] using h l 0

theorem varianceSamples_eq (l : List (Bool × R)) :
    varianceSamples l = (l.map (fun pf => pf.2 * ((expectSamples l - signOf pf.1) * (expectSamples l - signOf pf.1)))).sum := by
  simp only [varianceSamples]
  rw [foldl_add_eq_sum (fun pf => pf.2 * ((expectSamples l - (if pf.1 then -1 else 1)) * (expectSamples l - (if pf.1 then -1 else 1)))) l 0]
  simp [signOf]

/-- **variance identity**: on a normalised frequency list the reported one-term variance is 1 − E²
    (every sample value is ±1) -/
theorem variance_identity (l : List (Bool × R)) (hnorm : (l.map (·.2)).sum = 1) :
    varianceSamples l = 1 - expectSamples l * expectSamples l := by
  rw [varianceSamples_eq]
  have hE := expectSamples_eq l
  generalize expectSamples l = E at hE ⊢
  -- Σ f (E − s)² = E² Σ f − 2E Σ s f + Σ f  (s² = 1)
  have key : ∀ (l : List (Bool × R)), (l.map (fun pf => pf.2 * ((E - signOf pf.1) * (E - signOf pf.1)))).sum =
      E * E * (l.map (·.2)).sum - 2 * E * (l.map (fun pf => signOf pf.1 * pf.2)).sum + (l.map (·.2)).sum := by
    intro l
    induction l with
    | nil => simp
    | cons x xs ih =>
      simp only [List.map_cons, List.sum_cons, ih]
      obtain ⟨p, f⟩ := x
      cases p <;> simp [signOf] <;> ring
  rw [key l, hnorm, ← hE]
  ring

/-! ## linearity and the split of complex coefficients -/

/-- Σ cⱼ vⱼ as the code accumulates it -/
def linComb (cv : List (R × R)) : R := cv.foldl (fun acc (p : R × R) => acc + p.1 * p.2) 0

theorem linComb_eq (cv : List (R × R)) : linComb cv = (cv.map (fun p => p.1 * p.2)).sum := by
  have h : ∀ (l : List (R × R)) (init : R), l.foldl (fun acc (p : R × R) => acc + p.1 * p.2) init = init + (l.map (fun p => p.1 * p.2)).sum := by
    intro l
    induction l with
    | nil => intro init; simp
    | cons x xs ih => intro init; simp only [List.foldl_cons, List.map_cons, List.sum_cons, ih]; ring
  simpa [linComb] using h cv 0

/-- evaluating the real-part operator and the imaginary-part operator separately and recombining as
    `re + i·im` gives the value of the operator with complex coefficients -/
theorem complex_split (i : R) (terms : List (R × R × R)) :   -- (re, im, ⟨P⟩)
    linComb (terms.map (fun t => (t.1 + i * t.2.1, t.2.2))) =
      linComb (terms.map (fun t => (t.1, t.2.2))) + i * linComb (terms.map (fun t => (t.2.1, t.2.2))) := by
  simp only [linComb_eq, List.map_map]
  induction terms with
  | nil => simp
  | cons t ts ih => simp only [List.map_cons, List.sum_cons, Function.comp] at ih ⊢; rw [ih]; ring

/-- an identity term contributes its coefficient times the norm (1 for a normalised state) -/
theorem identity_term (c nrm : R) (rest : List (R × R)) : linComb ((c, nrm) :: rest) = c * nrm + linComb rest := by
  simp only [linComb_eq, List.map_cons, List.sum_cons]

/-! ## the model's expectation is that linear combination; the table of basis rotations is right -/

theorem expectFromProbs_is_parity_sum (n : Nat) (a : SV) (w : PWord) :
    expectFromProbs n a w = ((sampleList a w).map (fun pf => signOf pf.1 * pf.2)).sum := expectSamples_eq _

/-- every row of the measurement-basis table regenerated from `measurement_basis_gates` satisfies
    B†·Z·B = letter, exactly (kernel computation in ℚ(ζ₁₆)); X and Y are both covered -/
theorem meas_basis_table_correct : measBasisOk = true := by decide +kernel

/-! ## the two evaluation routes agree for every state and every register size -/
section routes
open Finset
variable {S : Type} [CommRing S] [StarRing S]

/-- the rotations `measurement_basis_gates` emits: X ↦ RY(−π/2), Y ↦ RX(π/2), Z ↦ nothing -/
def docRot (k : Consts S) : Pauli → M2 S
  | .X => baseMatrix k .RY (Ang.piQuarter (-2))
  | .Y => baseMatrix k .RX (Ang.piQuarter 2)
  | .Z => M2.one

/-- each of them rotates Z into its letter: B†·Z·B = P -/
theorem docRot_ok (k : Consts S) (L : k.Laws) (T : k.StarLaws) (hp : HalfPi k) : RotOk k (docRot k) := by
  intro p
  cases p
  · simp only [docRot, ry_minus_half_pi k L hp, pauliMat]
    apply M2.ext' <;> simp only [M2.adj, M2.mul, baseMatrix, star_neg, T.star_rsqrt2] <;>
      first | ring1 | linear_combination L.rsqrt2_sq
  · simp only [docRot, rx_half_pi k L hp, pauliMat]
    apply M2.ext' <;> simp only [M2.adj, M2.mul, baseMatrix, star_neg, star_mul', T.star_rsqrt2, T.star_i] <;>
      first
        | ring1
        | linear_combination (k.rsqrt2 * k.rsqrt2) * L.i_sq
        | linear_combination (-(k.rsqrt2 * k.rsqrt2)) * L.i_sq
        | linear_combination (-k.i) * L.rsqrt2_sq
        | linear_combination k.i * L.rsqrt2_sq
  · simp only [docRot, pauliMat]
    apply M2.ext' <;> simp [M2.adj, M2.mul, baseMatrix, M2.one]

/-- **both routes agree**: for every register size `n`, every Pauli word with distinct qubits inside the
    register and every state ψ, the parity rule applied to the exact outcome probabilities of the state rotated
    into the measurement basis equals the overlap ⟨ψ|P|ψ⟩ of the statevector route -/
theorem freq_route_eq_overlap (k : Consts S) (L : k.Laws) (T : k.StarLaws) (hp : HalfPi k) (n : Nat)
    (w : PWord) (hnd : (w.map (·.1)).Nodup) (hlt : ∀ qp ∈ w, qp.1 < n) (ψ : State S) :
    ∑ i ∈ range (2 ^ n), paritySign (R := S) w (bitsOf i) * wt (wordOps (docRot k) w ψ (bitsOf i))
      = inner n ψ (wordOps (pauliMat k) w ψ) :=
  parity_rule_eq_overlap k L n (docRot k) (docRot_ok k L T hp) w hnd hlt ψ

/-- linearity: the same for a whole operator Σ c_w P_w -/
theorem freq_route_operator (k : Consts S) (L : k.Laws) (T : k.StarLaws) (hp : HalfPi k) (n : Nat)
    (terms : List (PWord × S)) (hnd : ∀ t ∈ terms, (t.1.map (·.1)).Nodup) (hlt : ∀ t ∈ terms, ∀ qp ∈ t.1, qp.1 < n) (ψ : State S) :
    (terms.map (fun t => t.2 * ∑ i ∈ range (2 ^ n), paritySign (R := S) t.1 (bitsOf i) * wt (wordOps (docRot k) t.1 ψ (bitsOf i)))).sum
      = (terms.map (fun t => t.2 * inner n ψ (wordOps (pauliMat k) t.1 ψ))).sum := by
  apply congrArg
  apply List.map_congr_left
  intro t ht
  rw [freq_route_eq_overlap k L T hp n t.1 (hnd t ht) (hlt t ht) ψ]

end routes

/-- e(π/2) = (1+i)/√2 for the executable constants -/
theorem halfPi_exec : HalfPi cycConsts := by
  unfold HalfPi
  show Ang.e (Ang.piQuarter 2) = (1 + Cyc.I) * Cyc.rsqrt2
  rw [Ang.e_unfold]
  show Cyc.zetaPow 2 * Ang.ptPow _ _ 0 * Ang.ptPow _ _ 0 * Ang.ptPow _ _ 0 * Ang.ptPow _ _ 0 * Ang.ptPow _ _ 0 * Ang.ptPow _ _ 0 = _
  simp only [Ang.ptPow_zero, mul_one]
  ext <;> simp [Cyc.zetaPow, Cyc.zetaPowNat, Cyc.I, Cyc.rsqrt2, Cyc.mul] <;> norm_num

/-- both routes agree on the amplitudes the model driver computes -/
theorem freq_route_eq_overlap_exec (n : Nat) (w : PWord) (hnd : (w.map (·.1)).Nodup) (hlt : ∀ qp ∈ w, qp.1 < n) (ψ : State Cyc) :
    ∑ i ∈ Finset.range (2 ^ n), paritySign (R := Cyc) w (bitsOf i) * wt (wordOps (docRot cycConsts) w ψ (bitsOf i))
      = inner n ψ (wordOps (pauliMat cycConsts) w ψ) :=
  freq_route_eq_overlap cycConsts cycConsts_laws cycConsts_starLaws halfPi_exec n w hnd hlt ψ

/-- the measurement-basis table regenerated from /repo is the one `docRot` formalises -/
theorem table_is_documented : Tables.measBasis = [("X", "RY", -2), ("Y", "RX", 2)] := by decide

/-! ## non-vacuity -/
example : (([(false, 3/4), (true, 1/4)] : List (Bool × ℚ)).map (·.2)).sum = 1 := by norm_num
example : expectSamples (R := ℚ) [(false, 3/4), (true, 1/4)] = 1/2 := by norm_num [expectSamples]

/-! ## what the driver computes is the specified expectation value -/

theorem foldl_pairs_sum (l : List (Cyc × Cyc)) (init : Cyc) :
    l.foldl (fun acc (p : Cyc × Cyc) => acc + Cyc.conj p.1 * p.2) init = init + (l.map (fun p => Cyc.conj p.1 * p.2)).sum := by
  induction l generalizing init with
  | nil => simp
  | cons x xs ih => simp only [List.foldl_cons, List.map_cons, List.sum_cons, ih]; ring

theorem zip_ofFn {α β : Type} (m : Nat) (f : Fin m → α) (g : Fin m → β) :
    (List.ofFn f).zip (List.ofFn g) = List.ofFn (fun i => (f i, g i)) := by
  apply List.ext_getElem
  · simp
  · intro i h1 h2
    simp

/-- the array overlap of two tabulated states is the specified inner product -/
theorem inner_tabulate (n : Nat) (φ χ : State Cyc) :
    SV.inner (tabulate n φ) (tabulate n χ) = inner n φ χ := by
  simp only [SV.inner, tabulate, inner]
  rw [← Array.foldl_toList, Array.toList_zip, Array.toList_ofFn, Array.toList_ofFn, zip_ofFn]
  have := foldl_pairs_sum (List.ofFn (fun i : Fin (2 ^ n) => (φ (bitsOf i.val), χ (bitsOf i.val)))) 0
  rw [this, zero_add, List.map_ofFn, List.sum_ofFn]
  rw [← Fin.sum_univ_eq_sum_range (fun i => star (φ (bitsOf i)) * χ (bitsOf i)) (2 ^ n)]
  rfl


theorem pauliOp_sem (q : Nat) (p : Pauli) (ψ : State Cyc) :
    (pauliOp q p).sem cycConsts ψ = app1 (pauliMat cycConsts p) q ψ := by
  cases p <;> simp [pauliOp, Op.sem, pauliMat, ctl_nil]

theorem semOps_word (w : PWord) (ψ : State Cyc) :
    semOps cycConsts (w.map (fun (qp : Nat × Pauli) => pauliOp qp.1 qp.2)) ψ = wordOps (pauliMat cycConsts) w ψ := by
  induction w generalizing ψ with
  | nil => rfl
  | cons qp rest ih =>
    obtain ⟨q, p⟩ := qp
    have e : semOps cycConsts (((q, p) :: rest).map (fun (qp : Nat × Pauli) => pauliOp qp.1 qp.2)) ψ =
        semOps cycConsts (rest.map (fun (qp : Nat × Pauli) => pauliOp qp.1 qp.2)) ((pauliOp q p).sem cycConsts ψ) := rfl
    rw [e, pauliOp_sem, ih, wordOps_cons]

/-- **the statevector route of the model driver is ⟨ψ|P|ψ⟩**: for every Pauli word inside the register and every
    state, the number the driver returns (apply the word as a circuit to the array, take the array overlap) is the
    specified inner product `inner n ψ (P ψ)` - the quantity `freq_route_eq_overlap` proves the frequency route equal to -/
theorem expectWord_is_specified (n : Nat) (w : PWord) (hlt : ∀ qp ∈ w, qp.1 < n) (ψ : State Cyc) :
    expectWord n (tabulate n ψ) w = inner n ψ (wordOps (pauliMat cycConsts) w ψ) := by
  simp only [expectWord]
  have hreg : ∀ o ∈ w.map (fun (qp : Nat × Pauli) => pauliOp qp.1 qp.2), ∀ q ∈ o.qubits, q < n := by
    intro o ho q hq
    obtain ⟨qp, hqp, rfl⟩ := List.mem_map.mp ho
    have := hlt qp hqp
    obtain ⟨q', p⟩ := qp
    cases p <;> simp [pauliOp, Op.qubits] at hq <;> (subst hq; exact this)
  have e : (w.map fun (x : Nat × Pauli) => match x with | (q, p) => pauliOp q p) = w.map (fun (qp : Nat × Pauli) => pauliOp qp.1 qp.2) := by
    apply List.map_congr_left; intro x _; rfl
  rw [e, simOps_tabulate n _ hreg ψ, semOps_word, inner_tabulate]

theorem app1_one (q : Nat) (ψ : State Cyc) : app1 (M2.one : M2 Cyc) q ψ = ψ := by
  funext x
  simp only [app1, M2.one]
  cases hx : x q
  · have e0 : x.set q false = x := by rw [← hx]; exact Bits.set_self x q
    simp [e0]
  · have e1 : x.set q true = x := by rw [← hx]; exact Bits.set_self x q
    simp [e1]

theorem semOps_measBasis (w : PWord) (ψ : State Cyc) :
    semOps cycConsts (measBasisOps w) ψ = wordOps (docRot cycConsts) w ψ := by
  induction w generalizing ψ with
  | nil => rfl
  | cons qp rest ih =>
    obtain ⟨q, p⟩ := qp
    rw [wordOps_cons]
    cases p
    · -- X
      have e : measBasisOps ((q, Pauli.X) :: rest) = Op.one .RY (Ang.piQuarter (-2)) q [] :: measBasisOps rest := by
        simp [measBasisOps, Tables.measBasis, Gate.toOp, Gate.shapeOf, Gate.shapeToOp, Gate.baseOp]
      rw [e]
      show semOps cycConsts (measBasisOps rest) ((Op.one .RY (Ang.piQuarter (-2)) q []).sem cycConsts ψ) = _
      rw [ih]; simp [Op.sem, ctl_nil, docRot]
    · -- Y
      have e : measBasisOps ((q, Pauli.Y) :: rest) = Op.one .RX (Ang.piQuarter 2) q [] :: measBasisOps rest := by
        simp [measBasisOps, Tables.measBasis, Gate.toOp, Gate.shapeOf, Gate.shapeToOp, Gate.baseOp]
      rw [e]
      show semOps cycConsts (measBasisOps rest) ((Op.one .RX (Ang.piQuarter 2) q []).sem cycConsts ψ) = _
      rw [ih]; simp [Op.sem, ctl_nil, docRot]
    · -- Z: no rotation
      have e : measBasisOps ((q, Pauli.Z) :: rest) = measBasisOps rest := by
        simp [measBasisOps, Tables.measBasis]
      rw [e, ih]; simp [docRot, app1_one]


theorem sum_map_range (m : Nat) (f : Nat → Cyc) : ((List.range m).map f).sum = ∑ i ∈ Finset.range m, f i := by
  induction m with
  | zero => simp
  | succ m ih => rw [List.range_succ, List.map_append, List.sum_append, ih, Finset.sum_range_succ]; simp

theorem parity_fold_sign (w : PWord) (i : Nat) (p : Bool) (s : Cyc) (h : s = signOf p) :
    signOf (w.foldl (fun p (qp : Nat × Pauli) => xor p (i.testBit qp.1)) p) =
      w.foldl (fun s (qp : Nat × Pauli) => if bitsOf i qp.1 then -s else s) s := by
  induction w generalizing p s with
  | nil => simp [h]
  | cons qp rest ih =>
    simp only [List.foldl_cons]
    apply ih
    simp only [bitsOf]
    subst h
    by_cases hb : i.testBit qp.1 = true
    · cases p <;> simp [hb, signOf]
    · have hb' : i.testBit qp.1 = false := by simpa using hb
      cases p <;> simp [hb', signOf]

/-- the parity rule of the driver on a tabulated state is the specified signed sum of probabilities -/
theorem expectFromProbs_tabulate (n : Nat) (w : PWord) (φ : State Cyc) :
    expectFromProbs n (tabulate n φ) w = ∑ i ∈ Finset.range (2 ^ n), paritySign (R := Cyc) w (bitsOf i) * wt (φ (bitsOf i)) := by
  rw [expectFromProbs_is_parity_sum]
  simp only [sampleList, List.map_map]
  have hsize : (tabulate n φ).size = 2 ^ n := by simp [tabulate]
  rw [hsize, sum_map_range]
  apply Finset.sum_congr rfl
  intro i hi
  have hlt : i < 2 ^ n := Finset.mem_range.mp hi
  simp only [Function.comp]
  have hget : (tabulate n φ).getD i 0 = φ (bitsOf i) := by
    simp [tabulate, Array.getD_eq_getD_getElem?, Array.getElem?_ofFn, hlt]
  rw [hget]
  have hs := parity_fold_sign w i false 1 (by simp [signOf])
  have e : (List.foldl (fun p (x : Nat × Pauli) => match x with | (q, _) => xor p (i.testBit q)) false w) =
      (w.foldl (fun p (qp : Nat × Pauli) => xor p (i.testBit qp.1)) false) := rfl
  rw [e, hs]
  simp only [paritySign, wt, Cyc.normSq]
  have : star (φ (bitsOf i)) = Cyc.conj (φ (bitsOf i)) := rfl
  rw [this]; ring

/-- **the frequency route of the model driver is ⟨ψ|P|ψ⟩ as well**: rotate with the gates of the regenerated
    measurement-basis table, apply the parity rule to the exact outcome frequencies - for every Pauli word with
    distinct qubits inside the register and every state -/
theorem freqRoute_is_specified (n : Nat) (w : PWord) (hnd : (w.map (·.1)).Nodup) (hlt : ∀ qp ∈ w, qp.1 < n) (ψ : State Cyc) :
    expectWordFreqRoute n (tabulate n ψ) w = inner n ψ (wordOps (pauliMat cycConsts) w ψ) := by
  simp only [expectWordFreqRoute]
  have hreg : ∀ o ∈ measBasisOps w, ∀ q ∈ o.qubits, q < n := by
    intro o ho q hq
    simp only [measBasisOps, List.mem_filterMap] at ho
    obtain ⟨qp, hqp, hop⟩ := ho
    have := hlt qp hqp
    obtain ⟨q', p⟩ := qp
    cases p <;> simp [Tables.measBasis, Gate.toOp, Gate.shapeOf, Gate.shapeToOp, Gate.baseOp] at hop <;>
      (subst hop; simp [Op.qubits] at hq; subst hq; exact this)
  rw [simOps_tabulate n _ hreg ψ, semOps_measBasis, expectFromProbs_tabulate]
  exact freq_route_eq_overlap_exec n w hnd hlt ψ

/-- **the two routes agree on the driver**, for every state, word and register size -/
theorem routes_agree_on_driver (n : Nat) (w : PWord) (hnd : (w.map (·.1)).Nodup) (hlt : ∀ qp ∈ w, qp.1 < n) (ψ : State Cyc) :
    expectWordFreqRoute n (tabulate n ψ) w = expectWord n (tabulate n ψ) w := by
  rw [freqRoute_is_specified n w hnd hlt ψ, expectWord_is_specified n w hlt ψ]

end Tangelo.C02
