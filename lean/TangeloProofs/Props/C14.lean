import TangeloModel.Reduce
import TangeloProofs.Lemmas.SemBasic
import TangeloProofs.Lemmas.Isometry
import Mathlib.Algebra.BigOperators.Ring.Finset
import Mathlib.Algebra.Order.Field.Basic
import Mathlib.Algebra.Module.Defs
import Mathlib.Tactic.Ring
import Mathlib.Tactic.Linarith
import Mathlib.Tactic.NoncommRing
import Mathlib.Tactic.Abel
import Mathlib.Tactic.FieldSimp
import Mathlib.Tactic.NormNum
/-!
# C14 — qubit-reduction techniques keep the eigenvalue they are meant to keep

* trimming (`trim_trivial_qubits`): soundness of the classification table and of the term rule, on the
  register semantics of `TangeloModel.Sem` (every register size, every state);
* truncation (`frobenius_norm_compression`): the discarded coefficients stay inside the budget;
* tapering: the algebra of the Clifford rotation `U = (σ + τ)/√2` in an arbitrary ring.
-/
namespace Tangelo.C14
open Tangelo Tangelo.Reduce

/-! ## trimming: a qubit held in a basis state -/
section trim
variable {R : Type} [CommRing R]

/-- qubit `q` of `ψ` is in the basis state `b` (ψ vanishes on every index whose bit `q` differs) -/
def HasBit (ψ : State R) (q : Nat) (b : Bool) : Prop := ∀ x : Bits, x q ≠ b → ψ x = 0

theorem app1_other (m : M2 R) (t q : Nat) (b : Bool) (ψ : State R) (h : t ≠ q) (hψ : HasBit ψ q b) :
    HasBit (app1 m t ψ) q b := by
  intro x hx
  have h0 : ψ (x.set t false) = 0 := hψ _ (by rw [Bits.set_other _ _ _ _ (Ne.symm h)]; exact hx)
  have h1 : ψ (x.set t true) = 0 := hψ _ (by rw [Bits.set_other _ _ _ _ (Ne.symm h)]; exact hx)
  simp [app1, h0, h1]

theorem app1_diag (m : M2 R) (q : Nat) (b : Bool) (ψ : State R) (hb : m.b = 0) (hc : m.c = 0) (hψ : HasBit ψ q b) :
    HasBit (app1 m q ψ) q b := by
  intro x hx
  cases hxq : x q
  · have : ψ (x.set q false) = 0 := hψ _ (by simp only [Bits.set_same]; rw [hxq] at hx; exact hx)
    simp [app1, hxq, hb, this]
  · have : ψ (x.set q true) = 0 := hψ _ (by simp only [Bits.set_same]; rw [hxq] at hx; exact hx)
    simp [app1, hxq, hc, this]

theorem app1_anti (m : M2 R) (q : Nat) (b : Bool) (ψ : State R) (ha : m.a = 0) (hd : m.d = 0) (hψ : HasBit ψ q b) :
    HasBit (app1 m q ψ) q (!b) := by
  intro x hx
  cases hxq : x q
  · have hb : b = false := by cases b <;> simp_all
    have : ψ (x.set q true) = 0 := hψ _ (by simp [hb])
    simp [app1, hxq, ha, this]
  · have hb : b = true := by cases b <;> simp_all
    have : ψ (x.set q false) = 0 := hψ _ (by simp [hb])
    simp [app1, hxq, hd, this]

/-- a classified gate together with its meaning: angle for the rotations, an arbitrary matrix for
    names the classifier does not know -/
structure G (R : Type) where
  sg : SG
  θ : Ang
  other : M2 R

def G.mat (k : Consts R) (g : G R) : M2 R :=
  match g.sg.name with
  | .X => baseMatrix k .X g.θ
  | .Y => baseMatrix k .Y g.θ
  | .Z => baseMatrix k .Z g.θ
  | .RX => baseMatrix k .RX g.θ
  | .RY => baseMatrix k .RY g.θ
  | .RZ => baseMatrix k .RZ g.θ
  | .other => g.other

/-- the float test `is_bitflip_gate` is right about RX: flagged angles have cos(θ/2) = 0 -/
def G.sound (k : Consts R) (g : G R) : Prop := g.sg.name = .RX → g.sg.flip = true → k.cosH g.θ = 0

theorem isZ_diag (k : Consts R) (g : G R) (h : g.sg.isZ = true) : (g.mat k).b = 0 ∧ (g.mat k).c = 0 := by
  unfold SG.isZ at h
  unfold G.mat
  cases hn : g.sg.name <;> simp_all [baseMatrix]

theorem isXflip_anti (k : Consts R) (g : G R) (h : g.sg.isXflip = true) (hs : g.sound k) :
    (g.mat k).a = 0 ∧ (g.mat k).d = 0 := by
  unfold SG.isXflip at h
  unfold G.mat
  cases hn : g.sg.name <;> simp_all [baseMatrix, G.sound]

/-- **classification soundness**: a qubit that starts in |0⟩ and is declared to end in |b⟩ does end in |b⟩
    (up to a phase), for every register and every state of the other qubits -/
theorem classify_sound (k : Consts R) (gs : List (G R)) (q : Nat) (ψ : State R) (b : Bool)
    (hs : ∀ g ∈ gs, g.sound k) (h0 : HasBit ψ q false) (hc : classify (gs.map (·.sg)) = some b) :
    HasBit (gs.foldl (fun acc g => app1 (g.mat k) q acc) ψ) q b := by
  match gs, hs, hc with
  | [], _, hc => simp [classify] at hc; subst hc; exact h0
  | [g0], hs, hc =>
    simp only [List.map, classify] at hc
    simp only [List.foldl]
    split at hc
    · rename_i hz; cases hc
      obtain ⟨hb, hcc⟩ := isZ_diag k g0 hz
      exact app1_diag _ q false ψ hb hcc h0
    · split at hc
      · rename_i hx; cases hc
        obtain ⟨ha, hd⟩ := isXflip_anti k g0 hx (hs g0 (by simp))
        exact app1_anti _ q false ψ ha hd h0
      · cases hc
  | [g0, g1], hs, hc =>
    simp only [List.map, classify] at hc
    simp only [List.foldl]
    split at hc
    · rename_i hz1
      split at hc
      · rename_i hz0; cases hc
        obtain ⟨hb0, hc0⟩ := isZ_diag k g0 hz0
        obtain ⟨hb1, hc1⟩ := isZ_diag k g1 hz1
        exact app1_diag _ q false _ hb1 hc1 (app1_diag _ q false ψ hb0 hc0 h0)
      · cases hc
    · split at hc
      · rename_i hx1
        obtain ⟨ha1, hd1⟩ := isXflip_anti k g1 hx1 (hs g1 (by simp))
        split at hc
        · rename_i hx0; cases hc
          obtain ⟨ha0, hd0⟩ := isXflip_anti k g0 hx0 (hs g0 (by simp))
          exact app1_anti _ q true _ ha1 hd1 (app1_anti _ q false ψ ha0 hd0 h0)
        · split at hc
          · rename_i hz0; cases hc
            obtain ⟨hb0, hc0⟩ := isZ_diag k g0 hz0
            exact app1_anti _ q false _ ha1 hd1 (app1_diag _ q false ψ hb0 hc0 h0)
          · cases hc
      · cases hc
  | _ :: _ :: _ :: _, _, hc => simp [classify] at hc

/-- the pre-repair seeded slip (first gate not required to be a bit flip) is unsound: RX(0)·X leaves |1⟩ -/
example : classify [⟨.RX, false⟩, ⟨.X, true⟩] = none := by decide

/-! ### Pauli words on a state with a fixed qubit -/

def letterMat (k : Consts R) : Letter → M2 R
  | .I => M2.one
  | .X => baseMatrix k .X 0
  | .Y => baseMatrix k .Y 0
  | .Z => baseMatrix k .Z 0

/-- a Pauli string applied letter by letter, the first letter acting on qubit `p` -/
def appWordFrom (k : Consts R) : Nat → List Letter → State R → State R
  | _, [], ψ => ψ
  | p, l :: ls, ψ => appWordFrom k (p + 1) ls (app1 (letterMat k l) p ψ)

def appWord (k : Consts R) (w : List Letter) (ψ : State R) : State R := appWordFrom k 0 w ψ

def flipsAt (w : List Letter) (i : Nat) : Bool :=
  match w[i]? with
  | some .X => true
  | some .Y => true
  | _ => false

theorem letter_shape (k : Consts R) (l : Letter) :
    ((l = .X ∨ l = .Y) → (letterMat k l).a = 0 ∧ (letterMat k l).d = 0) ∧
    ((l = .I ∨ l = .Z) → (letterMat k l).b = 0 ∧ (letterMat k l).c = 0) := by
  cases l <;> simp [letterMat, baseMatrix, M2.one]

theorem appWordFrom_below (k : Consts R) (p : Nat) (w : List Letter) (ψ : State R) (q : Nat) (b : Bool)
    (hq : q < p) (h : HasBit ψ q b) : HasBit (appWordFrom k p w ψ) q b := by
  induction w generalizing p ψ with
  | nil => exact h
  | cons l ls ih =>
    simp only [appWordFrom]
    exact ih (p + 1) _ (by omega) (app1_other _ p q b ψ (by omega) h)

theorem appWordFrom_hasBit (k : Consts R) (p : Nat) (w : List Letter) (ψ : State R) (q : Nat) (b : Bool)
    (hq : p ≤ q) (h : HasBit ψ q b) : HasBit (appWordFrom k p w ψ) q (b ^^ flipsAt w (q - p)) := by
  induction w generalizing p ψ with
  | nil => simpa [appWordFrom, flipsAt] using h
  | cons l ls ih =>
    simp only [appWordFrom]
    by_cases hpq : p = q
    · subst hpq
      have hsh := letter_shape k l
      have hf : flipsAt (l :: ls) (p - p) = (decide (l = .X) || decide (l = .Y)) := by
        cases l <;> simp [flipsAt]
      rw [hf]
      apply appWordFrom_below k (p + 1) ls _ p _ (by omega)
      cases l
      · simpa using app1_diag _ p b ψ (hsh.2 (Or.inl rfl)).1 (hsh.2 (Or.inl rfl)).2 h
      · simpa using app1_anti _ p b ψ (hsh.1 (Or.inl rfl)).1 (hsh.1 (Or.inl rfl)).2 h
      · simpa using app1_anti _ p b ψ (hsh.1 (Or.inr rfl)).1 (hsh.1 (Or.inr rfl)).2 h
      · simpa using app1_diag _ p b ψ (hsh.2 (Or.inr rfl)).1 (hsh.2 (Or.inr rfl)).2 h
    · have hlt : p + 1 ≤ q := by omega
      have hf : flipsAt (l :: ls) (q - p) = flipsAt ls (q - (p + 1)) := by
        have : q - p = (q - (p + 1)) + 1 := by omega
        rw [this]; simp [flipsAt]
      rw [hf]
      exact ih (p + 1) _ hlt (app1_other _ p q b ψ hpq h)

/-- **X or Y on a trimmed qubit**: the term contributes nothing — pointwise, hence for any inner product -/
theorem word_xy_zero (k : Consts R) (w : List Letter) (ψ : State R) (q : Nat) (b : Bool)
    (h : HasBit ψ q b) (hf : flipsAt w q = true) (x : Bits) : ψ x * appWord k w ψ x = 0 := by
  have hP := appWordFrom_hasBit k 0 w ψ q b (Nat.zero_le _) h
  simp only [Nat.sub_zero, hf, Bool.xor_true] at hP
  by_cases hx : x q = b
  · have : appWord k w ψ x = 0 := hP x (by rw [hx]; cases b <;> simp)
    rw [this, mul_zero]
  · rw [h x hx, zero_mul]

theorem app1_smul (m : M2 R) (t : Nat) (c : R) (ψ : State R) :
    app1 m t (fun x => c * ψ x) = fun x => c * app1 m t ψ x := by
  funext x; simp only [app1]; split <;> ring

theorem appWordFrom_smul (k : Consts R) (p : Nat) (w : List Letter) (c : R) (ψ : State R) :
    appWordFrom k p w (fun x => c * ψ x) = fun x => c * appWordFrom k p w ψ x := by
  induction w generalizing p ψ with
  | nil => rfl
  | cons l ls ih => simp only [appWordFrom]; rw [app1_smul, ih]

def zSign (b : Bool) : R := if b then -1 else 1

theorem app1_Z_hasBit (k : Consts R) (q : Nat) (b : Bool) (ψ : State R) (h : HasBit ψ q b) :
    app1 (letterMat k .Z) q ψ = fun x => zSign b * ψ x := by
  funext x
  cases hxq : x q
  · have hx : x.set q false = x := by rw [← hxq]; exact Bits.set_self x q
    cases b
    · simp [app1, hxq, letterMat, baseMatrix, zSign, hx]
    · have : ψ x = 0 := h x (by simp [hxq])
      simp [app1, hxq, letterMat, baseMatrix, zSign, hx, this]
  · have hx : x.set q true = x := by rw [← hxq]; exact Bits.set_self x q
    cases b
    · have : ψ x = 0 := h x (by simp [hxq])
      simp [app1, hxq, letterMat, baseMatrix, zSign, hx, this]
    · simp [app1, hxq, letterMat, baseMatrix, zSign, hx]

theorem word_z_from (k : Consts R) (p : Nat) (w : List Letter) (ψ : State R) (q : Nat) (b : Bool)
    (hq : p ≤ q) (h : HasBit ψ q b) (hz : w[q - p]? = some .Z) :
    appWordFrom k p w ψ = fun x => zSign b * appWordFrom k p (w.set (q - p) .I) ψ x := by
  induction w generalizing p ψ with
  | nil => simp at hz
  | cons l ls ih =>
    by_cases hpq : p = q
    · subst hpq
      simp only [Nat.sub_self, List.getElem?_cons_zero, Option.some.injEq] at hz
      subst hz
      simp only [Nat.sub_self, List.set_cons_zero, appWordFrom]
      rw [app1_Z_hasBit k p b ψ h, appWordFrom_smul]
      have : app1 (letterMat k .I) p ψ = ψ := app1_one p ψ
      rw [this]
    · have e : q - p = (q - (p + 1)) + 1 := by omega
      rw [e] at hz ⊢
      simp only [List.getElem?_cons_succ] at hz
      simp only [List.set_cons_succ, appWordFrom]
      exact ih (p + 1) _ (by omega) (app1_other _ p q b ψ hpq h) hz

/-- **Z on a trimmed qubit**: the word acts as (−1)^b times the word with that letter removed -/
theorem word_z_sign (k : Consts R) (w : List Letter) (ψ : State R) (q : Nat) (b : Bool)
    (h : HasBit ψ q b) (hz : w[q]? = some .Z) :
    appWord k w ψ = fun x => zSign b * appWord k (w.set q .I) ψ x := by
  have := word_z_from k 0 w ψ q b (Nat.zero_le _) h (by simpa using hz)
  simpa [appWord] using this

/-- the term rule agrees with these facts: one trimmed qubit -/
theorem trimTerm_single (term : List Letter) (q : Nat) (b : Bool) :
    trimTerm term [(q, b)] false =
      match term[q]? with
      | some .X => none
      | some .Y => none
      | some .Z => some (if b then -1 else 1, term.set q .I)
      | _ => some (1, term.set q .I) := by
  unfold trimTerm
  simp only [trimTermFrom]
  cases hl : term[q]? with
  | none => simp
  | some l => cases l <;> cases b <;> simp

theorem trimTerm_single_reindex (term : List Letter) (q : Nat) (b : Bool) :
    trimTerm term [(q, b)] true =
      match term[q]? with
      | some .X => none
      | some .Y => none
      | some .Z => some (if b then -1 else 1, term.eraseIdx q)
      | _ => some (1, term.eraseIdx q) := by
  unfold trimTerm
  simp only [trimTermFrom]
  cases hl : term[q]? with
  | none => simp
  | some l => cases l <;> cases b <;> simp

end trim

/-! ### expectation values: trimming (without re-indexing) leaves every term's expectation value unchanged -/
section trimexpect
open Finset
variable {S : Type} [CommRing S] [StarRing S]

/-- ⟨ψ| P_w |ψ⟩ on an n-qubit register -/
def expectW (k : Consts S) (n : Nat) (ψ : State S) (w : List Letter) : S :=
  ∑ i ∈ range (2 ^ n), star (ψ (bitsOf i)) * appWord k w ψ (bitsOf i)

theorem expect_xy_zero (k : Consts S) (n : Nat) (w : List Letter) (ψ : State S) (q : Nat) (b : Bool)
    (h : HasBit ψ q b) (hf : flipsAt w q = true) : expectW k n ψ w = 0 := by
  unfold expectW
  apply Finset.sum_eq_zero
  intro i _
  have hP := appWordFrom_hasBit k 0 w ψ q b (Nat.zero_le _) h
  simp only [Nat.sub_zero, hf, Bool.xor_true] at hP
  by_cases hx : (bitsOf i) q = b
  · have : appWord k w ψ (bitsOf i) = 0 := hP _ (by rw [hx]; cases b <;> simp)
    rw [this, mul_zero]
  · rw [h _ hx, star_zero, zero_mul]

theorem expect_z_sign (k : Consts S) (n : Nat) (w : List Letter) (ψ : State S) (q : Nat) (b : Bool)
    (h : HasBit ψ q b) (hz : w[q]? = some .Z) : expectW k n ψ w = zSign b * expectW k n ψ (w.set q .I) := by
  unfold expectW
  rw [Finset.mul_sum]
  apply Finset.sum_congr rfl
  intro i _
  rw [word_z_sign k w ψ q b h hz]
  ring

theorem set_same (w : List Letter) (q : Nat) (h : w[q]? = some .I ∨ w[q]? = none) : w.set q .I = w := by
  apply List.ext_getElem?
  intro j
  by_cases hj : j = q
  · subst hj
    rcases h with h | h
    · have hlt : j < w.length := by
        by_contra hc
        rw [List.getElem?_eq_none (by omega)] at h; cases h
      rw [List.getElem?_set_self hlt, h]
    · have hge : w.length ≤ j := by
        by_contra hc
        rw [List.getElem?_eq_getElem (by omega)] at h; cases h
      rw [List.getElem?_eq_none (by simpa using hge), List.getElem?_eq_none hge]
  · rw [List.getElem?_set_ne (fun e => hj e.symm)]

/-- **`trim_trivial_operator` (reindex = False) preserves every expectation value**: for a state whose trimmed
    qubits are in the recorded basis states (distinct qubits), a term either vanishes — and then its expectation
    value is 0 — or becomes `sign · term'` with ⟨term⟩ = sign · ⟨term'⟩; for every register size and every state -/
theorem trimTermFrom_expect (k : Consts S) (n : Nat) (ψ : State S) (term : List Letter) (i : Nat)
    (rest : List (Nat × Bool)) (sign : Int) (new : List Letter)
    (hbits : ∀ qb ∈ rest, HasBit ψ qb.1 qb.2) (hnd : (rest.map (·.1)).Nodup)
    (hagree : ∀ qb ∈ rest, new[qb.1]? = term[qb.1]?)
    (hinv : expectW k n ψ term = (sign : S) * expectW k n ψ new) :
    match trimTermFrom term false i rest sign new with
    | none => expectW k n ψ term = 0
    | some (s, new') => expectW k n ψ term = (s : S) * expectW k n ψ new' := by
  induction rest generalizing i sign new with
  | nil => simpa [trimTermFrom] using hinv
  | cons qb rest ih =>
    obtain ⟨q, b⟩ := qb
    have hq := hbits (q, b) List.mem_cons_self
    have hag := hagree (q, b) List.mem_cons_self
    simp only [List.map_cons, List.nodup_cons] at hnd
    have hrestbits : ∀ qb ∈ rest, HasBit ψ qb.1 qb.2 := fun qb h => hbits qb (List.mem_cons_of_mem _ h)
    have hrest_ne : ∀ qb ∈ rest, qb.1 ≠ q := fun qb h e => hnd.1 (List.mem_map.mpr ⟨qb, h, e⟩)
    have hagree' : ∀ qb ∈ rest, (new.set q .I)[qb.1]? = term[qb.1]? := by
      intro qb h
      rw [List.getElem?_set_ne (fun e => hrest_ne qb h e.symm)]
      exact hagree qb (List.mem_cons_of_mem _ h)
    simp only [trimTermFrom]
    cases hl : term[q]? with
    | none =>
      simp only [Bool.false_eq_true, if_false]
      have hs : (none : Option Letter) = some .Z ↔ False := by simp
      simp only [show ((none : Option Letter) = some Letter.Z) = False from by simp, false_and, decide_false,
        Bool.false_eq_true, if_false]
      apply ih (i + 1) sign (new.set q .I) hrestbits hnd.2 hagree'
      rw [set_same new q (Or.inr (by rw [hag, hl]))]; exact hinv
    | some l =>
      cases l with
      | X =>
        simp only
        rw [hinv, expect_xy_zero k n new ψ q b hq (by simp [flipsAt, hag, hl]), mul_zero]
      | Y =>
        simp only
        rw [hinv, expect_xy_zero k n new ψ q b hq (by simp [flipsAt, hag, hl]), mul_zero]
      | I =>
        simp only [Bool.false_eq_true, if_false]
        have : (some Letter.I = some Letter.Z) = False := by simp
        simp only [this, false_and, decide_false, Bool.false_eq_true, if_false]
        apply ih (i + 1) sign (new.set q .I) hrestbits hnd.2 hagree'
        rw [set_same new q (Or.inl (by rw [hag, hl]))]; exact hinv
      | Z =>
        simp only [Bool.false_eq_true, if_false, true_and]
        cases b with
        | false =>
          try simp only [Bool.false_eq_true, decide_false, if_false]
          apply ih (i + 1) sign (new.set q .I) hrestbits hnd.2 hagree'
          rw [hinv, expect_z_sign k n new ψ q false hq (by rw [hag, hl])]
          simp [zSign]
        | true =>
          try simp only [decide_true, if_true]
          apply ih (i + 1) (-sign) (new.set q .I) hrestbits hnd.2 hagree'
          rw [hinv, expect_z_sign k n new ψ q true hq (by rw [hag, hl])]
          simp [zSign]

theorem trimTerm_expect (k : Consts S) (n : Nat) (ψ : State S) (term : List Letter) (states : List (Nat × Bool))
    (hbits : ∀ qb ∈ states, HasBit ψ qb.1 qb.2) (hnd : (states.map (·.1)).Nodup) :
    match trimTerm term states false with
    | none => expectW k n ψ term = 0
    | some (s, new') => expectW k n ψ term = (s : S) * expectW k n ψ new' := by
  unfold trimTerm
  exact trimTermFrom_expect k n ψ term 0 states 1 term hbits hnd (fun _ _ => rfl) (by simp)

end trimexpect

/-! ## truncation: the cumulative-norm loop -/
section trunc
variable {K : Type} [Field K] [LinearOrder K] [IsStrictOrderedRing K]

/-- squared coefficients discarded by the loop, by the same recursion -/
def discardedSum (thr2 : K) : K → List K → K
  | _, [] => 0
  | acc, c :: cs => let acc' := acc + c * c; (if thr2 < acc' then 0 else c * c) + discardedSum thr2 acc' cs

theorem discarded_zero_of_gt (thr2 acc : K) (cs : List K) (h : thr2 < acc) : discardedSum thr2 acc cs = 0 := by
  induction cs generalizing acc with
  | nil => rfl
  | cons c cs ih =>
    have hc : 0 ≤ c * c := mul_self_nonneg c
    have h' : thr2 < acc + c * c := by linarith
    simp only [discardedSum, h', if_true, zero_add]
    exact ih _ h'

/-- loop invariant: while nothing is kept yet, running sum + what will still be discarded ≤ budget -/
theorem discarded_le (thr2 acc : K) (cs : List K) (h : acc ≤ thr2) : acc + discardedSum thr2 acc cs ≤ thr2 := by
  induction cs generalizing acc with
  | nil => simpa [discardedSum] using h
  | cons c cs ih =>
    simp only [discardedSum]
    by_cases h' : thr2 < acc + c * c
    · simp only [h', if_true, zero_add]
      rw [discarded_zero_of_gt thr2 _ cs h']; simpa using h
    · simp only [h', if_false]
      have := ih (acc + c * c) (not_lt.mp h')
      linarith

/-- **budget**: the discarded coefficients satisfy Σ c² ≤ ε²/2ⁿ, i.e. the discarded operator has squared
    Frobenius norm 2ⁿ Σ c² ≤ ε² (so operator norm ≤ ε) -/
theorem frob_budget (eps : K) (n : Nat) (cs : List K) :
    (2 : K) ^ n * discardedSum (eps * eps / 2 ^ n) 0 cs ≤ eps * eps := by
  have hp : (0 : K) < 2 ^ n := by positivity
  have h0 : (0 : K) ≤ eps * eps / 2 ^ n := div_nonneg (mul_self_nonneg eps) hp.le
  have := discarded_le (eps * eps / 2 ^ n) 0 cs h0
  rw [zero_add] at this
  calc (2 : K) ^ n * discardedSum (eps * eps / 2 ^ n) 0 cs ≤ 2 ^ n * (eps * eps / 2 ^ n) :=
        mul_le_mul_of_nonneg_left this hp.le
    _ = eps * eps := mul_div_cancel₀ _ hp.ne'

theorem frobKeep_all_of_gt (thr2 acc : K) (cs : List K) (h : thr2 < acc) : ∀ f ∈ frobKeep thr2 acc cs, f = true := by
  induction cs generalizing acc with
  | nil => intro f hf; simp [frobKeep] at hf
  | cons c cs ih =>
    have hc : 0 ≤ c * c := mul_self_nonneg c
    have h' : thr2 < acc + c * c := by linarith
    intro f hf
    simp only [frobKeep, List.mem_cons] at hf
    rcases hf with hf | hf
    · rw [hf]; simpa using h'
    · exact ih _ h' f hf

/-- the kept terms form a suffix of the sorted list: once a term is kept every later one is -/
theorem frobKeep_monotone (thr2 acc : K) (cs : List K) :
    (frobKeep thr2 acc cs).Pairwise (fun a b => a = true → b = true) := by
  induction cs generalizing acc with
  | nil => simp [frobKeep]
  | cons c cs ih =>
    simp only [frobKeep, List.pairwise_cons]
    refine ⟨?_, ih _⟩
    intro b hb ha
    exact frobKeep_all_of_gt thr2 _ cs (by simpa using ha) b hb

omit [IsStrictOrderedRing K] in
/-- the recursion `discardedSum` is the sum over the positions flagged `false` -/
theorem discardedSq_eq (thr2 acc : K) (cs : List K) :
    discardedSq (frobKeep thr2 acc cs) cs = discardedSum thr2 acc cs := by
  unfold discardedSq
  suffices h : ∀ a0 : K, ((cs.zip (frobKeep thr2 acc cs)).filter (fun p => !p.2)).foldl (fun a p => a + p.1 * p.1) a0
      = a0 + discardedSum thr2 acc cs by simpa using h 0
  induction cs generalizing acc with
  | nil => intro a0; simp [frobKeep, discardedSum]
  | cons c cs ih =>
    intro a0
    simp only [frobKeep, List.zip_cons_cons, discardedSum]
    by_cases h' : thr2 < acc + c * c
    · simp [h', ih]
    · simp [h', ih]; ring

/-- with the pre-repair factor 2^(n div 2) the budget is exceeded for odd n: (I + Z)·c on one qubit -/
example : discardedSum ((1 : ℚ) * 1 / 2 ^ (1 / 2)) 0 [7 / 10, 7 / 10] = 49 / 50 ∧ (2 : ℚ) ^ 1 * (49 / 50) > 1 * 1 := by
  norm_num [discardedSum]

end trunc

/-! ## tapering: the Clifford rotation, in any ring -/
section taper
variable {A : Type} [Ring A]

theorem V_sq (σ τ : A) (hσ : σ * σ = 1) (hτ : τ * τ = 1) (h : σ * τ = -(τ * σ)) : (σ + τ) * (σ + τ) = 2 := by
  have : (σ + τ) * (σ + τ) = σ * σ + σ * τ + τ * σ + τ * τ := by noncomm_ring
  rw [this, hσ, hτ, h]; abel_nf; norm_num

theorem V_tau (σ τ : A) (hσ : σ * σ = 1) (hτ : τ * τ = 1) : (σ + τ) * τ = σ * (σ + τ) := by
  rw [add_mul, mul_add, hσ, hτ]; abel

theorem V_sigma (σ τ : A) (hσ : σ * σ = 1) (hτ : τ * τ = 1) : (σ + τ) * σ = τ * (σ + τ) := by
  rw [add_mul, mul_add, hσ, hτ]; abel

/-- the rotation exchanges the symmetry τ and the single-qubit Pauli σ:  V τ V = 2 σ  (U τ U = σ) -/
theorem V_conj_tau (σ τ : A) (hσ : σ * σ = 1) (hτ : τ * τ = 1) (h : σ * τ = -(τ * σ)) :
    (σ + τ) * τ * (σ + τ) = 2 * σ := by
  rw [V_tau σ τ hσ hτ, mul_assoc, V_sq σ τ hσ hτ h]; noncomm_ring

theorem V_conj_sigma (σ τ : A) (hσ : σ * σ = 1) (hτ : τ * τ = 1) (h : σ * τ = -(τ * σ)) :
    (σ + τ) * σ * (σ + τ) = 2 * τ := by
  rw [V_sigma σ τ hσ hτ, mul_assoc, V_sq σ τ hσ hτ h]; noncomm_ring

/-- with a central 1/√2 the rotation is an involution -/
theorem U_involution (σ τ c : A) (hσ : σ * σ = 1) (hτ : τ * τ = 1) (h : σ * τ = -(τ * σ))
    (hc : ∀ x : A, c * x = x * c) (h2 : 2 * (c * c) = 1) : (c * (σ + τ)) * (c * (σ + τ)) = 1 := by
  have : (c * (σ + τ)) * (c * (σ + τ)) = c * c * ((σ + τ) * (σ + τ)) := by
    rw [mul_assoc, ← mul_assoc (σ + τ) c, ← hc (σ + τ), mul_assoc c (σ + τ), ← mul_assoc c c]
  rw [this, V_sq σ τ hσ hτ h]
  calc c * c * 2 = 2 * (c * c) := by noncomm_ring
    _ = 1 := h2

/-- an operator commuting with the symmetry τ is rotated into one commuting with the single-qubit σ,
    so after the rotation it carries only I or the chosen Pauli on that qubit -/
theorem rotated_commutes (σ τ P : A) (hσ : σ * σ = 1) (hτ : τ * τ = 1) (hP : P * τ = τ * P) :
    ((σ + τ) * P * (σ + τ)) * σ = σ * ((σ + τ) * P * (σ + τ)) := by
  calc ((σ + τ) * P * (σ + τ)) * σ = (σ + τ) * P * ((σ + τ) * σ) := by noncomm_ring
    _ = (σ + τ) * P * (τ * (σ + τ)) := by rw [V_sigma σ τ hσ hτ]
    _ = (σ + τ) * (P * τ) * (σ + τ) := by noncomm_ring
    _ = (σ + τ) * (τ * P) * (σ + τ) := by rw [hP]
    _ = ((σ + τ) * τ) * P * (σ + τ) := by noncomm_ring
    _ = (σ * (σ + τ)) * P * (σ + τ) := by rw [V_tau σ τ hσ hτ]
    _ = σ * ((σ + τ) * P * (σ + τ)) := by noncomm_ring

/-- rotations built from mutually commuting pieces commute, so their product is again Hermitian and the
    code's `U · H · U` with the same product on both sides is a conjugation -/
theorem V_commute (σ₁ τ₁ σ₂ τ₂ : A) (h1 : σ₁ * σ₂ = σ₂ * σ₁) (h2 : σ₁ * τ₂ = τ₂ * σ₁) (h3 : τ₁ * σ₂ = σ₂ * τ₁)
    (h4 : τ₁ * τ₂ = τ₂ * τ₁) : (σ₁ + τ₁) * (σ₂ + τ₂) = (σ₂ + τ₂) * (σ₁ + τ₁) := by
  simp only [add_mul, mul_add, h1, h2, h3, h4]; abel

/-- conjugation by an involution is multiplicative: products of terms are rotated term by term -/
theorem conj_mul (U P Q : A) (hU : U * U = 1) : (U * P * U) * (U * Q * U) = U * (P * Q) * U := by
  calc (U * P * U) * (U * Q * U) = U * P * (U * U) * Q * U := by noncomm_ring
    _ = U * (P * Q) * U := by rw [hU]; noncomm_ring

theorem invol_mul (U W : A) (hU : U * U = 1) (hW : W * W = 1) (hc : U * W = W * U) : (U * W) * (U * W) = 1 := by
  calc (U * W) * (U * W) = U * (W * U) * W := by noncomm_ring
    _ = U * (U * W) * W := by rw [hc]
    _ = (U * U) * (W * W) := by noncomm_ring
    _ = 1 := by rw [hU, hW, one_mul]

/-- **spectral inclusion**: an eigenvector of the rotated operator gives an eigenvector of the original
    operator with the same eigenvalue (λ any central element, e.g. a scalar) -/
theorem eigen_transfer {M : Type} [AddCommGroup M] [Module A M] (U H lam : A) (hU : U * U = 1)
    (hl : lam * U = U * lam) (v : M) (h : (U * H * U) • v = lam • v) : H • (U • v) = lam • (U • v) := by
  have e1 : H • (U • v) = U • ((U * H * U) • v) := by
    rw [← mul_smul, ← mul_smul]
    congr 1
    calc H * U = (U * U) * H * U := by rw [hU, one_mul]
      _ = U * (U * H * U) := by noncomm_ring
  rw [e1, h, ← mul_smul, ← mul_smul, hl]

/-- restriction to a sector: if the rotated operator commutes with σ and v lies in the σ = s sector, so
    does its image — the sector is an invariant subspace, which is what substituting the eigenvalue and
    deleting the qubit computes -/
theorem sector_invariant {M : Type} [AddCommGroup M] [Module A M] (σ H' s : A) (hc : H' * σ = σ * H')
    (hs : s * H' = H' * s) (v : M) (hv : σ • v = s • v) : σ • (H' • v) = s • (H' • v) := by
  rw [← mul_smul, ← hc, mul_smul, hv, ← mul_smul, ← mul_smul, hs]

end taper

/-! ## non-vacuity -/
example : classify [⟨.RX, true⟩, ⟨.X, true⟩] = some false := by decide
example : classify [⟨.RZ, false⟩, ⟨.RX, true⟩] = some true := by decide
example : trimTerm [.X, .Z, .I, .Z] [(1, true), (3, false)] true = some (-1, [.X, .I]) := by decide
example : trimTerm [.X, .Z, .I, .Z] [(0, true)] true = none := by decide
example : frobKeep (1 / 4 : ℚ) 0 [1 / 10, 2 / 10, 1 / 2, 3] = [false, false, true, true] := by
  simp [frobKeep]; norm_num

end Tangelo.C14
