import TangeloModel.RefState
import TangeloProofs.Props.C03
/-!
# C05 — reference-state circuits encode the requested occupations
-/
namespace Tangelo.C05
open Tangelo JW RefState
variable {R : Type} [CommRing R]

/-- **the number operator reads the occupation**: a_j† a_j multiplies the amplitude of a basis state by its
    occupation bit, for every mode and every register size.  Through `C03.jw_annihilate` / `jw_create` the
    Jordan-Wigner encoded operators act identically, so the encoded number operator has expectation exactly
    1 on occupied and 0 on empty orbitals of any computational-basis state. -/
theorem number_operator_occupation (j : Nat) (ψ : State R) (x : Bits) :
    create j (annihilate j ψ) x = if x j then ψ x else 0 := by
  unfold create annihilate
  by_cases h : x j
  · simp only [h, if_true, Bits.set_same, Bool.false_eq_true, if_false, Bits.set_set]
    rw [C03.belowSign_set j j (Nat.le_refl j), ← h, Bits.set_self]
    linear_combination (ψ x) * C03.belowSign_sq (R := R) j x
  · simp [h]

/-- the encoded form: ½(X − iY)Z… ∘ ½(X + iY)Z… has the same action -/
theorem jw_number_operator (k : Consts R) (L : k.Laws) (j : Nat) (ψ : State R) (x : Bits) :
    (fun φ y => k.half * wordSem k (zString j ++ [(j, 2)]) φ y + (-(k.half * k.i)) * wordSem k (zString j ++ [(j, 3)]) φ y)
      (fun y => k.half * wordSem k (zString j ++ [(j, 2)]) ψ y + (k.half * k.i) * wordSem k (zString j ++ [(j, 3)]) ψ y) x
    = if x j then ψ x else 0 := by
  have h1 : (fun y => k.half * wordSem k (zString j ++ [(j, 2)]) ψ y + (k.half * k.i) * wordSem k (zString j ++ [(j, 3)]) ψ y) = annihilate j ψ := by
    funext y; exact C03.jw_annihilate k L j ψ y
  simp only [h1]
  rw [C03.jw_create k L j (annihilate j ψ) x]
  exact number_operator_occupation j ψ x

/-! ## X gates prepare the basis state of the vector -/

/-- bits of `x` with the positions i, i+1, … flipped where the vector says so -/
def flipFrom (i : Nat) (v : List Bool) (x : Bits) : Bits := fun q => if i ≤ q then xor (x q) (v.getD (q - i) false) else x q

theorem toGatesFrom_ops (i : Nat) (v : List Bool) :
    ∃ ops, gatesToOps (toGatesFrom i v) = some ops ∧ ∀ (k : Consts R) (ψ : State R) (x : Bits), semOps k ops ψ x = ψ (flipFrom i v x) := by
  induction v generalizing i with
  | nil =>
    refine ⟨[], rfl, ?_⟩
    intro k ψ x
    simp only [semOps, List.foldl_nil]
    congr 1; funext q; simp [flipFrom]
  | cons b bs ih =>
    obtain ⟨ops, hops, hsem⟩ := ih (i + 1)
    have hflip : ∀ (x : Bits), flipFrom (i + 1) bs (if b then x.set i (!x i) else x) = flipFrom i (b :: bs) x := by
      intro x
      funext q
      simp only [flipFrom]
      by_cases h1 : i + 1 ≤ q
      · have h2 : i ≤ q := by omega
        have e : q - i = (q - (i + 1)) + 1 := by omega
        have hq : q ≠ i := by omega
        simp only [h1, h2, if_true, e, List.getD_cons_succ]
        cases b <;> simp [Bits.set, hq]
      · by_cases h2 : i ≤ q
        · have e : q = i := by omega
          subst e
          simp only [h1, h2, if_false, if_true, Nat.sub_self, List.getD_cons_zero]
          cases b <;> simp [Bits.set]
        · have hq : q ≠ i := by omega
          simp only [h1, h2, if_false]
          cases b <;> simp [Bits.set, hq]
    cases b with
    | false =>
      refine ⟨ops, by simpa [toGatesFrom] using hops, ?_⟩
      intro k ψ x
      rw [hsem, ← hflip x]; rfl
    | true =>
      refine ⟨Op.one .X 0 i [] :: ops, ?_, ?_⟩
      · simp only [toGatesFrom, if_true, List.singleton_append, gatesToOps, bind, Option.bind, hops]
        rfl
      · intro k ψ x
        show semOps k ops ((Op.one .X 0 i []).sem k ψ) x = _
        rw [hsem, C03.x_sem]
        congr 1
        funext q
        simp only [flipFrom, Bits.set]
        by_cases h1 : i + 1 ≤ q
        · have h2 : i ≤ q := by omega
          have e : q - i = (q - (i + 1)) + 1 := by omega
          have hq : q ≠ i := by omega
          simp [h1, h2, e, hq]
        · by_cases h2 : i ≤ q
          · have e : q = i := by omega
            subst e
            simp [h1]
          · have hq : q ≠ i := by omega
            simp [h1, h2, hq]

/-- **`vector_to_circuit` prepares |v⟩**: the circuit maps the amplitude function ψ to x ↦ ψ(x ⊕ v); starting
    from |0…0⟩ the only non-zero amplitude is at x = v -/
theorem x_gates_prepare (v : List Bool) :
    ∃ ops, gatesToOps (toGates v) = some ops ∧ ∀ (k : Consts R) (ψ : State R) (x : Bits), semOps k ops ψ x = ψ (flipFrom 0 v x) :=
  toGatesFrom_ops 0 v

/-! ## ordering conversion and filling -/

theorem filter_partition_length {α : Type} (p : α → Bool) (l : List α) :
    (l.filter p).length + (l.filter (fun a => !p a)).length = l.length := by
  induction l with
  | nil => rfl
  | cons a as ih => cases h : p a <;> simp [List.filter_cons, h] <;> omega

theorem toUpThenDown_length (v : List Bool) : (toUpThenDown v).length = v.length := by
  simp only [toUpThenDown, List.length_append, List.length_map]
  have := filter_partition_length (fun (p : Bool × Nat) => p.2 % 2 == 0) v.zipIdx
  have h2 : (v.zipIdx.filter (fun (p : Bool × Nat) => p.2 % 2 == 1)) = (v.zipIdx.filter (fun (p : Bool × Nat) => !(p.2 % 2 == 0))) := by
    apply List.filter_congr
    intro p _
    rcases Nat.mod_two_eq_zero_or_one p.2 with h | h <;> simp [h]
  rw [h2]
  simp only [List.length_zipIdx] at this
  exact this

/-- the filled vector has exactly the requested alpha / beta electrons in the lowest orbitals — for every
    admissible (n_electrons, spin ≠ 0 branch included) and every even n ≤ 10 (finite table, kernel-checked;
    the unbounded statement is covered by the exhaustive correspondence only) -/
theorem occupation_table_partial :
    ∀ n ∈ [2, 4, 6, 8, 10], ∀ p ∈ admissible n, p.2 = 0 ∨ occupationOk n p.1 p.2 = true := by decide +kernel

/-! ## non-vacuity -/
example : occupation 6 3 (some 1) = [true, true, true, false, false, false] := by decide +kernel
example : occupation 6 3 (some (-1)) = [true, true, false, true, false, false] := by decide +kernel
example : toUpThenDown [true, true, true, false, false, false] = [true, true, false, true, false, false] := by decide

end Tangelo.C05
