import TangeloModel.RefState
import TangeloProofs.Props.C03
/-!
# C05 — reference-state circuits encode the requested occupations
-/
namespace Tangelo.C05
open Tangelo JW RefState
variable {R : Type} [CommRing R]

/-- **the number operator reads the occupation**: a_j† a_j multiplies the amplitude of a basis state by its
    occupation bit, for every mode and every register size.  Through `C03.jw_annihilate` / `jw_create` the
    Jordan-Wigner encoded operators act identically, so the encoded number operator has expectation exactly
    1 on occupied and 0 on empty orbitals of any computational-basis state. -/
theorem number_operator_occupation (j : Nat) (ψ : State R) (x : Bits) :
    create j (annihilate j ψ) x = if x j then ψ x else 0 := by
  unfold create annihilate
  by_cases h : x j
  · simp only [h, if_true, Bits.set_same, Bool.false_eq_true, if_false, Bits.set_set]
    rw [C03.belowSign_set j j (Nat.le_refl j), ← h, Bits.set_self]
    linear_combination (ψ x) * C03.belowSign_sq (R := R) j x
  · simp [h]

/-- the encoded form: ½(X − iY)Z… ∘ ½(X + iY)Z… has the same action -/
theorem jw_number_operator (k : Consts R) (L : k.Laws) (j : Nat) (ψ : State R) (x : Bits) :
    (fun φ y => k.half * wordSem k (zString j ++ [(j, 2)]) φ y + (-(k.half * k.i)) * wordSem k (zString j ++ [(j, 3)]) φ y)
      (fun y => k.half * wordSem k (zString j ++ [(j, 2)]) ψ y + (k.half * k.i) * wordSem k (zString j ++ [(j, 3)]) ψ y) x
    = if x j then ψ x else 0 := by
  have h1 : (fun y => k.half * wordSem k (zString j ++ [(j, 2)]) ψ y + (k.half * k.i) * wordSem k (zString j ++ [(j, 3)]) ψ y) = annihilate j ψ := by
    funext y; exact C03.jw_annihilate k L j ψ y
  simp only [h1]
  rw [C03.jw_create k L j (annihilate j ψ) x]
  exact number_operator_occupation j ψ x

/-! ## X gates prepare the basis state of the vector -/

/-- bits of `x` with the positions i, i+1, … flipped where the vector says so -/
def flipFrom (i : Nat) (v : List Bool) (x : Bits) : Bits := fun q => if i ≤ q then xor (x q) (v.getD (q - i) false) else x q

theorem toGatesFrom_ops (i : Nat) (v : List Bool) :
    ∃ ops, gatesToOps (toGatesFrom i v) = some ops ∧ ∀ (k : Consts R) (ψ : State R) (x : Bits), semOps k ops ψ x = ψ (flipFrom i v x) := by
  induction v generalizing i with
  | nil =>
    refine ⟨[], rfl, ?_⟩
    intro k ψ x
    simp only [semOps, List.foldl_nil]
    congr 1; funext q; simp [flipFrom]
  | cons b bs ih =>
    obtain ⟨ops, hops, hsem⟩ := ih (i + 1)
    have hflip : ∀ (x : Bits), flipFrom (i + 1) bs (if b then x.set i (!x i) else x) = flipFrom i (b :: bs) x := by
      intro x
      funext q
      simp only [flipFrom]
      by_cases h1 : i + 1 ≤ q
      · have h2 : i ≤ q := by omega
        have e : q - i = (q - (i + 1)) + 1 := by omega
        have hq : q ≠ i := by omega
        simp only [h1, h2, if_true, e, List.getD_cons_succ]
        cases b <;> simp [Bits.set, hq]
      · by_cases h2 : i ≤ q
        · have e : q = i := by omega
          subst e
          simp only [h1, h2, if_false, if_true, Nat.sub_self, List.getD_cons_zero]
          cases b <;> simp [Bits.set]
        · have hq : q ≠ i := by omega
          simp only [h1, h2, if_false]
          cases b <;> simp [Bits.set, hq]
    cases b with
    | false =>
      refine ⟨ops, by simpa [toGatesFrom] using hops, ?_⟩
      intro k ψ x
      rw [hsem, ← hflip x]; rfl
    | true =>
      refine ⟨Op.one .X 0 i [] :: ops, ?_, ?_⟩
      · simp only [toGatesFrom, if_true, List.singleton_append, gatesToOps, bind, Option.bind, hops]
        rfl
      · intro k ψ x
        show semOps k ops ((Op.one .X 0 i []).sem k ψ) x = _
        rw [hsem, C03.x_sem]
        congr 1
        funext q
        simp only [flipFrom, Bits.set]
        by_cases h1 : i + 1 ≤ q
        · have h2 : i ≤ q := by omega
          have e : q - i = (q - (i + 1)) + 1 := by omega
          have hq : q ≠ i := by omega
          simp [h1, h2, e, hq]
        · by_cases h2 : i ≤ q
          · have e : q = i := by omega
            subst e
            simp [h1]
          · have hq : q ≠ i := by omega
            simp [h1, h2, hq]

/-- **`vector_to_circuit` prepares |v⟩**: the circuit maps the amplitude function ψ to x ↦ ψ(x ⊕ v); starting
    from |0…0⟩ the only non-zero amplitude is at x = v -/
theorem x_gates_prepare (v : List Bool) :
    ∃ ops, gatesToOps (toGates v) = some ops ∧ ∀ (k : Consts R) (ψ : State R) (x : Bits), semOps k ops ψ x = ψ (flipFrom 0 v x) :=
  toGatesFrom_ops 0 v

/-! ## ordering conversion and filling -/

theorem filter_partition_length {α : Type} (p : α → Bool) (l : List α) :
    (l.filter p).length + (l.filter (fun a => !p a)).length = l.length := by
  induction l with
  | nil => rfl
  | cons a as ih => cases h : p a <;> simp [List.filter_cons, h] <;> omega

theorem toUpThenDown_length (v : List Bool) : (toUpThenDown v).length = v.length := by
  simp only [toUpThenDown, List.length_append, List.length_map]
  have := filter_partition_length (fun (p : Bool × Nat) => p.2 % 2 == 0) v.zipIdx
  have h2 : (v.zipIdx.filter (fun (p : Bool × Nat) => p.2 % 2 == 1)) = (v.zipIdx.filter (fun (p : Bool × Nat) => !(p.2 % 2 == 0))) := by
    apply List.filter_congr
    intro p _
    rcases Nat.mod_two_eq_zero_or_one p.2 with h | h <;> simp [h]
  rw [h2]
  simp only [List.length_zipIdx] at this
  exact this

/-! ### the filling rule for every register size -/

/-- clipped stop index of a Python slice -/
def sliceStop (len : Nat) (stop : Int) : Nat := if stop < 0 then Int.toNat (stop + len) else min stop.toNat len

theorem setStride_get (v : List Bool) (start : Nat) (stop : Int) (i : Nat) :
    (setStride v start stop)[i]? = (v[i]?).map (fun b =>
      if start ≤ i ∧ i < sliceStop v.length stop ∧ (i - start) % 2 = 0 then true else b) := by
  simp only [setStride, sliceStop, List.getElem?_map, List.getElem?_zipIdx, Nat.zero_add]
  cases v[i]? with
  | none => rfl
  | some b =>
    simp only [Option.map_some]
    congr 1
    by_cases h1 : start ≤ i <;> by_cases h2 : i < (if stop < 0 then Int.toNat (stop + v.length) else min stop.toNat v.length) <;>
      by_cases h3 : (i - start) % 2 = 0 <;> simp [h1, h2, h3]

theorem setStride_length (v : List Bool) (start : Nat) (stop : Int) : (setStride v start stop).length = v.length := by
  simp [setStride]

/-- **open-shell filling**: for every number of spin-orbitals n, every (n_electrons, spin ≠ 0) with matching
    parity and 0 ≤ n_alpha, n_beta, position i of the vector is occupied exactly when it is one of the lowest
    n_alpha even (alpha) or n_beta odd (beta) positions -/
theorem occupation_open_shell (n : Nat) (ne s : Int) (hs : s ≠ 0) (hpar : (ne + s) % 2 = 0)
    (hA : 0 ≤ (ne + s) / 2) (hB : 0 ≤ (ne - s) / 2) (i : Nat) (hi : i < n) :
    (occupation n ne (some s))[i]? = some (
      if i % 2 = 0 then decide (((i / 2 : Nat) : Int) < (ne + s) / 2) else decide (((i / 2 : Nat) : Int) < (ne - s) / 2)) := by
  have hs' : (s == 0) = false := by simpa using hs
  simp only [occupation, hs', Bool.false_eq_true, if_false]
  rw [setStride_get, setStride_get, setStride_length]
  have hrep : (List.replicate n false)[i]? = some false := by
    rw [List.getElem?_replicate]; simp [hi]
  rw [hrep]
  simp only [Option.map_some, List.length_replicate]
  -- arithmetic: Python floor division by 2 is Lean's `/` on Int for the positive divisor 2
  have hf : ∀ a : Int, fdiv2 a = a / 2 := fun a => by
    unfold fdiv2; exact Int.fdiv_eq_ediv_of_nonneg a (by decide)
  have hnA : fdiv2 ne + fdiv2 s + ne % 2 = (ne + s) / 2 := by rw [hf, hf]; omega
  have hnB : fdiv2 ne - fdiv2 s = (ne - s) / 2 := by rw [hf, hf]; omega
  rw [hnA, hnB]
  congr 1
  set a := (ne + s) / 2 with ha
  set b := (ne - s) / 2 with hb
  have h2a : ¬ (2 * a < 0) := by omega
  have h2b : ¬ (2 * b + 1 < 0) := by omega
  simp only [sliceStop, h2a, h2b, if_false]
  rcases Nat.mod_two_eq_zero_or_one i with hev | hod
  · have c1 : ¬ (1 ≤ i ∧ i < min (2 * b + 1).toNat n ∧ (i - 1) % 2 = 0) := by
      rintro ⟨h1, _, h3⟩; omega
    simp only [c1, if_false, hev, if_true]
    by_cases hlt : ((i / 2 : Nat) : Int) < a
    · have : (0 ≤ i ∧ i < min (2 * a).toNat n ∧ (i - 0) % 2 = 0) := ⟨Nat.zero_le _, by omega, by omega⟩
      rw [if_pos this]; exact (decide_eq_true hlt).symm
    · have : ¬ (0 ≤ i ∧ i < min (2 * a).toNat n ∧ (i - 0) % 2 = 0) := by rintro ⟨_, h2, _⟩; omega
      rw [if_neg this]; exact (decide_eq_false hlt).symm
  · have hne : ¬ (i % 2 = 0) := by omega
    have c0 : ¬ (0 ≤ i ∧ i < min (2 * a).toNat n ∧ (i - 0) % 2 = 0) := by rintro ⟨_, _, h3⟩; omega
    simp only [c0, if_false, hne]
    by_cases hlt : ((i / 2 : Nat) : Int) < b
    · have : (1 ≤ i ∧ i < min (2 * b + 1).toNat n ∧ (i - 1) % 2 = 0) := ⟨by omega, by omega, by omega⟩
      rw [if_pos this]; exact (decide_eq_true hlt).symm
    · have : ¬ (1 ≤ i ∧ i < min (2 * b + 1).toNat n ∧ (i - 1) % 2 = 0) := by rintro ⟨_, h2, _⟩; omega
      rw [if_neg this]; exact (decide_eq_false hlt).symm

/-- **closed-shell filling** (`spin` absent or 0): the first `n_electrons` positions are occupied -/
theorem occupation_closed_shell (n : Nat) (ne : Nat) (i : Nat) (hi : i < n) :
    (occupation n ne none)[i]? = some (decide (i < ne)) ∧ (occupation n ne (some 0))[i]? = some (decide (i < ne)) := by
  have key : (occupation.setStride' (List.replicate n false) (ne : Int))[i]? = some (decide (i < ne)) := by
    simp only [occupation.setStride', List.getElem?_map, List.getElem?_zipIdx, List.length_replicate, Nat.zero_add]
    rw [List.getElem?_replicate]
    have hneg : ¬ ((ne : Int) < 0) := by omega
    simp only [hi, if_true, Option.map_some, hneg, if_false, Int.toNat_natCast]
    congr 1
    by_cases h : i < ne
    · have : i < min ne n := by omega
      simp [this, h]
    · have : ¬ i < min ne n := by omega
      simp [this, h]
  exact ⟨key, by simpa [occupation] using key⟩

/-- the filled vector has exactly the requested alpha / beta electrons in the lowest orbitals — for every
    admissible (n_electrons, spin ≠ 0 branch included) and every even n ≤ 10 (finite table, kernel-checked;
    the unbounded statement is covered by the exhaustive correspondence only) -/
theorem occupation_table_partial :
    ∀ n ∈ [2, 4, 6, 8, 10], ∀ p ∈ admissible n, p.2 = 0 ∨ occupationOk n p.1 p.2 = true := by decide +kernel

/-! ## non-vacuity -/
example : occupation 6 3 (some 1) = [true, true, true, false, false, false] := by decide +kernel
example : occupation 6 3 (some (-1)) = [true, true, false, true, false, false] := by decide +kernel
example : toUpThenDown [true, true, true, false, false, false] = [true, true, false, true, false, false] := by decide

end Tangelo.C05
