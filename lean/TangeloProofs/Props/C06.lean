import TangeloModel.PauliExp
import TangeloProofs.Lemmas.OpInverse
import TangeloProofs.CycLaws
import TangeloProofs.Lemmas.Adjoint
import TangeloProofs.Lemmas.HalfPi
/-!
# C06 — Pauli-exponential and time-evolution circuits implement exp(−itH)

`e θ = exp(iθ/2)`; a coefficient `c` is the exact angle `γ`, the rotation angle is `γ+γ = 2c`,
`exp(−ic) = e (−(γ+γ))`, `cos c = cosH (γ+γ)`, `−i sin c = misinH (γ+γ)`.
-/
namespace Tangelo.C06
open Tangelo PauliExp
variable {R : Type} [CommRing R]

/-! ## CNOT ladder around a diagonal gate = parity-controlled phase -/

/-- basis permutation of CNOT(control a, target b) -/
def cnotB (a b : Nat) (x : Bits) : Bits := x.set b (xor (x b) (x a))

theorem cnot_sem (k : Consts R) (a b : Nat) (hab : a ≠ b) (ψ : State R) (x : Bits) :
    (Op.one .X 0 b [a]).sem k ψ x = ψ (cnotB a b x) := by
  simp only [Op.sem, ctl, List.all_cons, List.all_nil, Bool.and_true]
  by_cases ha : x a
  · simp only [ha, if_true, app1, baseMatrix, zero_mul, one_mul, zero_add, add_zero]
    by_cases hb : x b <;> simp [hb, cnotB, ha]
  · have ha' : x a = false := by simpa using ha
    simp only [ha', Bool.false_eq_true, if_false, cnotB, Bool.xor_false]
    rw [Bits.set_self]

theorem cnotB_invol (a b : Nat) (hab : a ≠ b) (x : Bits) : cnotB a b (cnotB a b x) = x := by
  funext q
  by_cases hq : q = b
  · subst hq; simp [cnotB, Bits.set, hab]
  · simp [cnotB, Bits.set, hq]

/-- parity of the bits of `x` on the positions `l` -/
def parity (l : List Nat) (x : Bits) : Bool := l.foldr (fun q acc => xor (x q) acc) false

/-- the operations of `cnotLadder` -/
def ladderOps : List Nat → List Op
  | a :: b :: rest => Op.one .X 0 b [a] :: ladderOps (b :: rest)
  | _ => []

/-- the basis permutation the whole ladder performs -/
def ladderPerm : List Nat → Bits → Bits
  | a :: b :: rest, x => ladderPerm (b :: rest) (cnotB a b x)
  | _, x => x

theorem parity_cnotB_tail (a b : Nat) (l : List Nat) (hb : b ∉ l) (x : Bits) : parity l (cnotB a b x) = parity l x := by
  induction l with
  | nil => rfl
  | cons q qs ih =>
    have hq : q ≠ b := fun e => hb (by simp [e])
    have hqs : b ∉ qs := fun e => hb (by simp [e])
    simp only [parity, List.foldr_cons] at ih ⊢
    rw [ih hqs]
    simp [cnotB, Bits.set, hq]

/-- after the ladder, the last qubit holds the parity of the whole support -/
theorem ladderPerm_last : ∀ (l : List Nat) (hne : l ≠ []) (_ : l.Nodup) (x : Bits),
    ladderPerm l x (l.getLast hne) = parity l x
  | [a], _, _, x => by simp [ladderPerm, parity]
  | a :: b :: rest, _, hnd, x => by
    have hab : a ≠ b := by intro e; subst e; simp at hnd
    have hnd' : (b :: rest).Nodup := (List.nodup_cons.mp hnd).2
    have hb : b ∉ rest := (List.nodup_cons.mp hnd').1
    simp only [ladderPerm, List.getLast_cons (List.cons_ne_nil b rest)]
    rw [ladderPerm_last (b :: rest) (List.cons_ne_nil b rest) hnd' (cnotB a b x)]
    simp only [parity, List.foldr_cons]
    have h1 := parity_cnotB_tail a b rest hb x
    simp only [parity] at h1
    rw [h1]
    simp [cnotB, Bits.set, hab]
    cases x a <;> cases x b <;> simp

/-- qubits outside the support keep their value through the ladder -/
theorem ladderPerm_other : ∀ (l : List Nat) (x : Bits) (q : Nat), q ∉ l → ladderPerm l x q = x q
  | [], _, _, _ => rfl
  | [_], _, _, _ => rfl
  | a :: b :: rest, x, q, hq => by
    have hqb : q ≠ b := fun e => hq (by simp [e])
    have hq' : q ∉ b :: rest := fun e => hq (by simp [List.mem_cons.mp e |>.elim (fun h => Or.inr (Or.inl h)) (fun h => Or.inr (Or.inr h))])
    simp only [ladderPerm]
    rw [ladderPerm_other (b :: rest) (cnotB a b x) q hq']
    simp [cnotB, Bits.set, hqb]

theorem ladderPerm_invol_sem (k : Consts R) : ∀ (l : List Nat) (_ : l.Nodup) (D : State R → State R) (f : Bits → R),
    (∀ ψ x, D ψ x = f x * ψ x) → ∀ ψ x,
    semOps k (ladderOps l).reverse (D (semOps k (ladderOps l) ψ)) x = f (ladderPerm l x) * ψ x
  | [], _, D, f, hD, ψ, x => by simp [ladderOps, semOps, ladderPerm, hD]
  | [_], _, D, f, hD, ψ, x => by simp [ladderOps, semOps, ladderPerm, hD]
  | a :: b :: rest, hnd, D, f, hD, ψ, x => by
    have hab : a ≠ b := by intro e; subst e; simp at hnd
    have hnd' : (b :: rest).Nodup := (List.nodup_cons.mp hnd).2
    -- peel the outer CNOT on both sides
    have hl : ladderOps (a :: b :: rest) = Op.one .X 0 b [a] :: ladderOps (b :: rest) := rfl
    rw [hl, List.reverse_cons, semOps_append]
    have hc : semOps k (Op.one .X 0 b [a] :: ladderOps (b :: rest)) ψ = semOps k (ladderOps (b :: rest)) ((Op.one .X 0 b [a]).sem k ψ) := rfl
    rw [hc]
    show (Op.one .X 0 b [a]).sem k (semOps k (ladderOps (b :: rest)).reverse (D (semOps k (ladderOps (b :: rest)) ((Op.one .X 0 b [a]).sem k ψ)))) x = _
    rw [cnot_sem k a b hab]
    rw [ladderPerm_invol_sem k (b :: rest) hnd' D f hD ((Op.one .X 0 b [a]).sem k ψ) (cnotB a b x)]
    rw [cnot_sem k a b hab, cnotB_invol a b hab]
    rfl

/-- a diagonal matrix on qubit `t` under controls multiplies each amplitude by a scalar -/
theorem diag_sem (k : Consts R) (em ep : R) (t : Nat) (cs : List Nat) (ψ : State R) (x : Bits) :
    ctl cs (app1 ⟨em, 0, 0, ep⟩ t) ψ x = (if cs.all (fun c => x c) then (if x t then ep else em) else 1) * ψ x := by
  simp only [ctl]
  by_cases hc : cs.all (fun c => x c) = true
  · simp only [hc, if_true, app1]
    by_cases ht : x t
    · simp only [ht, if_true, zero_mul, zero_add]; rw [← ht, Bits.set_self]
    · have ht' : x t = false := by simpa using ht
      simp only [ht', Bool.false_eq_true, if_false, zero_mul, add_zero]; rw [← ht', Bits.set_self]
  · simp [hc]

/-- **CNOT ladder lemma.** For every support `l` (distinct qubits, any length ≥ 1), every control list
    disjoint from it and every angle: ladder · (C)RZ(θ) on the last qubit · reversed ladder multiplies the
    amplitude of `x` by `e(θ)` if the parity of `x` on `l` is odd, by `e(−θ)` if even, when all controls
    are 1, and leaves it unchanged otherwise. -/
theorem ladder_rz_sem (k : Consts R) (l : List Nat) (hne : l ≠ []) (hnd : l.Nodup) (cs : List Nat)
    (hcs : ∀ c ∈ cs, c ∉ l) (θ : Ang) (ψ : State R) (x : Bits) :
    semOps k (ladderOps l ++ [Op.one .RZ θ (l.getLast hne) cs] ++ (ladderOps l).reverse) ψ x
      = (if cs.all (fun c => x c) then (if parity l x then k.e θ else k.e (-θ)) else 1) * ψ x := by
  rw [semOps_append, semOps_append]
  have hD : ∀ φ y, (Op.one .RZ θ (l.getLast hne) cs).sem k φ y =
      (if cs.all (fun c => y c) then (if y (l.getLast hne) then k.e θ else k.e (-θ)) else 1) * φ y := by
    intro φ y
    simp only [Op.sem, baseMatrix]
    exact diag_sem k (k.e (-θ)) (k.e θ) _ cs φ y
  have := ladderPerm_invol_sem k l hnd (fun φ => (Op.one .RZ θ (l.getLast hne) cs).sem k φ) _ hD ψ x
  simp only [semOps, List.foldl_cons, List.foldl_nil] at this ⊢
  rw [this, ladderPerm_last l hne hnd x]
  have hall : ∀ (cs' : List Nat), (∀ c ∈ cs', c ∉ l) → cs'.all (fun c => ladderPerm l x c) = cs'.all (fun c => x c) := by
    intro cs'
    induction cs' with
    | nil => intro _; rfl
    | cons c cs' ih =>
      intro h
      simp only [List.all_cons]
      rw [ladderPerm_other l x c (h c (by simp)), ih (fun c' hc' => h c' (by simp [hc']))]
  rw [hall cs hcs]

/-- Z-type word: the emitted circuit is `cos c − i sin c · Z_S`, i.e. the amplitude of `x` is multiplied by
    `cos c − i sin c (−1)^{parity}` (all supports, all coefficients, with or without controls) -/
theorem exp_z_word (k : Consts R) (L : k.Laws) (l : List Nat) (hne : l ≠ []) (hnd : l.Nodup) (cs : List Nat)
    (hcs : ∀ c ∈ cs, c ∉ l) (γ : Ang) (ψ : State R) (x : Bits) (hall : cs.all (fun c => x c) = true) :
    semOps k (ladderOps l ++ [Op.one .RZ (γ + γ) (l.getLast hne) cs] ++ (ladderOps l).reverse) ψ x
      = k.cosH (γ + γ) * ψ x + k.misinH (γ + γ) * ((if parity l x then -1 else 1) * ψ x) := by
  rw [ladder_rz_sem k l hne hnd cs hcs, hall]
  simp only [if_true]
  unfold Consts.cosH Consts.misinH
  by_cases hp : parity l x = true
  · simp only [hp, if_true]
    linear_combination (-(k.e (γ + γ)) * ψ x) * L.two_half
  · have hp' : parity l x = false := by simpa using hp
    simp only [hp', Bool.false_eq_true, if_false]
    linear_combination (-(k.e (-(γ + γ))) * ψ x) * L.two_half

/-! ## the angle written for negative coefficients denotes the same rotation -/

theorem rotAngle_same (k : Consts R) (L : k.Laws) (γ : Ang) (b : Base) :
    baseMatrix k b (rotAngle γ false) = baseMatrix k b (rotAngle γ true) := by
  have e16 : k.e (Ang.piQuarter 16) = 1 := by
    have h16 : Ang.piQuarter 16 = Ang.pi + Ang.pi + (Ang.pi + Ang.pi) := by
      apply Ang.ext' <;> simp [Ang.add_def, Ang.add, Ang.piQuarter, Ang.pi]
    rw [h16, L.e_add, L.e_add, L.e_pi]
    linear_combination (k.i * k.i - 1) * L.i_sq
  have e16n : k.e (-Ang.piQuarter 16) = 1 := by
    have := L.e_neg_mul (Ang.piQuarter 16); rw [e16] at this; linear_combination this
  simp only [rotAngle, Bool.false_eq_true, if_false, if_true]
  have hc : k.cosH (Ang.piQuarter 16 + (γ + γ)) = k.cosH (γ + γ) := by
    unfold Consts.cosH; rw [Ang.neg_add', L.e_add (Ang.piQuarter 16), L.e_add (-Ang.piQuarter 16), e16, e16n]; ring
  have hm : k.misinH (Ang.piQuarter 16 + (γ + γ)) = k.misinH (γ + γ) := by
    unfold Consts.misinH; rw [Ang.neg_add', L.e_add (Ang.piQuarter 16), L.e_add (-Ang.piQuarter 16), e16, e16n]; ring
  have he : k.e (Ang.piQuarter 16 + (γ + γ)) = k.e (γ + γ) := by rw [L.e_add (Ang.piQuarter 16), e16]; ring
  have hen : k.e (-(Ang.piQuarter 16 + (γ + γ))) = k.e (-(γ + γ)) := by
    rw [Ang.neg_add', L.e_add (-Ang.piQuarter 16), e16n]; ring
  cases b <;> simp only [baseMatrix, Consts.sinH, hc, hm, he, hen]

/-! ## identity terms contribute exactly exp(−ic) -/

/-- single control `q`: `PHASE(−c)` multiplies by `exp(−ic) = e(−γ)²` exactly when `q` is 1;
    several controls `q :: cs`: `CPHASE(−c)` on `q` controlled by `cs` does so exactly when all are 1 -/
theorem identity_term_controlled (k : Consts R) (γ : Ang) (q : Nat) (cs : List Nat) (ψ : State R) (x : Bits) :
    (Op.one .PHASE (-γ) q cs).sem k ψ x =
      (if cs.all (fun c => x c) then (if x q then k.e (-γ) * k.e (-γ) else 1) else 1) * ψ x := by
  simp only [Op.sem, baseMatrix]
  exact diag_sem k 1 (k.e (-γ) * k.e (-γ)) q cs ψ x

/-! ## basis changes for the X and Y letters (2×2 identities) -/

/-- the extra law used for the Y letter: e(π/2) = exp(iπ/4) = (1+i)/√2 -/
def HalfPiLaw (k : Consts R) : Prop := k.e (Ang.piQuarter 2) = (1 + k.i) * k.rsqrt2

/-- `H · RZ(2c) · H = cos c − i sin c · X` -/
theorem x_letter (k : Consts R) (L : k.Laws) (θ : Ang) :
    (baseMatrix k .H 0).mul ((baseMatrix k .RZ θ).mul (baseMatrix k .H 0)) =
      ⟨k.cosH θ, k.misinH θ, k.misinH θ, k.cosH θ⟩ := by
  apply M2.ext' <;> simp only [baseMatrix, M2.mul, Consts.cosH, Consts.misinH]
  all_goals first
    | linear_combination (k.half * (k.e θ + k.e (-θ))) * L.rsqrt2_sq - (k.rsqrt2 * k.rsqrt2 * (k.e θ + k.e (-θ))) * L.two_half
    | linear_combination (k.half * (k.e (-θ) - k.e θ)) * L.rsqrt2_sq - (k.rsqrt2 * k.rsqrt2 * (k.e (-θ) - k.e θ)) * L.two_half

/-- `RX(−π/2) · RZ(2c) · RX(π/2) = cos c − i sin c · Y` -/
theorem y_letter (k : Consts R) (L : k.Laws) (hp : HalfPiLaw k) (θ : Ang) :
    (baseMatrix k .RX (Ang.piQuarter (-2))).mul ((baseMatrix k .RZ θ).mul (baseMatrix k .RX (Ang.piQuarter 2))) =
      ⟨k.cosH θ, -(k.i * k.misinH θ), k.i * k.misinH θ, k.cosH θ⟩ := by
  have hneg : Ang.piQuarter (-2) = -Ang.piQuarter 2 := by
    apply Ang.ext' <;> simp [Ang.neg_def, Ang.neg, Ang.piQuarter]
  have hp' : k.e (-Ang.piQuarter 2) = (1 - k.i) * k.rsqrt2 := by
    have h := L.e_mul_neg (Ang.piQuarter 2)
    rw [hp] at h
    linear_combination ((1 - k.i) * k.rsqrt2) * h - (k.e (-Ang.piQuarter 2)) * L.rsqrt2_sq + (k.rsqrt2 * k.rsqrt2 * k.e (-Ang.piQuarter 2)) * L.i_sq
  have hc : k.cosH (Ang.piQuarter 2) = k.rsqrt2 := by
    unfold Consts.cosH; rw [hp, hp']; linear_combination k.rsqrt2 * L.two_half
  have hm : k.misinH (Ang.piQuarter 2) = -k.i * k.rsqrt2 := by
    unfold Consts.misinH; rw [hp, hp']; linear_combination (-k.i * k.rsqrt2) * L.two_half
  rw [hneg]
  apply M2.ext' <;> simp only [baseMatrix, M2.mul, L.cos_neg, L.misin_neg, hc, hm] <;> simp only [Consts.cosH, Consts.misinH]
  all_goals first
    | linear_combination k.half * ((-k.e θ*k.i^2 + k.e (-θ)) * L.rsqrt2_sq + (-k.e θ - k.e (-θ)) * L.two_half + (-k.e θ) * L.i_sq) - (-k.e θ*k.half - k.e θ*k.i^2*k.rsqrt2^2 - k.e (-θ)*k.half + k.e (-θ)*k.rsqrt2^2) * L.two_half
    | linear_combination k.half * ((k.e θ*k.i - k.e (-θ)*k.i) * L.rsqrt2_sq + (-k.e θ*k.i + k.e (-θ)*k.i) * L.two_half) - (-k.e θ*k.half*k.i + k.e θ*k.i*k.rsqrt2^2 + k.e (-θ)*k.half*k.i - k.e (-θ)*k.i*k.rsqrt2^2) * L.two_half
    | linear_combination k.half * ((-k.e θ*k.i + k.e (-θ)*k.i) * L.rsqrt2_sq + (k.e θ*k.i - k.e (-θ)*k.i) * L.two_half) - (k.e θ*k.half*k.i - k.e θ*k.i*k.rsqrt2^2 - k.e (-θ)*k.half*k.i + k.e (-θ)*k.i*k.rsqrt2^2) * L.two_half
    | linear_combination k.half * ((k.e θ - k.e (-θ)*k.i^2) * L.rsqrt2_sq + (-k.e θ - k.e (-θ)) * L.two_half + (-k.e (-θ)) * L.i_sq) - (-k.e θ*k.half + k.e θ*k.rsqrt2^2 - k.e (-θ)*k.half - k.e (-θ)*k.i^2*k.rsqrt2^2) * L.two_half


/-! ## tie to the modelled generator `PauliExp.gates` -/

theorem cnotLadder_ops : ∀ (l : List Nat), gatesToOps (cnotLadder l) = some (ladderOps l)
  | [] => rfl
  | [_] => rfl
  | a :: b :: rest => by
    have ih := cnotLadder_ops (b :: rest)
    simp only [cnotLadder, ladderOps, gatesToOps, bind, Option.bind, ih]
    rfl

theorem gatesToOps_append' (xs ys : List Gate) (ox oy : List Op) (hx : gatesToOps xs = some ox) (hy : gatesToOps ys = some oy) :
    gatesToOps (xs ++ ys) = some (ox ++ oy) := by
  induction xs generalizing ox with
  | nil => simp [gatesToOps] at hx; subst hx; simpa using hy
  | cons g gs ih =>
    simp only [gatesToOps, bind, Option.bind] at hx
    cases ho : g.toOp with
    | none => simp [ho] at hx
    | some o =>
      cases hos : gatesToOps gs with
      | none => simp [ho, hos] at hx
      | some os =>
        simp [ho, hos] at hx; subst hx
        simp [gatesToOps, ho, ih os hos]

theorem gatesToOps_reverse' (xs : List Gate) (ox : List Op) (hx : gatesToOps xs = some ox) :
    gatesToOps xs.reverse = some ox.reverse := by
  induction xs generalizing ox with
  | nil => simp [gatesToOps] at hx; subst hx; rfl
  | cons g gs ih =>
    simp only [gatesToOps, bind, Option.bind] at hx
    cases ho : g.toOp with
    | none => simp [ho] at hx
    | some o =>
      cases hos : gatesToOps gs with
      | none => simp [ho, hos] at hx
      | some os =>
        simp [ho, hos] at hx; subst hx
        rw [List.reverse_cons, List.reverse_cons]
        exact gatesToOps_append' _ _ _ _ (ih os hos) (by simp [gatesToOps, ho])

/-- a word made of `Z` letters only needs no basis change -/
def allZ (w : PWord) : Bool := w.all (fun f => f.2 == Pauli.Z)

theorem filterMap_basis_allZ (w : PWord) (inv : Bool) (h : allZ w = true) :
    w.filterMap (fun (f : Nat × Pauli) => basisGate f.1 f.2 inv) = [] := by
  induction w with
  | nil => rfl
  | cons f fs ih =>
    simp only [allZ, List.all_cons, Bool.and_eq_true, beq_iff_eq] at h
    have ih' := ih (by simpa [allZ] using h.2)
    have hb : basisGate f.1 f.2 inv = none := by rw [h.1]; rfl
    rw [List.filterMap_cons, hb]
    exact ih'

theorem allZ_reverse (w : PWord) (h : allZ w = true) : allZ w.reverse = true := by
  simp only [allZ, List.all_eq_true] at h ⊢
  intro f hf
  exact h f (List.mem_reverse.mp hf)

/-- **`exp_pauliword_to_gates` on a Z-type word**: the emitted gate list denotes the parity-controlled phase,
    for every support `l` (the sorted indices of the word), every coefficient (both sign branches), with a
    control list or without. -/
theorem exp_pauliword_z (k : Consts R) (L : k.Laws) (w : PWord) (γ : Ang) (nonneg var : Bool) (ctl : Option (List Nat))
    (l : List Nat) (hl : sortNat (w.map (·.1)) = l)
    (hz : allZ w = true) (hne : l ≠ []) (hnd : l.Nodup) (hcs : ∀ c ∈ ctl.getD [], c ∉ l) :
    ∃ gs ops, gates w γ nonneg var ctl = some gs ∧ gatesToOps gs = some ops ∧
      ∀ (ψ : State R) (x : Bits), semOps k ops ψ x =
        (if (ctl.getD []).all (fun c => x c) then (if parity l x then k.e (γ + γ) else k.e (-(γ + γ))) else 1) * ψ x := by
  have hlast : l.getLast? = some (l.getLast hne) := List.getLast?_eq_some_getLast hne
  have hpre := filterMap_basis_allZ w false hz
  have hpost := filterMap_basis_allZ w.reverse true (allZ_reverse w hz)
  have hrot : ∃ rot : Gate, rot.toOp = some (Op.one .RZ (rotAngle γ nonneg) (l.getLast hne) (ctl.getD [])) ∧
      gates w γ nonneg var ctl = some (cnotLadder l ++ [rot] ++ (cnotLadder l).reverse) := by
    cases ctl with
    | none =>
      refine ⟨⟨"RZ", [l.getLast hne], none, .ang (rotAngle γ nonneg), var⟩, rfl, ?_⟩
      simp only [gates, hl, hlast]
      rw [show (w.filterMap fun x => basisGate x.1 x.2 false) = [] from hpre,
          show (w.reverse.filterMap fun x => basisGate x.1 x.2 true) = [] from hpost]
      simp
    | some cs =>
      refine ⟨⟨"CRZ", [l.getLast hne], some cs, .ang (rotAngle γ nonneg), var⟩, rfl, ?_⟩
      simp only [gates, hl, hlast]
      rw [show (w.filterMap fun x => basisGate x.1 x.2 false) = [] from hpre,
          show (w.reverse.filterMap fun x => basisGate x.1 x.2 true) = [] from hpost]
      simp
  obtain ⟨rot, hrotOp, hgates⟩ := hrot
  refine ⟨_, ladderOps l ++ [Op.one .RZ (rotAngle γ nonneg) (l.getLast hne) (ctl.getD [])] ++ (ladderOps l).reverse, hgates, ?_, ?_⟩
  · apply gatesToOps_append'
    · apply gatesToOps_append' _ _ _ _ (cnotLadder_ops l)
      simp [gatesToOps, hrotOp]
    · exact gatesToOps_reverse' _ _ (cnotLadder_ops l)
  · intro ψ x
    have hmat : ∀ φ, (Op.one .RZ (rotAngle γ nonneg) (l.getLast hne) (ctl.getD [])).sem k φ =
        (Op.one .RZ (γ + γ) (l.getLast hne) (ctl.getD [])).sem k φ := by
      intro φ
      cases nonneg
      · simp only [Op.sem, rotAngle_same k L γ .RZ]; rfl
      · rfl
    have := ladder_rz_sem k l hne hnd (ctl.getD []) hcs (γ + γ) ψ x
    rw [← this]
    simp only [semOps, List.foldl_append, List.foldl_cons, List.foldl_nil, hmat]

/-! ## structure of the Trotter lists, repetition -/

theorem mapM_some_length {α β : Type} (f : α → Option β) : ∀ (l : List α) (r : List β), l.mapM f = some r → r.length = l.length
  | [], r, h => by simp [List.mapM_nil, pure] at h; subst h; rfl
  | a :: as, r, h => by
    rw [List.mapM_cons] at h
    simp only [bind, Option.bind] at h
    cases hf : f a with
    | none => simp [hf] at h
    | some b =>
      cases hr : as.mapM f with
      | none => simp [hf, hr] at h
      | some bs =>
        simp [hf, hr, pure] at h; subst h
        simp [mapM_some_length f as bs hr]

/-- order 2 is the palindrome of two half-time first-order lists -/
theorem order2_palindrome (ts : Terms) (t : Int) (r : Terms) (h : decompose ts 2 t = some r) :
    ∃ half : Terms, r = half ++ half.reverse ∧ half.length = ts.length := by
  simp only [decompose] at h
  simp only [show ((2 : Nat) == 1) = false from rfl, show ((2 : Nat) == 2) = true from rfl, Bool.false_eq_true, if_false, if_true,
    bind, Option.bind] at h
  split at h
  · cases h
  · rename_i halves hh
    simp only [pure] at h
    injection h with h
    refine ⟨halves, h.symm, ?_⟩
    exact mapM_some_length _ ts halves hh

/-- repeating a circuit `n` times applies its operation `n` times (`circuit * n_trotter_steps`) -/
theorem steps_power (k : Consts R) (ops : List Op) (n : Nat) (ψ : State R) :
    semOps k (List.flatten (List.replicate n ops)) ψ = (fun φ => semOps k ops φ)^[n] ψ := by
  induction n generalizing ψ with
  | zero => rfl
  | succ n ih =>
    rw [List.replicate_succ, List.flatten_cons, semOps_append, ih, Function.iterate_succ_apply]

/-! ## non-vacuity -/
example : ∃ gs, gates [(0, .Z), (2, .Z)] (Ang.piQuarter 1) true false (some [5]) = some gs ∧ gs.length = 3 := ⟨_, rfl, rfl⟩
example : allZ [(0, .Z), (2, .Z)] = true ∧ (sortNat [0, 2]).Nodup ∧ sortNat [0, 2] ≠ [] := by decide

/-! ## the general Pauli word (any mix of X, Y, Z letters), with or without control

`exp_pauliword_to_gates` emits basis changes (H for X, RX(π/2) for Y), the CNOT ladder around the rotation, and
the inverse basis changes in reverse order.  With `B` the product of the basis changes, `D` the (controlled)
parity phase of the Z-type core and `P_w` the Pauli word itself:  `B⁻¹ D B = α·1 + β·P_w` with
`(α, β) = (cos c, −i sin c)` where all control bits are 1 and `(1, 0)` elsewhere. -/
section general
variable {S : Type} [CommRing S] [StarRing S]

def Bf (k : Consts S) : Pauli → M2 S
  | .X => baseMatrix k .H 0
  | .Y => baseMatrix k .RX (Ang.piQuarter 2)
  | .Z => M2.one

def Bi (k : Consts S) : Pauli → M2 S
  | .X => baseMatrix k .H 0
  | .Y => baseMatrix k .RX (Ang.piQuarter (-2))
  | .Z => M2.one

def basisOp (i : Nat) (p : Pauli) (inverse : Bool) : Option Op :=
  match p with
  | .X => some (Op.one .H 0 i [])
  | .Y => some (Op.one .RX (if inverse then Ang.piQuarter (-2) else Ang.piQuarter 2) i [])
  | .Z => none

theorem gatesToOps_cons_some (g : Gate) (gs : List Gate) (o : Op) (os : List Op) (h1 : g.toOp = some o)
    (h2 : gatesToOps gs = some os) : gatesToOps (g :: gs) = some (o :: os) := by
  simp [gatesToOps, h1, h2]

theorem basis_gates_ops (w : PWord) (inv : Bool) :
    gatesToOps (w.filterMap (fun (f : Nat × Pauli) => basisGate f.1 f.2 inv)) = some (w.filterMap (fun f => basisOp f.1 f.2 inv)) := by
  induction w with
  | nil => rfl
  | cons f fs ih =>
    obtain ⟨i, p⟩ := f
    cases p
    · simp only [List.filterMap_cons, basisGate, basisOp]
      exact gatesToOps_cons_some _ _ _ _ rfl ih
    · simp only [List.filterMap_cons, basisGate, basisOp]
      exact gatesToOps_cons_some _ _ _ _ rfl ih
    · simpa only [List.filterMap_cons, basisGate, basisOp] using ih

theorem sem_one_nil (k : Consts S) (b : Base) (θ : Ang) (t : Nat) (ψ : State S) :
    (Op.one b θ t []).sem k ψ = app1 (baseMatrix k b θ) t ψ := by
  simp only [Op.sem, ctl_nil]

theorem sem_basis_ops_fwd (k : Consts S) (w : PWord) (ψ : State S) :
    semOps k (w.filterMap (fun f => basisOp f.1 f.2 false)) ψ = wordOps (Bf k) w ψ := by
  induction w generalizing ψ with
  | nil => rfl
  | cons f fs ih =>
    obtain ⟨i, p⟩ := f
    cases p
    · have e : List.filterMap (fun f => basisOp f.1 f.2 false) ((i, Pauli.X) :: fs)
          = Op.one .H 0 i [] :: List.filterMap (fun f => basisOp f.1 f.2 false) fs := rfl
      rw [e, wordOps_cons]
      show semOps k _ ((Op.one .H 0 i []).sem k ψ) = _
      rw [ih, sem_one_nil]; rfl
    · have e : List.filterMap (fun f => basisOp f.1 f.2 false) ((i, Pauli.Y) :: fs)
          = Op.one .RX (Ang.piQuarter 2) i [] :: List.filterMap (fun f => basisOp f.1 f.2 false) fs := rfl
      rw [e, wordOps_cons]
      show semOps k _ ((Op.one .RX (Ang.piQuarter 2) i []).sem k ψ) = _
      rw [ih, sem_one_nil]; rfl
    · have e : List.filterMap (fun f => basisOp f.1 f.2 false) ((i, Pauli.Z) :: fs)
          = List.filterMap (fun f => basisOp f.1 f.2 false) fs := rfl
      rw [e, wordOps_cons]
      show _ = wordOps (Bf k) fs (app1 M2.one i ψ)
      rw [app1_one]; exact ih ψ

theorem sem_basis_ops_inv (k : Consts S) (w : PWord) (ψ : State S) :
    semOps k (w.filterMap (fun f => basisOp f.1 f.2 true)) ψ = wordOps (Bi k) w ψ := by
  induction w generalizing ψ with
  | nil => rfl
  | cons f fs ih =>
    obtain ⟨i, p⟩ := f
    cases p
    · have e : List.filterMap (fun f => basisOp f.1 f.2 true) ((i, Pauli.X) :: fs)
          = Op.one .H 0 i [] :: List.filterMap (fun f => basisOp f.1 f.2 true) fs := rfl
      rw [e, wordOps_cons]
      show semOps k _ ((Op.one .H 0 i []).sem k ψ) = _
      rw [ih, sem_one_nil]; rfl
    · have e : List.filterMap (fun f => basisOp f.1 f.2 true) ((i, Pauli.Y) :: fs)
          = Op.one .RX (Ang.piQuarter (-2)) i [] :: List.filterMap (fun f => basisOp f.1 f.2 true) fs := rfl
      rw [e, wordOps_cons]
      show semOps k _ ((Op.one .RX (Ang.piQuarter (-2)) i []).sem k ψ) = _
      rw [ih, sem_one_nil]; rfl
    · have e : List.filterMap (fun f => basisOp f.1 f.2 true) ((i, Pauli.Z) :: fs)
          = List.filterMap (fun f => basisOp f.1 f.2 true) fs := rfl
      rw [e, wordOps_cons]
      show _ = wordOps (Bi k) fs (app1 M2.one i ψ)
      rw [app1_one]; exact ih ψ

/-- one-qubit operators on distinct qubits can be applied in any order: reversing the word changes nothing -/
theorem wordOps_append_one (F : Pauli → M2 S) (w : PWord) (q : Nat) (p : Pauli) (ψ : State S) :
    wordOps F (w ++ [(q, p)]) ψ = app1 (F p) q (wordOps F w ψ) := by
  simp [wordOps, List.foldl_append]

theorem wordOps_reverse (F : Pauli → M2 S) (w : PWord) (hnd : (w.map (·.1)).Nodup) (ψ : State S) :
    wordOps F w.reverse ψ = wordOps F w ψ := by
  induction w generalizing ψ with
  | nil => rfl
  | cons f fs ih =>
    obtain ⟨q, p⟩ := f
    simp only [List.map_cons, List.nodup_cons] at hnd
    rw [List.reverse_cons, wordOps_append_one, ih hnd.2, wordOps_cons, app1_wordOps_comm F (F p) q fs hnd.1]

/-- three layers of one-qubit operators on the same distinct qubits compose letter by letter -/
theorem wordOps_three (F1 F2 F3 G : Pauli → M2 S) (hG : ∀ p, (F3 p).mul ((F2 p).mul (F1 p)) = G p)
    (w : PWord) (hnd : (w.map (·.1)).Nodup) (ψ : State S) :
    wordOps F3 w (wordOps F2 w (wordOps F1 w ψ)) = wordOps G w ψ := by
  induction w generalizing ψ with
  | nil => rfl
  | cons f fs ih =>
    obtain ⟨q, p⟩ := f
    simp only [List.map_cons, List.nodup_cons] at hnd
    have hq := hnd.1
    simp only [wordOps_cons]
    rw [app1_wordOps_comm F1 (F2 p) q fs hq, app1_wordOps_comm F2 (F3 p) q fs hq, app1_wordOps_comm F1 (F3 p) q fs hq,
      ih hnd.2, app1_app1 (F2 p) (F1 p), app1_app1, hG p]

theorem wordOps_two (F1 F3 G : Pauli → M2 S) (hG : ∀ p, (F3 p).mul (F1 p) = G p)
    (w : PWord) (hnd : (w.map (·.1)).Nodup) (ψ : State S) :
    wordOps F3 w (wordOps F1 w ψ) = wordOps G w ψ := by
  induction w generalizing ψ with
  | nil => rfl
  | cons f fs ih =>
    obtain ⟨q, p⟩ := f
    simp only [List.map_cons, List.nodup_cons] at hnd
    simp only [wordOps_cons]
    rw [app1_wordOps_comm F1 (F3 p) q fs hnd.1, ih hnd.2, app1_app1, hG p]

theorem wordOps_one (w : PWord) (ψ : State S) : wordOps (fun _ => (M2.one : M2 S)) w ψ = ψ := by
  induction w generalizing ψ with
  | nil => rfl
  | cons f fs ih => obtain ⟨q, p⟩ := f; rw [wordOps_cons, app1_one, ih]

/-! linearity with coefficients that do not depend on the qubits of the word -/

theorem app1_add (m : M2 S) (t : Nat) (a b : State S) :
    app1 m t (fun x => a x + b x) = fun x => app1 m t a x + app1 m t b x := by
  funext x; simp only [app1]; split <;> ring

theorem app1_coef (m : M2 S) (t : Nat) (f : Bits → S) (hf : ∀ x b, f (x.set t b) = f x) (χ : State S) :
    app1 m t (fun x => f x * χ x) = fun x => f x * app1 m t χ x := by
  funext x; simp only [app1, hf]; split <;> ring

theorem wordOps_add (F : Pauli → M2 S) (w : PWord) (a b : State S) :
    wordOps F w (fun x => a x + b x) = fun x => wordOps F w a x + wordOps F w b x := by
  induction w generalizing a b with
  | nil => rfl
  | cons f fs ih => obtain ⟨q, p⟩ := f; simp only [wordOps_cons]; rw [app1_add, ih]

theorem wordOps_coef (F : Pauli → M2 S) (w : PWord) (f : Bits → S)
    (hf : ∀ q ∈ w.map (·.1), ∀ x b, f (x.set q b) = f x) (χ : State S) :
    wordOps F w (fun x => f x * χ x) = fun x => f x * wordOps F w χ x := by
  induction w generalizing χ with
  | nil => rfl
  | cons g gs ih =>
    obtain ⟨q, p⟩ := g
    simp only [wordOps_cons]
    rw [app1_coef (F p) q f (hf q (by simp)), ih (fun q' h => hf q' (by simp [h]))]

/-! parity of the sorted index list = parity sign of the word -/

theorem parity_insertSorted (q : Nat) (l : List Nat) (x : Bits) : parity (insertSorted q l) x = xor (x q) (parity l x) := by
  induction l with
  | nil => rfl
  | cons a as ih =>
    simp only [insertSorted]
    split
    · rfl
    · simp only [parity, List.foldr_cons] at ih ⊢
      rw [ih]; cases x q <;> cases x a <;> simp

theorem parity_sortNat (l : List Nat) (x : Bits) : parity (sortNat l) x = parity l x := by
  induction l with
  | nil => rfl
  | cons a as ih =>
    have : sortNat (a :: as) = insertSorted a (sortNat as) := rfl
    rw [this, parity_insertSorted, ih]; rfl

theorem paritySign_eq (w : PWord) (x : Bits) :
    paritySign (R := S) w x = if parity (w.map (·.1)) x then -1 else 1 := by
  induction w with
  | nil => simp [paritySign, parity]
  | cons f fs ih =>
    obtain ⟨q, p⟩ := f
    rw [paritySign_cons, ih]
    have e : parity (List.map (·.1) ((q, p) :: fs)) x = xor (x q) (parity (List.map (·.1) fs) x) := rfl
    rw [e]
    cases x q <;> cases parity (List.map (·.1) fs) x <;> simp

/-- 2×2 facts about the basis changes -/
theorem basis_conj_Z (k : Consts S) (L : k.Laws) (hp : HalfPi k) (p : Pauli) :
    (Bi k p).mul ((baseMatrix k .Z 0).mul (Bf k p)) = pauliMat k p := by
  cases p
  · apply M2.ext' <;> simp only [Bi, Bf, pauliMat, baseMatrix, M2.mul] <;> first | ring1 | linear_combination L.rsqrt2_sq
  · simp only [Bi, Bf, pauliMat, rx_half_pi k L hp, rx_minus_half_pi k L hp]
    apply M2.ext' <;> simp only [baseMatrix, M2.mul] <;>
      first
        | ring1
        | linear_combination (k.rsqrt2 * k.rsqrt2) * L.i_sq
        | linear_combination (-(k.rsqrt2 * k.rsqrt2)) * L.i_sq
        | linear_combination (-k.i) * L.rsqrt2_sq
        | linear_combination k.i * L.rsqrt2_sq
  · apply M2.ext' <;> simp [Bi, Bf, pauliMat, baseMatrix, M2.mul, M2.one]

theorem basis_cancel (k : Consts S) (L : k.Laws) (hp : HalfPi k) (p : Pauli) :
    (Bi k p).mul (Bf k p) = (M2.one : M2 S) := by
  cases p
  · apply M2.ext' <;> simp only [Bi, Bf, baseMatrix, M2.mul, M2.one] <;> first | ring1 | linear_combination L.rsqrt2_sq
  · simp only [Bi, Bf, rx_half_pi k L hp, rx_minus_half_pi k L hp]
    apply M2.ext' <;> simp only [M2.mul, M2.one] <;>
      first
        | ring1
        | linear_combination L.rsqrt2_sq - (k.rsqrt2 * k.rsqrt2) * L.i_sq
  · apply M2.ext' <;> simp [Bi, Bf, M2.mul, M2.one]

theorem insertSorted_perm (q : Nat) (l : List Nat) : (insertSorted q l).Perm (q :: l) := by
  induction l with
  | nil => exact List.Perm.refl _
  | cons a as ih =>
    simp only [insertSorted]
    split
    · exact List.Perm.refl _
    · exact (List.Perm.cons a ih).trans (List.Perm.swap q a as)

theorem sortNat_perm (l : List Nat) : (sortNat l).Perm l := by
  induction l with
  | nil => exact List.Perm.refl _
  | cons a as ih =>
    have : sortNat (a :: as) = insertSorted a (sortNat as) := rfl
    rw [this]
    exact (insertSorted_perm a _).trans (List.Perm.cons a ih)

theorem e_split (k : Consts S) (L : k.Laws) (θ : Ang) :
    k.e θ = k.cosH θ - k.misinH θ ∧ k.e (-θ) = k.cosH θ + k.misinH θ := by
  constructor <;> simp only [Consts.cosH, Consts.misinH]
  · linear_combination (-(k.e θ)) * L.two_half
  · linear_combination (-(k.e (-θ))) * L.two_half

/-- **`exp_pauliword_to_gates` for an arbitrary Pauli word**: the emitted gate list implements
    `cos c · 1 − i sin c · P_w` where every control bit is 1 and the identity elsewhere — for every word with
    distinct qubits (any mix of X, Y, Z, any length), every coefficient (both sign branches of the angle rule),
    with or without a control list disjoint from the word, on every state of every register size. -/
theorem exp_pauliword_general (k : Consts S) (L : k.Laws) (hp : HalfPi k) (w : PWord) (γ : Ang) (nonneg var : Bool)
    (ctl : Option (List Nat)) (hne : w ≠ []) (hnd : (w.map (·.1)).Nodup) (hcs : ∀ c ∈ ctl.getD [], c ∉ w.map (·.1)) :
    ∃ gs ops, gates w γ nonneg var ctl = some gs ∧ gatesToOps gs = some ops ∧
      ∀ (ψ : State S) (x : Bits), semOps k ops ψ x =
        (if (ctl.getD []).all (fun c => x c) then k.cosH (γ + γ) else 1) * ψ x
        + (if (ctl.getD []).all (fun c => x c) then k.misinH (γ + γ) else 0) * wordOps (pauliMat k) w ψ x := by
  -- the sorted support
  have hperm := sortNat_perm (w.map (·.1))
  have hlne : sortNat (w.map (·.1)) ≠ [] := by
    intro e
    have := hperm.length_eq
    rw [e] at this
    cases w with
    | nil => exact hne rfl
    | cons a as => simp at this
  have hlnd : (sortNat (w.map (·.1))).Nodup := hperm.nodup_iff.mpr hnd
  have hlcs : ∀ c ∈ ctl.getD [], c ∉ sortNat (w.map (·.1)) := fun c hc hm => hcs c hc (hperm.mem_iff.mp hm)
  have hlast : (sortNat (w.map (·.1))).getLast? = some ((sortNat (w.map (·.1))).getLast hlne) :=
    List.getLast?_eq_some_getLast hlne
  -- the emitted gate list
  have hrot : ∃ rot : Gate, rot.toOp = some (Op.one .RZ (rotAngle γ nonneg) ((sortNat (w.map (·.1))).getLast hlne) (ctl.getD [])) ∧
      gates w γ nonneg var ctl = some (w.filterMap (fun f => basisGate f.1 f.2 false) ++ cnotLadder (sortNat (w.map (·.1))) ++ [rot]
        ++ (cnotLadder (sortNat (w.map (·.1)))).reverse ++ w.reverse.filterMap (fun f => basisGate f.1 f.2 true)) := by
    cases ctl with
    | none =>
      refine ⟨⟨"RZ", [(sortNat (w.map (·.1))).getLast hlne], none, .ang (rotAngle γ nonneg), var⟩, rfl, ?_⟩
      simp only [gates, hlast]
    | some cs =>
      refine ⟨⟨"CRZ", [(sortNat (w.map (·.1))).getLast hlne], some cs, .ang (rotAngle γ nonneg), var⟩, rfl, ?_⟩
      simp only [gates, hlast]
  obtain ⟨rot, hrotOp, hgates⟩ := hrot
  refine ⟨_, w.filterMap (fun f => basisOp f.1 f.2 false) ++ ladderOps (sortNat (w.map (·.1)))
      ++ [Op.one .RZ (rotAngle γ nonneg) ((sortNat (w.map (·.1))).getLast hlne) (ctl.getD [])]
      ++ (ladderOps (sortNat (w.map (·.1)))).reverse ++ w.reverse.filterMap (fun f => basisOp f.1 f.2 true), hgates, ?_, ?_⟩
  · apply gatesToOps_append'
    · apply gatesToOps_append'
      · apply gatesToOps_append'
        · exact gatesToOps_append' _ _ _ _ (basis_gates_ops w false) (cnotLadder_ops _)
        · simp [gatesToOps, hrotOp]
      · exact gatesToOps_reverse' _ _ (cnotLadder_ops _)
    · exact basis_gates_ops w.reverse true
  · intro ψ x
    set l := sortNat (w.map (·.1)) with hl
    set cs := ctl.getD [] with hcsdef
    set θ := γ + γ with hθ
    -- split the semantics into basis change, core, inverse basis change
    have hsplit : semOps k (w.filterMap (fun f => basisOp f.1 f.2 false) ++ ladderOps l
        ++ [Op.one .RZ (rotAngle γ nonneg) (l.getLast hlne) cs] ++ (ladderOps l).reverse
        ++ w.reverse.filterMap (fun f => basisOp f.1 f.2 true)) ψ
        = wordOps (Bi k) w (semOps k (ladderOps l ++ [Op.one .RZ θ (l.getLast hlne) cs] ++ (ladderOps l).reverse)
            (wordOps (Bf k) w ψ)) := by
      have hmat : ∀ φ, (Op.one .RZ (rotAngle γ nonneg) (l.getLast hlne) cs).sem k φ =
          (Op.one .RZ θ (l.getLast hlne) cs).sem k φ := by
        intro φ
        cases nonneg
        · simp only [Op.sem, rotAngle_same k L γ .RZ]; rfl
        · rfl
      have hrev : (w.map (·.1)).reverse.Nodup := List.nodup_reverse.mpr hnd
      rw [← wordOps_reverse (Bi k) w hnd, ← sem_basis_ops_inv k w.reverse, ← sem_basis_ops_fwd k w ψ]
      simp only [semOps, List.foldl_append, List.foldl_cons, List.foldl_nil, hmat]
    rw [hsplit]
    -- the core is a diagonal phase
    have hcore : ∀ χ : State S, semOps k (ladderOps l ++ [Op.one .RZ θ (l.getLast hlne) cs] ++ (ladderOps l).reverse) χ
        = fun y => (if cs.all (fun c => y c) then k.cosH θ else 1) * χ y
            + (if cs.all (fun c => y c) then k.misinH θ else 0) * wordOps (fun _ => baseMatrix k .Z 0) w χ y := by
      intro χ
      funext y
      rw [ladder_rz_sem k l hlne hlnd cs hlcs θ χ y, zWord_sign, paritySign_eq,
        ← parity_sortNat (List.map (fun x => x.1) w) y, ← hl]
      obtain ⟨e1, e2⟩ := e_split k L θ
      cases hc : cs.all (fun c => y c) <;> cases hpar : parity l y <;>
        simp only [Bool.false_eq_true, if_false, if_true] <;> first | ring1 | (rw [e1]; ring1) | (rw [e2]; ring1)
    rw [hcore]
    -- push the inverse basis change through the two summands
    have hind : ∀ q ∈ w.map (·.1), ∀ (y : Bits) (b : Bool), (cs.all fun c => (y.set q b) c) = cs.all (fun c => y c) := by
      intro q hq y b
      exact all_set_of_not_mem cs y q b (fun hm => hcs q hm hq)
    rw [wordOps_add]
    rw [wordOps_coef (Bi k) w (fun y => if cs.all (fun c => y c) then k.cosH θ else 1)
        (fun q hq y b => by simp only [hind q hq y b])]
    rw [wordOps_coef (Bi k) w (fun y => if cs.all (fun c => y c) then k.misinH θ else 0)
        (fun q hq y b => by simp only [hind q hq y b])]
    rw [wordOps_two (Bf k) (Bi k) (fun _ => M2.one) (basis_cancel k L hp) w hnd, wordOps_one]
    rw [wordOps_three (Bf k) (fun _ => baseMatrix k .Z 0) (Bi k) (pauliMat k) (basis_conj_Z k L hp) w hnd]

end general


/-! ## time evolution under a diagonal (hence commuting) operator is exact, for every number of steps

The operators whose terms are identity words and Z-type words commute with one another, and `exp(−i t H)` is the
diagonal operator whose entry at the basis state `x` is the product of the term phases.  The emission loop of
`get_exponentiated_qubit_operator_circuit` (`emit`, uncontrolled) produces exactly that operator together with the
returned phase, and the repetition `circuit * n_trotter_steps` its `n`-th power - provided the float decision
`abs(coef) > 1e-10` keeps every non-identity term (`keep` is a parameter of the model; a term it rejects is dropped,
which is where the result would stop being exact). -/
section diagonal

/-- the loop body of `emit` -/
def emitStep (d : CoefDecide) (variational : Bool) (control : Option (List Nat)) (acc : ExpOut) (wc : PWord × Ang) : Option ExpOut :=
  let (w, c) := wc
  match w with
  | [] =>
    match control with
    | none => some { acc with phaseAngle := acc.phaseAngle + c }
    | some [q] => some { acc with gates := acc.gates ++ [⟨"PHASE", [q], none, .ang (-c), variational⟩] }
    | some (q :: cs) => some { acc with gates := acc.gates ++ [⟨"CPHASE", [q], some cs, .ang (-c), variational⟩] }
    | some [] => none
  | _ =>
    if d.keep c then
      (gates w c (d.nonneg c) variational control).map (fun g => { acc with gates := acc.gates ++ g })
    else some acc

theorem emit_eq_foldlM (d : CoefDecide) (timed : Terms) (variational : Bool) (control : Option (List Nat)) :
    emit d timed variational control = timed.foldlM (emitStep d variational control) { gates := [], phaseAngle := 0 } := rfl

/-- the diagonal entry contributed by one term: 1 for the identity word (its phase is returned separately),
    `exp(∓ i c)` according to the parity of the word's qubits for a Z-type word -/
def termPhase (k : Consts R) (wc : PWord × Ang) (x : Bits) : R :=
  match wc.1 with
  | [] => 1
  | _ => if parity (sortNat (wc.1.map (·.1))) x then k.e (wc.2 + wc.2) else k.e (-(wc.2 + wc.2))

def phaseProd (k : Consts R) (timed : Terms) (x : Bits) : R := timed.foldr (fun wc acc => termPhase k wc x * acc) 1

/-- the separately returned phase angle: the sum of the identity-word coefficients -/
def identityAngle (timed : Terms) (a : Ang) : Ang := timed.foldl (fun a wc => if wc.1 = [] then a + wc.2 else a) a

/-- admissible term: identity word, or Z-type word on distinct qubits that the float decision keeps -/
def DiagTerm (d : CoefDecide) (wc : PWord × Ang) : Prop :=
  wc.1 = [] ∨ (allZ wc.1 = true ∧ (sortNat (wc.1.map (·.1))).Nodup ∧ d.keep wc.2 = true)

theorem sortNat_ne_nil' : ∀ (l : List Nat), l ≠ [] → sortNat l ≠ []
  | [], h => absurd rfl h
  | q :: l, _ => by
    have : ∀ (q : Nat) (m : List Nat), insertSorted q m ≠ [] := by
      intro q m; cases m with
      | nil => simp [insertSorted]
      | cons a m => simp only [insertSorted]; split <;> simp
    simpa [sortNat] using this q _

theorem emit_diag_from (k : Consts R) (L : k.Laws) (d : CoefDecide) (var : Bool) :
    ∀ (timed : Terms) (acc : ExpOut) (aops : List Op), (∀ wc ∈ timed, DiagTerm d wc) → gatesToOps acc.gates = some aops →
      ∃ out ops, timed.foldlM (emitStep d var none) acc = some out ∧ gatesToOps out.gates = some (aops ++ ops) ∧
        out.phaseAngle = identityAngle timed acc.phaseAngle ∧
        ∀ (ψ : State R) (x : Bits), semOps k ops ψ x = phaseProd k timed x * ψ x
  | [], acc, aops, _, ha => ⟨acc, [], rfl, by simpa using ha, rfl, fun ψ x => by simp [semOps, phaseProd]⟩
  | (w, c) :: rest, acc, aops, hall, ha => by
    have hrest : ∀ wc ∈ rest, DiagTerm d wc := fun wc h => hall wc (List.mem_cons_of_mem _ h)
    cases w with
    | nil =>
      obtain ⟨out, ops, h1, h2, h3, h4⟩ := emit_diag_from k L d var rest { acc with phaseAngle := acc.phaseAngle + c } aops hrest ha
      refine ⟨out, ops, ?_, h2, ?_, ?_⟩
      · rw [List.foldlM_cons]; exact h1
      · rw [h3]; simp [identityAngle]
      · intro ψ x; rw [h4]; simp [phaseProd, termPhase]
    | cons f fs =>
      have hd := hall (f :: fs, c) (by simp)
      rcases hd with hd | ⟨hz, hnd, hk⟩
      · cases hd
      · have hne : sortNat ((f :: fs).map (·.1)) ≠ [] := sortNat_ne_nil' _ (by simp)
        obtain ⟨gs, ops1, hg, hgo, hsem⟩ := exp_pauliword_z k L (f :: fs) c (d.nonneg c) var none _ rfl hz hne hnd (by simp)
        have ha' : gatesToOps (acc.gates ++ gs) = some (aops ++ ops1) := gatesToOps_append' _ _ _ _ ha hgo
        obtain ⟨out, ops, h1, h2, h3, h4⟩ := emit_diag_from k L d var rest { acc with gates := acc.gates ++ gs } (aops ++ ops1) hrest ha'
        refine ⟨out, ops1 ++ ops, ?_, ?_, ?_, ?_⟩
        · rw [List.foldlM_cons]
          have : emitStep d var none acc (f :: fs, c) = some { acc with gates := acc.gates ++ gs } := by
            simp only [emitStep, hk, if_true, hg, Option.map_some]
          rw [this]; exact h1
        · rw [h2, List.append_assoc]
        · rw [h3]; simp [identityAngle]
        · intro ψ x
          rw [semOps_append, h4, hsem]
          simp only [Option.getD_none, List.all_nil, if_true, phaseProd, List.foldr_cons, termPhase]
          ring

/-- **One step is exact.**  For an operator made of identity words and Z-type words (all of which commute), the
    emitted circuit denotes the diagonal operator `x ↦ Π_j exp(∓ i c_j)` - which is `exp(−i Σ_j c_j P_j)` without its
    identity part - and the returned phase angle is the sum of the identity coefficients. -/
theorem emit_diagonal_exact (k : Consts R) (L : k.Laws) (d : CoefDecide) (var : Bool) (timed : Terms)
    (hall : ∀ wc ∈ timed, DiagTerm d wc) :
    ∃ out ops, emit d timed var none = some out ∧ gatesToOps out.gates = some ops ∧
      out.phaseAngle = identityAngle timed 0 ∧
      ∀ (ψ : State R) (x : Bits), semOps k ops ψ x = phaseProd k timed x * ψ x := by
  obtain ⟨out, ops, h1, h2, h3, h4⟩ := emit_diag_from k L d var timed { gates := [], phaseAngle := 0 } [] hall rfl
  exact ⟨out, ops, by rw [emit_eq_foldlM]; exact h1, by simpa using h2, h3, h4⟩

theorem gatesToOps_replicate (gs : List Gate) (ops : List Op) (h : gatesToOps gs = some ops) :
    ∀ n : Nat, gatesToOps (List.flatten (List.replicate n gs)) = some (List.flatten (List.replicate n ops))
  | 0 => rfl
  | n + 1 => by
    rw [List.replicate_succ, List.flatten_cons, List.replicate_succ, List.flatten_cons]
    exact gatesToOps_append' _ _ _ _ h (gatesToOps_replicate gs ops h n)

/-- **Any number of steps is exact.**  `trotterize` repeats the one-step circuit `n` times; for a diagonal operator
    the result is the `n`-th power of the one-step diagonal: nothing is lost or gained by cutting the time into steps. -/
theorem trotter_diagonal_exact (k : Consts R) (L : k.Laws) (d : CoefDecide) (var : Bool) (timed : Terms)
    (hall : ∀ wc ∈ timed, DiagTerm d wc) (n : Nat) :
    ∃ out ops, emit d timed var none = some out ∧
      gatesToOps (List.flatten (List.replicate n out.gates)) = some ops ∧
      ∀ (ψ : State R) (x : Bits), semOps k ops ψ x = (phaseProd k timed x) ^ n * ψ x := by
  obtain ⟨out, ops, h1, h2, _, h4⟩ := emit_diagonal_exact k L d var timed hall
  refine ⟨out, _, h1, gatesToOps_replicate _ _ h2 n, ?_⟩
  intro ψ x
  rw [steps_power]
  induction n generalizing ψ with
  | zero => simp
  | succ n ih =>
    rw [Function.iterate_succ_apply, ih, h4]; ring

/-- a term the float decision rejects leaves no trace in the circuit: this is the place where exactness would be lost -/
theorem emitStep_dropped (d : CoefDecide) (var : Bool) (ctl : Option (List Nat)) (acc : ExpOut) (f : Nat × Pauli) (fs : PWord) (c : Ang)
    (h : d.keep c = false) : emitStep d var ctl acc (f :: fs, c) = some acc := by
  simp [emitStep, h]

example : DiagTerm ⟨fun _ => true, fun _ => true⟩ ([(0, .Z), (2, .Z)], Ang.piQuarter 1) := Or.inr ⟨by decide, by decide, rfl⟩
example : DiagTerm ⟨fun _ => true, fun _ => true⟩ ([], Ang.piQuarter 1) := Or.inl rfl

end diagonal

/-! ## executable instance -/

/-- the extra law e(π/2) = (1+i)/√2 holds for the amplitudes the driver computes -/
theorem halfPi_exec : HalfPiLaw cycConsts := by
  unfold HalfPiLaw
  show Ang.e (Ang.piQuarter 2) = (1 + Cyc.I) * Cyc.rsqrt2
  rw [Ang.e_unfold]
  show Cyc.zetaPow 2 * Ang.ptPow _ _ 0 * Ang.ptPow _ _ 0 * Ang.ptPow _ _ 0 * Ang.ptPow _ _ 0 * Ang.ptPow _ _ 0 * Ang.ptPow _ _ 0 = _
  simp only [Ang.ptPow_zero, mul_one]
  ext <;> simp [Cyc.zetaPow, Cyc.zetaPowNat, Cyc.I, Cyc.rsqrt2, Cyc.mul] <;> norm_num

/-- X and Y letters of a Pauli word on the executable model -/
theorem x_letter_exec (θ : Ang) :
    (baseMatrix cycConsts .H 0).mul ((baseMatrix cycConsts .RZ θ).mul (baseMatrix cycConsts .H 0)) =
      ⟨cycConsts.cosH θ, cycConsts.misinH θ, cycConsts.misinH θ, cycConsts.cosH θ⟩ :=
  x_letter cycConsts cycConsts_laws θ

theorem y_letter_exec (θ : Ang) :
    (baseMatrix cycConsts .RX (Ang.piQuarter (-2))).mul ((baseMatrix cycConsts .RZ θ).mul (baseMatrix cycConsts .RX (Ang.piQuarter 2))) =
      ⟨cycConsts.cosH θ, -(cycConsts.i * cycConsts.misinH θ), cycConsts.i * cycConsts.misinH θ, cycConsts.cosH θ⟩ :=
  y_letter cycConsts cycConsts_laws halfPi_exec θ

/-- the general Pauli-word theorem for the amplitudes the model driver computes -/
theorem exp_pauliword_general_exec (w : PWord) (γ : Ang) (nonneg var : Bool)
    (ctl : Option (List Nat)) (hne : w ≠ []) (hnd : (w.map (·.1)).Nodup) (hcs : ∀ c ∈ ctl.getD [], c ∉ w.map (·.1)) :
    ∃ gs ops, gates w γ nonneg var ctl = some gs ∧ gatesToOps gs = some ops ∧
      ∀ (ψ : State Cyc) (x : Bits), semOps cycConsts ops ψ x =
        (if (ctl.getD []).all (fun c => x c) then cycConsts.cosH (γ + γ) else 1) * ψ x
        + (if (ctl.getD []).all (fun c => x c) then cycConsts.misinH (γ + γ) else 0) * wordOps (pauliMat cycConsts) w ψ x :=
  exp_pauliword_general cycConsts cycConsts_laws halfPi_exec w γ nonneg var ctl hne hnd hcs

/-- diagonal time evolution on the amplitudes the model driver computes, any number of steps -/
theorem trotter_diagonal_exact_exec (d : CoefDecide) (var : Bool) (timed : Terms)
    (hall : ∀ wc ∈ timed, DiagTerm d wc) (n : Nat) :
    ∃ out ops, emit d timed var none = some out ∧
      gatesToOps (List.flatten (List.replicate n out.gates)) = some ops ∧
      ∀ (ψ : State Cyc) (x : Bits), semOps cycConsts ops ψ x = (phaseProd cycConsts timed x) ^ n * ψ x :=
  trotter_diagonal_exact cycConsts cycConsts_laws d var timed hall n

end Tangelo.C06
