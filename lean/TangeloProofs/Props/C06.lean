import TangeloModel.PauliExp
import TangeloProofs.Lemmas.OpInverse
import TangeloProofs.CycLaws
/-!
# C06 — Pauli-exponential and time-evolution circuits implement exp(−itH)

`e θ = exp(iθ/2)`; a coefficient `c` is the exact angle `γ`, the rotation angle is `γ+γ = 2c`,
`exp(−ic) = e (−(γ+γ))`, `cos c = cosH (γ+γ)`, `−i sin c = misinH (γ+γ)`.
-/
namespace Tangelo.C06
open Tangelo PauliExp
variable {R : Type} [CommRing R]

/-! ## CNOT ladder around a diagonal gate = parity-controlled phase -/

/-- basis permutation of CNOT(control a, target b) -/
def cnotB (a b : Nat) (x : Bits) : Bits := x.set b (xor (x b) (x a))

theorem cnot_sem (k : Consts R) (a b : Nat) (hab : a ≠ b) (ψ : State R) (x : Bits) :
    (Op.one .X 0 b [a]).sem k ψ x = ψ (cnotB a b x) := by
  simp only [Op.sem, ctl, List.all_cons, List.all_nil, Bool.and_true]
  by_cases ha : x a
  · simp only [ha, if_true, app1, baseMatrix, zero_mul, one_mul, zero_add, add_zero]
    by_cases hb : x b <;> simp [hb, cnotB, ha]
  · have ha' : x a = false := by simpa using ha
    simp only [ha', Bool.false_eq_true, if_false, cnotB, Bool.xor_false]
    rw [Bits.set_self]

theorem cnotB_invol (a b : Nat) (hab : a ≠ b) (x : Bits) : cnotB a b (cnotB a b x) = x := by
  funext q
  by_cases hq : q = b
  · subst hq; simp [cnotB, Bits.set, hab]
  · simp [cnotB, Bits.set, hq]

/-- parity of the bits of `x` on the positions `l` -/
def parity (l : List Nat) (x : Bits) : Bool := l.foldr (fun q acc => xor (x q) acc) false

/-- the operations of `cnotLadder` -/
def ladderOps : List Nat → List Op
  | a :: b :: rest => Op.one .X 0 b [a] :: ladderOps (b :: rest)
  | _ => []

/-- the basis permutation the whole ladder performs -/
def ladderPerm : List Nat → Bits → Bits
  | a :: b :: rest, x => ladderPerm (b :: rest) (cnotB a b x)
  | _, x => x

theorem parity_cnotB_tail (a b : Nat) (l : List Nat) (hb : b ∉ l) (x : Bits) : parity l (cnotB a b x) = parity l x := by
  induction l with
  | nil => rfl
  | cons q qs ih =>
    have hq : q ≠ b := fun e => hb (by simp [e])
    have hqs : b ∉ qs := fun e => hb (by simp [e])
    simp only [parity, List.foldr_cons] at ih ⊢
    rw [ih hqs]
    simp [cnotB, Bits.set, hq]

/-- after the ladder, the last qubit holds the parity of the whole support -/
theorem ladderPerm_last : ∀ (l : List Nat) (hne : l ≠ []) (_ : l.Nodup) (x : Bits),
    ladderPerm l x (l.getLast hne) = parity l x
  | [a], _, _, x => by simp [ladderPerm, parity]
  | a :: b :: rest, _, hnd, x => by
    have hab : a ≠ b := by intro e; subst e; simp at hnd
    have hnd' : (b :: rest).Nodup := (List.nodup_cons.mp hnd).2
    have hb : b ∉ rest := (List.nodup_cons.mp hnd').1
    simp only [ladderPerm, List.getLast_cons (List.cons_ne_nil b rest)]
    rw [ladderPerm_last (b :: rest) (List.cons_ne_nil b rest) hnd' (cnotB a b x)]
    simp only [parity, List.foldr_cons]
    have h1 := parity_cnotB_tail a b rest hb x
    simp only [parity] at h1
    rw [h1]
    simp [cnotB, Bits.set, hab]
    cases x a <;> cases x b <;> simp

/-- qubits outside the support keep their value through the ladder -/
theorem ladderPerm_other : ∀ (l : List Nat) (x : Bits) (q : Nat), q ∉ l → ladderPerm l x q = x q
  | [], _, _, _ => rfl
  | [_], _, _, _ => rfl
  | a :: b :: rest, x, q, hq => by
    have hqb : q ≠ b := fun e => hq (by simp [e])
    have hq' : q ∉ b :: rest := fun e => hq (by simp [List.mem_cons.mp e |>.elim (fun h => Or.inr (Or.inl h)) (fun h => Or.inr (Or.inr h))])
    simp only [ladderPerm]
    rw [ladderPerm_other (b :: rest) (cnotB a b x) q hq']
    simp [cnotB, Bits.set, hqb]

theorem ladderPerm_invol_sem (k : Consts R) : ∀ (l : List Nat) (_ : l.Nodup) (D : State R → State R) (f : Bits → R),
    (∀ ψ x, D ψ x = f x * ψ x) → ∀ ψ x,
    semOps k (ladderOps l).reverse (D (semOps k (ladderOps l) ψ)) x = f (ladderPerm l x) * ψ x
  | [], _, D, f, hD, ψ, x => by simp [ladderOps, semOps, ladderPerm, hD]
  | [_], _, D, f, hD, ψ, x => by simp [ladderOps, semOps, ladderPerm, hD]
  | a :: b :: rest, hnd, D, f, hD, ψ, x => by
    have hab : a ≠ b := by intro e; subst e; simp at hnd
    have hnd' : (b :: rest).Nodup := (List.nodup_cons.mp hnd).2
    -- peel the outer CNOT on both sides
    have hl : ladderOps (a :: b :: rest) = Op.one .X 0 b [a] :: ladderOps (b :: rest) := rfl
    rw [hl, List.reverse_cons, semOps_append]
    have hc : semOps k (Op.one .X 0 b [a] :: ladderOps (b :: rest)) ψ = semOps k (ladderOps (b :: rest)) ((Op.one .X 0 b [a]).sem k ψ) := rfl
    rw [hc]
    show (Op.one .X 0 b [a]).sem k (semOps k (ladderOps (b :: rest)).reverse (D (semOps k (ladderOps (b :: rest)) ((Op.one .X 0 b [a]).sem k ψ)))) x = _
    rw [cnot_sem k a b hab]
    rw [ladderPerm_invol_sem k (b :: rest) hnd' D f hD ((Op.one .X 0 b [a]).sem k ψ) (cnotB a b x)]
    rw [cnot_sem k a b hab, cnotB_invol a b hab]
    rfl

/-- a diagonal matrix on qubit `t` under controls multiplies each amplitude by a scalar -/
theorem diag_sem (k : Consts R) (em ep : R) (t : Nat) (cs : List Nat) (ψ : State R) (x : Bits) :
    ctl cs (app1 ⟨em, 0, 0, ep⟩ t) ψ x = (if cs.all (fun c => x c) then (if x t then ep else em) else 1) * ψ x := by
  simp only [ctl]
  by_cases hc : cs.all (fun c => x c) = true
  · simp only [hc, if_true, app1]
    by_cases ht : x t
    · simp only [ht, if_true, zero_mul, zero_add]; rw [← ht, Bits.set_self]
    · have ht' : x t = false := by simpa using ht
      simp only [ht', Bool.false_eq_true, if_false, zero_mul, add_zero]; rw [← ht', Bits.set_self]
  · simp [hc]

/-- **CNOT ladder lemma.** For every support `l` (distinct qubits, any length ≥ 1), every control list
    disjoint from it and every angle: ladder · (C)RZ(θ) on the last qubit · reversed ladder multiplies the
    amplitude of `x` by `e(θ)` if the parity of `x` on `l` is odd, by `e(−θ)` if even, when all controls
    are 1, and leaves it unchanged otherwise. -/
theorem ladder_rz_sem (k : Consts R) (l : List Nat) (hne : l ≠ []) (hnd : l.Nodup) (cs : List Nat)
    (hcs : ∀ c ∈ cs, c ∉ l) (θ : Ang) (ψ : State R) (x : Bits) :
    semOps k (ladderOps l ++ [Op.one .RZ θ (l.getLast hne) cs] ++ (ladderOps l).reverse) ψ x
      = (if cs.all (fun c => x c) then (if parity l x then k.e θ else k.e (-θ)) else 1) * ψ x := by
  rw [semOps_append, semOps_append]
  have hD : ∀ φ y, (Op.one .RZ θ (l.getLast hne) cs).sem k φ y =
      (if cs.all (fun c => y c) then (if y (l.getLast hne) then k.e θ else k.e (-θ)) else 1) * φ y := by
    intro φ y
    simp only [Op.sem, baseMatrix]
    exact diag_sem k (k.e (-θ)) (k.e θ) _ cs φ y
  have := ladderPerm_invol_sem k l hnd (fun φ => (Op.one .RZ θ (l.getLast hne) cs).sem k φ) _ hD ψ x
  simp only [semOps, List.foldl_cons, List.foldl_nil] at this ⊢
  rw [this, ladderPerm_last l hne hnd x]
  have hall : ∀ (cs' : List Nat), (∀ c ∈ cs', c ∉ l) → cs'.all (fun c => ladderPerm l x c) = cs'.all (fun c => x c) := by
    intro cs'
    induction cs' with
    | nil => intro _; rfl
    | cons c cs' ih =>
      intro h
      simp only [List.all_cons]
      rw [ladderPerm_other l x c (h c (by simp)), ih (fun c' hc' => h c' (by simp [hc']))]
  rw [hall cs hcs]

/-- Z-type word: the emitted circuit is `cos c − i sin c · Z_S`, i.e. the amplitude of `x` is multiplied by
    `cos c − i sin c (−1)^{parity}` (all supports, all coefficients, with or without controls) -/
theorem exp_z_word (k : Consts R) (L : k.Laws) (l : List Nat) (hne : l ≠ []) (hnd : l.Nodup) (cs : List Nat)
    (hcs : ∀ c ∈ cs, c ∉ l) (γ : Ang) (ψ : State R) (x : Bits) (hall : cs.all (fun c => x c) = true) :
    semOps k (ladderOps l ++ [Op.one .RZ (γ + γ) (l.getLast hne) cs] ++ (ladderOps l).reverse) ψ x
      = k.cosH (γ + γ) * ψ x + k.misinH (γ + γ) * ((if parity l x then -1 else 1) * ψ x) := by
  rw [ladder_rz_sem k l hne hnd cs hcs, hall]
  simp only [if_true]
  unfold Consts.cosH Consts.misinH
  by_cases hp : parity l x = true
  · simp only [hp, if_true]
    linear_combination (-(k.e (γ + γ)) * ψ x) * L.two_half
  · have hp' : parity l x = false := by simpa using hp
    simp only [hp', Bool.false_eq_true, if_false]
    linear_combination (-(k.e (-(γ + γ))) * ψ x) * L.two_half

/-! ## the angle written for negative coefficients denotes the same rotation -/

theorem rotAngle_same (k : Consts R) (L : k.Laws) (γ : Ang) (b : Base) :
    baseMatrix k b (rotAngle γ false) = baseMatrix k b (rotAngle γ true) := by
  have e16 : k.e (Ang.piQuarter 16) = 1 := by
    have h16 : Ang.piQuarter 16 = Ang.pi + Ang.pi + (Ang.pi + Ang.pi) := by
      apply Ang.ext' <;> simp [Ang.add_def, Ang.add, Ang.piQuarter, Ang.pi]
    rw [h16, L.e_add, L.e_add, L.e_pi]
    linear_combination (k.i * k.i - 1) * L.i_sq
  have e16n : k.e (-Ang.piQuarter 16) = 1 := by
    have := L.e_neg_mul (Ang.piQuarter 16); rw [e16] at this; linear_combination this
  simp only [rotAngle, Bool.false_eq_true, if_false, if_true]
  have hc : k.cosH (Ang.piQuarter 16 + (γ + γ)) = k.cosH (γ + γ) := by
    unfold Consts.cosH; rw [Ang.neg_add', L.e_add (Ang.piQuarter 16), L.e_add (-Ang.piQuarter 16), e16, e16n]; ring
  have hm : k.misinH (Ang.piQuarter 16 + (γ + γ)) = k.misinH (γ + γ) := by
    unfold Consts.misinH; rw [Ang.neg_add', L.e_add (Ang.piQuarter 16), L.e_add (-Ang.piQuarter 16), e16, e16n]; ring
  have he : k.e (Ang.piQuarter 16 + (γ + γ)) = k.e (γ + γ) := by rw [L.e_add (Ang.piQuarter 16), e16]; ring
  have hen : k.e (-(Ang.piQuarter 16 + (γ + γ))) = k.e (-(γ + γ)) := by
    rw [Ang.neg_add', L.e_add (-Ang.piQuarter 16), e16n]; ring
  cases b <;> simp only [baseMatrix, Consts.sinH, hc, hm, he, hen]

/-! ## identity terms contribute exactly exp(−ic) -/

/-- single control `q`: `PHASE(−c)` multiplies by `exp(−ic) = e(−γ)²` exactly when `q` is 1;
    several controls `q :: cs`: `CPHASE(−c)` on `q` controlled by `cs` does so exactly when all are 1 -/
theorem identity_term_controlled (k : Consts R) (γ : Ang) (q : Nat) (cs : List Nat) (ψ : State R) (x : Bits) :
    (Op.one .PHASE (-γ) q cs).sem k ψ x =
      (if cs.all (fun c => x c) then (if x q then k.e (-γ) * k.e (-γ) else 1) else 1) * ψ x := by
  simp only [Op.sem, baseMatrix]
  exact diag_sem k 1 (k.e (-γ) * k.e (-γ)) q cs ψ x

/-! ## basis changes for the X and Y letters (2×2 identities) -/

/-- the extra law used for the Y letter: e(π/2) = exp(iπ/4) = (1+i)/√2 -/
def HalfPiLaw (k : Consts R) : Prop := k.e (Ang.piQuarter 2) = (1 + k.i) * k.rsqrt2

/-- `H · RZ(2c) · H = cos c − i sin c · X` -/
theorem x_letter (k : Consts R) (L : k.Laws) (θ : Ang) :
    (baseMatrix k .H 0).mul ((baseMatrix k .RZ θ).mul (baseMatrix k .H 0)) =
      ⟨k.cosH θ, k.misinH θ, k.misinH θ, k.cosH θ⟩ := by
  apply M2.ext' <;> simp only [baseMatrix, M2.mul, Consts.cosH, Consts.misinH]
  all_goals first
    | linear_combination (k.half * (k.e θ + k.e (-θ))) * L.rsqrt2_sq - (k.rsqrt2 * k.rsqrt2 * (k.e θ + k.e (-θ))) * L.two_half
    | linear_combination (k.half * (k.e (-θ) - k.e θ)) * L.rsqrt2_sq - (k.rsqrt2 * k.rsqrt2 * (k.e (-θ) - k.e θ)) * L.two_half

/-- `RX(−π/2) · RZ(2c) · RX(π/2) = cos c − i sin c · Y` -/
theorem y_letter (k : Consts R) (L : k.Laws) (hp : HalfPiLaw k) (θ : Ang) :
    (baseMatrix k .RX (Ang.piQuarter (-2))).mul ((baseMatrix k .RZ θ).mul (baseMatrix k .RX (Ang.piQuarter 2))) =
      ⟨k.cosH θ, -(k.i * k.misinH θ), k.i * k.misinH θ, k.cosH θ⟩ := by
  have hneg : Ang.piQuarter (-2) = -Ang.piQuarter 2 := by
    apply Ang.ext' <;> simp [Ang.neg_def, Ang.neg, Ang.piQuarter]
  have hp' : k.e (-Ang.piQuarter 2) = (1 - k.i) * k.rsqrt2 := by
    have h := L.e_mul_neg (Ang.piQuarter 2)
    rw [hp] at h
    linear_combination ((1 - k.i) * k.rsqrt2) * h - (k.e (-Ang.piQuarter 2)) * L.rsqrt2_sq + (k.rsqrt2 * k.rsqrt2 * k.e (-Ang.piQuarter 2)) * L.i_sq
  have hc : k.cosH (Ang.piQuarter 2) = k.rsqrt2 := by
    unfold Consts.cosH; rw [hp, hp']; linear_combination k.rsqrt2 * L.two_half
  have hm : k.misinH (Ang.piQuarter 2) = -k.i * k.rsqrt2 := by
    unfold Consts.misinH; rw [hp, hp']; linear_combination (-k.i * k.rsqrt2) * L.two_half
  rw [hneg]
  apply M2.ext' <;> simp only [baseMatrix, M2.mul, L.cos_neg, L.misin_neg, hc, hm] <;> simp only [Consts.cosH, Consts.misinH]
  all_goals first
    | linear_combination k.half * ((-k.e θ*k.i^2 + k.e (-θ)) * L.rsqrt2_sq + (-k.e θ - k.e (-θ)) * L.two_half + (-k.e θ) * L.i_sq) - (-k.e θ*k.half - k.e θ*k.i^2*k.rsqrt2^2 - k.e (-θ)*k.half + k.e (-θ)*k.rsqrt2^2) * L.two_half
    | linear_combination k.half * ((k.e θ*k.i - k.e (-θ)*k.i) * L.rsqrt2_sq + (-k.e θ*k.i + k.e (-θ)*k.i) * L.two_half) - (-k.e θ*k.half*k.i + k.e θ*k.i*k.rsqrt2^2 + k.e (-θ)*k.half*k.i - k.e (-θ)*k.i*k.rsqrt2^2) * L.two_half
    | linear_combination k.half * ((-k.e θ*k.i + k.e (-θ)*k.i) * L.rsqrt2_sq + (k.e θ*k.i - k.e (-θ)*k.i) * L.two_half) - (k.e θ*k.half*k.i - k.e θ*k.i*k.rsqrt2^2 - k.e (-θ)*k.half*k.i + k.e (-θ)*k.i*k.rsqrt2^2) * L.two_half
    | linear_combination k.half * ((k.e θ - k.e (-θ)*k.i^2) * L.rsqrt2_sq + (-k.e θ - k.e (-θ)) * L.two_half + (-k.e (-θ)) * L.i_sq) - (-k.e θ*k.half + k.e θ*k.rsqrt2^2 - k.e (-θ)*k.half - k.e (-θ)*k.i^2*k.rsqrt2^2) * L.two_half


/-! ## tie to the modelled generator `PauliExp.gates` -/

theorem cnotLadder_ops : ∀ (l : List Nat), gatesToOps (cnotLadder l) = some (ladderOps l)
  | [] => rfl
  | [_] => rfl
  | a :: b :: rest => by
    have ih := cnotLadder_ops (b :: rest)
    simp only [cnotLadder, ladderOps, gatesToOps, bind, Option.bind, ih]
    rfl

theorem gatesToOps_append' (xs ys : List Gate) (ox oy : List Op) (hx : gatesToOps xs = some ox) (hy : gatesToOps ys = some oy) :
    gatesToOps (xs ++ ys) = some (ox ++ oy) := by
  induction xs generalizing ox with
  | nil => simp [gatesToOps] at hx; subst hx; simpa using hy
  | cons g gs ih =>
    simp only [gatesToOps, bind, Option.bind] at hx
    cases ho : g.toOp with
    | none => simp [ho] at hx
    | some o =>
      cases hos : gatesToOps gs with
      | none => simp [ho, hos] at hx
      | some os =>
        simp [ho, hos] at hx; subst hx
        simp [gatesToOps, ho, ih os hos]

theorem gatesToOps_reverse' (xs : List Gate) (ox : List Op) (hx : gatesToOps xs = some ox) :
    gatesToOps xs.reverse = some ox.reverse := by
  induction xs generalizing ox with
  | nil => simp [gatesToOps] at hx; subst hx; rfl
  | cons g gs ih =>
    simp only [gatesToOps, bind, Option.bind] at hx
    cases ho : g.toOp with
    | none => simp [ho] at hx
    | some o =>
      cases hos : gatesToOps gs with
      | none => simp [ho, hos] at hx
      | some os =>
        simp [ho, hos] at hx; subst hx
        rw [List.reverse_cons, List.reverse_cons]
        exact gatesToOps_append' _ _ _ _ (ih os hos) (by simp [gatesToOps, ho])

/-- a word made of `Z` letters only needs no basis change -/
def allZ (w : PWord) : Bool := w.all (fun f => f.2 == Pauli.Z)

theorem filterMap_basis_allZ (w : PWord) (inv : Bool) (h : allZ w = true) :
    w.filterMap (fun (f : Nat × Pauli) => basisGate f.1 f.2 inv) = [] := by
  induction w with
  | nil => rfl
  | cons f fs ih =>
    simp only [allZ, List.all_cons, Bool.and_eq_true, beq_iff_eq] at h
    have ih' := ih (by simpa [allZ] using h.2)
    have hb : basisGate f.1 f.2 inv = none := by rw [h.1]; rfl
    rw [List.filterMap_cons, hb]
    exact ih'

theorem allZ_reverse (w : PWord) (h : allZ w = true) : allZ w.reverse = true := by
  simp only [allZ, List.all_eq_true] at h ⊢
  intro f hf
  exact h f (List.mem_reverse.mp hf)

/-- **`exp_pauliword_to_gates` on a Z-type word**: the emitted gate list denotes the parity-controlled phase,
    for every support `l` (the sorted indices of the word), every coefficient (both sign branches), with a
    control list or without. -/
theorem exp_pauliword_z (k : Consts R) (L : k.Laws) (w : PWord) (γ : Ang) (nonneg var : Bool) (ctl : Option (List Nat))
    (l : List Nat) (hl : sortNat (w.map (·.1)) = l)
    (hz : allZ w = true) (hne : l ≠ []) (hnd : l.Nodup) (hcs : ∀ c ∈ ctl.getD [], c ∉ l) :
    ∃ gs ops, gates w γ nonneg var ctl = some gs ∧ gatesToOps gs = some ops ∧
      ∀ (ψ : State R) (x : Bits), semOps k ops ψ x =
        (if (ctl.getD []).all (fun c => x c) then (if parity l x then k.e (γ + γ) else k.e (-(γ + γ))) else 1) * ψ x := by
  have hlast : l.getLast? = some (l.getLast hne) := List.getLast?_eq_some_getLast hne
  have hpre := filterMap_basis_allZ w false hz
  have hpost := filterMap_basis_allZ w.reverse true (allZ_reverse w hz)
  have hrot : ∃ rot : Gate, rot.toOp = some (Op.one .RZ (rotAngle γ nonneg) (l.getLast hne) (ctl.getD [])) ∧
      gates w γ nonneg var ctl = some (cnotLadder l ++ [rot] ++ (cnotLadder l).reverse) := by
    cases ctl with
    | none =>
      refine ⟨⟨"RZ", [l.getLast hne], none, .ang (rotAngle γ nonneg), var⟩, rfl, ?_⟩
      simp only [gates, hl, hlast]
      rw [show (w.filterMap fun x => basisGate x.1 x.2 false) = [] from hpre,
          show (w.reverse.filterMap fun x => basisGate x.1 x.2 true) = [] from hpost]
      simp
    | some cs =>
      refine ⟨⟨"CRZ", [l.getLast hne], some cs, .ang (rotAngle γ nonneg), var⟩, rfl, ?_⟩
      simp only [gates, hl, hlast]
      rw [show (w.filterMap fun x => basisGate x.1 x.2 false) = [] from hpre,
          show (w.reverse.filterMap fun x => basisGate x.1 x.2 true) = [] from hpost]
      simp
  obtain ⟨rot, hrotOp, hgates⟩ := hrot
  refine ⟨_, ladderOps l ++ [Op.one .RZ (rotAngle γ nonneg) (l.getLast hne) (ctl.getD [])] ++ (ladderOps l).reverse, hgates, ?_, ?_⟩
  · apply gatesToOps_append'
    · apply gatesToOps_append' _ _ _ _ (cnotLadder_ops l)
      simp [gatesToOps, hrotOp]
    · exact gatesToOps_reverse' _ _ (cnotLadder_ops l)
  · intro ψ x
    have hmat : ∀ φ, (Op.one .RZ (rotAngle γ nonneg) (l.getLast hne) (ctl.getD [])).sem k φ =
        (Op.one .RZ (γ + γ) (l.getLast hne) (ctl.getD [])).sem k φ := by
      intro φ
      cases nonneg
      · simp only [Op.sem, rotAngle_same k L γ .RZ]; rfl
      · rfl
    have := ladder_rz_sem k l hne hnd (ctl.getD []) hcs (γ + γ) ψ x
    rw [← this]
    simp only [semOps, List.foldl_append, List.foldl_cons, List.foldl_nil, hmat]

/-! ## structure of the Trotter lists, repetition -/

theorem mapM_some_length {α β : Type} (f : α → Option β) : ∀ (l : List α) (r : List β), l.mapM f = some r → r.length = l.length
  | [], r, h => by simp [List.mapM_nil, pure] at h; subst h; rfl
  | a :: as, r, h => by
    rw [List.mapM_cons] at h
    simp only [bind, Option.bind] at h
    cases hf : f a with
    | none => simp [hf] at h
    | some b =>
      cases hr : as.mapM f with
      | none => simp [hf, hr] at h
      | some bs =>
        simp [hf, hr, pure] at h; subst h
        simp [mapM_some_length f as bs hr]

/-- order 2 is the palindrome of two half-time first-order lists -/
theorem order2_palindrome (ts : Terms) (t : Int) (r : Terms) (h : decompose ts 2 t = some r) :
    ∃ half : Terms, r = half ++ half.reverse ∧ half.length = ts.length := by
  simp only [decompose] at h
  simp only [show ((2 : Nat) == 1) = false from rfl, show ((2 : Nat) == 2) = true from rfl, Bool.false_eq_true, if_false, if_true,
    bind, Option.bind] at h
  split at h
  · cases h
  · rename_i halves hh
    simp only [pure] at h
    injection h with h
    refine ⟨halves, h.symm, ?_⟩
    exact mapM_some_length _ ts halves hh

/-- repeating a circuit `n` times applies its operation `n` times (`circuit * n_trotter_steps`) -/
theorem steps_power (k : Consts R) (ops : List Op) (n : Nat) (ψ : State R) :
    semOps k (List.flatten (List.replicate n ops)) ψ = (fun φ => semOps k ops φ)^[n] ψ := by
  induction n generalizing ψ with
  | zero => rfl
  | succ n ih =>
    rw [List.replicate_succ, List.flatten_cons, semOps_append, ih, Function.iterate_succ_apply]

/-! ## non-vacuity -/
example : ∃ gs, gates [(0, .Z), (2, .Z)] (Ang.piQuarter 1) true false (some [5]) = some gs ∧ gs.length = 3 := ⟨_, rfl, rfl⟩
example : allZ [(0, .Z), (2, .Z)] = true ∧ (sortNat [0, 2]).Nodup ∧ sortNat [0, 2] ≠ [] := by decide

/-! ## executable instance -/

/-- the extra law e(π/2) = (1+i)/√2 holds for the amplitudes the driver computes -/
theorem halfPi_exec : HalfPiLaw cycConsts := by
  unfold HalfPiLaw
  show Ang.e (Ang.piQuarter 2) = (1 + Cyc.I) * Cyc.rsqrt2
  rw [Ang.e_unfold]
  show Cyc.zetaPow 2 * Ang.ptPow _ _ 0 * Ang.ptPow _ _ 0 * Ang.ptPow _ _ 0 * Ang.ptPow _ _ 0 * Ang.ptPow _ _ 0 * Ang.ptPow _ _ 0 = _
  simp only [Ang.ptPow_zero, mul_one]
  ext <;> simp [Cyc.zetaPow, Cyc.zetaPowNat, Cyc.I, Cyc.rsqrt2, Cyc.mul] <;> norm_num

/-- X and Y letters of a Pauli word on the executable model -/
theorem x_letter_exec (θ : Ang) :
    (baseMatrix cycConsts .H 0).mul ((baseMatrix cycConsts .RZ θ).mul (baseMatrix cycConsts .H 0)) =
      ⟨cycConsts.cosH θ, cycConsts.misinH θ, cycConsts.misinH θ, cycConsts.cosH θ⟩ :=
  x_letter cycConsts cycConsts_laws θ

theorem y_letter_exec (θ : Ang) :
    (baseMatrix cycConsts .RX (Ang.piQuarter (-2))).mul ((baseMatrix cycConsts .RZ θ).mul (baseMatrix cycConsts .RX (Ang.piQuarter 2))) =
      ⟨cycConsts.cosH θ, -(cycConsts.i * cycConsts.misinH θ), cycConsts.i * cycConsts.misinH θ, cycConsts.cosH θ⟩ :=
  y_letter cycConsts cycConsts_laws halfPi_exec θ

end Tangelo.C06
