import TangeloProofs.Lemmas.OpInverse
import TangeloProofs.CycLaws
import TangeloProofs.Lemmas.Commute
import TangeloProofs.Lemmas.CircuitInv
import TangeloModel.Clifford
import Mathlib.Data.List.Pairwise
/-!
# C09 — circuit transformations preserve the implemented operation

Semantics: `Gate.toOp` gives the documented operation of a gate, `semOps` the action of a gate
list on a state (`Bits → R`, any register size), over any commutative ring with the constants
laws `Consts.Laws` (ℂ with e θ = exp(iθ/2); `Cyc` for the driver).
-/
namespace Tangelo.C09
open Tangelo
variable {R : Type} [CommRing R]

/-! ## inverse = adjoint (stated as two-sided inverse of the unitary) -/

/-- `Gate.inverse` denotes `Op.inv` of the gate's operation, for every gate of the supported set -/
theorem gate_inverse_toOp (g g' : Gate) (o : Op) (h1 : g.toOp = some o) (h2 : g.inverse = some g') :
    g'.toOp = some o.inv := by
  unfold Gate.toOp at h1
  cases hs : Gate.shapeOf g.name with
  | none => simp [hs] at h1
  | some sh =>
    simp only [hs] at h1
    unfold Gate.shapeOf at hs
    split at hs <;> cases hs
    all_goals (rename_i hn; unfold Gate.inverse at h2; simp [hn, Tables.invertibleGates] at h2)
    all_goals (
      obtain ⟨nm, tgt, ctl, par, v⟩ := g
      simp only at hn h1 h2
      subst hn
      cases par <;> (try simp at h2) <;> (try subst h2) <;>
      (rcases tgt with _ | ⟨t, _ | ⟨t2, _ | ⟨t3, tl⟩⟩⟩) <;> cases ctl <;>
      simp [Gate.shapeToOp, Gate.baseOp, Base.parametrized] at h1 <;>
      (try subst h1) <;> simp [Gate.toOp, Gate.shapeOf, Gate.shapeToOp, Gate.baseOp, Base.parametrized, Op.inv])

/-- every supported gate name is declared invertible by the code's table (regenerated from /repo) -/
theorem supported_invertible (nm : String) (sh : Gate.Shape) (h : Gate.shapeOf nm = some sh) :
    Tables.invertibleGates.contains nm = true := by
  unfold Gate.shapeOf at h
  split at h <;> first | decide | cases h

/-- the inverse gate undoes the gate, on every state of every register -/
theorem gate_inverse_sem (k : Consts R) (L : k.Laws) (g g' : Gate) (o : Op)
    (h1 : g.toOp = some o) (h2 : g.inverse = some g') (hwf : o.qubits.Nodup) (ψ : State R) :
    ∃ o', g'.toOp = some o' ∧ o'.sem k (o.sem k ψ) = ψ :=
  ⟨o.inv, gate_inverse_toOp g g' o h1 h2, Op.inv_sem k L o hwf ψ⟩

theorem inverseGates_toOps (gs gs' : List Gate) (ops : List Op)
    (h1 : gatesToOps gs = some ops) (h2 : Circuit.inverseGates gs = .ok gs') :
    gatesToOps gs' = some (ops.map Op.inv) := by
  induction gs generalizing gs' ops with
  | nil =>
    simp [gatesToOps] at h1; simp [Circuit.inverseGates] at h2; subst h1; subst h2; rfl
  | cons g gs ih =>
    simp only [gatesToOps, bind, Option.bind] at h1
    cases ho : g.toOp with
    | none => simp [ho] at h1
    | some o =>
      cases hos : gatesToOps gs with
      | none => simp [ho, hos] at h1
      | some os =>
        simp [ho, hos] at h1; subst h1
        simp only [Circuit.inverseGates] at h2
        cases hg : g.inverse with
        | none => simp [hg] at h2
        | some gi =>
          simp only [hg, bind, Except.bind] at h2
          cases hr : Circuit.inverseGates gs with
          | error e => simp [hr] at h2
          | ok rest =>
            simp [hr, pure, Except.pure] at h2; subst h2
            simp [gatesToOps, gate_inverse_toOp g gi o ho hg, ih rest os hos hr]

theorem gatesToOps_append (xs ys : List Gate) (ox oy : List Op) (hx : gatesToOps xs = some ox) (hy : gatesToOps ys = some oy) :
    gatesToOps (xs ++ ys) = some (ox ++ oy) := by
  induction xs generalizing ox with
  | nil => simp [gatesToOps] at hx; subst hx; simpa using hy
  | cons g gs ih =>
    simp only [gatesToOps, bind, Option.bind] at hx
    cases ho : g.toOp with
    | none => simp [ho] at hx
    | some o =>
      cases hos : gatesToOps gs with
      | none => simp [ho, hos] at hx
      | some os =>
        simp [ho, hos] at hx; subst hx
        simp [gatesToOps, ho, ih os hos]

theorem gatesToOps_reverse (xs : List Gate) (ox : List Op) (hx : gatesToOps xs = some ox) :
    gatesToOps xs.reverse = some ox.reverse := by
  induction xs generalizing ox with
  | nil => simp [gatesToOps] at hx; subst hx; rfl
  | cons g gs ih =>
    simp only [gatesToOps, bind, Option.bind] at hx
    cases ho : g.toOp with
    | none => simp [ho] at hx
    | some o =>
      cases hos : gatesToOps gs with
      | none => simp [ho, hos] at hx
      | some os =>
        simp [ho, hos] at hx; subst hx
        rw [List.reverse_cons, List.reverse_cons]
        exact gatesToOps_append _ _ _ _ (ih os hos) (by simp [gatesToOps, ho])

/-- **`Circuit.inverse` undoes the circuit**: for every circuit over the supported set whose gates
    have distinct qubits, on every state of every register size. -/
theorem circuit_inverse_sem (k : Consts R) (L : k.Laws) (c ci : Circuit) (ops : List Op)
    (h1 : gatesToOps c.gates = some ops) (h2 : c.inverse = .ok ci) (hwf : ∀ o ∈ ops, o.qubits.Nodup) (ψ : State R) :
    ∃ ops', gatesToOps ci.gates = some ops' ∧ semOps k ops' (semOps k ops ψ) = ψ := by
  unfold Circuit.inverse at h2
  simp only [bind, Except.bind] at h2
  cases hr : Circuit.inverseGates c.gates.reverse with
  | error e => simp [hr] at h2
  | ok gs' =>
    simp only [hr] at h2
    have hg := Circuit.gates_ofGates gs' c.fixed ci h2
    have h3 := inverseGates_toOps c.gates.reverse gs' ops.reverse (gatesToOps_reverse _ _ h1) hr
    refine ⟨ops.reverse.map Op.inv, by rw [hg]; exact h3, ?_⟩
    have : ops.reverse.map Op.inv = invOps ops := by simp [invOps, List.map_reverse]
    rw [this]
    exact invOps_sem k L ops hwf ψ

/-! ## merging, cancelling and dropping rotations: the local rewrite rules are sound -/

/-- two successive rotations of the same kind on the same target and controls merge into the
    rotation by the sum of the angles (what `merge_rotations` writes) -/
theorem merge_pair_sound (k : Consts R) (L : k.Laws) (b : Base) (hb : b = .RX ∨ b = .RY ∨ b = .RZ ∨ b = .PHASE)
    (a a' : Ang) (t : Nat) (cs : List Nat) (ht : t ∉ cs) (ψ : State R) :
    (Op.one b a' t cs).sem k ((Op.one b a t cs).sem k ψ) = (Op.one b (a + a') t cs).sem k ψ := by
  simp only [Op.sem]
  rw [ctl_app1_app1 cs _ _ t ht]
  congr 2
  rcases hb with h | h | h | h <;> subst h <;> apply M2.ext' <;>
    simp only [baseMatrix, M2.mul, Consts.sinH, L.cos_add, L.misin_add, L.e_add, Ang.neg_add'] <;>
    first
      | ring1
      | linear_combination (k.misinH a' * k.misinH a) * L.i_sq
      | linear_combination (-(k.misinH a' * k.misinH a)) * L.i_sq

/-- a gate followed by its inverse is the identity: the pair that `remove_redundant_gates` deletes -/
theorem cancel_pair_sound (k : Consts R) (L : k.Laws) (o : Op) (hwf : o.qubits.Nodup) (ψ : State R) :
    o.inv.sem k (o.sem k ψ) = ψ := Op.inv_sem k L o hwf ψ

/-- a rotation by exactly 0 is the identity (the exact core of `remove_small_rotations`) -/
theorem zero_rotation_id (k : Consts R) (L : k.Laws) (b : Base) (hb : b = .RX ∨ b = .RY ∨ b = .RZ)
    (t : Nat) (cs : List Nat) (ψ : State R) : (Op.one b 0 t cs).sem k ψ = ψ := by
  simp only [Op.sem]
  have : baseMatrix k b 0 = M2.one := by
    rcases hb with h | h | h <;> subst h <;> apply M2.ext' <;>
      simp [baseMatrix, M2.one, Consts.sinH, L.cos_zero, L.misin_zero, L.e_zero]
  rw [this, ctl_app1_one]

theorem e_two_pi (k : Consts R) (L : k.Laws) : k.e (Ang.piQuarter 8) = -1 := by
  have h : Ang.piQuarter 8 = Ang.pi + Ang.pi := by
    apply Ang.ext' <;> simp [Ang.add_def, Ang.add, Ang.piQuarter, Ang.pi]
  rw [h, L.e_add, L.e_pi, L.i_sq]

theorem e_neg_two_pi (k : Consts R) (L : k.Laws) : k.e (-Ang.piQuarter 8) = -1 := by
  have h1 := L.e_neg_mul (Ang.piQuarter 8)
  rw [e_two_pi k L] at h1
  linear_combination (-1 : R) * h1

/-- uncontrolled rotations are 2π-periodic up to the global phase −1 (why `==` may reduce modulo 2π) -/
theorem rotation_shift_two_pi (k : Consts R) (L : k.Laws) (b : Base) (hb : b = .RX ∨ b = .RY ∨ b = .RZ)
    (θ : Ang) (t : Nat) (ψ : State R) (x : Bits) :
    (Op.one b (θ + Ang.piQuarter 8) t []).sem k ψ x = -((Op.one b θ t []).sem k ψ x) := by
  have hc : k.cosH (θ + Ang.piQuarter 8) = -k.cosH θ := by
    unfold Consts.cosH; rw [Ang.neg_add', L.e_add, L.e_add, e_two_pi k L, e_neg_two_pi k L]; ring
  have hm : k.misinH (θ + Ang.piQuarter 8) = -k.misinH θ := by
    unfold Consts.misinH; rw [Ang.neg_add', L.e_add, L.e_add, e_two_pi k L, e_neg_two_pi k L]; ring
  simp only [Op.sem, ctl_nil]
  rcases hb with h | h | h <;> subst h <;> by_cases hx : x t <;>
    simp [app1, hx, baseMatrix, Consts.sinH, hc, hm, Ang.neg_add', L.e_add, e_two_pi k L, e_neg_two_pi k L] <;> ring

/-- every rotation (controlled or not) is exactly 4π-periodic: the period `==` must use for CRX/CRY/CRZ -/
theorem rotation_shift_four_pi (k : Consts R) (L : k.Laws) (b : Base) (θ : Ang) (t : Nat) (cs : List Nat) :
    baseMatrix k b (θ + Ang.piQuarter 16) = baseMatrix k b θ := by
  have h16 : Ang.piQuarter 16 = Ang.piQuarter 8 + Ang.piQuarter 8 := by
    apply Ang.ext' <;> simp [Ang.add_def, Ang.add, Ang.piQuarter]
  have e4 : k.e (Ang.piQuarter 16) = 1 := by rw [h16, L.e_add, e_two_pi k L]; ring
  have e4n : k.e (-Ang.piQuarter 16) = 1 := by
    have := L.e_neg_mul (Ang.piQuarter 16); rw [e4] at this; linear_combination this
  have hc : k.cosH (θ + Ang.piQuarter 16) = k.cosH θ := by
    unfold Consts.cosH; rw [Ang.neg_add', L.e_add, L.e_add, e4, e4n]; ring
  have hm : k.misinH (θ + Ang.piQuarter 16) = k.misinH θ := by
    unfold Consts.misinH; rw [Ang.neg_add', L.e_add, L.e_add, e4, e4n]; ring
  cases b <;> simp [baseMatrix, Consts.sinH, hc, hm, Ang.neg_add', L.e_add, e4, e4n]

/-! ## a whole pass: `remove_small_rotations` preserves the operation up to a sign -/

/-- operations are linear: a scalar factor passes through -/
theorem Op.sem_smul (k : Consts R) (o : Op) (c : R) (ψ : State R) :
    o.sem k (fun x => c * ψ x) = fun x => c * o.sem k ψ x := by
  funext x
  cases o with
  | one b θ t cs =>
    simp only [Op.sem, ctl, app1]
    split
    · split <;> ring
    · rfl
  | swap a b cs =>
    simp only [Op.sem, ctl, appSwap]
    split <;> rfl
  | xx θ a b => simp only [Op.sem, appXX]; ring

theorem semOps_smul (k : Consts R) (ops : List Op) (c : R) (ψ : State R) :
    semOps k ops (fun x => c * ψ x) = fun x => c * semOps k ops ψ x := by
  induction ops generalizing ψ with
  | nil => rfl
  | cons o os ih =>
    show semOps k os (o.sem k (fun x => c * ψ x)) = _
    rw [Op.sem_smul, ih]; rfl

/-- the operation is ± the identity (what a rotation by a multiple of 2π is) -/
def IsSignId (k : Consts R) (o : Op) : Prop := ∃ s : R, s * s = 1 ∧ ∀ ψ : State R, o.sem k ψ = fun x => s * ψ x

/-- keep the entries whose mask bit is `true` -/
def maskFilter {α : Type} : List Bool → List α → List α
  | b :: bs, a :: as => if b then a :: maskFilter bs as else maskFilter bs as
  | _, _ => []

theorem filter_eq_mask {α : Type} (p : α → Bool) (l : List α) : l.filter p = maskFilter (l.map p) l := by
  induction l with
  | nil => rfl
  | cons a as ih => simp only [List.filter_cons, List.map_cons, maskFilter, ih]

theorem gatesToOps_mask (gs : List Gate) (ops : List Op) (mask : List Bool) (h : gatesToOps gs = some ops) :
    gatesToOps (maskFilter mask gs) = some (maskFilter mask ops) := by
  induction gs generalizing ops mask with
  | nil => simp [gatesToOps] at h; subst h; cases mask <;> rfl
  | cons g gs ih =>
    simp only [gatesToOps, bind, Option.bind] at h
    cases ho : g.toOp with
    | none => simp [ho] at h
    | some o =>
      cases hos : gatesToOps gs with
      | none => simp [ho, hos] at h
      | some os =>
        simp [ho, hos] at h; subst h
        cases mask with
        | nil => rfl
        | cons b bs =>
          cases b
          · simpa [maskFilter] using ih os bs hos
          · simp only [maskFilter, if_true]
            simp [gatesToOps, ho, ih os bs hos]

/-- deleting operations that are ± the identity changes the circuit's operation by a sign only -/
theorem mask_sound (k : Consts R) (ops : List Op) (mask : List Bool) (hlen : mask.length = ops.length)
    (hid : ∀ i : Nat, mask[i]? = some false → ∀ o, ops[i]? = some o → IsSignId k o) :
    ∃ s : R, s * s = 1 ∧ ∀ ψ : State R, semOps k (maskFilter mask ops) ψ = fun x => s * semOps k ops ψ x := by
  induction ops generalizing mask with
  | nil => exact ⟨1, by ring, fun ψ => by cases mask <;> simp [maskFilter, semOps]⟩
  | cons o os ih =>
    cases mask with
    | nil => simp at hlen
    | cons b bs =>
      have hlen' : bs.length = os.length := by simpa using hlen
      obtain ⟨s1, hs1, h1⟩ := ih bs hlen' (fun i hi o' ho' => hid (i + 1) (by simpa using hi) o' (by simpa using ho'))
      cases b
      · obtain ⟨s0, hs0, h0⟩ := hid 0 (by simp) o (by simp)
        refine ⟨s1 * s0, by linear_combination (s0 * s0) * hs1 + hs0, ?_⟩
        intro ψ
        simp only [maskFilter, Bool.false_eq_true, if_false]
        rw [h1 ψ]
        have e : semOps k (o :: os) ψ = semOps k os (o.sem k ψ) := rfl
        rw [e, h0 ψ, semOps_smul]
        funext x
        linear_combination (-(s1 * semOps k os ψ x)) * hs0
      · refine ⟨s1, hs1, ?_⟩
        intro ψ
        simp only [maskFilter, if_true]
        have e : semOps k (o :: maskFilter bs os) ψ = semOps k (maskFilter bs os) (o.sem k ψ) := rfl
        rw [e, h1]; rfl

/-- **`remove_small_rotations` as a whole pass**: if every rotation the pass drops denotes ± the identity
    (exact multiples of the period — the float threshold of the code is an input of the model), the resulting
    circuit implements the same operation up to one global sign, on every state of every register size -/
theorem removeSmall_sound (k : Consts R) (isSmall : Gate → Bool) (c c' : Circuit) (rq : Bool) (ops : List Op)
    (h1 : gatesToOps c.gates = some ops) (h2 : c.removeSmallWith isSmall rq = .ok c')
    (hid : ∀ (i : Nat) g o, c.gates[i]? = some g → ops[i]? = some o →
      (Circuit.rotSmallSet.contains g.name && isSmall g) = true → IsSignId k o) :
    ∃ ops' s, gatesToOps c'.gates = some ops' ∧ s * s = 1 ∧ ∀ ψ : State R, semOps k ops' ψ = fun x => s * semOps k ops ψ x := by
  have hlenops : ops.length = c.gates.length := by
    clear h2 hid
    generalize c.gates = gs at h1
    induction gs generalizing ops with
    | nil => simp [gatesToOps] at h1; subst h1; rfl
    | cons g gs ih =>
      simp only [gatesToOps, bind, Option.bind] at h1
      cases ho : g.toOp with
      | none => simp [ho] at h1
      | some o =>
        cases hos : gatesToOps gs with
        | none => simp [ho, hos] at h1
        | some os => simp [ho, hos] at h1; subst h1; simp [ih os hos]
  let mask := c.gates.map (fun g => !(Circuit.rotSmallSet.contains g.name && isSmall g))
  have hgates : c'.gates = maskFilter mask c.gates := by
    unfold Circuit.removeSmallWith at h2
    rw [← filter_eq_mask]
    split at h2 <;> exact Circuit.gates_ofGates _ _ c' h2
  obtain ⟨s, hs, hsem⟩ := mask_sound k ops mask (by simp [mask, hlenops]) (by
    intro i hi o ho
    simp only [mask, List.getElem?_map] at hi
    cases hg : c.gates[i]? with
    | none => simp [hg] at hi
    | some g =>
      simp only [hg, Option.map_some, Option.some.injEq, Bool.not_eq_false'] at hi
      exact hid i g o hg ho hi)
  exact ⟨maskFilter mask ops, s, by rw [hgates]; exact gatesToOps_mask _ _ _ h1, hs, hsem⟩

/-- the exact cases: a rotation by 0 is the identity, an uncontrolled rotation by 2π is −identity -/
theorem zero_rotation_signId (k : Consts R) (L : k.Laws) (b : Base) (hb : b = .RX ∨ b = .RY ∨ b = .RZ)
    (t : Nat) (cs : List Nat) : IsSignId k (Op.one b 0 t cs) :=
  ⟨1, by ring, fun ψ => by rw [zero_rotation_id k L b hb t cs ψ]; funext x; ring⟩

theorem two_pi_rotation_signId (k : Consts R) (L : k.Laws) (b : Base) (hb : b = .RX ∨ b = .RY ∨ b = .RZ) (t : Nat) :
    IsSignId k (Op.one b (Ang.piQuarter 8) t []) := by
  refine ⟨-1, by ring, fun ψ => ?_⟩
  funext x
  have h := rotation_shift_two_pi k L b hb 0 t ψ x
  rw [Ang.zero_add'] at h
  rw [h, zero_rotation_id k L b hb t [] ψ]; ring

/-! ## rewriting at a distance: what the merge / cancel passes do when other gates lie in between -/

/-- operations on disjoint qubit sets commute (every pair of kinds: controlled one-qubit gates, controlled swaps, XX) -/
theorem disjoint_ops_commute (k : Consts R) (o o' : Op) (hd : ∀ q ∈ o.qubits, q ∉ o'.qubits) (ψ : State R) :
    o.sem k (o'.sem k ψ) = o'.sem k (o.sem k ψ) := Op.comm_disjoint k o o' hd ψ

/-- a gate can be moved across any block of gates that touch none of its qubits -/
theorem move_across (k : Consts R) (o : Op) (mid : List Op) (hd : ∀ o' ∈ mid, ∀ q ∈ o.qubits, q ∉ o'.qubits) (ψ : State R) :
    o.sem k (semOps k mid ψ) = semOps k mid (o.sem k ψ) := by
  induction mid generalizing ψ with
  | nil => rfl
  | cons m ms ih =>
    have e1 : semOps k (m :: ms) ψ = semOps k ms (m.sem k ψ) := rfl
    have e2 : semOps k (m :: ms) (o.sem k ψ) = semOps k ms (m.sem k (o.sem k ψ)) := rfl
    rw [e1, e2, ih (fun o' h => hd o' (List.mem_cons_of_mem _ h)), Op.comm_disjoint k o m (hd m List.mem_cons_self)]

/-- **merging at a distance** (the step of `merge_rotations`): a rotation is folded into the previous rotation on
    the same target and controls although other gates were emitted in between, provided none of them touches
    its qubits — which is what the per-qubit "last gate" table guarantees -/
theorem merge_at_distance_sound (k : Consts R) (L : k.Laws) (b : Base) (hb : b = .RX ∨ b = .RY ∨ b = .RZ ∨ b = .PHASE)
    (a a' : Ang) (t : Nat) (cs : List Nat) (ht : t ∉ cs) (pre mid : List Op)
    (hd : ∀ o' ∈ mid, ∀ q ∈ (Op.one b a' t cs).qubits, q ∉ o'.qubits) (ψ : State R) :
    semOps k (pre ++ [Op.one b a t cs] ++ mid ++ [Op.one b a' t cs]) ψ
      = semOps k (pre ++ [Op.one b (a + a') t cs] ++ mid) ψ := by
  simp only [semOps_append]
  have e : ∀ φ, semOps k [Op.one b a' t cs] φ = (Op.one b a' t cs).sem k φ := fun _ => rfl
  have e0 : ∀ (θ : Ang) φ, semOps k [Op.one b θ t cs] φ = (Op.one b θ t cs).sem k φ := fun _ _ => rfl
  rw [e, move_across k _ mid hd, e0, e0, merge_pair_sound k L b hb a a' t cs ht]

/-- **cancelling at a distance** (the step of `remove_redundant_gates`): a gate and its inverse disappear although
    other gates lie in between, provided none of them touches the gate's qubits -/
theorem cancel_at_distance_sound (k : Consts R) (L : k.Laws) (o : Op) (hwf : o.qubits.Nodup) (pre mid : List Op)
    (hd : ∀ o' ∈ mid, ∀ q ∈ o.inv.qubits, q ∉ o'.qubits) (ψ : State R) :
    semOps k (pre ++ [o] ++ mid ++ [o.inv]) ψ = semOps k (pre ++ mid) ψ := by
  simp only [semOps_append]
  have e : ∀ φ, semOps k [o.inv] φ = o.inv.sem k φ := fun _ => rfl
  have e0 : ∀ φ, semOps k [o] φ = o.sem k φ := fun _ => rfl
  rw [e, move_across k _ mid hd, e0, Op.inv_sem k L o hwf]

/-! ## concatenation, repetition, copy -/

theorem add_sem (k : Consts R) (c d r : Circuit) (oc od : List Op) (h : c.add d = .ok r)
    (hc : gatesToOps c.gates = some oc) (hd : gatesToOps d.gates = some od) (ψ : State R) :
    ∃ or', gatesToOps r.gates = some or' ∧ semOps k or' ψ = semOps k od (semOps k oc ψ) := by
  have hg := Circuit.gates_ofGates _ _ r h
  exact ⟨oc ++ od, by rw [hg]; exact gatesToOps_append _ _ _ _ hc hd, semOps_append k oc od ψ⟩

theorem copy_gates (c r : Circuit) (h : c.copy = .ok r) : r.gates = c.gates := Circuit.gates_ofGates _ _ r h

/-! ## Clifford decomposition table (regenerated from `decompose_gate_to_cliffords`) -/

/-- every row of the table (rotations RX, RY, RZ, PHASE at every multiple of π/2 in [−2π, 2π]) equals
    its rotation up to a 16th root of unity, computed exactly in ℚ(ζ₁₆) by the kernel -/
theorem clifford_table_correct : Clifford.allRowsOk = true := by decide +kernel

/-! ## non-vacuity -/
example : (Op.one .RX (Ang.piQuarter 1) 0 [1, 2]).qubits.Nodup := by decide
example : Gate.toOp ⟨"CRZ", [1], some [0, 2], .ang (Ang.piQuarter 3), false⟩ = some (Op.one .RZ (Ang.piQuarter 3) 1 [0, 2]) := by rfl

/-! ## the same statements for the amplitudes the model driver computes (`Cyc = ℚ(ζ₁₆)`, `cycConsts`) -/

/-- `Circuit.inverse` undoes the circuit on the executable model -/
theorem circuit_inverse_sem_exec (c ci : Circuit) (ops : List Op)
    (h1 : gatesToOps c.gates = some ops) (h2 : c.inverse = .ok ci) (hwf : ∀ o ∈ ops, o.qubits.Nodup) (ψ : State Cyc) :
    ∃ ops', gatesToOps ci.gates = some ops' ∧ semOps cycConsts ops' (semOps cycConsts ops ψ) = ψ :=
  circuit_inverse_sem cycConsts cycConsts_laws c ci ops h1 h2 hwf ψ

/-- merging two rotations is sound on the executable model -/
theorem merge_pair_sound_exec (b : Base) (hb : b = .RX ∨ b = .RY ∨ b = .RZ ∨ b = .PHASE)
    (a a' : Ang) (t : Nat) (cs : List Nat) (ht : t ∉ cs) (ψ : State Cyc) :
    (Op.one b a' t cs).sem cycConsts ((Op.one b a t cs).sem cycConsts ψ) = (Op.one b (a + a') t cs).sem cycConsts ψ :=
  merge_pair_sound cycConsts cycConsts_laws b hb a a' t cs ht ψ

/-! ## `merge_rotations`: the whole pass -/
section MergePass
open Circuit
theorem toOp_qubits (g : Gate) (o : Op) (h : g.toOp = some o) : o.qubits = g.qubits := by
  obtain ⟨nm, tgt, ctl, par, v⟩ := g
  simp only [Gate.toOp] at h
  cases hs : Gate.shapeOf nm with
  | none => simp [hs] at h
  | some sh =>
    simp only [hs] at h
    cases sh <;> simp only [Gate.shapeToOp] at h <;> split at h <;> simp_all [Gate.baseOp, Gate.qubits]
    all_goals (first | (subst h; rfl) | (obtain ⟨_, rfl⟩ := h; rfl) | (split at h <;> simp_all <;> (first | (subst h; rfl) | (obtain ⟨_, rfl⟩ := h; rfl))))

theorem gatesToOps_iff_map (gs : List Gate) (os : List Op) : gatesToOps gs = some os ↔ gs.map Gate.toOp = os.map some := by
  induction gs generalizing os with
  | nil => cases os <;> simp [gatesToOps]
  | cons g gs ih =>
    simp only [gatesToOps, bind, Option.bind, List.map_cons]
    cases ho : g.toOp with
    | none => cases os <;> simp
    | some o =>
      cases hos : gatesToOps gs with
      | none =>
        simp only [pure]
        constructor
        · intro h; cases h
        · intro h
          cases os with
          | nil => simp at h
          | cons o' os' =>
            simp only [List.map_cons, List.cons.injEq] at h
            have := (ih os').mpr h.2
            rw [hos] at this; cases this
      | some os1 =>
        simp only [pure, Option.some.injEq]
        have h1 := (ih os1).mp hos
        constructor
        · intro h; subst h; simp [h1]
        · intro h
          cases os with
          | nil => simp at h
          | cons o' os' =>
            simp only [List.map_cons, List.cons.injEq, Option.some.injEq] at h
            obtain ⟨rfl, h2⟩ := h
            have := (ih os').mpr h2
            rw [hos] at this
            injection this with this
            rw [this]


/-! ### the per-qubit "last gate" table of `merge_rotations` -/

theorem find_map_pair (qs : List Nat) (pos q : Nat) :
    ((qs.map (fun q' => (q', pos))).find? (·.1 == q)).map (·.2) = if q ∈ qs then some pos else none := by
  induction qs with
  | nil => simp
  | cons a as ih =>
    simp only [List.map_cons, List.find?_cons]
    by_cases h : a = q
    · subst h; simp
    · have : (a == q) = false := by simpa using h
      simp only [this, List.mem_cons]
      rw [ih]
      have h' : ¬ q = a := fun e => h e.symm
      simp [h']

theorem find_map_pair_none (qs : List Nat) (pos q : Nat) (h : q ∉ qs) :
    (qs.map (fun q' => (q', pos))).find? (·.1 == q) = none := by
  rw [List.find?_eq_none]
  intro p hp
  obtain ⟨a, ha, rfl⟩ := List.mem_map.mp hp
  simp only [beq_iff_eq]
  intro e; subst e; exact h ha

theorem find_filter_notin (last : List (Nat × Nat)) (qs : List Nat) (q : Nat) (h : q ∉ qs) :
    (last.filter (fun p => !qs.contains p.1)).find? (·.1 == q) = last.find? (·.1 == q) := by
  induction last with
  | nil => rfl
  | cons p ps ih =>
    by_cases hp : p.1 = q
    · have hc : (!qs.contains p.1) = true := by rw [hp]; simpa using h
      simp only [List.filter_cons, hc, ↓reduceIte]
      rw [List.find?_cons_of_pos (by simpa using hp), List.find?_cons_of_pos (by simpa using hp)]
    · have hpq : (p.1 == q) = false := by simpa using hp
      by_cases hc : (!qs.contains p.1) = true
      · simp only [List.filter_cons, hc, ↓reduceIte, List.find?_cons, hpq]
        exact ih
      · simp only [List.filter_cons, hc, Bool.false_eq_true, ↓reduceIte, List.find?_cons, hpq]
        exact ih

theorem lastOf_record (st : MergeSt) (gate : Gate) (q : Nat) :
    (st.record gate).lastOf q = if q ∈ gate.qubits then some st.out.size else st.lastOf q := by
  simp only [MergeSt.lastOf, MergeSt.record, List.find?_append]
  by_cases h : q ∈ gate.qubits
  · have := find_map_pair gate.qubits st.out.size q
    simp only [h, if_true] at this ⊢
    cases hf : (gate.qubits.map (fun q' => (q', st.out.size))).find? (·.1 == q) with
    | none => simp [hf] at this
    | some p => simpa [hf] using this
  · simp only [h, if_false]
    rw [find_map_pair_none _ _ _ h, find_filter_notin _ _ _ h]
    simp

/-- the table is right: the recorded position holds a gate on that qubit and no later gate touches the qubit -/
def LastOK (st : MergeSt) : Prop :=
  ∀ q i, st.lastOf q = some i →
    (∃ g, st.out.toList[i]? = some g ∧ q ∈ g.qubits) ∧ ∀ j g, i < j → st.out.toList[j]? = some g → q ∉ g.qubits

theorem lastOK_init : LastOK { out := #[], last := [] } := by
  intro q i h; simp [MergeSt.lastOf] at h

theorem lastOK_record (st : MergeSt) (gate : Gate) (h : LastOK st) : LastOK (st.record gate) := by
  intro q i hq
  rw [lastOf_record] at hq
  have hout : (st.record gate).out.toList = st.out.toList ++ [gate] := by simp [MergeSt.record]
  rw [hout]
  by_cases hm : q ∈ gate.qubits
  · simp only [hm, if_true, Option.some.injEq] at hq
    subst hq
    refine ⟨⟨gate, by simp, hm⟩, ?_⟩
    intro j g hj hg
    have : st.out.toList.length + 1 ≤ j := by simp at hj ⊢; omega
    rw [List.getElem?_eq_none (by simp; omega)] at hg
    cases hg
  · simp only [hm, if_false] at hq
    obtain ⟨⟨g0, hg0, hq0⟩, hafter⟩ := h q i hq
    have hi : i < st.out.toList.length := by
      by_contra hc
      rw [List.getElem?_eq_none (by omega)] at hg0; cases hg0
    refine ⟨⟨g0, by rw [List.getElem?_append_left hi]; exact hg0, hq0⟩, ?_⟩
    intro j g hj hg
    by_cases hjl : j < st.out.toList.length
    · rw [List.getElem?_append_left hjl] at hg
      exact hafter j g hj hg
    · by_cases hje : j = st.out.toList.length
      · subst hje
        simp at hg
        subst hg; exact hm
      · have hlen : st.out.toList.length = st.out.size := Array.length_toList
        rw [List.getElem?_eq_none (by simp; omega)] at hg; cases hg

theorem lastOK_set (st : MergeSt) (i0 : Nat) (g0 g0' : Gate) (h : LastOK st) (hg0 : st.out.toList[i0]? = some g0)
    (hq : g0'.qubits = g0.qubits) : LastOK { st with out := st.out.set! i0 g0' } := by
  have hout : (st.out.set! i0 g0').toList = st.out.toList.set i0 g0' := by simp [Array.set!]
  intro q i hl
  obtain ⟨⟨g, hg, hqg⟩, hafter⟩ := h q i hl
  simp only [hout]
  refine ⟨?_, ?_⟩
  · by_cases he : i = i0
    · subst he
      rw [hg0] at hg; injection hg with hg; subst hg
      have hi : i < st.out.toList.length := by
        by_contra hc; rw [List.getElem?_eq_none (by omega)] at hg0; cases hg0
      exact ⟨g0', by rw [List.getElem?_set_self hi], by rw [hq]; exact hqg⟩
    · exact ⟨g, by rw [List.getElem?_set_ne (fun e => he e.symm)]; exact hg, hqg⟩
  · intro j g' hj hg'
    by_cases he : j = i0
    · subst he
      have hjl : j < st.out.toList.length := by
        by_contra hc; rw [List.getElem?_eq_none (by omega)] at hg0; cases hg0
      rw [List.getElem?_set_self hjl] at hg'
      injection hg' with hg'
      subst hg'
      rw [hq]; exact hafter j g0 hj hg0
    · rw [List.getElem?_set_ne (fun e => he e.symm)] at hg'
      exact hafter j g' hj hg'


theorem rot_pair_ops (g0 gate : Gate) (o0 o : Op) (h0 : g0.toOp = some o0) (h1 : gate.toOp = some o)
    (hn : rotMergeSet.contains gate.name = true) (hname : gate.name = g0.name) (ht : gate.target = g0.target)
    (hc : gate.control = g0.control) :
    ∃ b a a' t cs, (b = .RX ∨ b = .RY ∨ b = .RZ ∨ b = .PHASE) ∧ o0 = Op.one b a t cs ∧ o = Op.one b a' t cs ∧
      g0.param = .ang a ∧ gate.param = .ang a' ∧
      ∀ v, ({ g0 with isVar := v, param := .ang (a + a') } : Gate).toOp = some (Op.one b (a + a') t cs) := by
  obtain ⟨nm0, tgt0, ctl0, par0, v0⟩ := g0
  obtain ⟨nm, tgt, ctl, par, v1⟩ := gate
  simp only at hname ht hc hn
  subst hname ht hc
  simp only [rotMergeSet, Tables.rotMergeSet, List.contains_cons, List.contains_nil, Bool.or_false, Bool.or_eq_true, beq_iff_eq] at hn
  rcases hn with rfl | rfl | rfl | rfl | rfl | rfl | rfl | rfl
  all_goals (
    rcases tgt with _ | ⟨t, _ | ⟨t2, rest⟩⟩ <;> cases ctl <;> cases par0 <;>
      simp [Gate.toOp, Gate.shapeOf, Gate.shapeToOp, Gate.baseOp, Base.parametrized] at h0
    all_goals (cases par <;> simp [Gate.toOp, Gate.shapeOf, Gate.shapeToOp, Gate.baseOp, Base.parametrized] at h1)
    all_goals (
      subst h0 h1
      exact ⟨_, _, _, _, _, by simp, rfl, rfl, rfl, rfl,
        fun v => by simp [Gate.toOp, Gate.shapeOf, Gate.shapeToOp, Gate.baseOp]⟩))


theorem record_sound (k : Consts R) (st : MergeSt) (gate : Gate) (o : Op) (os : List Op)
    (hst : LastOK st) (hos : gatesToOps st.out.toList = some os) (ho : gate.toOp = some o) :
    LastOK (st.record gate) ∧ ∃ os', gatesToOps (st.record gate).out.toList = some os' ∧
      ∀ ψ : State R, semOps k os' ψ = o.sem k (semOps k os ψ) := by
  refine ⟨lastOK_record st gate hst, os ++ [o], ?_, ?_⟩
  · have hout : (st.record gate).out.toList = st.out.toList ++ [gate] := by simp [MergeSt.record]
    rw [hout]
    exact gatesToOps_append _ _ _ _ hos (by simp [gatesToOps, ho])
  · intro ψ; rw [semOps_append]; rfl

theorem set_eq_take_cons_drop {α : Type} (l : List α) (i : Nat) (a : α) (h : i < l.length) :
    l.set i a = l.take i ++ a :: l.drop (i + 1) := by
  induction l generalizing i with
  | nil => simp at h
  | cons x xs ih =>
    cases i with
    | zero => simp
    | succ n => simp at h; simp [ih n h]

theorem eq_take_cons_drop {α : Type} (l : List α) (i : Nat) (a : α) (h : l[i]? = some a) :
    l = l.take i ++ a :: l.drop (i + 1) := by
  induction l generalizing i with
  | nil => simp at h
  | cons x xs ih =>
    cases i with
    | zero => simp at h; simp [h]
    | succ n => simp at h; simp; exact ih n h

/-- the merge branch: the rotation is folded into the gate at position `i0`, nothing after `i0` touching its qubits -/
theorem merge_branch_sound (k : Consts R) (L : k.Laws) (gs : List Gate) (os : List Op) (i0 : Nat) (g0 gate : Gate) (o : Op)
    (hos : gatesToOps gs = some os) (hg0 : gs[i0]? = some g0) (ho : gate.toOp = some o) (hnd : gate.qubits.Nodup)
    (hn : rotMergeSet.contains gate.name = true) (hname : gate.name = g0.name) (ht : gate.target = g0.target)
    (hc : gate.control = g0.control)
    (hfree : ∀ j g, i0 < j → gs[j]? = some g → ∀ q ∈ gate.qubits, q ∉ g.qubits)
    (p : Param) (hp : addParam g0.param gate.param = .ok p) (v : Bool) :
    ∃ os', gatesToOps (gs.set i0 { g0 with isVar := v, param := p }) = some os' ∧
      ∀ ψ : State R, semOps k os' ψ = o.sem k (semOps k os ψ) := by
  have hmap := (gatesToOps_iff_map gs os).mp hos
  have hlen : os.length = gs.length := by have := congrArg List.length hmap; simpa using this.symm
  have hi0 : i0 < gs.length := by
    by_contra hcn; rw [List.getElem?_eq_none (by omega)] at hg0; cases hg0
  -- the operation at i0
  have ho0 : ∃ o0, os[i0]? = some o0 ∧ g0.toOp = some o0 := by
    have h1 : (gs.map Gate.toOp)[i0]? = some g0.toOp := by simp [hg0]
    rw [hmap] at h1
    simp only [List.getElem?_map] at h1
    cases hoi : os[i0]? with
    | none => simp [hoi] at h1
    | some o0 => simp [hoi] at h1; exact ⟨o0, rfl, h1.symm⟩
  obtain ⟨o0, hoi, hto0⟩ := ho0
  obtain ⟨b, a, a', t, cs, hb, rfl, rfl, hpa, hpa', hnew⟩ := rot_pair_ops g0 gate o0 o hto0 ho hn hname ht hc
  have hp' : p = .ang (a + a') := by
    rw [hpa, hpa'] at hp; simp [addParam] at hp; exact hp.symm
  subst hp'
  refine ⟨os.set i0 (Op.one b (a + a') t cs), ?_, ?_⟩
  · rw [gatesToOps_iff_map, List.map_set, hmap, hnew v, ← List.map_set]
  · intro ψ
    have hsplit := eq_take_cons_drop os i0 _ hoi
    have hset := set_eq_take_cons_drop os i0 (Op.one b (a + a') t cs) (by omega)
    have htc : t ∉ cs := by
      have hq := toOp_qubits gate _ ho
      rw [← hq] at hnd
      simp [Op.qubits] at hnd
      exact hnd.1
    have hd : ∀ o' ∈ os.drop (i0 + 1), ∀ q ∈ (Op.one b a' t cs).qubits, q ∉ o'.qubits := by
      intro o' ho' q hq
      obtain ⟨j, hj⟩ := List.mem_iff_getElem?.mp ho'
      rw [List.getElem?_drop] at hj
      -- the gate at that position
      have hjl : i0 + 1 + j < gs.length := by
        by_contra hcn; rw [List.getElem?_eq_none (by omega)] at hj; cases hj
      have hgj : gs[i0 + 1 + j]? = some gs[i0 + 1 + j] := List.getElem?_eq_getElem hjl
      have h1 : (gs.map Gate.toOp)[i0 + 1 + j]? = some (gs[i0 + 1 + j]).toOp := by simp [hgj]
      rw [hmap] at h1
      simp only [List.getElem?_map, hj, Option.map_some, Option.some.injEq] at h1
      have hqo := toOp_qubits _ _ h1.symm
      rw [hqo]
      have hqg : q ∈ gate.qubits := by rw [← toOp_qubits gate _ ho]; exact hq
      exact hfree (i0 + 1 + j) _ (by omega) hgj q hqg
    have key := merge_at_distance_sound k L b hb a a' t cs htc (os.take i0) (os.drop (i0 + 1)) hd ψ
    rw [hset]
    have e1 : os.take i0 ++ Op.one b (a + a') t cs :: os.drop (i0 + 1) =
        os.take i0 ++ [Op.one b (a + a') t cs] ++ os.drop (i0 + 1) := by simp
    rw [e1, ← key]
    have e2 : os.take i0 ++ [Op.one b a t cs] ++ os.drop (i0 + 1) ++ [Op.one b a' t cs] = os ++ [Op.one b a' t cs] := by
      congr 1
      have : os.take i0 ++ [Op.one b a t cs] ++ os.drop (i0 + 1) = os.take i0 ++ Op.one b a t cs :: os.drop (i0 + 1) := by simp
      rw [this, ← hsplit]
    rw [e2, semOps_append]; rfl


theorem qubits_of_fields (g h : Gate) (ht : g.target = h.target) (hc : g.control = h.control) : g.qubits = h.qubits := by
  simp [Gate.qubits, ht, hc]

theorem mergeStep_sound (k : Consts R) (L : k.Laws) (eqv : Gate → Gate → Bool)
    (heqv : ∀ a b, eqv a b = true → a.qubits = b.qubits)
    (w : Nat) (st st' : MergeSt) (gate : Gate) (o : Op) (os : List Op)
    (hst : LastOK st) (hos : gatesToOps st.out.toList = some os) (ho : gate.toOp = some o)
    (hnd : gate.qubits.Nodup) (h : mergeStep eqv w st gate = .ok st') :
    LastOK st' ∧ ∃ os', gatesToOps st'.out.toList = some os' ∧
      ∀ ψ : State R, semOps k os' ψ = o.sem k (semOps k os ψ) := by
  unfold mergeStep at h
  simp only at h
  split at h
  · cases h
  split at h
  · injection h with h; subst h; exact record_sound k st gate o os hst hos ho
  rename_i hw hnone
  split at h
  · rename_i g0 gtl i0 itl hpg hpv
    split at h
    · rename_i hall
      split at h
      · rename_i hcond
        split at h
        · rename_i p hp
          injection h with h; subst h
          simp only [Bool.and_eq_true, beq_iff_eq] at hcond
          obtain ⟨⟨⟨hn, hname⟩, ht⟩, hc⟩ := hcond
          -- the head qubit and its recorded position
          obtain ⟨q0, qs', hq0⟩ : ∃ q0 qs', gate.qubits = q0 :: qs' := by
            cases hq : gate.qubits with
            | nil => rw [hq] at hpv; simp at hpv
            | cons a as => exact ⟨a, as, rfl⟩
          have hl0 : st.lastOf q0 = some i0 := by
            rw [hq0] at hpv; simp at hpv; exact hpv.1
          obtain ⟨⟨g00, hg00, hq00⟩, hafter0⟩ := hst q0 i0 hl0
          have harr : ∀ i : Nat, st.out[i]? = st.out.toList[i]? := by intro i; simp
          have hg0 : g00 = g0 := by
            rw [hq0] at hpg
            simp only [List.map_cons, hl0, List.filterMap_cons, Option.bind_some, harr, hg00] at hpg
            injection hpg with h1 _
          subst hg0
          have hqg : g00.qubits = gate.qubits := (qubits_of_fields gate g00 ht hc).symm
          -- every qubit of the gate has its last gate at i0
          have hall' : ∀ q ∈ gate.qubits, st.lastOf q = some i0 := by
            intro q hq
            have hsome : ∃ i, st.lastOf q = some i := by
              have : ¬ (List.map st.lastOf gate.qubits).any (·.isNone) = true := hnone
              rw [List.any_eq_true] at this
              cases hl : st.lastOf q with
              | none => exact absurd ⟨none, List.mem_map.mpr ⟨q, hq, hl⟩, rfl⟩ this
              | some i => exact ⟨i, rfl⟩
            obtain ⟨i, hi⟩ := hsome
            obtain ⟨⟨g, hg, hqg'⟩, hafter⟩ := hst q i hi
            have hmem : g ∈ (List.map st.lastOf gate.qubits).filterMap (fun p => p.bind (fun i => st.out[i]?)) := by
              rw [List.mem_filterMap]
              exact ⟨some i, List.mem_map.mpr ⟨q, hq, hi⟩, by simp only [Option.bind_some]; rw [harr]; exact hg⟩
            have he : eqv g g00 = true := by
              have := List.all_eq_true.mp hall g hmem
              exact this
            have hgq : g.qubits = gate.qubits := by rw [heqv g g00 he, hqg]
            rcases Nat.lt_trichotomy i i0 with hlt | heq | hgt
            · exact absurd (by rw [hqg]; exact hq) (hafter i0 g00 hlt hg00)
            · rw [hi, heq]
            · have hq0m : q0 ∈ g.qubits := by rw [hgq, hq0]; simp
              exact absurd hq0m (hafter0 i g hgt hg)
          have hfree : ∀ j g, i0 < j → st.out.toList[j]? = some g → ∀ q ∈ gate.qubits, q ∉ g.qubits := by
            intro j g hj hg q hq
            exact (hst q i0 (hall' q hq)).2 j g hj hg
          obtain ⟨os', h1, h2⟩ := merge_branch_sound k L st.out.toList os i0 g00 gate o hos hg00 ho hnd hn hname ht hc hfree p hp
            (g00.isVar || gate.isVar)
          have hout : (st.out.set! i0 { g00 with isVar := g00.isVar || gate.isVar, param := p }).toList =
              st.out.toList.set i0 { g00 with isVar := g00.isVar || gate.isVar, param := p } := by simp [Array.set!]
          refine ⟨lastOK_set st i0 g00 _ hst hg00 (by simp [Gate.qubits]), os', ?_, h2⟩
          simp only [hout]; exact h1
        · cases h
      · injection h with h; subst h; exact record_sound k st gate o os hst hos ho
    · injection h with h; subst h; exact record_sound k st gate o os hst hos ho
  · injection h with h; subst h; exact record_sound k st gate o os hst hos ho


theorem mergeFold_sound (k : Consts R) (L : k.Laws) (eqv : Gate → Gate → Bool)
    (heqv : ∀ a b, eqv a b = true → a.qubits = b.qubits) (w : Nat) :
    ∀ (gs : List Gate) (ops : List Op) (st st' : MergeSt) (os : List Op),
      gatesToOps gs = some ops → (∀ g ∈ gs, g.qubits.Nodup) → LastOK st → gatesToOps st.out.toList = some os →
      gs.foldlM (mergeStep eqv w) st = .ok st' →
      ∃ os', gatesToOps st'.out.toList = some os' ∧ ∀ ψ : State R, semOps k os' ψ = semOps k ops (semOps k os ψ) := by
  intro gs
  induction gs with
  | nil =>
    intro ops st st' os h1 _ _ hos h
    simp [gatesToOps] at h1; subst h1
    simp only [List.foldlM_nil, pure, Except.pure] at h
    injection h with h; subst h
    exact ⟨os, hos, fun ψ => rfl⟩
  | cons g gs ih =>
    intro ops st st' os h1 hnd hst hos h
    simp only [gatesToOps, bind, Option.bind] at h1
    cases ho : g.toOp with
    | none => simp [ho] at h1
    | some o =>
      cases hops : gatesToOps gs with
      | none => simp [ho, hops] at h1
      | some ops1 =>
        simp [ho, hops] at h1; subst h1
        simp only [List.foldlM_cons, bind, Except.bind] at h
        cases hs : mergeStep eqv w st g with
        | error e => simp [hs] at h
        | ok st1 =>
          simp only [hs] at h
          obtain ⟨hst1, os1, hos1, hsem1⟩ := mergeStep_sound k L eqv heqv w st st1 g o os hst hos ho (hnd g (by simp)) hs
          obtain ⟨os', hos', hsem'⟩ := ih ops1 st1 st' os1 hops (fun g' hg' => hnd g' (by simp [hg'])) hst1 hos1 h
          refine ⟨os', hos', ?_⟩
          intro ψ
          rw [hsem', hsem1]; rfl

/-- **`merge_rotations` as a whole pass**: for every circuit over the supported gate set (numeric parameters, gates with
    distinct qubits), whatever the number of gates and however the rotations are interleaved with other gates, the
    circuit the pass returns implements exactly the same operation - no phase, no threshold - on every state of
    every register. `eqv` is the code's gate equality; all that is used of it is that equal gates act on the same
    qubits. -/
theorem mergeRotations_sound (k : Consts R) (L : k.Laws) (eqv : Gate → Gate → Bool)
    (heqv : ∀ a b, eqv a b = true → a.qubits = b.qubits) (c r : Circuit) (ops : List Op)
    (h1 : gatesToOps c.gates = some ops) (hnd : ∀ g ∈ c.gates, g.qubits.Nodup)
    (h2 : mergeRotationsWith eqv c = .ok r) :
    ∃ ops', gatesToOps r.gates = some ops' ∧ ∀ ψ : State R, semOps k ops' ψ = semOps k ops ψ := by
  unfold mergeRotationsWith at h2
  simp only [bind, Except.bind] at h2
  cases hf : c.gates.foldlM (mergeStep eqv c.width) { out := #[], last := [] } with
  | error e => simp [hf] at h2
  | ok st =>
    simp only [hf] at h2
    obtain ⟨os', hos', hsem⟩ := mergeFold_sound k L eqv heqv c.width c.gates ops _ st [] h1 hnd lastOK_init
      (by simp [gatesToOps]) hf
    have hg := Circuit.gates_ofGates _ _ r h2
    exact ⟨os', by rw [hg]; exact hos', fun ψ => by rw [hsem]; rfl⟩

/-- the code's `Gate.__eq__` (model `Gate.eqv`) satisfies the hypothesis -/
theorem gate_eqv_qubits (a b : Gate) (h : Gate.eqv a b = true) : a.qubits = b.qubits := by
  simp only [Gate.eqv, Bool.and_eq_true, beq_iff_eq] at h
  exact qubits_of_fields a b h.1.1.1.2 h.1.1.2

/-- the whole pass with the code's own gate equality, on the exact amplitudes of the model driver -/
theorem mergeRotations_sound_exec (c r : Circuit) (ops : List Op)
    (h1 : gatesToOps c.gates = some ops) (hnd : ∀ g ∈ c.gates, g.qubits.Nodup)
    (h2 : mergeRotationsWith Gate.eqv c = .ok r) :
    ∃ ops', gatesToOps r.gates = some ops' ∧ ∀ ψ : State Cyc, semOps cycConsts ops' ψ = semOps cycConsts ops ψ :=
  mergeRotations_sound cycConsts cycConsts_laws Gate.eqv gate_eqv_qubits c r ops h1 hnd h2

/-- non-vacuity: two RZ on qubit 0 with an H on qubit 1 emitted in between are merged at a distance (3 gates → 2) -/
example : ∃ c r, Circuit.ofGates [⟨"RZ", [0], none, .ang (Ang.piQuarter 1), false⟩, ⟨"H", [1], none, .none, false⟩,
      ⟨"RZ", [0], none, .ang (Ang.piQuarter 2), false⟩] none = .ok c ∧
    Circuit.mergeRotationsWith (fun a b => a == b) c = .ok r ∧ r.gates.length = 2 := by
  refine ⟨_, _, rfl, rfl, by decide⟩

end MergePass

/-! ## `remove_redundant_gates` and `simplify`: the whole passes -/
section RRPass
open Circuit
/-! ### per-qubit stacks of `remove_redundant_gates` -/

theorem rrStackOf_map (F : Nat → List Nat → List Nat) (l : List (Nat × List Nat)) (q' : Nat) :
    rrStackOf (l.map (fun p => (p.1, F p.1 p.2))) q' =
      match l.find? (·.1 == q') with
      | some p => F q' p.2
      | none => [] := by
  induction l with
  | nil => rfl
  | cons p ps ih =>
    by_cases h : p.1 = q'
    · subst h; simp [rrStackOf]
    · have hb : (p.1 == q') = false := by simpa using h
      simp only [rrStackOf, List.map_cons, List.find?_cons, hb] at ih ⊢
      exact ih

theorem rrStackOf_push (gi : Nat) (stk : List (Nat × List Nat)) (q q' : Nat) :
    rrStackOf (rrPush gi stk q) q' = if q' = q then gi :: rrStackOf stk q else rrStackOf stk q' := by
  unfold rrPush
  have hfun : (fun (x : Nat × List Nat) => match x with | (q', s) => if (q' == q) = true then (q', gi :: s) else (q', s)) =
      (fun p => (p.1, (fun a s => if a == q then gi :: s else s) p.1 p.2)) := by
    funext p; obtain ⟨a, s⟩ := p; simp only; split <;> rfl
  by_cases hany : stk.any (·.1 == q) = true
  · simp only [hany, if_true]
    rw [hfun, rrStackOf_map (fun a s => if a == q then gi :: s else s)]
    by_cases hq : q' = q
    · subst hq
      simp only [if_true]
      obtain ⟨p, hp, hpq⟩ := List.any_eq_true.mp hany
      cases hf : stk.find? (·.1 == q') with
      | none =>
        have := List.find?_eq_none.mp hf p hp
        simp at this hpq; exact absurd hpq this
      | some p' => simp [rrStackOf, hf]
    · simp only [hq, if_false]
      cases hf : stk.find? (·.1 == q') with
      | none => simp [rrStackOf, hf]
      | some p' =>
        have hb : (q' == q) = false := by simpa using hq
        simp [rrStackOf, hf, hb]
  · simp only [hany]
    have hnone : stk.find? (·.1 == q) = none := by
      rw [List.find?_eq_none]
      intro p hp hpq
      exact hany (List.any_eq_true.mpr ⟨p, hp, hpq⟩)
    by_cases hq : q' = q
    · subst hq; simp [rrStackOf, hnone]
    · have hb : (q == q') = false := by simpa using fun e => hq e.symm
      simp [rrStackOf, List.find?_cons, hb, hq]

theorem rrStackOf_foldl_push (gi : Nat) (qs : List Nat) (hnd : qs.Nodup) (stk : List (Nat × List Nat)) (q' : Nat) :
    rrStackOf (qs.foldl (rrPush gi) stk) q' = if q' ∈ qs then gi :: rrStackOf stk q' else rrStackOf stk q' := by
  induction qs generalizing stk with
  | nil => simp
  | cons q rest ih =>
    have hnd' := (List.nodup_cons.mp hnd)
    simp only [List.foldl_cons]
    rw [ih hnd'.2, rrStackOf_push]
    by_cases h1 : q' = q
    · subst h1; simp [hnd'.1]
    · simp [h1]

theorem rrStackOf_pop (qs : List Nat) (stk : List (Nat × List Nat)) (q' : Nat) :
    rrStackOf (stk.map (fun (q, s) => if qs.contains q then (q, s.drop 1) else (q, s))) q' =
      if q' ∈ qs then (rrStackOf stk q').drop 1 else rrStackOf stk q' := by
  have hfun : (fun (x : Nat × List Nat) => match x with | (q, s) => if qs.contains q = true then (q, s.drop 1) else (q, s)) =
      (fun p => (p.1, (fun a s => if qs.contains a then s.drop 1 else s) p.1 p.2)) := by
    funext p; obtain ⟨a, s⟩ := p; simp only; split <;> rfl
  rw [hfun, rrStackOf_map (fun a s => if qs.contains a then s.drop 1 else s)]
  cases hf : stk.find? (·.1 == q') with
  | none => simp [rrStackOf, hf]
  | some p => by_cases h : q' ∈ qs <;> simp [rrStackOf, hf, h]


/-! ### keeping the entries whose position passes a test -/

def keepIdx {α : Type} (p : Nat → Bool) : List α → Nat → List α
  | [], _ => []
  | x :: xs, s => if p s then x :: keepIdx p xs (s + 1) else keepIdx p xs (s + 1)

theorem zipIdx_filter_eq_keepIdx {α : Type} (p : Nat → Bool) (xs : List α) (s : Nat) :
    ((xs.zipIdx s).filter (fun (_, i) => p i)).map (·.1) = keepIdx p xs s := by
  induction xs generalizing s with
  | nil => rfl
  | cons x xs ih =>
    simp only [List.zipIdx_cons, List.filter_cons, keepIdx]
    split
    · simp [ih]
    · exact ih (s + 1)

theorem keepIdx_append {α : Type} (p : Nat → Bool) (a b : List α) (s : Nat) :
    keepIdx p (a ++ b) s = keepIdx p a s ++ keepIdx p b (s + a.length) := by
  induction a generalizing s with
  | nil => simp [keepIdx]
  | cons x xs ih =>
    simp only [List.cons_append, keepIdx, List.length_cons]
    have e : s + (xs.length + 1) = s + 1 + xs.length := by omega
    split <;> simp [ih, e]

theorem keepIdx_congr {α : Type} (p p' : Nat → Bool) (xs : List α) (s : Nat)
    (h : ∀ i, s ≤ i → i < s + xs.length → p i = p' i) : keepIdx p xs s = keepIdx p' xs s := by
  induction xs generalizing s with
  | nil => rfl
  | cons x xs ih =>
    simp only [keepIdx]
    rw [h s (Nat.le_refl _) (by simp), ih (s + 1) (fun i h1 h2 => h i (by omega) (by simp; omega))]

theorem mem_keepIdx {α : Type} (p : Nat → Bool) (xs : List α) (s : Nat) (x : α) (h : x ∈ keepIdx p xs s) :
    ∃ i, s ≤ i ∧ xs[i - s]? = some x ∧ p i = true := by
  induction xs generalizing s with
  | nil => simp [keepIdx] at h
  | cons y ys ih =>
    simp only [keepIdx] at h
    split at h
    · rename_i hp
      rcases List.mem_cons.mp h with e | e
      · subst e; exact ⟨s, Nat.le_refl _, by simp, hp⟩
      · obtain ⟨i, hi, hx, hpi⟩ := ih (s + 1) e
        refine ⟨i, by omega, ?_, hpi⟩
        have : i - s = (i - (s + 1)) + 1 := by omega
        rw [this]; simpa using hx
    · obtain ⟨i, hi, hx, hpi⟩ := ih (s + 1) h
      refine ⟨i, by omega, ?_, hpi⟩
      have : i - s = (i - (s + 1)) + 1 := by omega
      rw [this]; simpa using hx

theorem gatesToOps_keepIdx (p : Nat → Bool) (gs : List Gate) (os : List Op) (s : Nat) (h : gatesToOps gs = some os) :
    gatesToOps (keepIdx p gs s) = some (keepIdx p os s) := by
  induction gs generalizing os s with
  | nil => simp [gatesToOps] at h; subst h; rfl
  | cons g gs ih =>
    simp only [gatesToOps, bind, Option.bind] at h
    cases ho : g.toOp with
    | none => simp [ho] at h
    | some o =>
      cases hos : gatesToOps gs with
      | none => simp [ho, hos] at h
      | some os1 =>
        simp [ho, hos] at h; subst h
        simp only [keepIdx]
        split
        · simp [gatesToOps, ho, ih os1 (s + 1) hos]
        · exact ih os1 (s + 1) hos


theorem rrCheck_true (eqv : Gate → Gate → Bool) (gates : List Gate) (stk : List (Nat × List Nat)) (gate : Gate)
    (qs : List Nat) (h : rrCheck eqv gates stk gate qs = .ok true) :
    ∀ q ∈ qs, ∃ j gp gpi, rrTop stk q = some j ∧ gates[j]? = some gp ∧ gp.inverse = some gpi ∧ eqv gpi gate = true := by
  induction qs with
  | nil => simp
  | cons q rest ih =>
    simp only [rrCheck] at h
    cases ht : rrTop stk q with
    | none => simp [ht] at h
    | some j =>
      simp only [ht] at h
      cases hg : gates[j]? with
      | none => simp [hg] at h
      | some gp =>
        simp only [hg] at h
        cases hi : gp.inverse with
        | none => simp [hi] at h
        | some gpi =>
          simp only [hi] at h
          split at h
          · rename_i he
            intro q' hq'
            rcases List.mem_cons.mp hq' with e | e
            · subst e; exact ⟨j, gp, gpi, ht, hg, hi, he⟩
            · exact ih h q' e
          · cases h

/-- the bookkeeping invariant after `n` gates: nothing at or after `n` is marked; the stack of a qubit lists, most
    recent first, exactly the unmarked positions below `n` whose gate touches the qubit -/
structure RRInv (gs : List Gate) (n : Nat) (st : RRSt) : Prop where
  rem_lt : ∀ i ∈ st.2, i < n
  sorted : ∀ q, (rrStackOf st.1 q).Pairwise (· > ·)
  mem : ∀ q i, i ∈ rrStackOf st.1 q ↔ (i < n ∧ i ∉ st.2 ∧ ∃ g, gs[i]? = some g ∧ q ∈ g.qubits)

theorem rrInv_init (gs : List Gate) : RRInv gs 0 ([], []) := by
  constructor <;> simp [rrStackOf]

theorem rrInv_push (gs : List Gate) (n : Nat) (st : RRSt) (gate : Gate) (hinv : RRInv gs n st)
    (hg : gs[n]? = some gate) (hnd : gate.qubits.Nodup) :
    RRInv gs (n + 1) (gate.qubits.foldl (rrPush n) st.1, st.2) := by
  constructor
  · intro i hi; have := hinv.rem_lt i hi; omega
  · intro q
    simp only [rrStackOf_foldl_push n _ hnd]
    split
    · refine List.pairwise_cons.mpr ⟨?_, hinv.sorted q⟩
      intro i hi
      have := ((hinv.mem q i).mp hi).1
      omega
    · exact hinv.sorted q
  · intro q i
    simp only [rrStackOf_foldl_push n _ hnd]
    by_cases hq : q ∈ gate.qubits
    · simp only [hq, if_true, List.mem_cons, hinv.mem q i]
      constructor
      · rintro (rfl | ⟨h1, h2, h3⟩)
        · exact ⟨by omega, fun hm => by have := hinv.rem_lt _ hm; omega, gate, hg, hq⟩
        · exact ⟨by omega, h2, h3⟩
      · rintro ⟨h1, h2, h3⟩
        by_cases he : i = n
        · left; exact he
        · right; exact ⟨by omega, h2, h3⟩
    · simp only [hq, if_false, hinv.mem q i]
      constructor
      · rintro ⟨h1, h2, h3⟩; exact ⟨by omega, h2, h3⟩
      · rintro ⟨h1, h2, g, hg', hqg⟩
        have hne : i ≠ n := by
          intro e; subst e; rw [hg] at hg'; injection hg' with hg'; subst hg'; exact hq hqg
        exact ⟨by omega, h2, g, hg', hqg⟩


theorem stack_of_top (stk : List (Nat × List Nat)) (q j : Nat) (h : rrTop stk q = some j) :
    ∃ tl, rrStackOf stk q = j :: tl := by
  unfold rrTop at h
  cases hs : rrStackOf stk q with
  | nil => simp [hs] at h
  | cons a tl => simp [hs] at h; subst h; exact ⟨tl, rfl⟩

theorem rrInv_remove (gs : List Gate) (n : Nat) (st : RRSt) (gate gp : Gate) (j0 : Nat) (hinv : RRInv gs n st)
    (hg : gs[n]? = some gate) (htop : ∀ q ∈ gate.qubits, rrTop st.1 q = some j0)
    (hgp : gs[j0]? = some gp) (hqub : gp.qubits = gate.qubits) (hj0 : j0 < n) :
    RRInv gs (n + 1)
      (st.1.map (fun (q, s) => if gate.qubits.contains q then (q, s.drop 1) else (q, s)), n :: j0 :: st.2) := by
  constructor
  · intro i hi
    simp only [List.mem_cons] at hi
    rcases hi with rfl | rfl | hi
    · omega
    · omega
    · have := hinv.rem_lt i hi; omega
  · intro q
    simp only [rrStackOf_pop]
    split
    · exact (hinv.sorted q).sublist (List.drop_sublist 1 _)
    · exact hinv.sorted q
  · intro q i
    simp only [rrStackOf_pop]
    by_cases hq : q ∈ gate.qubits
    · obtain ⟨tl, htl⟩ := stack_of_top st.1 q j0 (htop q hq)
      have hs := hinv.sorted q
      rw [htl] at hs
      have hnot : j0 ∉ tl := by
        intro hm
        have := (List.pairwise_cons.mp hs).1 j0 hm
        omega
      have hm := hinv.mem q i
      rw [htl] at hm
      simp only [hq, if_true, htl, List.drop_one, List.tail_cons, List.mem_cons, not_or]
      constructor
      · intro hi
        have h1 := hm.mp (List.mem_cons_of_mem _ hi)
        have hne : i ≠ j0 := fun e => hnot (e ▸ hi)
        exact ⟨by omega, ⟨by omega, hne, h1.2.1⟩, h1.2.2⟩
      · rintro ⟨h1, ⟨h2, h3, h4⟩, h5⟩
        have := hm.mpr ⟨by omega, h4, h5⟩
        rcases List.mem_cons.mp this with e | e
        · exact absurd e h3
        · exact e
    · simp only [hq, if_false, hinv.mem q i, List.mem_cons, not_or]
      constructor
      · rintro ⟨h1, h2, g, hg', hqg⟩
        refine ⟨by omega, ⟨by omega, ?_, h2⟩, g, hg', hqg⟩
        intro e; subst e
        rw [hgp] at hg'; injection hg' with hg'; subst hg'
        rw [hqub] at hqg; exact hq hqg
      · rintro ⟨h1, ⟨h2, h3, h4⟩, h5⟩
        exact ⟨by omega, h4, h5⟩


theorem Op.inv_qubits (o : Op) : o.inv.qubits = o.qubits := by
  cases o with
  | one b θ t cs => cases b <;> rfl
  | swap a b cs => rfl
  | xx θ a b => rfl

def keepP (removed : List Nat) : Nat → Bool := fun i => !removed.contains i

/-- semantic invariant after `n` gates: the kept gates implement the processed prefix up to one sign -/
def SemInv (k : Consts R) (ops : List Op) (n : Nat) (removed : List Nat) : Prop :=
  ∃ s : R, s * s = 1 ∧ ∀ (ψ : State R) (x : Bits),
    semOps k (keepIdx (keepP removed) (ops.take n) 0) ψ x = s * semOps k (ops.take n) ψ x

theorem take_succ_of_getElem? {α : Type} (l : List α) (n : Nat) (a : α) (h : l[n]? = some a) :
    l.take (n + 1) = l.take n ++ [a] := by
  rw [List.take_add_one, h]; rfl

theorem length_take_of_getElem? {α : Type} (l : List α) (n : Nat) (a : α) (h : l[n]? = some a) :
    (l.take n).length = n := by
  have : n < l.length := by
    by_contra hc; rw [List.getElem?_eq_none (by omega)] at h; cases h
  simp; omega

theorem semInv_push (k : Consts R) (ops : List Op) (n : Nat) (removed : List Nat) (o : Op)
    (ho : ops[n]? = some o) (hrem : ∀ i ∈ removed, i < n) (h : SemInv k ops n removed) :
    SemInv k ops (n + 1) removed := by
  obtain ⟨s, hs, hsem⟩ := h
  refine ⟨s, hs, ?_⟩
  intro ψ x
  have hlen := length_take_of_getElem? ops n o ho
  have hkeep : keepP removed n = true := by
    simp only [keepP, Bool.not_eq_true', List.contains_eq_mem, decide_eq_false_iff_not]
    intro hm; have := hrem n hm; omega
  rw [take_succ_of_getElem? ops n o ho, keepIdx_append, hlen]
  simp only [keepIdx, Nat.zero_add, hkeep, if_true]
  rw [semOps_append, semOps_append]
  show o.sem k (semOps k _ ψ) x = s * o.sem k (semOps k _ ψ) x
  have : semOps k (keepIdx (keepP removed) (List.take n ops) 0) ψ = fun y => s * semOps k (List.take n ops) ψ y := by
    funext y; exact hsem ψ y
  rw [this, Op.sem_smul]


theorem semInv_remove (k : Consts R) (L : k.Laws) (ops : List Op) (n j0 : Nat) (removed : List Nat) (on oj : Op)
    (hon : ops[n]? = some on) (hoj : ops[j0]? = some oj) (hj0 : j0 < n)
    (hsign : ∃ t : R, t * t = 1 ∧ ∀ (φ : State R) (x : Bits), on.sem k φ x = t * oj.inv.sem k φ x)
    (hwf : oj.qubits.Nodup) (hj0r : j0 ∉ removed)
    (hfree : ∀ i o', j0 < i → i < n → i ∉ removed → ops[i]? = some o' → ∀ q ∈ oj.qubits, q ∉ o'.qubits)
    (h : SemInv k ops n removed) : SemInv k ops (n + 1) (n :: j0 :: removed) := by
  obtain ⟨s, hs, hsem⟩ := h
  obtain ⟨t, ht, hton⟩ := hsign
  refine ⟨t * s, by linear_combination (s * s) * ht + hs, ?_⟩
  intro ψ x
  have hlen := length_take_of_getElem? ops n on hon
  have hnlt : n < ops.length := by
    by_contra hc; rw [List.getElem?_eq_none (by omega)] at hon; cases hon
  set T := ops.take n with hT
  have hTj : T[j0]? = some oj := by rw [hT, List.getElem?_take_of_lt hj0]; exact hoj
  have hsplit := eq_take_cons_drop T j0 oj hTj
  set A := T.take j0 with hA
  set B := T.drop (j0 + 1) with hB
  have hAlen : A.length = j0 := by rw [hA, List.length_take, hlen]; omega
  have hBlen : B.length = n - (j0 + 1) := by rw [hB, List.length_drop, hlen]
  set p := keepP removed with hp
  set p' := keepP (n :: j0 :: removed) with hp'
  have hpj : p j0 = true := by simp [hp, keepP, hj0r]
  have hp'j : p' j0 = false := by simp [hp', keepP]
  have hp'n : p' n = false := by simp [hp', keepP]
  have hagree : ∀ i, i ≠ n → i ≠ j0 → p' i = p i := by
    intro i h1 h2; simp [hp, hp', keepP, h1, h2]
  have hcA : keepIdx p' A 0 = keepIdx p A 0 :=
    keepIdx_congr p' p A 0 (fun i _ h2 => hagree i (by omega) (by omega))
  have hcB : keepIdx p' B (j0 + 1) = keepIdx p B (j0 + 1) :=
    keepIdx_congr p' p B (j0 + 1) (fun i h1 h2 => hagree i (by omega) (by omega))
  generalize hPA : keepIdx p A 0 = PA at hcA
  generalize hPB : keepIdx p B (j0 + 1) = PB at hcB
  have hkp : keepIdx p T 0 = PA ++ oj :: PB := by
    rw [hsplit, keepIdx_append, hAlen]; simp [keepIdx, hpj, hPA, hPB]
  have hkp' : keepIdx p' (ops.take (n + 1)) 0 = PA ++ PB := by
    rw [take_succ_of_getElem? ops n on hon, keepIdx_append, hlen, ← hT, hsplit, keepIdx_append, hAlen]
    simp [keepIdx, hp'j, hp'n, hcA, hcB]
  have hd : ∀ o' ∈ PB, ∀ q ∈ oj.inv.qubits, q ∉ o'.qubits := by
    intro o' ho' q hq
    rw [Op.inv_qubits] at hq
    rw [← hPB] at ho'
    obtain ⟨i, hi1, hi2, hi3⟩ := mem_keepIdx p B (j0 + 1) o' ho'
    have hib : i - (j0 + 1) < B.length := by
      by_contra hc; rw [List.getElem?_eq_none (by omega)] at hi2; cases hi2
    have hin : i < n := by omega
    have hoi : ops[i]? = some o' := by
      rw [hB, List.getElem?_drop, hT] at hi2
      have e : j0 + 1 + (i - (j0 + 1)) = i := by omega
      rw [e, List.getElem?_take_of_lt hin] at hi2
      exact hi2
    have hir : i ∉ removed := by
      simpa [hp, keepP] using hi3
    exact hfree i o' (by omega) hin hir hoi q hq
  rw [hkp', take_succ_of_getElem? ops n on hon, ← hT]
  rw [semOps_append k T [on]]
  show _ = t * s * on.sem k (semOps k T ψ) x
  have hTsem : semOps k T ψ = fun y => s * semOps k (PA ++ oj :: PB) ψ y := by
    funext y
    have := hsem ψ y
    rw [hkp] at this
    rw [this]; linear_combination (-(semOps k T ψ y)) * hs
  rw [hton, hTsem, Op.sem_smul]
  have hcancel := cancel_at_distance_sound k L oj hwf PA PB hd ψ
  have e1 : PA ++ [oj] ++ PB ++ [oj.inv] = (PA ++ oj :: PB) ++ [oj.inv] := by simp
  rw [e1, semOps_append] at hcancel
  have e2 : semOps k [oj.inv] (semOps k (PA ++ oj :: PB) ψ) = oj.inv.sem k (semOps k (PA ++ oj :: PB) ψ) := rfl
  rw [e2] at hcancel
  rw [hcancel]
  linear_combination (-(semOps k (PA ++ PB) ψ x)) * ((s * s) * ht + hs)


theorem ops_at (gs : List Gate) (ops : List Op) (h : gatesToOps gs = some ops) (i : Nat) (g : Gate) (hg : gs[i]? = some g) :
    ∃ o, ops[i]? = some o ∧ g.toOp = some o := by
  have hmap := (gatesToOps_iff_map gs ops).mp h
  have h1 : (gs.map Gate.toOp)[i]? = some g.toOp := by simp [hg]
  rw [hmap] at h1
  simp only [List.getElem?_map] at h1
  cases hoi : ops[i]? with
  | none => simp [hoi] at h1
  | some o => simp [hoi] at h1; exact ⟨o, rfl, h1.symm⟩

theorem head_ge_of_sorted (l : List Nat) (j : Nat) (tl : List Nat) (hl : l = j :: tl) (hs : l.Pairwise (· > ·))
    (i : Nat) (hi : i ∈ l) : i ≤ j := by
  subst hl
  rcases List.mem_cons.mp hi with e | e
  · omega
  · have := (List.pairwise_cons.mp hs).1 i e; omega

theorem op_qubits_ne_nil (o : Op) : o.qubits ≠ [] := by cases o <;> simp [Op.qubits]

/-- what the code's gate equality must guarantee for the cancellation to be sound: equal gates act on the same qubits
    and implement the same operation up to a sign -/
def EqvSound (k : Consts R) (eqv : Gate → Gate → Bool) : Prop :=
  ∀ a b oa ob, eqv a b = true → a.toOp = some oa → b.toOp = some ob →
    a.qubits = b.qubits ∧ ∃ t : R, t * t = 1 ∧ ∀ (φ : State R) (x : Bits), ob.sem k φ x = t * oa.sem k φ x

theorem rrStep_sound (k : Consts R) (L : k.Laws) (eqv : Gate → Gate → Bool) (heqv : EqvSound k eqv)
    (gs : List Gate) (ops : List Op) (hops : gatesToOps gs = some ops) (hnd : ∀ g ∈ gs, g.qubits.Nodup)
    (w n : Nat) (st st' : RRSt) (gate : Gate) (hg : gs[n]? = some gate)
    (hinv : RRInv gs n st) (hsem : SemInv k ops n st.2)
    (h : rrStep eqv gs w st (n, gate) = .ok st') :
    RRInv gs (n + 1) st' ∧ SemInv k ops (n + 1) st'.2 := by
  obtain ⟨stk, removed⟩ := st
  obtain ⟨on, hon, hton⟩ := ops_at gs ops hops n gate hg
  have hgnd : gate.qubits.Nodup := hnd gate (List.mem_of_getElem? hg)
  unfold rrStep at h
  simp only at h
  split at h
  · cases h
  cases hc : rrCheck eqv gs stk gate gate.qubits with
  | error e => simp [hc] at h
  | ok b =>
    cases b with
    | false =>
      simp only [hc] at h
      injection h with h; subst h
      exact ⟨rrInv_push gs n (stk, removed) gate hinv hg hgnd, semInv_push k ops n removed on hon hinv.rem_lt hsem⟩
    | true =>
      simp only [hc] at h
      injection h with h; subst h
      have hall := rrCheck_true eqv gs stk gate gate.qubits hc
      -- the head qubit
      have hqne : gate.qubits ≠ [] := by rw [← toOp_qubits gate on hton]; exact op_qubits_ne_nil on
      obtain ⟨q0, qs', hq0⟩ : ∃ q0 qs', gate.qubits = q0 :: qs' := by
        cases hq : gate.qubits with
        | nil => exact absurd hq hqne
        | cons a as => exact ⟨a, as, rfl⟩
      obtain ⟨j0, gp, gpi, htop0, hgp, hgpi, he0⟩ := hall q0 (by rw [hq0]; simp)
      have hfirst : rrFirst stk gate.qubits = j0 := by
        rw [hq0]; simp [rrFirst, htop0]
      rw [hfirst]
      -- operations of gp and its inverse
      obtain ⟨oj, hoj, htoj⟩ := ops_at gs ops hops j0 gp hgp
      have htoi := gate_inverse_toOp gp gpi oj htoj hgpi
      obtain ⟨hqeq, t, ht, hsign⟩ := heqv gpi gate oj.inv on he0 htoi hton
      have hgpq : gp.qubits = gate.qubits := by
        rw [← hqeq, ← toOp_qubits gp oj htoj, ← toOp_qubits gpi oj.inv htoi, Op.inv_qubits]
      -- every qubit of the gate has the same top
      obtain ⟨tl0, htl0⟩ := stack_of_top stk q0 j0 htop0
      have hj0mem : j0 ∈ rrStackOf stk q0 := by rw [htl0]; simp
      have hj0facts := (hinv.mem q0 j0).mp hj0mem
      have htopall : ∀ q ∈ gate.qubits, rrTop stk q = some j0 := by
        intro q hq
        obtain ⟨j, gpq, gpiq, htopq, hgpq', hgpiq, heq⟩ := hall q hq
        obtain ⟨ojq, hojq, htojq⟩ := ops_at gs ops hops j gpq hgpq'
        have htoiq := gate_inverse_toOp gpq gpiq ojq htojq hgpiq
        obtain ⟨hqeqq, _⟩ := heqv gpiq gate ojq.inv on heq htoiq hton
        have hgpqq : gpq.qubits = gate.qubits := by
          rw [← hqeqq, ← toOp_qubits gpq ojq htojq, ← toOp_qubits gpiq ojq.inv htoiq, Op.inv_qubits]
        obtain ⟨tlq, htlq⟩ := stack_of_top stk q j htopq
        have hjmem : j ∈ rrStackOf stk q := by rw [htlq]; simp
        have hjfacts := (hinv.mem q j).mp hjmem
        -- j touches q0, so it is in the stack of q0, below its head j0; and symmetrically
        have h1 : j ∈ rrStackOf stk q0 :=
          (hinv.mem q0 j).mpr ⟨hjfacts.1, hjfacts.2.1, gpq, hgpq', by rw [hgpqq, hq0]; simp⟩
        have h2 : j0 ∈ rrStackOf stk q :=
          (hinv.mem q j0).mpr ⟨hj0facts.1, hj0facts.2.1, gp, hgp, by rw [hgpq]; exact hq⟩
        have h3 := head_ge_of_sorted _ j0 tl0 htl0 (hinv.sorted q0) j h1
        have h4 := head_ge_of_sorted _ j tlq htlq (hinv.sorted q) j0 h2
        have : j = j0 := by omega
        rw [htopq, this]
      refine ⟨rrInv_remove gs n (stk, removed) gate gp j0 hinv hg htopall hgp hgpq hj0facts.1, ?_⟩
      refine semInv_remove k L ops n j0 removed on oj hon hoj hj0facts.1 ⟨t, ht, hsign⟩ ?_ hj0facts.2.1 ?_ hsem
      · rw [toOp_qubits gp oj htoj]; exact hnd gp (List.mem_of_getElem? hgp)
      · intro i o' hji hin hir hoi q hq hq'
        rw [toOp_qubits gp oj htoj, hgpq] at hq
        -- the gate at i
        have hil : i < gs.length := by
          have hmap := (gatesToOps_iff_map gs ops).mp hops
          have : ops.length = gs.length := by have := congrArg List.length hmap; simpa using this.symm
          have : i < ops.length := by
            by_contra hcn; rw [List.getElem?_eq_none (by omega)] at hoi; cases hoi
          omega
        have hgi : gs[i]? = some gs[i] := List.getElem?_eq_getElem hil
        obtain ⟨oi, hoi', htoi'⟩ := ops_at gs ops hops i _ hgi
        rw [hoi] at hoi'; injection hoi' with hoi'; subst hoi'
        rw [toOp_qubits _ _ htoi'] at hq'
        have hmem : i ∈ rrStackOf stk q := (hinv.mem q i).mpr ⟨hin, hir, _, hgi, hq'⟩
        obtain ⟨tlq, htlq⟩ := stack_of_top stk q j0 (htopall q hq)
        have := head_ge_of_sorted _ j0 tlq htlq (hinv.sorted q) i hmem
        omega


theorem rrFold_sound (k : Consts R) (L : k.Laws) (eqv : Gate → Gate → Bool) (heqv : EqvSound k eqv)
    (gs : List Gate) (ops : List Op) (hops : gatesToOps gs = some ops) (hnd : ∀ g ∈ gs, g.qubits.Nodup) (w : Nat) :
    ∀ (suf : List Gate) (n : Nat) (st st' : RRSt), (∀ i g, suf[i]? = some g → gs[n + i]? = some g) →
      RRInv gs n st → SemInv k ops n st.2 →
      ((suf.zipIdx n).map (fun (g, i) => (i, g))).foldlM (rrStep eqv gs w) st = .ok st' →
      RRInv gs (n + suf.length) st' ∧ SemInv k ops (n + suf.length) st'.2 := by
  intro suf
  induction suf with
  | nil =>
    intro n st st' _ hinv hsem h
    simp only [List.zipIdx_nil, List.map_nil, List.foldlM_nil, pure, Except.pure] at h
    injection h with h; subst h
    exact ⟨hinv, hsem⟩
  | cons g rest ih =>
    intro n st st' hsuf hinv hsem h
    simp only [List.zipIdx_cons, List.map_cons, List.foldlM_cons, bind, Except.bind] at h
    cases hs : rrStep eqv gs w st (n, g) with
    | error e => simp [hs] at h
    | ok st1 =>
      simp only [hs] at h
      have hg : gs[n]? = some g := by have := hsuf 0 g (by simp); simpa using this
      obtain ⟨hinv1, hsem1⟩ := rrStep_sound k L eqv heqv gs ops hops hnd w n st st1 g hg hinv hsem hs
      have := ih (n + 1) st1 st' (fun i g' hi => by
        have := hsuf (i + 1) g' (by simpa using hi)
        have e : n + (i + 1) = n + 1 + i := by omega
        rw [e] at this; exact this) hinv1 hsem1 h
      have e : n + (g :: rest).length = n + 1 + rest.length := by simp; omega
      rw [e]; exact this

/-- **`remove_redundant_gates` as a whole pass**: for every circuit over the supported gate set, however the gates that
    cancel are interleaved with gates on other qubits and however many cancellations cascade, the circuit the pass
    returns implements the same operation up to one global sign, on every state of every register. The code's gate
    equality enters through `EqvSound` only (equal gates: same qubits, same operation up to sign - exact equality
    satisfies it with sign 1; the float tolerance of the real `==` is an input of the model). -/
theorem removeRedundant_sound (k : Consts R) (L : k.Laws) (eqv : Gate → Gate → Bool) (heqv : EqvSound k eqv)
    (c r : Circuit) (rq : Bool) (ops : List Op)
    (h1 : gatesToOps c.gates = some ops) (hnd : ∀ g ∈ c.gates, g.qubits.Nodup)
    (h2 : removeRedundantWith eqv c rq = .ok r) :
    ∃ ops' s, gatesToOps r.gates = some ops' ∧ s * s = 1 ∧
      ∀ (ψ : State R) (x : Bits), semOps k ops' ψ x = s * semOps k ops ψ x := by
  unfold removeRedundantWith at h2
  simp only [bind, Except.bind] at h2
  cases hf : (c.gates.zipIdx.map (fun (g, i) => (i, g))).foldlM (rrStep eqv c.gates c.width) ([], []) with
  | error e => simp [hf] at h2
  | ok st =>
    obtain ⟨stk, removed⟩ := st
    simp only [hf] at h2
    obtain ⟨hinv, s, hs, hsem⟩ := rrFold_sound k L eqv heqv c.gates ops h1 hnd c.width c.gates 0 ([], []) (stk, removed)
      (fun i g hi => by simpa using hi) (rrInv_init c.gates)
      ⟨1, by ring, fun ψ x => by simp [keepIdx]⟩ hf
    have hlen : ops.length = c.gates.length := by
      have := congrArg List.length ((gatesToOps_iff_map c.gates ops).mp h1); simpa using this.symm
    have htake : ops.take (0 + c.gates.length) = ops := by rw [Nat.zero_add, ← hlen]; exact List.take_length
    rw [htake] at hsem
    have hkept : (c.gates.zipIdx.filter (fun (_, i) => !removed.contains i)).map (·.1) = keepIdx (keepP removed) c.gates 0 :=
      zipIdx_filter_eq_keepIdx (keepP removed) c.gates 0
    have hg : r.gates = keepIdx (keepP removed) c.gates 0 := by
      rw [← hkept]
      split at h2 <;> exact Circuit.gates_ofGates _ _ r h2
    exact ⟨keepIdx (keepP removed) ops 0, s, by rw [hg]; exact gatesToOps_keepIdx _ _ _ 0 h1, hs, hsem⟩

/-- exact gate equality satisfies `EqvSound` (sign 1) -/
theorem eqvSound_exact (k : Consts R) : EqvSound k (fun a b => a == b) := by
  intro a b oa ob h ha hb
  have : a = b := by simpa using h
  subst this
  rw [ha] at hb; injection hb with hb; subst hb
  exact ⟨rfl, 1, by ring, fun φ x => by ring⟩

/-- the whole pass on the exact amplitudes of the model driver, with exact gate equality: no sign at all is needed
    beyond the one the theorem allows -/
theorem removeRedundant_sound_exec (c r : Circuit) (rq : Bool) (ops : List Op)
    (h1 : gatesToOps c.gates = some ops) (hnd : ∀ g ∈ c.gates, g.qubits.Nodup)
    (h2 : removeRedundantWith (fun a b => a == b) c rq = .ok r) :
    ∃ ops' s, gatesToOps r.gates = some ops' ∧ s * s = 1 ∧
      ∀ (ψ : State Cyc) (x : Bits), semOps cycConsts ops' ψ x = s * semOps cycConsts ops ψ x :=
  removeRedundant_sound cycConsts cycConsts_laws _ (eqvSound_exact cycConsts) c r rq ops h1 hnd h2

/-- non-vacuity: H(0) X(1) H(0) X(1): both pairs cancel although they are interleaved (4 gates → 0) -/
example : ∃ c r, Circuit.ofGates [⟨"H", [0], none, .none, false⟩, ⟨"X", [1], none, .none, false⟩,
      ⟨"H", [0], none, .none, false⟩, ⟨"X", [1], none, .none, false⟩] none = .ok c ∧
    Circuit.removeRedundantWith (fun a b => a == b) c false = .ok r ∧ r.gates.length = 0 := by
  refine ⟨_, _, rfl, rfl, by decide⟩

/-! ### `simplify`: the three passes iterated -/

/-- every gate acts on pairwise distinct qubits (true of every gate the constructor accepts) -/
def GatesNodup (gs : List Gate) : Prop := ∀ g ∈ gs, g.qubits.Nodup

theorem mergeStep_nodup (eqv : Gate → Gate → Bool) (w : Nat) (st st' : MergeSt) (gate : Gate)
    (hst : GatesNodup st.out.toList) (hg : gate.qubits.Nodup) (h : mergeStep eqv w st gate = .ok st') :
    GatesNodup st'.out.toList := by
  have hrec : GatesNodup (st.record gate).out.toList := by
    intro g hgm
    simp only [MergeSt.record, Array.toList_push, List.mem_append, List.mem_singleton] at hgm
    rcases hgm with e | e
    · exact hst g e
    · subst e; exact hg
  unfold mergeStep at h
  simp only at h
  split at h
  · cases h
  split at h
  · injection h with h; subst h; exact hrec
  split at h
  · rename_i g0 gtl i0 itl hpg hpv
    split at h
    · split at h
      · rename_i hcond
        split at h
        · rename_i p hp
          injection h with h; subst h
          simp only [Bool.and_eq_true, beq_iff_eq] at hcond
          have hg0mem : g0 ∈ st.out.toList := by
            have : g0 ∈ (List.map st.lastOf gate.qubits).filterMap (fun p => p.bind (fun i => st.out[i]?)) := by
              rw [hpg]; simp
            obtain ⟨oi, _, hoi⟩ := List.mem_filterMap.mp this
            cases oi with
            | none => simp at hoi
            | some i =>
              simp only [Option.bind_some] at hoi
              have : st.out.toList[i]? = some g0 := by simpa using hoi
              exact List.mem_of_getElem? this
          intro g hgm
          have hout : (st.out.set! i0 { g0 with isVar := g0.isVar || gate.isVar, param := p }).toList =
              st.out.toList.set i0 { g0 with isVar := g0.isVar || gate.isVar, param := p } := by simp [Array.set!]
          simp only [hout] at hgm
          rcases List.mem_or_eq_of_mem_set hgm with e | e
          · exact hst g e
          · subst e
            have : ({ g0 with isVar := g0.isVar || gate.isVar, param := p } : Gate).qubits = g0.qubits := by simp [Gate.qubits]
            rw [this]; exact hst g0 hg0mem
        · cases h
      · injection h with h; subst h; exact hrec
    · injection h with h; subst h; exact hrec
  · injection h with h; subst h; exact hrec

theorem mergeRotations_nodup (eqv : Gate → Gate → Bool) (c r : Circuit) (hnd : GatesNodup c.gates)
    (h : mergeRotationsWith eqv c = .ok r) : GatesNodup r.gates := by
  unfold mergeRotationsWith at h
  simp only [bind, Except.bind] at h
  cases hf : c.gates.foldlM (mergeStep eqv c.width) { out := #[], last := [] } with
  | error e => simp [hf] at h
  | ok st =>
    simp only [hf] at h
    rw [Circuit.gates_ofGates _ _ r h]
    have key : ∀ (gs : List Gate) (st0 st1 : MergeSt), GatesNodup gs → GatesNodup st0.out.toList →
        gs.foldlM (mergeStep eqv c.width) st0 = .ok st1 → GatesNodup st1.out.toList := by
      intro gs
      induction gs with
      | nil => intro st0 st1 _ h0 hh; simp [pure, Except.pure] at hh; subst hh; exact h0
      | cons g rest ih =>
        intro st0 st1 hgs h0 hh
        simp only [List.foldlM_cons, bind, Except.bind] at hh
        cases hs : mergeStep eqv c.width st0 g with
        | error e => simp [hs] at hh
        | ok st2 =>
          simp only [hs] at hh
          exact ih st2 st1 (fun g' hg' => hgs g' (by simp [hg'])) (mergeStep_nodup eqv c.width st0 st2 g h0 (hgs g (by simp)) hs) hh
    exact key c.gates _ st hnd (by intro g hg; simp at hg) hf

theorem removeSmall_nodup (isSmall : Gate → Bool) (c r : Circuit) (rq : Bool) (hnd : GatesNodup c.gates)
    (h : c.removeSmallWith isSmall rq = .ok r) : GatesNodup r.gates := by
  unfold Circuit.removeSmallWith at h
  have hg : r.gates = c.gates.filter (fun g => !(rotSmallSet.contains g.name && isSmall g)) := by
    split at h <;> exact Circuit.gates_ofGates _ _ r h
  intro g hgm
  rw [hg] at hgm
  exact hnd g (List.mem_filter.mp hgm).1

theorem removeRedundant_nodup (eqv : Gate → Gate → Bool) (c r : Circuit) (rq : Bool) (hnd : GatesNodup c.gates)
    (h : removeRedundantWith eqv c rq = .ok r) : GatesNodup r.gates := by
  unfold removeRedundantWith at h
  simp only [bind, Except.bind] at h
  split at h
  · cases h
  · rename_i st hst
    obtain ⟨stk, removed⟩ := st
    simp only at h
    have hg : r.gates = (c.gates.zipIdx.filter (fun (_, i) => !removed.contains i)).map (·.1) := by
      split at h <;> exact Circuit.gates_ofGates _ _ r h
    intro g hgm
    rw [hg] at hgm
    obtain ⟨p, hp, rfl⟩ := List.mem_map.mp hgm
    have := (List.mem_filter.mp hp).1
    exact hnd p.1 (List.mem_zipIdx' this |>.2 ▸ List.getElem_mem _)

/-- what the threshold test of `remove_small_rotations` must guarantee: a dropped rotation is ± the identity -/
def SmallSound (k : Consts R) (isSmall : Gate → Bool) : Prop :=
  ∀ g o, g.toOp = some o → (rotSmallSet.contains g.name && isSmall g) = true → IsSignId k o

def EqvQubits (eqv : Gate → Gate → Bool) : Prop := ∀ a b, eqv a b = true → a.qubits = b.qubits

/-- the operations of a circuit implement `ops0` up to a sign -/
def SameUpToSign (k : Consts R) (gs : List Gate) (ops0 : List Op) : Prop :=
  ∃ ops s, gatesToOps gs = some ops ∧ s * s = 1 ∧ ∀ (ψ : State R) (x : Bits), semOps k ops ψ x = s * semOps k ops0 ψ x

theorem sameUpToSign_trans (k : Consts R) (gs : List Gate) (ops1 ops0 : List Op)
    (h : ∃ ops s, gatesToOps gs = some ops ∧ s * s = 1 ∧ ∀ (ψ : State R) (x : Bits), semOps k ops ψ x = s * semOps k ops1 ψ x)
    (s1 : R) (hs1 : s1 * s1 = 1) (h1 : ∀ (ψ : State R) (x : Bits), semOps k ops1 ψ x = s1 * semOps k ops0 ψ x) :
    SameUpToSign k gs ops0 := by
  obtain ⟨ops, s, hg, hs, hsem⟩ := h
  refine ⟨ops, s * s1, hg, by linear_combination (s1 * s1) * hs + hs1, ?_⟩
  intro ψ x
  rw [hsem, h1]; ring



theorem one_round_sound (k : Consts R) (L : k.Laws) (eqv : Gate → Gate → Bool) (isSmall : Gate → Bool)
    (hq : EqvQubits eqv) (heqv : EqvSound k eqv) (hsmall : SmallSound k isSmall) (rq : Bool)
    (c m s r : Circuit) (ops0 : List Op) (hc : SameUpToSign k c.gates ops0) (hnd : GatesNodup c.gates)
    (hm : mergeRotationsWith eqv c = .ok m) (hs : removeSmallWith isSmall m rq = .ok s)
    (hr : removeRedundantWith eqv s rq = .ok r) :
    SameUpToSign k r.gates ops0 ∧ GatesNodup r.gates := by
  obtain ⟨opsc, sc, hgc, hsc, hsemc⟩ := hc
  -- merge: exact
  obtain ⟨opsm, hgm, hsemm⟩ := mergeRotations_sound k L eqv hq c m opsc hgc hnd hm
  have hndm := mergeRotations_nodup eqv c m hnd hm
  -- small rotations: up to sign
  obtain ⟨opss, ss, hgs, hss, hsems⟩ := removeSmall_sound k isSmall m s rq opsm hgm hs (by
    intro i g o hgi hoi hsm
    obtain ⟨o', ho', hto⟩ := ops_at m.gates opsm hgm i g hgi
    rw [hoi] at ho'; injection ho' with ho'; subst ho'
    exact hsmall g o hto hsm)
  have hnds := removeSmall_nodup isSmall m s rq hndm hs
  -- redundant gates: up to sign
  obtain ⟨opsr, sr, hgr, hsr, hsemr⟩ := removeRedundant_sound k L eqv heqv s r rq opss hgs hnds hr
  have hndr := removeRedundant_nodup eqv s r rq hnds hr
  refine ⟨⟨opsr, sr * ss * sc, hgr, by linear_combination (ss * ss * (sc * sc)) * hsr + (sc * sc) * hss + hsc, ?_⟩, hndr⟩
  intro ψ x
  rw [hsemr, congrFun (hsems ψ) x, hsemm, hsemc]; ring

theorem simplify_loop_sound (k : Consts R) (L : k.Laws) (eqv : Gate → Gate → Bool) (isSmall : Gate → Bool)
    (hq : EqvQubits eqv) (heqv : EqvSound k eqv) (hsmall : SmallSound k isSmall) (maxCycles : Nat) (rq : Bool)
    (ops0 : List Op) :
    ∀ (fuel i : Nat) (cOld cNew r : Circuit), SameUpToSign k cOld.gates ops0 → GatesNodup cOld.gates →
      simplifyWith.loop eqv isSmall maxCycles rq fuel i cOld cNew = .ok r → SameUpToSign k r.gates ops0 := by
  intro fuel
  induction fuel with
  | zero => intro i cOld cNew r ho _ h; simp [simplifyWith.loop] at h; subst h; exact ho
  | succ n ih =>
    intro i cOld cNew r ho hnd h
    simp only [simplifyWith.loop] at h
    split at h
    · simp only [bind, Except.bind] at h
      split at h
      · cases h
      · rename_i m hm
        split at h
        · cases h
        · rename_i s hs
          split at h
          · cases h
          · rename_i rr hrr
            obtain ⟨h1, h2⟩ := one_round_sound k L eqv isSmall hq heqv hsmall rq cOld m s rr ops0 ho hnd hm hs hrr
            exact ih (i + 1) rr cOld r h1 h2 h
    · injection h with h; subst h; exact ho

/-- **`simplify`**: merging rotations, dropping small rotations and cancelling inverse pairs, iterated until nothing
    changes or `max_cycles` is reached, returns a circuit that implements the operation of the original up to one
    global sign - for every circuit over the supported set, every number of cycles, every register. The code's float
    decisions enter through `EqvQubits`/`EqvSound` (gate equality) and `SmallSound` (threshold test) only. -/
theorem simplify_sound (k : Consts R) (L : k.Laws) (eqv : Gate → Gate → Bool) (isSmall : Gate → Bool)
    (hq : EqvQubits eqv) (heqv : EqvSound k eqv) (hsmall : SmallSound k isSmall)
    (c r : Circuit) (maxCycles : Nat) (rq : Bool) (ops : List Op)
    (h1 : gatesToOps c.gates = some ops) (hnd : GatesNodup c.gates)
    (h2 : simplifyWith eqv isSmall c maxCycles rq = .ok r) :
    ∃ ops' s, gatesToOps r.gates = some ops' ∧ s * s = 1 ∧
      ∀ (ψ : State R) (x : Bits), semOps k ops' ψ x = s * semOps k ops ψ x := by
  unfold simplifyWith at h2
  simp only [bind, Except.bind] at h2
  split at h2
  · cases h2
  · rename_i c0 hc0
    have hg0 : c0.gates = c.gates := copy_gates c c0 hc0
    exact simplify_loop_sound k L eqv isSmall hq heqv hsmall maxCycles rq ops _ _ c0 _ r
      ⟨ops, 1, by rw [hg0]; exact h1, by ring, fun ψ x => by ring⟩ (by rw [hg0]; exact hnd) h2


/-- the exact threshold test: only a rotation by exactly 0 is dropped -/
def exactSmall (g : Gate) : Bool := g.param == .ang 0

theorem smallSound_exact (k : Consts R) (L : k.Laws) : SmallSound k exactSmall := by
  intro g o hto hsm
  obtain ⟨nm, tgt, ctl, par, v⟩ := g
  simp only [exactSmall, Bool.and_eq_true, beq_iff_eq] at hsm
  obtain ⟨hn, hp⟩ := hsm
  subst hp
  simp only [rotSmallSet, Tables.rotSmallSet, List.contains_cons, List.contains_nil, Bool.or_false, Bool.or_eq_true, beq_iff_eq] at hn
  rcases hn with rfl | rfl | rfl | rfl | rfl | rfl
  all_goals (
    rcases tgt with _ | ⟨t, _ | ⟨t2, rest⟩⟩ <;> cases ctl <;>
      simp [Gate.toOp, Gate.shapeOf, Gate.shapeToOp, Gate.baseOp] at hto
    all_goals (subst hto; exact zero_rotation_signId k L _ (by simp) _ _))

theorem eqvQubits_exact : EqvQubits (fun a b => a == b) := by
  intro a b h
  have e : a = b := by simpa using h
  rw [e]

/-- `simplify` on the exact amplitudes of the model driver, with exact gate equality and the exact threshold test:
    no hypothesis about floats is left -/
theorem simplify_sound_exec (c r : Circuit) (maxCycles : Nat) (rq : Bool) (ops : List Op)
    (h1 : gatesToOps c.gates = some ops) (hnd : GatesNodup c.gates)
    (h2 : simplifyWith (fun a b => a == b) exactSmall c maxCycles rq = .ok r) :
    ∃ ops' s, gatesToOps r.gates = some ops' ∧ s * s = 1 ∧
      ∀ (ψ : State Cyc) (x : Bits), semOps cycConsts ops' ψ x = s * semOps cycConsts ops ψ x :=
  simplify_sound cycConsts cycConsts_laws _ _ eqvQubits_exact
    (eqvSound_exact cycConsts) (smallSound_exact cycConsts cycConsts_laws) c r maxCycles rq ops h1 hnd h2

/-- non-vacuity: RZ(π/4)·H₁·RZ(−π/4) on qubit 0 with H·H on qubit 1 simplifies to the empty circuit in two cycles -/
example : ∃ c r, Circuit.ofGates [⟨"RZ", [0], none, .ang (Ang.piQuarter 1), false⟩, ⟨"H", [1], none, .none, false⟩,
      ⟨"RZ", [0], none, .ang (Ang.piQuarter (-1)), false⟩, ⟨"H", [1], none, .none, false⟩] none = .ok c ∧
    Circuit.simplifyWith (fun a b => a == b) exactSmall c 5 false = .ok r ∧ r.gates.length = 0 := by
  refine ⟨_, _, rfl, rfl, by decide⟩
end RRPass

section Relabel
open Circuit
/-! ## relabelling qubits (`trim_qubits`, `reindex_qubits`) -/

def Op.relabel (σ : Nat → Nat) : Op → Op
  | .one b θ t cs => .one b θ (σ t) (cs.map σ)
  | .swap a b cs => .swap (σ a) (σ b) (cs.map σ)
  | .xx θ a b => .xx θ (σ a) (σ b)

/-- the old-label bit string seen through the relabelling: old qubit `q` is new qubit `σ q` -/
def pull (σ : Nat → Nat) (y : Bits) : Bits := fun q => y (σ q)

theorem pull_set (σ : Nat → Nat) (hσ : Function.Injective σ) (y : Bits) (t : Nat) (b : Bool) :
    pull σ (y.set (σ t) b) = (pull σ y).set t b := by
  funext q
  simp only [pull, Bits.set]
  by_cases h : q = t
  · subst h; simp
  · have : σ q ≠ σ t := fun e => h (hσ e)
    simp [h, this]

theorem pull_flip (σ : Nat → Nat) (hσ : Function.Injective σ) (y : Bits) (t : Nat) :
    pull σ (y.flip (σ t)) = (pull σ y).flip t := by
  funext q
  simp only [pull, Bits.flip]
  by_cases h : q = t
  · subst h; simp
  · have : σ q ≠ σ t := fun e => h (hσ e)
    simp [h, this]

theorem pull_swap (σ : Nat → Nat) (hσ : Function.Injective σ) (y : Bits) (a b : Nat) :
    pull σ (y.swap (σ a) (σ b)) = (pull σ y).swap a b := by
  funext q
  simp only [pull, Bits.swap]
  by_cases h1 : q = a
  · subst h1; simp
  · have n1 : σ q ≠ σ a := fun e => h1 (hσ e)
    by_cases h2 : q = b
    · subst h2; simp [h1, n1]
    · have n2 : σ q ≠ σ b := fun e => h2 (hσ e)
      simp [h1, h2, n1, n2]

/-- **relabelling**: the relabelled operation acts on the relabelled register exactly as the original acts on the
    original one -/
theorem relabel_sem (k : Consts R) (σ : Nat → Nat) (hσ : Function.Injective σ) (o : Op) (ψ : State R) (y : Bits) :
    (Op.relabel σ o).sem k (fun z => ψ (pull σ z)) y = o.sem k ψ (pull σ y) := by
  cases o with
  | one b θ t cs =>
    simp only [Op.relabel, Op.sem, ctl, app1, List.all_map]
    have hall : (cs.all ((fun c => y c) ∘ σ)) = cs.all (fun c => pull σ y c) := rfl
    rw [hall]
    split
    · simp only [pull_set σ hσ]
      have : y (σ t) = pull σ y t := rfl
      rw [this]
    · rfl
  | swap a b cs =>
    simp only [Op.relabel, Op.sem, ctl, appSwap, List.all_map]
    have hall : (cs.all ((fun c => y c) ∘ σ)) = cs.all (fun c => pull σ y c) := rfl
    rw [hall]
    split
    · rw [pull_swap σ hσ]
    · rfl
  | xx θ a b =>
    simp only [Op.relabel, Op.sem, appXX]
    rw [pull_flip σ hσ, pull_flip σ hσ]

theorem relabel_semOps (k : Consts R) (σ : Nat → Nat) (hσ : Function.Injective σ) (ops : List Op) (ψ : State R) (y : Bits) :
    semOps k (ops.map (Op.relabel σ)) (fun z => ψ (pull σ z)) y = semOps k ops ψ (pull σ y) := by
  induction ops generalizing ψ with
  | nil => rfl
  | cons o os ih =>
    have e1 : semOps k ((o :: os).map (Op.relabel σ)) (fun z => ψ (pull σ z)) =
        semOps k (os.map (Op.relabel σ)) ((Op.relabel σ o).sem k (fun z => ψ (pull σ z))) := rfl
    have e2 : (Op.relabel σ o).sem k (fun z => ψ (pull σ z)) = fun z => (o.sem k ψ) (pull σ z) := by
      funext z; exact relabel_sem k σ hσ o ψ z
    rw [e1, e2, ih]; rfl


theorem mapList_eq_map (m : List (Nat × Nat)) (σ : Nat → Nat) (hσm : ∀ q q', mapIdx m q = .ok q' → σ q = q')
    (l l' : List Nat) (h : mapList m l = .ok l') : l' = l.map σ := by
  induction l generalizing l' with
  | nil => simp [mapList] at h; subst h; rfl
  | cons q qs ih =>
    simp only [mapList, bind, Except.bind] at h
    cases h1 : mapIdx m q with
    | error e => simp [h1] at h
    | ok a =>
      cases h2 : mapList m qs with
      | error e => simp [h1, h2] at h
      | ok b =>
        simp [h1, h2, pure, Except.pure] at h
        subst h
        simp [hσm q a h1, ih b h2]

theorem remapGate_toOp (m : List (Nat × Nat)) (σ : Nat → Nat) (hσm : ∀ q q', mapIdx m q = .ok q' → σ q = q')
    (g g' : Gate) (o : Op) (h : remapGate m g = .ok g') (ho : g.toOp = some o) :
    g'.toOp = some (Op.relabel σ o) := by
  obtain ⟨nm, tgt, ctl, par, v⟩ := g
  simp only [remapGate, bind, Except.bind] at h
  cases ht : mapList m tgt with
  | error e => simp [ht] at h
  | ok t' =>
    have htm := mapList_eq_map m σ hσm tgt t' ht
    subst htm
    simp only [ht] at h
    -- the control list
    have hg' : g' = ⟨nm, tgt.map σ, ctl.map (List.map σ), par, v⟩ := by
      cases ctl with
      | none => simp [pure, Except.pure] at h; rw [← h]; rfl
      | some cs =>
        cases cs with
        | nil => simp [pure, Except.pure] at h; rw [← h]; rfl
        | cons c cs' =>
          simp only at h
          cases hc : mapList m (c :: cs') with
          | error e => simp [hc] at h
          | ok c' =>
            have := mapList_eq_map m σ hσm (c :: cs') c' hc
            subst this
            simp [hc, pure, Except.pure] at h
            rw [← h]; rfl
    subst hg'
    simp only [Gate.toOp] at ho ⊢
    cases hs : Gate.shapeOf nm with
    | none => simp [hs] at ho
    | some sh =>
      simp only [hs] at ho ⊢
      cases sh <;>
        (rcases tgt with _ | ⟨t, _ | ⟨t2, _ | ⟨t3, tl⟩⟩⟩) <;> cases ctl <;> cases par <;>
        simp [Gate.shapeToOp, Gate.baseOp] at ho ⊢ <;>
        (try (obtain ⟨hb, rfl⟩ := ho; simp [Op.relabel, hb])) <;>
        (try (subst ho; simp [Op.relabel]))

theorem remapGates_toOps (m : List (Nat × Nat)) (σ : Nat → Nat) (hσm : ∀ q q', mapIdx m q = .ok q' → σ q = q')
    (gs gs' : List Gate) (ops : List Op) (h : remapGates m gs = .ok gs') (ho : gatesToOps gs = some ops) :
    gatesToOps gs' = some (ops.map (Op.relabel σ)) := by
  induction gs generalizing gs' ops with
  | nil => simp [remapGates] at h; subst h; simp [gatesToOps] at ho; subst ho; rfl
  | cons g rest ih =>
    simp only [remapGates, bind, Except.bind] at h
    cases h1 : remapGate m g with
    | error e => simp [h1] at h
    | ok a =>
      cases h2 : remapGates m rest with
      | error e => simp [h1, h2] at h
      | ok b =>
        simp [h1, h2, pure, Except.pure] at h
        subst h
        simp only [gatesToOps, bind, Option.bind] at ho
        cases hto : g.toOp with
        | none => simp [hto] at ho
        | some o =>
          cases hos : gatesToOps rest with
          | none => simp [hto, hos] at ho
          | some os =>
            simp [hto, hos] at ho; subst ho
            simp [gatesToOps, remapGate_toOp m σ hσm g a o h1 hto, ih b os h2 hos]


/-- a relabelling table extended to all qubit labels: labels outside the table are moved above `M` -/
def extend (m : List (Nat × Nat)) (M : Nat) (q : Nat) : Nat :=
  match m.find? (·.1 == q) with
  | some p => p.2
  | none => q + M

theorem extend_agrees (m : List (Nat × Nat)) (M q q' : Nat) (h : mapIdx m q = .ok q') : extend m M q = q' := by
  simp only [mapIdx] at h
  simp only [extend]
  cases hf : m.find? (·.1 == q) with
  | none => simp [hf] at h
  | some p => simp [hf] at h; simpa using h

theorem extend_injective (m : List (Nat × Nat)) (M : Nat) (hval : ∀ p ∈ m, ∀ p' ∈ m, p.2 = p'.2 → p.1 = p'.1)
    (hM : ∀ p ∈ m, p.2 < M) : Function.Injective (extend m M) := by
  intro q1 q2 h
  simp only [extend] at h
  cases h1 : m.find? (·.1 == q1) with
  | none =>
    cases h2 : m.find? (·.1 == q2) with
    | none => simp [h1, h2] at h; exact h
    | some p2 =>
      simp [h1, h2] at h
      have := hM p2 (List.mem_of_find?_eq_some h2)
      omega
  | some p1 =>
    have hp1 := List.mem_of_find?_eq_some h1
    have hk1 : p1.1 = q1 := by have := List.find?_some h1; simpa using this
    cases h2 : m.find? (·.1 == q2) with
    | none =>
      simp [h1, h2] at h
      have := hM p1 hp1
      omega
    | some p2 =>
      have hp2 := List.mem_of_find?_eq_some h2
      have hk2 : p2.1 = q2 := by have := List.find?_some h2; simpa using this
      simp [h1, h2] at h
      rw [← hk1, ← hk2]; exact hval p1 hp1 p2 hp2 h

/-- **`trim_qubits`**: the trimmed circuit acts on its compact register exactly as the original acts on the qubits in
    use: there is an injective relabelling `σ` of qubit labels, sending the i-th qubit in use to `i`, such that the
    operation of the trimmed circuit on relabelled states is the relabelled operation of the original -/
theorem trim_sem (k : Consts R) (c r : Circuit) (ops : List Op) (h1 : gatesToOps c.gates = some ops)
    (h2 : c.trimQubits = .ok r) :
    ∃ σ : Nat → Nat, Function.Injective σ ∧ ∃ ops', gatesToOps r.gates = some ops' ∧
      ∀ (ψ : State R) (y : Bits), semOps k ops' (fun z => ψ (pull σ z)) y = semOps k ops ψ (pull σ y) := by
  unfold Circuit.trimQubits at h2
  simp only [bind, Except.bind] at h2
  split at h2
  · cases h2
  · rename_i gs' hgs
    simp only [pure, Except.pure] at h2
    injection h2 with h2; subst h2
    generalize hin : (c.entangledIndices.foldl (fun acc s => s.foldl setInsert acc) []) = inUse at hgs
    let σ := extend inUse.zipIdx inUse.length
    have hinj : Function.Injective σ := by
      apply extend_injective
      · intro p hp p' hp' he
        obtain ⟨a, i⟩ := p; obtain ⟨a', i'⟩ := p'
        simp only at he; subst he
        have e1 := List.mem_zipIdx' hp
        have e2 := List.mem_zipIdx' hp'
        rw [e1.2, e2.2]
      · intro p hp
        obtain ⟨a, i⟩ := p
        have := List.mem_zipIdx' hp
        exact this.1
    refine ⟨σ, hinj, ops.map (Op.relabel σ), ?_, fun ψ y => relabel_semOps k σ hinj ops ψ y⟩
    exact remapGates_toOps _ σ (fun q q' h => extend_agrees _ _ q q' h) c.gates gs' ops hgs h1

theorem exists_bound (l : List Nat) : ∃ M, ∀ b ∈ l, b < M := by
  induction l with
  | nil => exact ⟨0, by simp⟩
  | cons a as ih =>
    obtain ⟨M, hM⟩ := ih
    refine ⟨max M (a + 1), ?_⟩
    intro b hb
    rcases List.mem_cons.mp hb with e | e
    · subst e; omega
    · have := hM b e; omega

theorem zip_snd_inj {α : Type} (l : List α) (r : List Nat) (hr : r.Nodup) :
    ∀ p ∈ l.zip r, ∀ p' ∈ l.zip r, p.2 = p'.2 → p.1 = p'.1 := by
  induction l generalizing r with
  | nil => simp
  | cons a as ih =>
    cases r with
    | nil => simp
    | cons b bs =>
      have hnd := List.nodup_cons.mp hr
      intro p hp p' hp' he
      simp only [List.zip_cons_cons, List.mem_cons] at hp hp'
      rcases hp with rfl | hp <;> rcases hp' with rfl | hp'
      · rfl
      · simp only at he; have := (List.of_mem_zip hp').2; rw [← he] at this; exact absurd this hnd.1
      · simp only at he; have := (List.of_mem_zip hp).2; rw [he] at this; exact absurd this hnd.1
      · exact ih bs hnd.2 p hp p' hp' he

/-- **`reindex_qubits`**: with pairwise distinct new indices, the re-indexed circuit acts on the relabelled register
    as the original acts on the original one -/
theorem reindex_sem (k : Consts R) (c r : Circuit) (newIdx : List Nat) (hnd : newIdx.Nodup) (ops : List Op)
    (h1 : gatesToOps c.gates = some ops) (h2 : c.reindexQubits newIdx = .ok r) :
    ∃ σ : Nat → Nat, Function.Injective σ ∧ ∃ ops', gatesToOps r.gates = some ops' ∧
      ∀ (ψ : State R) (y : Bits), semOps k ops' (fun z => ψ (pull σ z)) y = semOps k ops ψ (pull σ y) := by
  unfold Circuit.reindexQubits at h2
  split at h2
  · cases h2
  · simp only [bind, Except.bind] at h2
    split at h2
    · cases h2
    · rename_i gs' hgs
      simp only [pure, Except.pure] at h2
      injection h2 with h2; subst h2
      obtain ⟨M, hM⟩ := exists_bound newIdx
      let σ := extend (c.indices.zip newIdx) M
      have hinj : Function.Injective σ := by
        apply extend_injective
        · exact zip_snd_inj c.indices newIdx hnd
        · intro p hp; exact hM p.2 (List.of_mem_zip hp).2
      refine ⟨σ, hinj, ops.map (Op.relabel σ), ?_, fun ψ y => relabel_semOps k σ hinj ops ψ y⟩
      exact remapGates_toOps _ σ (fun q q' h => extend_agrees _ _ q q' h) c.gates gs' ops hgs h1


/-! ## repetition -/

theorem gatesToOps_replicate (gs : List Gate) (ops : List Op) (h : gatesToOps gs = some ops) (n : Nat) :
    gatesToOps (List.flatten (List.replicate n gs)) = some (List.flatten (List.replicate n ops)) := by
  induction n with
  | zero => rfl
  | succ n ih =>
    rw [List.replicate_succ, List.flatten_cons, List.replicate_succ, List.flatten_cons]
    exact gatesToOps_append _ _ _ _ h ih

/-- **`circuit * n`** applies the circuit's operation `n` times -/
theorem mul_sem (k : Consts R) (c r : Circuit) (n : Int) (ops : List Op) (h : c.mul n = .ok r)
    (hc : gatesToOps c.gates = some ops) (ψ : State R) :
    ∃ ops', gatesToOps r.gates = some ops' ∧ semOps k ops' ψ = (fun φ => semOps k ops φ)^[n.toNat] ψ := by
  unfold Circuit.mul at h
  split at h
  · cases h
  · have hg := Circuit.gates_ofGates _ _ r h
    refine ⟨List.flatten (List.replicate n.toNat ops), by rw [hg]; exact gatesToOps_replicate _ _ hc _, ?_⟩
    induction n.toNat generalizing ψ with
    | zero => rfl
    | succ m ih =>
      rw [List.replicate_succ, List.flatten_cons, semOps_append, ih, Function.iterate_succ_apply]

/-! ### stacking -/

theorem relabel_comp (σ τ : Nat → Nat) (o : Op) : Op.relabel τ (Op.relabel σ o) = Op.relabel (τ ∘ σ) o := by
  cases o <;> simp [Op.relabel, List.map_map]

/-- structural form of `trim_sem`: the operations of the trimmed circuit are the relabelled operations -/
theorem trim_ops (c r : Circuit) (ops : List Op) (h1 : gatesToOps c.gates = some ops) (h2 : c.trimQubits = .ok r) :
    ∃ σ : Nat → Nat, Function.Injective σ ∧ gatesToOps r.gates = some (ops.map (Op.relabel σ)) := by
  unfold Circuit.trimQubits at h2
  simp only [bind, Except.bind] at h2
  split at h2
  · cases h2
  · rename_i gs' hgs
    simp only [pure, Except.pure] at h2
    injection h2 with h2; subst h2
    generalize hin : (c.entangledIndices.foldl (fun acc s => s.foldl setInsert acc) []) = inUse at hgs
    refine ⟨extend inUse.zipIdx inUse.length, ?_, ?_⟩
    · apply extend_injective
      · intro p hp p' hp' he
        obtain ⟨a, i⟩ := p; obtain ⟨a', i'⟩ := p'
        simp only at he; subst he
        have e1 := List.mem_zipIdx' hp
        have e2 := List.mem_zipIdx' hp'
        rw [e1.2, e2.2]
      · intro p hp
        obtain ⟨a, i⟩ := p
        exact (List.mem_zipIdx' hp).1
    · exact remapGates_toOps _ _ (fun q q' h => extend_agrees _ _ q q' h) c.gates gs' ops hgs h1

theorem reindex_ops (c r : Circuit) (newIdx : List Nat) (hnd : newIdx.Nodup) (ops : List Op)
    (h1 : gatesToOps c.gates = some ops) (h2 : c.reindexQubits newIdx = .ok r) :
    ∃ σ : Nat → Nat, Function.Injective σ ∧ gatesToOps r.gates = some (ops.map (Op.relabel σ)) := by
  unfold Circuit.reindexQubits at h2
  split at h2
  · cases h2
  · simp only [bind, Except.bind] at h2
    split at h2
    · cases h2
    · rename_i gs' hgs
      simp only [pure, Except.pure] at h2
      injection h2 with h2; subst h2
      obtain ⟨M, hM⟩ := exists_bound newIdx
      refine ⟨extend (c.indices.zip newIdx) M, ?_, ?_⟩
      · apply extend_injective
        · exact zip_snd_inj c.indices newIdx hnd
        · intro p hp; exact hM p.2 (List.of_mem_zip hp).2
      · exact remapGates_toOps _ _ (fun q q' h => extend_agrees _ _ q q' h) c.gates gs' ops hgs h1

/-- a block structure: the operations are the concatenation of relabelled copies of the given operation lists -/
def Blocks (opss : List (List Op)) (ops : List Op) : Prop :=
  ∃ σs : List (Nat → Nat), σs.length = opss.length ∧ (∀ σ ∈ σs, Function.Injective σ) ∧
    ops = ((opss.zip σs).map (fun p => p.1.map (Op.relabel p.2))).flatten

theorem mapM_trim_ops (cs ts : List Circuit) (opss : List (List Op))
    (hops : cs.map (fun c => gatesToOps c.gates) = opss.map some) (h : cs.mapM trimQubits = .ok ts) :
    ∃ σs : List (Nat → Nat), σs.length = opss.length ∧ (∀ σ ∈ σs, Function.Injective σ) ∧
      ts.map (fun c => gatesToOps c.gates) = (opss.zip σs).map (fun p => some (p.1.map (Op.relabel p.2))) := by
  induction cs generalizing ts opss with
  | nil =>
    simp [pure, Except.pure] at h; subst h
    cases opss with
    | nil => exact ⟨[], rfl, by simp, rfl⟩
    | cons a as => simp at hops
  | cons c rest ih =>
    cases opss with
    | nil => simp at hops
    | cons ops opss' =>
      simp only [List.map_cons, List.cons.injEq] at hops
      simp only [List.mapM_cons, bind, Except.bind] at h
      cases h1 : c.trimQubits with
      | error e => simp [h1] at h
      | ok t =>
        simp only [h1] at h
        cases h2 : rest.mapM trimQubits with
        | error e => simp [h2] at h
        | ok ts' =>
          simp only [h2, pure, Except.pure] at h
          injection h with h; subst h
          obtain ⟨σ, hσ, hg⟩ := trim_ops c t ops hops.1 h1
          obtain ⟨σs, hl, hinj, hmap⟩ := ih ts' opss' hops.2 h2
          refine ⟨σ :: σs, by simp [hl], ?_, ?_⟩
          · intro τ hτ
            rcases List.mem_cons.mp hτ with e | e
            · subst e; exact hσ
            · exact hinj τ e
          · simp [hg, hmap]


theorem range_shift_nodup (w k : Nat) : ((List.range w).map (· + k)).Nodup := by
  apply List.Nodup.map
  · intro a b h; simp at h; exact h
  · exact List.nodup_range

theorem stack_fold_ops :
    ∀ (ts : List Circuit) (blocks : List (List Op)) (acc r : Circuit) (accOps : List Op),
      ts.map (fun c => gatesToOps c.gates) = blocks.map some → gatesToOps acc.gates = some accOps →
      ts.foldlM (fun (acc : Circuit) (c : Circuit) => do
        let c' ← c.reindexQubits ((List.range c.width).map (· + acc.width))
        acc.add c') acc = .ok r →
      ∃ σs : List (Nat → Nat), σs.length = blocks.length ∧ (∀ σ ∈ σs, Function.Injective σ) ∧
        gatesToOps r.gates = some (accOps ++ ((blocks.zip σs).map (fun p => p.1.map (Op.relabel p.2))).flatten) := by
  intro ts
  induction ts with
  | nil =>
    intro blocks acc r accOps hb hacc h
    cases blocks with
    | nil =>
      simp only [List.foldlM_nil, pure, Except.pure] at h
      injection h with h; subst h
      exact ⟨[], rfl, by simp, by simpa using hacc⟩
    | cons a as => simp at hb
  | cons c rest ih =>
    intro blocks acc r accOps hb hacc h
    cases blocks with
    | nil => simp at hb
    | cons ops blocks' =>
      simp only [List.map_cons, List.cons.injEq] at hb
      simp only [List.foldlM_cons, bind, Except.bind] at h
      cases h1 : c.reindexQubits ((List.range c.width).map (· + acc.width)) with
      | error e => simp [h1] at h
      | ok c' =>
        simp only [h1] at h
        cases h2 : acc.add c' with
        | error e => simp [h2] at h
        | ok acc1 =>
          simp only [h2] at h
          obtain ⟨σ, hσ, hg⟩ := reindex_ops c c' _ (range_shift_nodup c.width acc.width) ops hb.1 h1
          have hg1 : gatesToOps acc1.gates = some (accOps ++ ops.map (Op.relabel σ)) := by
            have := Circuit.gates_ofGates _ _ acc1 h2
            rw [this]; exact gatesToOps_append _ _ _ _ hacc hg
          obtain ⟨σs, hl, hinj, hr⟩ := ih blocks' acc1 r _ hb.2 hg1 h
          refine ⟨σ :: σs, by simp [hl], ?_, ?_⟩
          · intro τ hτ
            rcases List.mem_cons.mp hτ with e | e
            · subst e; exact hσ
            · exact hinj τ e
          · rw [hr]; simp [List.append_assoc]

/-- **`stack`**: the stacked circuit is, block after block, a relabelled copy of each input circuit: there are
    injective relabellings σ₁ … σₘ of qubit labels such that its operation list is the concatenation of the
    operation lists of the inputs relabelled by σᵢ; by `relabel_semOps` each block acts on its part of the register
    exactly as the corresponding input acts on its own -/
theorem stack_sem (cs : List Circuit) (r : Circuit) (opss : List (List Op))
    (hops : cs.map (fun c => gatesToOps c.gates) = opss.map some) (h : Circuit.stack cs = .ok r) :
    ∃ ops, gatesToOps r.gates = some ops ∧ Blocks opss ops := by
  unfold Circuit.stack at h
  cases cs with
  | nil =>
    simp only at h
    injection h with h; subst h
    cases opss with
    | nil => exact ⟨[], rfl, [], rfl, by simp, rfl⟩
    | cons a as => simp at hops
  | cons c0 crest =>
    simp only [bind, Except.bind] at h
    cases hm : (c0 :: crest).mapM trimQubits with
    | error e => simp [hm] at h
    | ok trimmed =>
      simp only [hm] at h
      obtain ⟨σas, hla, hinja, hmapa⟩ := mapM_trim_ops (c0 :: crest) trimmed opss hops hm
      cases trimmed with
      | nil =>
        -- impossible: mapM keeps the length
        have : (List.map (fun c => gatesToOps c.gates) ([] : List Circuit)).length = ((opss.zip σas).map (fun p => some (p.1.map (Op.relabel p.2)))).length := by rw [hmapa]
        have hl0 : opss.length = (c0 :: crest).length := by have := congrArg List.length hops; simpa using this.symm
        simp [hla] at this
        simp only [List.length_cons] at hl0
        omega
      | cons first rest =>
        simp only at h
        -- split the data of the first block from the rest
        cases opss with
        | nil => simp at hops
        | cons ops0 opss' =>
          cases σas with
          | nil => simp at hla
          | cons σ0 σas' =>
            simp only [List.map_cons, List.zip_cons_cons, List.cons.injEq] at hmapa
            have hfirst : gatesToOps first.gates = some (ops0.map (Op.relabel σ0)) := hmapa.1
            -- the trimmed rest as blocks
            have hrest : rest.map (fun c => gatesToOps c.gates) =
                ((opss'.zip σas').map (fun p => p.1.map (Op.relabel p.2))).map some := by
              rw [hmapa.2]; simp [List.map_map]
            obtain ⟨σbs, hlb, hinjb, hr⟩ := stack_fold_ops rest _ first r _ hrest hfirst h
            simp only [List.length_map, List.length_zip] at hlb
            simp only [List.length_cons] at hla
            have hlen' : σas'.length = opss'.length := by omega
            -- compose the relabellings block by block
            refine ⟨_, hr, σ0 :: (σas'.zip σbs).map (fun p => p.2 ∘ p.1), ?_, ?_, ?_⟩
            · simp [List.length_zip, hlen', hlb]
            · intro τ hτ
              rcases List.mem_cons.mp hτ with e | e
              · rw [e]; exact hinja σ0 (by simp)
              · obtain ⟨p, hp, rfl⟩ := List.mem_map.mp e
                have h1 := hinja p.1 (by simp [(List.of_mem_zip hp).1])
                have h2 := hinjb p.2 (List.of_mem_zip hp).2
                exact h2.comp h1
            · simp only [List.zip_cons_cons, List.map_cons, List.flatten_cons]
              congr 1
              -- block by block: relabel σb (relabel σa ops) = relabel (σb ∘ σa) ops
              clear hr hrest hmapa hfirst h hm hops hinja hinjb hla
              induction opss' generalizing σas' σbs with
              | nil => simp
              | cons o os ih =>
                cases σas' with
                | nil => simp at hlen'
                | cons a as =>
                  cases σbs with
                  | nil => simp at hlb
                  | cons b bs =>
                    simp only [List.zip_cons_cons, List.map_cons, List.flatten_cons, List.map_map]
                    congr 1
                    · apply List.map_congr_left; intro x _; simp [relabel_comp]
                    · exact ih as bs (by simpa using hlb) (by simpa using hlen')

/-! ### splitting into unentangled parts -/

/-- what `split` needs from the qubit groups it computes: every gate lies inside one group, groups are pairwise disjoint -/
structure GroupsOK (ent : List (List Nat)) (gates : List Gate) : Prop where
  cover : ∀ g ∈ gates, ∃ (i : Nat) (s : List Nat), ent[i]? = some s ∧ ∀ q ∈ g.qubits, q ∈ s
  disjoint : ∀ (i j : Nat) (s t : List Nat), i ≠ j → ent[i]? = some s → ent[j]? = some t → ∀ q ∈ s, q ∉ t

theorem firstGroup_some (g : Gate) (k : Nat) (ent : List (List Nat)) (i : Nat) (h : firstGroup g k ent = some i) :
    k ≤ i ∧ ∃ s, ent[i - k]? = some s ∧ ∃ q ∈ g.qubits, q ∈ s := by
  induction ent generalizing k with
  | nil => simp [firstGroup] at h
  | cons s rest ih =>
    simp only [firstGroup] at h
    split at h
    · rename_i hany
      injection h with h; subst h
      obtain ⟨q, hq, hs⟩ := List.any_eq_true.mp hany
      exact ⟨Nat.le_refl _, s, by simp, q, hq, by simpa using hs⟩
    · obtain ⟨h1, s', h2, h3⟩ := ih (k + 1) h
      refine ⟨by omega, s', ?_, h3⟩
      have : i - k = (i - (k + 1)) + 1 := by omega
      rw [this]; simpa using h2

theorem firstGroup_complete (g : Gate) (k : Nat) (ent : List (List Nat)) (j : Nat) (s : List Nat) (hj : ent[j]? = some s)
    (q : Nat) (hq : q ∈ g.qubits) (hs : q ∈ s) : ∃ i, firstGroup g k ent = some i := by
  induction ent generalizing k j with
  | nil => simp at hj
  | cons s0 rest ih =>
    simp only [firstGroup]
    split
    · exact ⟨k, rfl⟩
    · rename_i hany
      cases j with
      | zero =>
        simp at hj; subst hj
        exact absurd (List.any_eq_true.mpr ⟨q, hq, by simpa using hs⟩) hany
      | succ j' => exact ih (k + 1) j' (by simpa using hj)

/-- with groups that cover and are disjoint, the gate goes to *its* group -/
theorem firstGroup_eq (ent : List (List Nat)) (gates : List Gate) (hG : GroupsOK ent gates) (g : Gate) (hg : g ∈ gates)
    (hne : g.qubits ≠ []) : ∃ j s, firstGroup g 0 ent = some j ∧ ent[j]? = some s ∧ ∀ q ∈ g.qubits, q ∈ s := by
  obtain ⟨j, s, hj, hs⟩ := hG.cover g hg
  obtain ⟨q0, hq0⟩ := List.exists_mem_of_ne_nil _ hne
  obtain ⟨i, hi⟩ := firstGroup_complete g 0 ent j s hj q0 hq0 (hs q0 hq0)
  obtain ⟨_, s', hs', q, hq, hqs'⟩ := firstGroup_some g 0 ent i hi
  simp only [Nat.sub_zero] at hs'
  have : i = j := by
    by_contra hne'
    exact hG.disjoint i j s' s hne' hs' hj q hqs' (hs q hq)
  subst this
  exact ⟨i, s, hi, hj, hs⟩


theorem ops_mem_gate (gs : List Gate) (os : List Op) (h : gatesToOps gs = some os) (o' : Op) (ho' : o' ∈ os) :
    ∃ g' ∈ gs, g'.toOp = some o' := by
  have hmap := (gatesToOps_iff_map gs os).mp h
  have : some o' ∈ os.map some := List.mem_map.mpr ⟨o', ho', rfl⟩
  rw [← hmap] at this
  obtain ⟨g', hg', e⟩ := List.mem_map.mp this
  exact ⟨g', hg', e⟩

theorem flatten_set {α : Type} (L : List (List α)) (j : Nat) (X Lj : List α) (hj : L[j]? = some Lj) :
    (L.set j X).flatten = (L.take j).flatten ++ X ++ (L.drop (j + 1)).flatten ∧
    L.flatten = (L.take j).flatten ++ Lj ++ (L.drop (j + 1)).flatten := by
  have hlt : j < L.length := by
    by_contra hc; rw [List.getElem?_eq_none (by omega)] at hj; cases hj
  constructor
  · rw [set_eq_take_cons_drop L j X hlt]; simp
  · conv_lhs => rw [eq_take_cons_drop L j Lj hj]
    simp

structure SplitInv (k : Consts R) (ent : List (List Nat)) (cs : List Circuit) (opsP : List Op) : Prop where
  len : cs.length = ent.length
  free : ∀ c ∈ cs, c.fixed = Option.none
  supp : ∀ (i : Nat) (c : Circuit) (s : List Nat), cs[i]? = some c → ent[i]? = some s → ∀ g ∈ c.gates, ∀ q ∈ g.qubits, q ∈ s
  sem : ∃ opsL : List (List Op), cs.map (fun c => gatesToOps c.gates) = opsL.map some ∧
    ∀ ψ : State R, semOps k opsL.flatten ψ = semOps k opsP ψ

theorem splitInv_init (k : Consts R) (ent : List (List Nat)) :
    SplitInv k ent (ent.map (fun _ => Circuit.empty Option.none)) [] := by
  refine ⟨by simp, ?_, ?_, ?_⟩
  · intro c hc; obtain ⟨_, _, rfl⟩ := List.mem_map.mp hc; rfl
  · intro i c s hc _ g hg
    have : c ∈ ent.map (fun _ => Circuit.empty Option.none) := List.mem_of_getElem? hc
    obtain ⟨_, _, rfl⟩ := List.mem_map.mp this
    simp [Circuit.empty] at hg
  · refine ⟨ent.map (fun _ => []), ?_, ?_⟩
    · simp [List.map_map, Function.comp_def, Circuit.empty, gatesToOps]
    · intro ψ
      have : (ent.map (fun _ => ([] : List Op))).flatten = [] := by
        induction ent with
        | nil => rfl
        | cons a as ih => simpa using ih
      rw [this]


theorem placeGate_sound (k : Consts R) (ent : List (List Nat)) (gates : List Gate) (hG : GroupsOK ent gates)
    (cs cs' : List Circuit) (opsP : List Op) (g : Gate) (o : Op) (hg : g ∈ gates) (ho : g.toOp = some o)
    (hinv : SplitInv k ent cs opsP) (h : placeGate ent cs g = .ok cs') :
    SplitInv k ent cs' (opsP ++ [o]) := by
  have hne : g.qubits ≠ [] := by rw [← toOp_qubits g o ho]; exact op_qubits_ne_nil o
  obtain ⟨j, s, hfg, hsj, hsub⟩ := firstGroup_eq ent gates hG g hg hne
  have hjlt : j < cs.length := by
    rw [hinv.len]
    by_contra hc; rw [List.getElem?_eq_none (by omega)] at hsj; cases hsj
  have hcj : cs[j]? = some cs[j] := List.getElem?_eq_getElem hjlt
  have hfree : cs[j].fixed = Option.none := hinv.free _ (List.getElem_mem hjlt)
  have hadd : cs[j].addGate g = .ok (cs[j].addGateCore g) := by simp [Circuit.addGate, Circuit.addGateBad, hfree]
  simp only [placeGate, hfg, hcj, hadd] at h
  injection h with h; subst h
  obtain ⟨opsL, hmap, hsem⟩ := hinv.sem
  have hlenL : opsL.length = cs.length := by have := congrArg List.length hmap; simpa using this.symm
  have hLj : opsL[j]? = some opsL[j] := List.getElem?_eq_getElem (by omega)
  have hgj : gatesToOps cs[j].gates = some opsL[j] := by
    have h1 : (cs.map (fun c => gatesToOps c.gates))[j]? = some (gatesToOps cs[j].gates) := by simp [hcj]
    rw [hmap] at h1
    simp only [List.getElem?_map, hLj, Option.map_some, Option.some.injEq] at h1
    exact h1.symm
  refine ⟨by simp [hinv.len], ?_, ?_, ?_⟩
  · intro c hc
    rcases List.mem_or_eq_of_mem_set hc with e | e
    · exact hinv.free c e
    · subst e; simp [Circuit.addGateCore, hfree]
  · intro i c s' hc hs' g' hg' q hq
    by_cases hij : i = j
    · subst hij
      rw [List.getElem?_set_self hjlt] at hc
      injection hc with hc; subst hc
      rw [hsj] at hs'; injection hs' with hs'; subst hs'
      simp only [Circuit.addGateCore, List.mem_append, List.mem_singleton] at hg'
      rcases hg' with e | e
      · exact hinv.supp i cs[i] s hcj hsj g' e q hq
      · subst e; exact hsub q hq
    · rw [List.getElem?_set_ne (fun e => hij e.symm)] at hc
      exact hinv.supp i c s' hc hs' g' hg' q hq
  · refine ⟨opsL.set j (opsL[j] ++ [o]), ?_, ?_⟩
    · rw [List.map_set, List.map_set, hmap]
      congr 1
      simp only [Circuit.addGateCore]
      have h1 : gatesToOps [g] = some [o] := by simp [gatesToOps, ho]
      rw [gatesToOps_append _ _ _ _ hgj h1]
    · intro ψ
      obtain ⟨e1, e2⟩ := flatten_set opsL j (opsL[j] ++ [o]) opsL[j] hLj
      rw [e1]
      -- o commutes with everything in the later groups
      have hd : ∀ o' ∈ (opsL.drop (j + 1)).flatten, ∀ q ∈ o.qubits, q ∉ o'.qubits := by
        intro o' ho' q hq hq'
        obtain ⟨L', hL', ho'L⟩ := List.mem_flatten.mp ho'
        obtain ⟨m, hm⟩ := List.mem_iff_getElem?.mp hL'
        rw [List.getElem?_drop] at hm
        have hmlt : j + 1 + m < cs.length := by
          rw [← hlenL]; by_contra hc; rw [List.getElem?_eq_none (by omega)] at hm; cases hm
        have hcm : cs[j + 1 + m]? = some cs[j + 1 + m] := List.getElem?_eq_getElem hmlt
        have hgm : gatesToOps cs[j + 1 + m].gates = some L' := by
          have h1 : (cs.map (fun c => gatesToOps c.gates))[j + 1 + m]? = some (gatesToOps cs[j + 1 + m].gates) := by simp [hcm]
          rw [hmap] at h1
          simp only [List.getElem?_map, hm, Option.map_some, Option.some.injEq] at h1
          exact h1.symm
        obtain ⟨g', hg', hto'⟩ := ops_mem_gate _ _ hgm o' ho'L
        have hem : ∃ t, ent[j + 1 + m]? = some t := by
          have : j + 1 + m < ent.length := by rw [← hinv.len]; exact hmlt
          exact ⟨ent[j + 1 + m], List.getElem?_eq_getElem this⟩
        obtain ⟨t, ht⟩ := hem
        have hq't : q ∈ t := by
          rw [toOp_qubits g' o' hto'] at hq'
          exact hinv.supp (j + 1 + m) _ t hcm ht g' hg' q hq'
        have hqs : q ∈ s := by rw [toOp_qubits g o ho] at hq; exact hsub q hq
        exact hG.disjoint j (j + 1 + m) s t (by omega) hsj ht q hqs hq't
      have hmove := move_across k o (opsL.drop (j + 1)).flatten hd
      have e3 : (opsL.take j).flatten ++ (opsL[j] ++ [o]) ++ (opsL.drop (j + 1)).flatten =
          ((opsL.take j).flatten ++ opsL[j]) ++ ([o] ++ (opsL.drop (j + 1)).flatten) := by simp
      rw [e3, semOps_append, semOps_append]
      have e4 : semOps k [o] (semOps k ((opsL.take j).flatten ++ opsL[j]) ψ) = o.sem k (semOps k ((opsL.take j).flatten ++ opsL[j]) ψ) := rfl
      rw [e4, ← hmove]
      have e5 : semOps k (opsP ++ [o]) ψ = o.sem k (semOps k opsP ψ) := by rw [semOps_append]; rfl
      rw [e5, ← hsem ψ, e2, semOps_append, semOps_append, semOps_append]


theorem split_fold_sound (k : Consts R) (ent : List (List Nat)) (gates : List Gate) (hG : GroupsOK ent gates) :
    ∀ (suf : List Gate) (cs cs' : List Circuit) (opsP opsS : List Op), (∀ g ∈ suf, g ∈ gates) → gatesToOps suf = some opsS →
      SplitInv k ent cs opsP → suf.foldlM (placeGate ent) cs = .ok cs' → SplitInv k ent cs' (opsP ++ opsS) := by
  intro suf
  induction suf with
  | nil =>
    intro cs cs' opsP opsS _ hs hinv h
    simp [gatesToOps] at hs; subst hs
    simp only [List.foldlM_nil, pure, Except.pure] at h
    injection h with h; subst h
    simpa using hinv
  | cons g rest ih =>
    intro cs cs' opsP opsS hmem hs hinv h
    simp only [gatesToOps, bind, Option.bind] at hs
    cases ho : g.toOp with
    | none => simp [ho] at hs
    | some o =>
      cases hos : gatesToOps rest with
      | none => simp [ho, hos] at hs
      | some os =>
        simp [ho, hos] at hs; subst hs
        simp only [List.foldlM_cons, bind, Except.bind] at h
        cases hp : placeGate ent cs g with
        | error e => simp [hp] at h
        | ok cs1 =>
          simp only [hp] at h
          have h1 := placeGate_sound k ent gates hG cs cs1 opsP g o (hmem g (by simp)) ho hinv hp
          have := ih cs1 cs' (opsP ++ [o]) os (fun g' hg' => hmem g' (by simp [hg'])) hos h1 h
          simpa [List.append_assoc] using this

/-- **`split`** (without trimming): if the qubit groups the code computes cover every gate and are pairwise disjoint
    (`GroupsOK`: checked by the model driver on every generated case), then the parts, executed one after the other in
    any state, implement exactly the operation of the original circuit: each gate was moved only across gates of
    other groups, with which it commutes. Every part only touches the qubits of its group. -/
theorem split_sem (k : Consts R) (c : Circuit) (parts : List Circuit) (ops : List Op)
    (hG : GroupsOK c.entangledIndices c.gates) (h1 : gatesToOps c.gates = some ops) (h2 : c.split false = .ok parts) :
    ∃ opsL : List (List Op), parts.map (fun p => gatesToOps p.gates) = opsL.map some ∧
      (∀ ψ : State R, semOps k opsL.flatten ψ = semOps k ops ψ) ∧
      ∀ (i : Nat) (p : Circuit) (s : List Nat), parts[i]? = some p → c.entangledIndices[i]? = some s →
        ∀ g ∈ p.gates, ∀ q ∈ g.qubits, q ∈ s := by
  unfold Circuit.split at h2
  simp only [bind, Except.bind, Bool.false_eq_true, if_false, pure, Except.pure] at h2
  split at h2
  · cases h2
  · rename_i cs hf
    injection h2 with h2; subst h2
    have := split_fold_sound k c.entangledIndices c.gates hG c.gates _ cs [] ops (fun g hg => hg) h1
      (splitInv_init k c.entangledIndices) hf
    obtain ⟨opsL, hm, hs⟩ := this.sem
    exact ⟨opsL, hm, by simpa using hs, this.supp⟩

theorem groupsOkB_sound (ent : List (List Nat)) (gates : List Gate) (h : groupsOkB ent gates = true) : GroupsOK ent gates := by
  simp only [groupsOkB, Bool.and_eq_true, List.all_eq_true, List.any_eq_true, List.mem_range, Bool.or_eq_true, beq_iff_eq,
    Bool.not_eq_true', List.contains_eq_mem, decide_eq_true_eq, decide_eq_false_iff_not] at h
  obtain ⟨hc, hd⟩ := h
  constructor
  · intro g hg
    obtain ⟨s, hs, hq⟩ := hc g hg
    obtain ⟨i, hi⟩ := List.mem_iff_getElem?.mp hs
    exact ⟨i, s, hi, hq⟩
  · intro i j s t hij hs ht q hq
    have hi : i < ent.length := by
      by_contra hcn; rw [List.getElem?_eq_none (by omega)] at hs; cases hs
    have hj : j < ent.length := by
      by_contra hcn; rw [List.getElem?_eq_none (by omega)] at ht; cases ht
    rcases hd i hi j hj with e | e
    · exact absurd e hij
    · have e1 : ent.getD i [] = s := by simp [List.getD, hs]
      have e2 : ent.getD j [] = t := by simp [List.getD, ht]
      rw [e1, e2] at e
      exact e q hq

/-- non-vacuity: two entangled pairs interleaved with each other are split into two parts -/
example : ∃ c parts, Circuit.ofGates [⟨"CNOT", [1], some [0], .none, false⟩, ⟨"CNOT", [3], some [2], .none, false⟩,
      ⟨"H", [0], none, .none, false⟩, ⟨"H", [3], none, .none, false⟩] none = .ok c ∧
    groupsOkB c.entangledIndices c.gates = true ∧ c.split false = .ok parts ∧ parts.map (·.gates.length) = [2, 2] := by
  refine ⟨_, _, rfl, by decide, rfl, by decide⟩

/-! ### `get_entangled_indices` returns disjoint groups that cover every gate -/

def Disj (s t : List Nat) : Prop := ∀ x ∈ s, x ∉ t
theorem Disj.symm {s t : List Nat} (h : Disj s t) : Disj t s := fun x hx hs => h x hs hx

def interB (t q : List Nat) : Bool := t.any (fun x => q.contains x)
theorem interB_iff (t q : List Nat) : interB t q = true ↔ ∃ x ∈ t, x ∈ q := by simp [interB]
theorem interB_false_iff (t q : List Nat) : interB t q = false ↔ Disj t q := by
  rw [← Bool.not_eq_true, interB_iff]; simp [Disj]

theorem mem_setUnion (qs q : List Nat) (x : Nat) : x ∈ qs.foldl setInsert q ↔ x ∈ qs ∨ x ∈ q := mem_foldl_setInsert qs q x

/-- the absorb loop over a list `L` of pairwise disjoint groups -/
theorem absorb_fold (L : List (List Nat)) (hL : L.Pairwise Disj) (q : List Nat) (e : List (List Nat)) :
    (∀ x, x ∈ (L.foldl absorb (q, e)).1 ↔ x ∈ q ∨ ∃ t ∈ L, interB t q = true ∧ x ∈ t) ∧
    (L.foldl absorb (q, e)).2 = e.filter (fun t => !(L.contains t && interB t q)) := by
  induction L generalizing q e with
  | nil => simp
  | cons qs rest ih =>
    have hp := List.pairwise_cons.mp hL
    simp only [List.foldl_cons]
    by_cases hi : interB qs q = true
    · have hab : absorb (q, e) qs = (qs.foldl setInsert q, e.filter (· != qs)) := by
        simp only [absorb]; exact if_pos hi
      rw [hab]
      obtain ⟨h1, h2⟩ := ih hp.2 (qs.foldl setInsert q) (e.filter (· != qs))
      -- groups of `rest` are disjoint from qs: they meet the enlarged q iff they meet q
      have hsame : ∀ t ∈ rest, interB t (qs.foldl setInsert q) = interB t q := by
        intro t ht
        have hd : Disj qs t := hp.1 t ht
        rw [Bool.eq_iff_iff, interB_iff, interB_iff]
        constructor
        · rintro ⟨x, hx, hxq⟩
          rcases (mem_setUnion qs q x).mp hxq with e1 | e1
          · exact absurd hx (hd x e1)
          · exact ⟨x, hx, e1⟩
        · rintro ⟨x, hx, hxq⟩; exact ⟨x, hx, (mem_setUnion qs q x).mpr (Or.inr hxq)⟩
      constructor
      · intro x
        rw [h1 x, mem_setUnion]
        constructor
        · rintro ((hx | hx) | ⟨t, ht, hti, hxt⟩)
          · exact Or.inr ⟨qs, by simp, hi, hx⟩
          · exact Or.inl hx
          · exact Or.inr ⟨t, by simp [ht], by rw [← hsame t ht]; exact hti, hxt⟩
        · rintro (hx | ⟨t, ht, hti, hxt⟩)
          · exact Or.inl (Or.inr hx)
          · rcases List.mem_cons.mp ht with e1 | e1
            · subst e1; exact Or.inl (Or.inl hxt)
            · exact Or.inr ⟨t, e1, by rw [hsame t e1]; exact hti, hxt⟩
      · rw [h2, List.filter_filter]
        apply List.filter_congr
        intro t _
        by_cases hts : t = qs
        · subst hts; simp [hi]
        · have hne : (t != qs) = true := by simpa using hts
          have hne' : (t == qs) = false := by simpa using hts
          by_cases htr : t ∈ rest
          · simp [hne, hne', htr, hsame t htr, List.contains_cons]
          · simp [hne, hne', htr, List.contains_cons, hts]
    · have hi' : interB qs q = false := by simpa using hi
      have hab : absorb (q, e) qs = (q, e) := by
        simp only [absorb]; exact if_neg hi
      rw [hab]
      obtain ⟨h1, h2⟩ := ih hp.2 q e
      constructor
      · intro x
        rw [h1 x]
        constructor
        · rintro (hx | ⟨t, ht, hti, hxt⟩)
          · exact Or.inl hx
          · exact Or.inr ⟨t, by simp [ht], hti, hxt⟩
        · rintro (hx | ⟨t, ht, hti, hxt⟩)
          · exact Or.inl hx
          · rcases List.mem_cons.mp ht with e1 | e1
            · subst e1; rw [hi'] at hti; cases hti
            · exact Or.inr ⟨t, e1, hti, hxt⟩
      · rw [h2]
        apply List.filter_congr
        intro t _
        by_cases hts : t = qs
        · subst hts; simp [hi']
        · have hne' : (t == qs) = false := by simpa using hts
          simp [List.contains_cons, hne', hts]


/-- invariant of `get_entangled_indices` after the gates `done`: groups pairwise disjoint, non-empty, and every gate
    inside one group -/
structure EntInv (ent : List (List Nat)) (done : List Gate) : Prop where
  pair : ent.Pairwise Disj
  nonempty : ∀ s ∈ ent, s ≠ []
  cover : ∀ g ∈ done, ∃ s ∈ ent, ∀ q ∈ g.qubits, q ∈ s

theorem mem_setOfList (l : List Nat) (x : Nat) : x ∈ setOfList l ↔ x ∈ l := by
  simp [setOfList, mem_foldl_setInsert]

theorem pairwise_mem_disj (ent : List (List Nat)) (hp : ent.Pairwise Disj) (s t : List Nat) (hs : s ∈ ent) (ht : t ∈ ent)
    (hne : s ≠ t) : Disj s t := by
  induction ent with
  | nil => simp at hs
  | cons a rest ih =>
    have hpc := List.pairwise_cons.mp hp
    rcases List.mem_cons.mp hs with e1 | e1 <;> rcases List.mem_cons.mp ht with e2 | e2
    · exact absurd (e1.trans e2.symm) hne
    · subst e1; exact hpc.1 t e2
    · subst e2; exact Disj.symm (hpc.1 s e1)
    · exact ih hpc.2 e1 e2

theorem entStep_inv (ent : List (List Nat)) (done : List Gate) (g : Gate) (hg : g.qubits ≠ []) (h : EntInv ent done) :
    EntInv (entStep ent g) (done ++ [g]) := by
  have hrev : ent.reverse.Pairwise Disj := by
    rw [List.pairwise_reverse]
    exact h.pair.imp (fun hab => Disj.symm hab)
  obtain ⟨h1, h2⟩ := absorb_fold ent.reverse hrev (setOfList g.qubits) ent
  have hcont : ∀ t, ent.reverse.contains t = ent.contains t := by intro t; simp
  set r := ent.reverse.foldl absorb (setOfList g.qubits, ent) with hr
  have hr2 : r.2 = ent.filter (fun t => !(interB t (setOfList g.qubits))) := by
    rw [h2]
    apply List.filter_congr
    intro t ht
    simp [ht]
  have hr1 : ∀ x, x ∈ r.1 ↔ x ∈ g.qubits ∨ ∃ t ∈ ent, interB t (setOfList g.qubits) = true ∧ x ∈ t := by
    intro x; rw [h1 x, mem_setOfList]; simp
  show EntInv (r.2 ++ [r.1]) (done ++ [g])
  refine ⟨?_, ?_, ?_⟩
  · rw [List.pairwise_append]
    refine ⟨?_, by simp, ?_⟩
    · rw [hr2]; exact h.pair.filter _
    · intro s hs t ht
      simp only [List.mem_singleton] at ht; subst ht
      rw [hr2, List.mem_filter] at hs
      obtain ⟨hse, hsi⟩ := hs
      have hsd : Disj s (setOfList g.qubits) := (interB_false_iff s _).mp (by simpa using hsi)
      intro x hx hxr
      rcases (hr1 x).mp hxr with e1 | ⟨t, ht, hti, hxt⟩
      · exact hsd x hx ((mem_setOfList _ _).mpr e1)
      · have hne : s ≠ t := by
          intro e2; subst e2
          have : interB s (setOfList g.qubits) = false := by simpa using hsi
          rw [this] at hti; cases hti
        exact pairwise_mem_disj ent h.pair s t hse ht hne x hx hxt
  · intro s hs
    rcases List.mem_append.mp hs with e1 | e1
    · rw [hr2] at e1; exact h.nonempty s (List.mem_filter.mp e1).1
    · simp only [List.mem_singleton] at e1; subst e1
      obtain ⟨q0, hq0⟩ := List.exists_mem_of_ne_nil _ hg
      intro e2
      have : q0 ∈ r.1 := (hr1 q0).mpr (Or.inl hq0)
      rw [e2] at this; simp at this
  · intro g' hg'
    rcases List.mem_append.mp hg' with e1 | e1
    · obtain ⟨s, hs, hsub⟩ := h.cover g' e1
      by_cases hi : interB s (setOfList g.qubits) = true
      · exact ⟨r.1, by simp, fun q hq => (hr1 q).mpr (Or.inr ⟨s, hs, hi, hsub q hq⟩)⟩
      · refine ⟨s, ?_, hsub⟩
        apply List.mem_append_left
        rw [hr2, List.mem_filter]
        exact ⟨hs, by simpa using hi⟩
    · simp only [List.mem_singleton] at e1; subst e1
      exact ⟨r.1, by simp, fun q hq => (hr1 q).mpr (Or.inl hq)⟩

theorem entangled_inv (gs : List Gate) (hq : ∀ g ∈ gs, g.qubits ≠ []) :
    ∀ (ent : List (List Nat)) (done : List Gate), EntInv ent done → EntInv (gs.foldl entStep ent) (done ++ gs) := by
  induction gs with
  | nil => intro ent done h; simpa using h
  | cons g rest ih =>
    intro ent done h
    have := ih (fun g' hg' => hq g' (by simp [hg'])) (entStep ent g) (done ++ [g]) (entStep_inv ent done g (hq g (by simp)) h)
    simpa [List.append_assoc] using this

/-- **`get_entangled_indices` is a partition**: for every circuit whose gates touch at least one qubit each, the groups
    it returns are pairwise disjoint and every gate lies inside one of them - the hypothesis of `split_sem` always holds -/
theorem entangled_groupsOK (c : Circuit) (hq : ∀ g ∈ c.gates, g.qubits ≠ []) : GroupsOK c.entangledIndices c.gates := by
  have h : EntInv c.entangledIndices c.gates := by
    have := entangled_inv c.gates hq [] [] ⟨List.Pairwise.nil, by simp, by simp⟩
    simpa [Circuit.entangledIndices] using this
  constructor
  · intro g hg
    obtain ⟨s, hs, hsub⟩ := h.cover g hg
    obtain ⟨i, hi⟩ := List.mem_iff_getElem?.mp hs
    exact ⟨i, s, hi, hsub⟩
  · intro i j s t hij hs ht
    have hsm := List.mem_of_getElem? hs
    have htm := List.mem_of_getElem? ht
    have hne : s ≠ t := by
      intro e; subst e
      -- equal non-empty lists at two positions would share an element
      have hil : i < c.entangledIndices.length := by
        by_contra hc; rw [List.getElem?_eq_none (by omega)] at hs; cases hs
      have hjl : j < c.entangledIndices.length := by
        by_contra hc; rw [List.getElem?_eq_none (by omega)] at ht; cases ht
      have hpw := List.pairwise_iff_getElem.mp h.pair
      obtain ⟨x, hx⟩ := List.exists_mem_of_ne_nil _ (h.nonempty s hsm)
      have e1 : c.entangledIndices[i] = s := by rw [List.getElem?_eq_getElem hil] at hs; injection hs
      have e2 : c.entangledIndices[j] = s := by rw [List.getElem?_eq_getElem hjl] at ht; injection ht
      rcases Nat.lt_or_gt_of_ne hij with hlt | hgt
      · have := hpw i j hil hjl hlt; rw [e1, e2] at this; exact this x hx hx
      · have := hpw j i hjl hil hgt; rw [e1, e2] at this; exact this x hx hx
    exact pairwise_mem_disj _ h.pair s t hsm htm hne

/-- **`split` without trimming, unconditionally**: the parts executed one after the other implement exactly the
    operation of the circuit, and each part only touches the qubits of its group -/
theorem split_sem_full (k : Consts R) (c : Circuit) (parts : List Circuit) (ops : List Op)
    (h1 : gatesToOps c.gates = some ops) (h2 : c.split false = .ok parts) :
    ∃ opsL : List (List Op), parts.map (fun p => gatesToOps p.gates) = opsL.map some ∧
      (∀ ψ : State R, semOps k opsL.flatten ψ = semOps k ops ψ) ∧
      ∀ (i : Nat) (p : Circuit) (s : List Nat), parts[i]? = some p → c.entangledIndices[i]? = some s →
        ∀ g ∈ p.gates, ∀ q ∈ g.qubits, q ∈ s := by
  have hq : ∀ g ∈ c.gates, g.qubits ≠ [] := by
    intro g hg
    obtain ⟨i, hi⟩ := List.mem_iff_getElem?.mp hg
    obtain ⟨o, _, hto⟩ := ops_at c.gates ops h1 i g hi
    rw [← toOp_qubits g o hto]; exact op_qubits_ne_nil o
  exact split_sem k c parts ops (entangled_groupsOK c hq) h1 h2

/-- **`split` with trimming**: the untrimmed parts multiply to the circuit (`split_sem_full`), and every returned part is
    the corresponding untrimmed part relabelled by an injective map of qubit labels (so it acts on its compact register
    as that part acts on its group of qubits, `relabel_semOps`) -/
theorem split_trim_sem (k : Consts R) (c : Circuit) (parts : List Circuit) (ops : List Op)
    (h1 : gatesToOps c.gates = some ops) (h2 : c.split true = .ok parts) :
    ∃ (opsL : List (List Op)) (σs : List (Nat → Nat)), σs.length = opsL.length ∧ (∀ σ ∈ σs, Function.Injective σ) ∧
      (∀ ψ : State R, semOps k opsL.flatten ψ = semOps k ops ψ) ∧
      parts.map (fun p => gatesToOps p.gates) = (opsL.zip σs).map (fun p => some (p.1.map (Op.relabel p.2))) := by
  -- the untrimmed parts
  have hsplit : ∃ cs, c.split false = .ok cs ∧ cs.mapM trimQubits = .ok parts := by
    unfold Circuit.split at h2 ⊢
    simp only [bind, Except.bind, if_true, Bool.false_eq_true, if_false, pure, Except.pure] at h2 ⊢
    split at h2
    · cases h2
    · rename_i cs hcs
      exact ⟨cs, by simp [hcs], h2⟩
  obtain ⟨cs, hcs, htrim⟩ := hsplit
  obtain ⟨opsL, hm, hsem, _⟩ := split_sem_full k c cs ops h1 hcs
  obtain ⟨σs, hl, hinj, hmap⟩ := mapM_trim_ops cs parts opsL hm htrim
  exact ⟨opsL, σs, hl, hinj, hsem, hmap⟩

/-- non-vacuity of the relabelling theorems: trimming a circuit on qubits 2 and 5 gives a circuit on 0 and 1 -/
example : ∃ c r, Circuit.ofGates [⟨"H", [2], none, .none, false⟩, ⟨"CNOT", [5], some [2], .none, false⟩] none = .ok c ∧
    c.trimQubits = .ok r ∧ r.gates = [⟨"H", [0], none, .none, false⟩, ⟨"CNOT", [1], some [0], .none, false⟩] := by
  refine ⟨_, _, rfl, rfl, by decide⟩

end Relabel

end Tangelo.C09
