import TangeloProofs.Lemmas.OpInverse
import TangeloProofs.CycLaws
import TangeloProofs.Lemmas.Commute
import TangeloProofs.Lemmas.CircuitInv
import TangeloModel.Clifford
/-!
# C09 — circuit transformations preserve the implemented operation

Semantics: `Gate.toOp` gives the documented operation of a gate, `semOps` the action of a gate
list on a state (`Bits → R`, any register size), over any commutative ring with the constants
laws `Consts.Laws` (ℂ with e θ = exp(iθ/2); `Cyc` for the driver).
-/
namespace Tangelo.C09
open Tangelo
variable {R : Type} [CommRing R]

/-! ## inverse = adjoint (stated as two-sided inverse of the unitary) -/

/-- `Gate.inverse` denotes `Op.inv` of the gate's operation, for every gate of the supported set -/
theorem gate_inverse_toOp (g g' : Gate) (o : Op) (h1 : g.toOp = some o) (h2 : g.inverse = some g') :
    g'.toOp = some o.inv := by
  unfold Gate.toOp at h1
  cases hs : Gate.shapeOf g.name with
  | none => simp [hs] at h1
  | some sh =>
    simp only [hs] at h1
    unfold Gate.shapeOf at hs
    split at hs <;> cases hs
    all_goals (rename_i hn; unfold Gate.inverse at h2; simp [hn, Tables.invertibleGates] at h2)
    all_goals (
      obtain ⟨nm, tgt, ctl, par, v⟩ := g
      simp only at hn h1 h2
      subst hn
      cases par <;> (try simp at h2) <;> (try subst h2) <;>
      (rcases tgt with _ | ⟨t, _ | ⟨t2, _ | ⟨t3, tl⟩⟩⟩) <;> cases ctl <;>
      simp [Gate.shapeToOp, Gate.baseOp, Base.parametrized] at h1 <;>
      (try subst h1) <;> simp [Gate.toOp, Gate.shapeOf, Gate.shapeToOp, Gate.baseOp, Base.parametrized, Op.inv])

/-- every supported gate name is declared invertible by the code's table (regenerated from /repo) -/
theorem supported_invertible (nm : String) (sh : Gate.Shape) (h : Gate.shapeOf nm = some sh) :
    Tables.invertibleGates.contains nm = true := by
  unfold Gate.shapeOf at h
  split at h <;> first | decide | cases h

/-- the inverse gate undoes the gate, on every state of every register -/
theorem gate_inverse_sem (k : Consts R) (L : k.Laws) (g g' : Gate) (o : Op)
    (h1 : g.toOp = some o) (h2 : g.inverse = some g') (hwf : o.qubits.Nodup) (ψ : State R) :
    ∃ o', g'.toOp = some o' ∧ o'.sem k (o.sem k ψ) = ψ :=
  ⟨o.inv, gate_inverse_toOp g g' o h1 h2, Op.inv_sem k L o hwf ψ⟩

theorem inverseGates_toOps (gs gs' : List Gate) (ops : List Op)
    (h1 : gatesToOps gs = some ops) (h2 : Circuit.inverseGates gs = .ok gs') :
    gatesToOps gs' = some (ops.map Op.inv) := by
  induction gs generalizing gs' ops with
  | nil =>
    simp [gatesToOps] at h1; simp [Circuit.inverseGates] at h2; subst h1; subst h2; rfl
  | cons g gs ih =>
    simp only [gatesToOps, bind, Option.bind] at h1
    cases ho : g.toOp with
    | none => simp [ho] at h1
    | some o =>
      cases hos : gatesToOps gs with
      | none => simp [ho, hos] at h1
      | some os =>
        simp [ho, hos] at h1; subst h1
        simp only [Circuit.inverseGates] at h2
        cases hg : g.inverse with
        | none => simp [hg] at h2
        | some gi =>
          simp only [hg, bind, Except.bind] at h2
          cases hr : Circuit.inverseGates gs with
          | error e => simp [hr] at h2
          | ok rest =>
            simp [hr, pure, Except.pure] at h2; subst h2
            simp [gatesToOps, gate_inverse_toOp g gi o ho hg, ih rest os hos hr]

theorem gatesToOps_append (xs ys : List Gate) (ox oy : List Op) (hx : gatesToOps xs = some ox) (hy : gatesToOps ys = some oy) :
    gatesToOps (xs ++ ys) = some (ox ++ oy) := by
  induction xs generalizing ox with
  | nil => simp [gatesToOps] at hx; subst hx; simpa using hy
  | cons g gs ih =>
    simp only [gatesToOps, bind, Option.bind] at hx
    cases ho : g.toOp with
    | none => simp [ho] at hx
    | some o =>
      cases hos : gatesToOps gs with
      | none => simp [ho, hos] at hx
      | some os =>
        simp [ho, hos] at hx; subst hx
        simp [gatesToOps, ho, ih os hos]

theorem gatesToOps_reverse (xs : List Gate) (ox : List Op) (hx : gatesToOps xs = some ox) :
    gatesToOps xs.reverse = some ox.reverse := by
  induction xs generalizing ox with
  | nil => simp [gatesToOps] at hx; subst hx; rfl
  | cons g gs ih =>
    simp only [gatesToOps, bind, Option.bind] at hx
    cases ho : g.toOp with
    | none => simp [ho] at hx
    | some o =>
      cases hos : gatesToOps gs with
      | none => simp [ho, hos] at hx
      | some os =>
        simp [ho, hos] at hx; subst hx
        rw [List.reverse_cons, List.reverse_cons]
        exact gatesToOps_append _ _ _ _ (ih os hos) (by simp [gatesToOps, ho])

/-- **`Circuit.inverse` undoes the circuit**: for every circuit over the supported set whose gates
    have distinct qubits, on every state of every register size. -/
theorem circuit_inverse_sem (k : Consts R) (L : k.Laws) (c ci : Circuit) (ops : List Op)
    (h1 : gatesToOps c.gates = some ops) (h2 : c.inverse = .ok ci) (hwf : ∀ o ∈ ops, o.qubits.Nodup) (ψ : State R) :
    ∃ ops', gatesToOps ci.gates = some ops' ∧ semOps k ops' (semOps k ops ψ) = ψ := by
  unfold Circuit.inverse at h2
  simp only [bind, Except.bind] at h2
  cases hr : Circuit.inverseGates c.gates.reverse with
  | error e => simp [hr] at h2
  | ok gs' =>
    simp only [hr] at h2
    have hg := Circuit.gates_ofGates gs' c.fixed ci h2
    have h3 := inverseGates_toOps c.gates.reverse gs' ops.reverse (gatesToOps_reverse _ _ h1) hr
    refine ⟨ops.reverse.map Op.inv, by rw [hg]; exact h3, ?_⟩
    have : ops.reverse.map Op.inv = invOps ops := by simp [invOps, List.map_reverse]
    rw [this]
    exact invOps_sem k L ops hwf ψ

/-! ## merging, cancelling and dropping rotations: the local rewrite rules are sound -/

/-- two successive rotations of the same kind on the same target and controls merge into the
    rotation by the sum of the angles (what `merge_rotations` writes) -/
theorem merge_pair_sound (k : Consts R) (L : k.Laws) (b : Base) (hb : b = .RX ∨ b = .RY ∨ b = .RZ ∨ b = .PHASE)
    (a a' : Ang) (t : Nat) (cs : List Nat) (ht : t ∉ cs) (ψ : State R) :
    (Op.one b a' t cs).sem k ((Op.one b a t cs).sem k ψ) = (Op.one b (a + a') t cs).sem k ψ := by
  simp only [Op.sem]
  rw [ctl_app1_app1 cs _ _ t ht]
  congr 2
  rcases hb with h | h | h | h <;> subst h <;> apply M2.ext' <;>
    simp only [baseMatrix, M2.mul, Consts.sinH, L.cos_add, L.misin_add, L.e_add, Ang.neg_add'] <;>
    first
      | ring1
      | linear_combination (k.misinH a' * k.misinH a) * L.i_sq
      | linear_combination (-(k.misinH a' * k.misinH a)) * L.i_sq

/-- a gate followed by its inverse is the identity: the pair that `remove_redundant_gates` deletes -/
theorem cancel_pair_sound (k : Consts R) (L : k.Laws) (o : Op) (hwf : o.qubits.Nodup) (ψ : State R) :
    o.inv.sem k (o.sem k ψ) = ψ := Op.inv_sem k L o hwf ψ

/-- a rotation by exactly 0 is the identity (the exact core of `remove_small_rotations`) -/
theorem zero_rotation_id (k : Consts R) (L : k.Laws) (b : Base) (hb : b = .RX ∨ b = .RY ∨ b = .RZ)
    (t : Nat) (cs : List Nat) (ψ : State R) : (Op.one b 0 t cs).sem k ψ = ψ := by
  simp only [Op.sem]
  have : baseMatrix k b 0 = M2.one := by
    rcases hb with h | h | h <;> subst h <;> apply M2.ext' <;>
      simp [baseMatrix, M2.one, Consts.sinH, L.cos_zero, L.misin_zero, L.e_zero]
  rw [this, ctl_app1_one]

theorem e_two_pi (k : Consts R) (L : k.Laws) : k.e (Ang.piQuarter 8) = -1 := by
  have h : Ang.piQuarter 8 = Ang.pi + Ang.pi := by
    apply Ang.ext' <;> simp [Ang.add_def, Ang.add, Ang.piQuarter, Ang.pi]
  rw [h, L.e_add, L.e_pi, L.i_sq]

theorem e_neg_two_pi (k : Consts R) (L : k.Laws) : k.e (-Ang.piQuarter 8) = -1 := by
  have h1 := L.e_neg_mul (Ang.piQuarter 8)
  rw [e_two_pi k L] at h1
  linear_combination (-1 : R) * h1

/-- uncontrolled rotations are 2π-periodic up to the global phase −1 (why `==` may reduce modulo 2π) -/
theorem rotation_shift_two_pi (k : Consts R) (L : k.Laws) (b : Base) (hb : b = .RX ∨ b = .RY ∨ b = .RZ)
    (θ : Ang) (t : Nat) (ψ : State R) (x : Bits) :
    (Op.one b (θ + Ang.piQuarter 8) t []).sem k ψ x = -((Op.one b θ t []).sem k ψ x) := by
  have hc : k.cosH (θ + Ang.piQuarter 8) = -k.cosH θ := by
    unfold Consts.cosH; rw [Ang.neg_add', L.e_add, L.e_add, e_two_pi k L, e_neg_two_pi k L]; ring
  have hm : k.misinH (θ + Ang.piQuarter 8) = -k.misinH θ := by
    unfold Consts.misinH; rw [Ang.neg_add', L.e_add, L.e_add, e_two_pi k L, e_neg_two_pi k L]; ring
  simp only [Op.sem, ctl_nil]
  rcases hb with h | h | h <;> subst h <;> by_cases hx : x t <;>
    simp [app1, hx, baseMatrix, Consts.sinH, hc, hm, Ang.neg_add', L.e_add, e_two_pi k L, e_neg_two_pi k L] <;> ring

/-- every rotation (controlled or not) is exactly 4π-periodic: the period `==` must use for CRX/CRY/CRZ -/
theorem rotation_shift_four_pi (k : Consts R) (L : k.Laws) (b : Base) (θ : Ang) (t : Nat) (cs : List Nat) :
    baseMatrix k b (θ + Ang.piQuarter 16) = baseMatrix k b θ := by
  have h16 : Ang.piQuarter 16 = Ang.piQuarter 8 + Ang.piQuarter 8 := by
    apply Ang.ext' <;> simp [Ang.add_def, Ang.add, Ang.piQuarter]
  have e4 : k.e (Ang.piQuarter 16) = 1 := by rw [h16, L.e_add, e_two_pi k L]; ring
  have e4n : k.e (-Ang.piQuarter 16) = 1 := by
    have := L.e_neg_mul (Ang.piQuarter 16); rw [e4] at this; linear_combination this
  have hc : k.cosH (θ + Ang.piQuarter 16) = k.cosH θ := by
    unfold Consts.cosH; rw [Ang.neg_add', L.e_add, L.e_add, e4, e4n]; ring
  have hm : k.misinH (θ + Ang.piQuarter 16) = k.misinH θ := by
    unfold Consts.misinH; rw [Ang.neg_add', L.e_add, L.e_add, e4, e4n]; ring
  cases b <;> simp [baseMatrix, Consts.sinH, hc, hm, Ang.neg_add', L.e_add, e4, e4n]

/-! ## a whole pass: `remove_small_rotations` preserves the operation up to a sign -/

/-- operations are linear: a scalar factor passes through -/
theorem Op.sem_smul (k : Consts R) (o : Op) (c : R) (ψ : State R) :
    o.sem k (fun x => c * ψ x) = fun x => c * o.sem k ψ x := by
  funext x
  cases o with
  | one b θ t cs =>
    simp only [Op.sem, ctl, app1]
    split
    · split <;> ring
    · rfl
  | swap a b cs =>
    simp only [Op.sem, ctl, appSwap]
    split <;> rfl
  | xx θ a b => simp only [Op.sem, appXX]; ring

theorem semOps_smul (k : Consts R) (ops : List Op) (c : R) (ψ : State R) :
    semOps k ops (fun x => c * ψ x) = fun x => c * semOps k ops ψ x := by
  induction ops generalizing ψ with
  | nil => rfl
  | cons o os ih =>
    show semOps k os (o.sem k (fun x => c * ψ x)) = _
    rw [Op.sem_smul, ih]; rfl

/-- the operation is ± the identity (what a rotation by a multiple of 2π is) -/
def IsSignId (k : Consts R) (o : Op) : Prop := ∃ s : R, s * s = 1 ∧ ∀ ψ : State R, o.sem k ψ = fun x => s * ψ x

/-- keep the entries whose mask bit is `true` -/
def maskFilter {α : Type} : List Bool → List α → List α
  | b :: bs, a :: as => if b then a :: maskFilter bs as else maskFilter bs as
  | _, _ => []

theorem filter_eq_mask {α : Type} (p : α → Bool) (l : List α) : l.filter p = maskFilter (l.map p) l := by
  induction l with
  | nil => rfl
  | cons a as ih => simp only [List.filter_cons, List.map_cons, maskFilter, ih]

theorem gatesToOps_mask (gs : List Gate) (ops : List Op) (mask : List Bool) (h : gatesToOps gs = some ops) :
    gatesToOps (maskFilter mask gs) = some (maskFilter mask ops) := by
  induction gs generalizing ops mask with
  | nil => simp [gatesToOps] at h; subst h; cases mask <;> rfl
  | cons g gs ih =>
    simp only [gatesToOps, bind, Option.bind] at h
    cases ho : g.toOp with
    | none => simp [ho] at h
    | some o =>
      cases hos : gatesToOps gs with
      | none => simp [ho, hos] at h
      | some os =>
        simp [ho, hos] at h; subst h
        cases mask with
        | nil => rfl
        | cons b bs =>
          cases b
          · simpa [maskFilter] using ih os bs hos
          · simp only [maskFilter, if_true]
            simp [gatesToOps, ho, ih os bs hos]

/-- deleting operations that are ± the identity changes the circuit's operation by a sign only -/
theorem mask_sound (k : Consts R) (ops : List Op) (mask : List Bool) (hlen : mask.length = ops.length)
    (hid : ∀ i : Nat, mask[i]? = some false → ∀ o, ops[i]? = some o → IsSignId k o) :
    ∃ s : R, s * s = 1 ∧ ∀ ψ : State R, semOps k (maskFilter mask ops) ψ = fun x => s * semOps k ops ψ x := by
  induction ops generalizing mask with
  | nil => exact ⟨1, by ring, fun ψ => by cases mask <;> simp [maskFilter, semOps]⟩
  | cons o os ih =>
    cases mask with
    | nil => simp at hlen
    | cons b bs =>
      have hlen' : bs.length = os.length := by simpa using hlen
      obtain ⟨s1, hs1, h1⟩ := ih bs hlen' (fun i hi o' ho' => hid (i + 1) (by simpa using hi) o' (by simpa using ho'))
      cases b
      · obtain ⟨s0, hs0, h0⟩ := hid 0 (by simp) o (by simp)
        refine ⟨s1 * s0, by linear_combination (s0 * s0) * hs1 + hs0, ?_⟩
        intro ψ
        simp only [maskFilter, Bool.false_eq_true, if_false]
        rw [h1 ψ]
        have e : semOps k (o :: os) ψ = semOps k os (o.sem k ψ) := rfl
        rw [e, h0 ψ, semOps_smul]
        funext x
        linear_combination (-(s1 * semOps k os ψ x)) * hs0
      · refine ⟨s1, hs1, ?_⟩
        intro ψ
        simp only [maskFilter, if_true]
        have e : semOps k (o :: maskFilter bs os) ψ = semOps k (maskFilter bs os) (o.sem k ψ) := rfl
        rw [e, h1]; rfl

/-- **`remove_small_rotations` as a whole pass**: if every rotation the pass drops denotes ± the identity
    (exact multiples of the period — the float threshold of the code is an input of the model), the resulting
    circuit implements the same operation up to one global sign, on every state of every register size -/
theorem removeSmall_sound (k : Consts R) (isSmall : Gate → Bool) (c c' : Circuit) (rq : Bool) (ops : List Op)
    (h1 : gatesToOps c.gates = some ops) (h2 : c.removeSmallWith isSmall rq = .ok c')
    (hid : ∀ (i : Nat) g o, c.gates[i]? = some g → ops[i]? = some o →
      (Circuit.rotSmallSet.contains g.name && isSmall g) = true → IsSignId k o) :
    ∃ ops' s, gatesToOps c'.gates = some ops' ∧ s * s = 1 ∧ ∀ ψ : State R, semOps k ops' ψ = fun x => s * semOps k ops ψ x := by
  have hlenops : ops.length = c.gates.length := by
    clear h2 hid
    generalize c.gates = gs at h1
    induction gs generalizing ops with
    | nil => simp [gatesToOps] at h1; subst h1; rfl
    | cons g gs ih =>
      simp only [gatesToOps, bind, Option.bind] at h1
      cases ho : g.toOp with
      | none => simp [ho] at h1
      | some o =>
        cases hos : gatesToOps gs with
        | none => simp [ho, hos] at h1
        | some os => simp [ho, hos] at h1; subst h1; simp [ih os hos]
  let mask := c.gates.map (fun g => !(Circuit.rotSmallSet.contains g.name && isSmall g))
  have hgates : c'.gates = maskFilter mask c.gates := by
    unfold Circuit.removeSmallWith at h2
    rw [← filter_eq_mask]
    split at h2 <;> exact Circuit.gates_ofGates _ _ c' h2
  obtain ⟨s, hs, hsem⟩ := mask_sound k ops mask (by simp [mask, hlenops]) (by
    intro i hi o ho
    simp only [mask, List.getElem?_map] at hi
    cases hg : c.gates[i]? with
    | none => simp [hg] at hi
    | some g =>
      simp only [hg, Option.map_some, Option.some.injEq, Bool.not_eq_false'] at hi
      exact hid i g o hg ho hi)
  exact ⟨maskFilter mask ops, s, by rw [hgates]; exact gatesToOps_mask _ _ _ h1, hs, hsem⟩

/-- the exact cases: a rotation by 0 is the identity, an uncontrolled rotation by 2π is −identity -/
theorem zero_rotation_signId (k : Consts R) (L : k.Laws) (b : Base) (hb : b = .RX ∨ b = .RY ∨ b = .RZ)
    (t : Nat) (cs : List Nat) : IsSignId k (Op.one b 0 t cs) :=
  ⟨1, by ring, fun ψ => by rw [zero_rotation_id k L b hb t cs ψ]; funext x; ring⟩

theorem two_pi_rotation_signId (k : Consts R) (L : k.Laws) (b : Base) (hb : b = .RX ∨ b = .RY ∨ b = .RZ) (t : Nat) :
    IsSignId k (Op.one b (Ang.piQuarter 8) t []) := by
  refine ⟨-1, by ring, fun ψ => ?_⟩
  funext x
  have h := rotation_shift_two_pi k L b hb 0 t ψ x
  rw [Ang.zero_add'] at h
  rw [h, zero_rotation_id k L b hb t [] ψ]; ring

/-! ## rewriting at a distance: what the merge / cancel passes do when other gates lie in between -/

/-- operations on disjoint qubit sets commute (every pair of kinds: controlled one-qubit gates, controlled swaps, XX) -/
theorem disjoint_ops_commute (k : Consts R) (o o' : Op) (hd : ∀ q ∈ o.qubits, q ∉ o'.qubits) (ψ : State R) :
    o.sem k (o'.sem k ψ) = o'.sem k (o.sem k ψ) := Op.comm_disjoint k o o' hd ψ

/-- a gate can be moved across any block of gates that touch none of its qubits -/
theorem move_across (k : Consts R) (o : Op) (mid : List Op) (hd : ∀ o' ∈ mid, ∀ q ∈ o.qubits, q ∉ o'.qubits) (ψ : State R) :
    o.sem k (semOps k mid ψ) = semOps k mid (o.sem k ψ) := by
  induction mid generalizing ψ with
  | nil => rfl
  | cons m ms ih =>
    have e1 : semOps k (m :: ms) ψ = semOps k ms (m.sem k ψ) := rfl
    have e2 : semOps k (m :: ms) (o.sem k ψ) = semOps k ms (m.sem k (o.sem k ψ)) := rfl
    rw [e1, e2, ih (fun o' h => hd o' (List.mem_cons_of_mem _ h)), Op.comm_disjoint k o m (hd m List.mem_cons_self)]

/-- **merging at a distance** (the step of `merge_rotations`): a rotation is folded into the previous rotation on
    the same target and controls although other gates were emitted in between, provided none of them touches
    its qubits — which is what the per-qubit "last gate" table guarantees -/
theorem merge_at_distance_sound (k : Consts R) (L : k.Laws) (b : Base) (hb : b = .RX ∨ b = .RY ∨ b = .RZ ∨ b = .PHASE)
    (a a' : Ang) (t : Nat) (cs : List Nat) (ht : t ∉ cs) (pre mid : List Op)
    (hd : ∀ o' ∈ mid, ∀ q ∈ (Op.one b a' t cs).qubits, q ∉ o'.qubits) (ψ : State R) :
    semOps k (pre ++ [Op.one b a t cs] ++ mid ++ [Op.one b a' t cs]) ψ
      = semOps k (pre ++ [Op.one b (a + a') t cs] ++ mid) ψ := by
  simp only [semOps_append]
  have e : ∀ φ, semOps k [Op.one b a' t cs] φ = (Op.one b a' t cs).sem k φ := fun _ => rfl
  have e0 : ∀ (θ : Ang) φ, semOps k [Op.one b θ t cs] φ = (Op.one b θ t cs).sem k φ := fun _ _ => rfl
  rw [e, move_across k _ mid hd, e0, e0, merge_pair_sound k L b hb a a' t cs ht]

/-- **cancelling at a distance** (the step of `remove_redundant_gates`): a gate and its inverse disappear although
    other gates lie in between, provided none of them touches the gate's qubits -/
theorem cancel_at_distance_sound (k : Consts R) (L : k.Laws) (o : Op) (hwf : o.qubits.Nodup) (pre mid : List Op)
    (hd : ∀ o' ∈ mid, ∀ q ∈ o.inv.qubits, q ∉ o'.qubits) (ψ : State R) :
    semOps k (pre ++ [o] ++ mid ++ [o.inv]) ψ = semOps k (pre ++ mid) ψ := by
  simp only [semOps_append]
  have e : ∀ φ, semOps k [o.inv] φ = o.inv.sem k φ := fun _ => rfl
  have e0 : ∀ φ, semOps k [o] φ = o.sem k φ := fun _ => rfl
  rw [e, move_across k _ mid hd, e0, Op.inv_sem k L o hwf]

/-! ## concatenation, repetition, copy -/

theorem add_sem (k : Consts R) (c d r : Circuit) (oc od : List Op) (h : c.add d = .ok r)
    (hc : gatesToOps c.gates = some oc) (hd : gatesToOps d.gates = some od) (ψ : State R) :
    ∃ or', gatesToOps r.gates = some or' ∧ semOps k or' ψ = semOps k od (semOps k oc ψ) := by
  have hg := Circuit.gates_ofGates _ _ r h
  exact ⟨oc ++ od, by rw [hg]; exact gatesToOps_append _ _ _ _ hc hd, semOps_append k oc od ψ⟩

theorem copy_gates (c r : Circuit) (h : c.copy = .ok r) : r.gates = c.gates := Circuit.gates_ofGates _ _ r h

/-! ## Clifford decomposition table (regenerated from `decompose_gate_to_cliffords`) -/

/-- every row of the table (rotations RX, RY, RZ, PHASE at every multiple of π/2 in [−2π, 2π]) equals
    its rotation up to a 16th root of unity, computed exactly in ℚ(ζ₁₆) by the kernel -/
theorem clifford_table_correct : Clifford.allRowsOk = true := by decide +kernel

/-! ## non-vacuity -/
example : (Op.one .RX (Ang.piQuarter 1) 0 [1, 2]).qubits.Nodup := by decide
example : Gate.toOp ⟨"CRZ", [1], some [0, 2], .ang (Ang.piQuarter 3), false⟩ = some (Op.one .RZ (Ang.piQuarter 3) 1 [0, 2]) := by rfl

/-! ## the same statements for the amplitudes the model driver computes (`Cyc = ℚ(ζ₁₆)`, `cycConsts`) -/

/-- `Circuit.inverse` undoes the circuit on the executable model -/
theorem circuit_inverse_sem_exec (c ci : Circuit) (ops : List Op)
    (h1 : gatesToOps c.gates = some ops) (h2 : c.inverse = .ok ci) (hwf : ∀ o ∈ ops, o.qubits.Nodup) (ψ : State Cyc) :
    ∃ ops', gatesToOps ci.gates = some ops' ∧ semOps cycConsts ops' (semOps cycConsts ops ψ) = ψ :=
  circuit_inverse_sem cycConsts cycConsts_laws c ci ops h1 h2 hwf ψ

/-- merging two rotations is sound on the executable model -/
theorem merge_pair_sound_exec (b : Base) (hb : b = .RX ∨ b = .RY ∨ b = .RZ ∨ b = .PHASE)
    (a a' : Ang) (t : Nat) (cs : List Nat) (ht : t ∉ cs) (ψ : State Cyc) :
    (Op.one b a' t cs).sem cycConsts ((Op.one b a t cs).sem cycConsts ψ) = (Op.one b (a + a') t cs).sem cycConsts ψ :=
  merge_pair_sound cycConsts cycConsts_laws b hb a a' t cs ht ψ

end Tangelo.C09
