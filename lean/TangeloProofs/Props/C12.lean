import TangeloModel.Symmetry
import TangeloModel.Defaults
import TangeloProofs.Props.C05
import Mathlib.Algebra.Order.Ring.Rat
import Mathlib.Tactic.Positivity
import Mathlib.Tactic.Linarith
/-!
# C12 — symmetry operators and penalties are exact
-/
namespace Tangelo.C12
open Tangelo JW Symmetry
variable {R : Type} [CommRing R]

/-- **diagonal symmetry operators have the determinants as eigenvectors**: Σ c_p a†_p a_p multiplies the amplitude
    of a determinant x by Σ_{p occupied in x} c_p — every list of modes, every register size -/
theorem applyDiag_eigen (coef : Rat → R) (terms : List (Nat × Rat)) (ψ : State R) (x : Bits) :
    applyDiag coef terms ψ x = (terms.map (fun (pc : Nat × Rat) => if x pc.1 then coef pc.2 else 0)).sum * ψ x := by
  unfold applyDiag
  have h : ∀ (l : List (Nat × Rat)) (init : R),
      l.foldl (fun acc (pc : Nat × Rat) => acc + coef pc.2 * create pc.1 (annihilate pc.1 ψ) x) init =
      init + (l.map (fun (pc : Nat × Rat) => if x pc.1 then coef pc.2 else 0)).sum * ψ x := by
    intro l
    induction l with
    | nil => intro init; simp
    | cons pc rest ih =>
      intro init
      rw [List.foldl_cons, ih, List.map_cons, List.sum_cons, C05.number_operator_occupation]
      split <;> ring
  have := h terms 0
  simpa using this

theorem sum_map_flatMap {α β : Type} (l : List α) (f : α → List β) (g : β → Rat) :
    ((l.flatMap f).map g).sum = (l.map (fun i => ((f i).map g).sum)).sum := by
  induction l with
  | nil => rfl
  | cons a as ih => simp [List.flatMap_cons, List.map_append, List.sum_append, ih]

/-- the number operator lists every spin-orbital exactly once with coefficient 1, in either ordering:
    its eigenvalue on a determinant is the number of occupied spin-orbitals among the 2·n_orbs -/
theorem number_eigenvalue (nOrbs : Nat) (utd : Bool) (x : Bits) :
    diagValue (numberList nOrbs utd) x = ((List.range nOrbs).map (fun i =>
      (if x (spinOrbitals nOrbs i utd).1 then (1 : Rat) else 0) + (if x (spinOrbitals nOrbs i utd).2 then 1 else 0))).sum := by
  unfold diagValue numberList
  rw [sum_map_flatMap]
  congr 1
  apply List.map_congr_left
  intro i _
  simp

theorem spinOrbitals_alternating (nOrbs i : Nat) : spinOrbitals nOrbs i false = (2 * i, 2 * i + 1) := rfl
theorem spinOrbitals_up_then_down (nOrbs i : Nat) : spinOrbitals nOrbs i true = (i, i + nOrbs) := rfl

/-- S_z eigenvalue: ½(n_up − n_down) -/
theorem spinz_eigenvalue (nOrbs : Nat) (utd : Bool) (x : Bits) :
    diagValue (spinzList nOrbs utd) x = ((List.range nOrbs).map (fun i =>
      (if x (spinOrbitals nOrbs i utd).1 then (1/2 : Rat) else 0) + (if x (spinOrbitals nOrbs i utd).2 then -1/2 else 0))).sum := by
  unfold diagValue spinzList
  rw [sum_map_flatMap]
  congr 1
  apply List.map_congr_left
  intro i _
  simp

/-! ## commutation with every number- / spin-conserving operator

A diagonal operator with weight `w` (`(D ψ)(x) = w(x) ψ(x)`) whose weight is additive over occupied modes with
increments `γ p` satisfies the shift relations `D a†_p = a†_p (D + γ_p)` and `D a_q = a_q (D − γ_q)`; hence it
commutes with every ladder string whose increments cancel — N with every number-conserving term, S_z with every
term that conserves the spin projection — and, by linearity, with every Hamiltonian made of such terms. -/
section commute

/-- w(x) = w(x with mode p emptied) + γ p whenever p is occupied in x -/
def Additive (γ : Nat → R) (w : Bits → R) : Prop := ∀ (x : Bits) (p : Nat), x p = true → w x = w (x.set p false) + γ p

def diagOp (w : Bits → R) (ψ : State R) : State R := fun x => w x * ψ x

theorem additive_shift (γ : Nat → R) (w : Bits → R) (h : Additive γ w) (c : R) : Additive γ (fun x => w x + c) := by
  intro x p hx
  show w x + c = w (x.set p false) + c + γ p
  rw [h x p hx]; ring

theorem additive_set_true (γ : Nat → R) (w : Bits → R) (h : Additive γ w) (x : Bits) (p : Nat) (hx : x p = false) :
    w (x.set p true) = w x + γ p := by
  have := h (x.set p true) p (by simp)
  rw [this, Bits.set_set]
  have : x.set p false = x := by rw [← hx]; exact Bits.set_self x p
  rw [this]

theorem shift_create (γ : Nat → R) (w : Bits → R) (h : Additive γ w) (p : Nat) (ψ : State R) :
    diagOp w (create p ψ) = create p (diagOp (fun x => w x + γ p) ψ) := by
  funext x
  unfold diagOp create
  by_cases hx : x p
  · simp only [hx, if_true]
    rw [h x p hx]; ring
  · simp [hx]

theorem shift_annihilate (γ : Nat → R) (w : Bits → R) (h : Additive γ w) (q : Nat) (ψ : State R) :
    diagOp w (annihilate q ψ) = annihilate q (diagOp (fun x => w x - γ q) ψ) := by
  funext x
  unfold diagOp annihilate
  by_cases hx : x q
  · simp [hx]
  · have hx' : x q = false := by simpa using hx
    simp only [hx', Bool.false_eq_true, if_false]
    rw [additive_set_true γ w h x q hx']; ring

/-- a ladder string applied to amplitudes; the head of the list is the outermost (leftmost) operator -/
def applyString : List (Nat × Bool) → State R → State R
  | [], ψ => ψ
  | (p, true) :: rest, ψ => create p (applyString rest ψ)
  | (p, false) :: rest, ψ => annihilate p (applyString rest ψ)

/-- total increment of a ladder string: +γ for a creation, −γ for an annihilation -/
def increment (γ : Nat → R) : List (Nat × Bool) → R
  | [] => 0
  | (p, true) :: rest => γ p + increment γ rest
  | (p, false) :: rest => -γ p + increment γ rest

theorem shift_string (γ : Nat → R) (w : Bits → R) (h : Additive γ w) (s : List (Nat × Bool)) (ψ : State R) :
    diagOp w (applyString s ψ) = applyString s (diagOp (fun x => w x + increment γ s) ψ) := by
  induction s generalizing w with
  | nil => simp [applyString, increment, diagOp]
  | cons pd rest ih =>
    obtain ⟨p, d⟩ := pd
    cases d
    · simp only [applyString, increment]
      rw [shift_annihilate γ w h, ih (fun x => w x - γ p) (by simpa [sub_eq_add_neg] using additive_shift γ w h (-γ p))]
      have e : (fun x => w x - γ p + increment γ rest) = fun x => w x + (-γ p + increment γ rest) := by funext x; ring
      rw [e]
    · simp only [applyString, increment]
      rw [shift_create γ w h, ih (fun x => w x + γ p) (additive_shift γ w h (γ p))]
      have e : (fun x => w x + γ p + increment γ rest) = fun x => w x + (γ p + increment γ rest) := by funext x; ring
      rw [e]

/-- **a conserved quantity commutes with every term that conserves it**: increments cancel ⇒ `D s = s D` -/
theorem commute_string (γ : Nat → R) (w : Bits → R) (h : Additive γ w) (s : List (Nat × Bool)) (hs : increment γ s = 0)
    (ψ : State R) : diagOp w (applyString s ψ) = applyString s (diagOp w ψ) := by
  rw [shift_string γ w h s ψ, hs]
  have e : (fun x => w x + 0) = w := by funext x; ring
  rw [e]

/-- an operator Σ c_s · s acting on amplitudes -/
def applyTerms (ts : List (List (Nat × Bool) × R)) (ψ : State R) : State R :=
  fun x => (ts.map (fun t => t.2 * applyString t.1 ψ x)).sum

/-- **commutation with a whole Hamiltonian**: if every term conserves the quantity, `D H ψ = H D ψ` -/
theorem commute_terms (γ : Nat → R) (w : Bits → R) (h : Additive γ w) (ts : List (List (Nat × Bool) × R))
    (hts : ∀ t ∈ ts, increment γ t.1 = 0) (ψ : State R) :
    diagOp w (applyTerms ts ψ) = applyTerms ts (diagOp w ψ) := by
  funext x
  unfold applyTerms
  induction ts with
  | nil => simp [diagOp]
  | cons t rest ih =>
    have ht := commute_string γ w h t.1 (hts t List.mem_cons_self) ψ
    have hx := congrFun ht x
    simp only [diagOp] at hx ih ⊢
    simp only [List.map_cons, List.sum_cons]
    rw [mul_add, ih (fun t' ht' => hts t' (List.mem_cons_of_mem _ ht')), ← hx]
    ring

/-- the weight of Σ c_p a†_p a_p and its increments -/
def weightR (coef : Rat → R) (terms : List (Nat × Rat)) (x : Bits) : R :=
  (terms.map (fun (pc : Nat × Rat) => if x pc.1 then coef pc.2 else 0)).sum

def gammaR (coef : Rat → R) (terms : List (Nat × Rat)) (p : Nat) : R :=
  (terms.map (fun (pc : Nat × Rat) => if pc.1 = p then coef pc.2 else 0)).sum

theorem weightR_additive (coef : Rat → R) (terms : List (Nat × Rat)) : Additive (gammaR coef terms) (weightR coef terms) := by
  intro x p hx
  unfold weightR gammaR
  induction terms with
  | nil => simp
  | cons pc rest ih =>
    simp only [List.map_cons, List.sum_cons]
    rw [ih]
    by_cases hp : pc.1 = p
    · subst hp; simp [hx]; ring
    · have : (x.set p false) pc.1 = x pc.1 := Bits.set_other _ _ _ _ hp
      simp only [this, hp, if_false]; ring

/-- the symmetry operators of the library are such diagonal operators -/
theorem applyDiag_is_diagOp (coef : Rat → R) (terms : List (Nat × Rat)) (ψ : State R) :
    applyDiag coef terms ψ = diagOp (weightR coef terms) ψ := by
  funext x; rw [applyDiag_eigen]; rfl

/-- **N and S_z commute with every Hamiltonian whose terms conserve them** (any coefficients, any number of
    terms, every register size): stated for an arbitrary Σ c_p a†_p a_p, instantiated by `numberList` / `spinzList` -/
theorem symmetry_commutes (coef : Rat → R) (terms : List (Nat × Rat)) (ts : List (List (Nat × Bool) × R))
    (hts : ∀ t ∈ ts, increment (gammaR coef terms) t.1 = 0) (ψ : State R) :
    applyDiag coef terms (applyTerms ts ψ) = applyTerms ts (applyDiag coef terms ψ) := by
  rw [applyDiag_is_diagOp, applyDiag_is_diagOp]
  exact commute_terms (gammaR coef terms) (weightR coef terms) (weightR_additive coef terms) ts hts ψ

/-- increments of the number operator (alternating ordering): 1 on each of the 2·n_orbs spin-orbitals -/
theorem gamma_number_alternating (coef : Rat → R) (nOrbs p : Nat) :
    gammaR coef (numberList nOrbs false) p = if p < 2 * nOrbs then coef 1 else 0 := by
  have hl : numberList nOrbs false = (List.range nOrbs).flatMap (fun i => [(2 * i, (1 : Rat)), (2 * i + 1, 1)]) := by
    simp [numberList, spinOrbitals]
  rw [hl]
  unfold gammaR
  induction nOrbs with
  | zero => simp
  | succ n ih =>
    rw [List.range_succ, List.flatMap_append, List.map_append, List.sum_append, ih (by simp [numberList, spinOrbitals])]
    simp only [List.flatMap_cons, List.flatMap_nil, List.append_nil, List.map_cons, List.map_nil, List.sum_cons,
      List.sum_nil, add_zero]
    by_cases h1 : p < 2 * n
    · have a : ¬ (2 * n = p) := by omega
      have b : ¬ (2 * n + 1 = p) := by omega
      have c : p < 2 * (n + 1) := by omega
      simp [h1, a, b, c]
    · by_cases h2 : 2 * n = p
      · have b : ¬ (2 * n + 1 = p) := by omega
        have c : p < 2 * (n + 1) := by omega
        simp [h1, h2, b, c]
      · by_cases h3 : 2 * n + 1 = p
        · have c : p < 2 * (n + 1) := by omega
          simp [h1, h2, h3, c]
        · have c : ¬ p < 2 * (n + 1) := by omega
          simp [h1, h2, h3, c]

end commute

/-! ## penalties -/

/-- μ(O − t)² on an eigenvector with eigenvalue a: non-negative for μ > 0, and zero exactly on the target -/
theorem penalty_nonneg (μ a t : Rat) (hμ : 0 < μ) : 0 ≤ μ * ((a - t) * (a - t)) := by
  have : 0 ≤ (a - t) * (a - t) := mul_self_nonneg _
  positivity

theorem penalty_zero_iff (μ a t : Rat) (hμ : 0 < μ) : μ * ((a - t) * (a - t)) = 0 ↔ a = t := by
  constructor
  · intro h
    have h1 : (a - t) * (a - t) = 0 := by
      rcases mul_eq_zero.mp h with h | h
      · linarith
      · exact h
    have h2 : a - t = 0 := by
      rcases mul_eq_zero.mp h1 with h | h <;> exact h
    linarith
  · intro h; subst h; simp

/-! ## non-vacuity -/
example : numberList 2 true = [(0, 1), (2, 1), (1, 1), (3, 1)] := by decide +kernel
example : spinzList 2 false = [(0, 1/2), (1, -1/2), (2, 1/2), (3, -1/2)] := by decide +kernel

end Tangelo.C12

/-! ## option dictionaries: per-call defaults vs one shared dictionary -/
namespace Tangelo.C12
open Tangelo.Defaults

/-- **per-call defaults are history independent**: whatever calls came before, the effective options of a call are
    the defaults updated with the options of that call -/
theorem fresh_history_independent {V : Type} (defaults : Dict V) (history : List (Dict V)) (opts : Dict V) :
    afterHistoryFresh defaults history opts = update defaults opts := rfl

/-- **a shared default dictionary is not**: after a call that set N, a call that sets only Sz still carries N
    (the defect class of the seeded changes C12-m4, C12-m5, C08-m5) -/
theorem shared_counterexample :
    afterHistoryShared [("N", (0, 0)), ("Sz", (0, 0)), ("S^2", (0, 0))] [[("N", (3, 2))]] [("Sz", (2, 0))]
      ≠ update [("N", ((0 : Nat), (0 : Nat))), ("Sz", (0, 0)), ("S^2", (0, 0))] [("Sz", (2, 0))] := by decide

end Tangelo.C12
