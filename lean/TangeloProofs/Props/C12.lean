import TangeloModel.Symmetry
import TangeloProofs.Props.C05
import Mathlib.Algebra.Order.Ring.Rat
import Mathlib.Tactic.Positivity
import Mathlib.Tactic.Linarith
/-!
# C12 — symmetry operators and penalties are exact
-/
namespace Tangelo.C12
open Tangelo JW Symmetry
variable {R : Type} [CommRing R]

/-- **diagonal symmetry operators have the determinants as eigenvectors**: Σ c_p a†_p a_p multiplies the amplitude
    of a determinant x by Σ_{p occupied in x} c_p — every list of modes, every register size -/
theorem applyDiag_eigen (coef : Rat → R) (terms : List (Nat × Rat)) (ψ : State R) (x : Bits) :
    applyDiag coef terms ψ x = (terms.map (fun (pc : Nat × Rat) => if x pc.1 then coef pc.2 else 0)).sum * ψ x := by
  unfold applyDiag
  have h : ∀ (l : List (Nat × Rat)) (init : R),
      l.foldl (fun acc (pc : Nat × Rat) => acc + coef pc.2 * create pc.1 (annihilate pc.1 ψ) x) init =
      init + (l.map (fun (pc : Nat × Rat) => if x pc.1 then coef pc.2 else 0)).sum * ψ x := by
    intro l
    induction l with
    | nil => intro init; simp
    | cons pc rest ih =>
      intro init
      rw [List.foldl_cons, ih, List.map_cons, List.sum_cons, C05.number_operator_occupation]
      split <;> ring
  have := h terms 0
  simpa using this

theorem sum_map_flatMap {α β : Type} (l : List α) (f : α → List β) (g : β → Rat) :
    ((l.flatMap f).map g).sum = (l.map (fun i => ((f i).map g).sum)).sum := by
  induction l with
  | nil => rfl
  | cons a as ih => simp [List.flatMap_cons, List.map_append, List.sum_append, ih]

/-- the number operator lists every spin-orbital exactly once with coefficient 1, in either ordering:
    its eigenvalue on a determinant is the number of occupied spin-orbitals among the 2·n_orbs -/
theorem number_eigenvalue (nOrbs : Nat) (utd : Bool) (x : Bits) :
    diagValue (numberList nOrbs utd) x = ((List.range nOrbs).map (fun i =>
      (if x (spinOrbitals nOrbs i utd).1 then (1 : Rat) else 0) + (if x (spinOrbitals nOrbs i utd).2 then 1 else 0))).sum := by
  unfold diagValue numberList
  rw [sum_map_flatMap]
  congr 1
  apply List.map_congr_left
  intro i _
  simp

theorem spinOrbitals_alternating (nOrbs i : Nat) : spinOrbitals nOrbs i false = (2 * i, 2 * i + 1) := rfl
theorem spinOrbitals_up_then_down (nOrbs i : Nat) : spinOrbitals nOrbs i true = (i, i + nOrbs) := rfl

/-- S_z eigenvalue: ½(n_up − n_down) -/
theorem spinz_eigenvalue (nOrbs : Nat) (utd : Bool) (x : Bits) :
    diagValue (spinzList nOrbs utd) x = ((List.range nOrbs).map (fun i =>
      (if x (spinOrbitals nOrbs i utd).1 then (1/2 : Rat) else 0) + (if x (spinOrbitals nOrbs i utd).2 then -1/2 else 0))).sum := by
  unfold diagValue spinzList
  rw [sum_map_flatMap]
  congr 1
  apply List.map_congr_left
  intro i _
  simp

/-! ## penalties -/

/-- μ(O − t)² on an eigenvector with eigenvalue a: non-negative for μ > 0, and zero exactly on the target -/
theorem penalty_nonneg (μ a t : Rat) (hμ : 0 < μ) : 0 ≤ μ * ((a - t) * (a - t)) := by
  have : 0 ≤ (a - t) * (a - t) := mul_self_nonneg _
  positivity

theorem penalty_zero_iff (μ a t : Rat) (hμ : 0 < μ) : μ * ((a - t) * (a - t)) = 0 ↔ a = t := by
  constructor
  · intro h
    have h1 : (a - t) * (a - t) = 0 := by
      rcases mul_eq_zero.mp h with h | h
      · linarith
      · exact h
    have h2 : a - t = 0 := by
      rcases mul_eq_zero.mp h1 with h | h <;> exact h
    linarith
  · intro h; subst h; simp

/-! ## non-vacuity -/
example : numberList 2 true = [(0, 1), (2, 1), (1, 1), (3, 1)] := by decide +kernel
example : spinzList 2 false = [(0, 1/2), (1, -1/2), (2, 1/2), (3, -1/2)] := by decide +kernel

end Tangelo.C12
