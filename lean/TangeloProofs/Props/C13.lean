import TangeloModel.Rdm
import Mathlib.Algebra.BigOperators.Group.Finset.Basic
import Mathlib.Algebra.BigOperators.Group.Finset.Sigma
import Mathlib.Algebra.BigOperators.Ring.Finset
import Mathlib.Algebra.BigOperators.Group.List.Basic
import Mathlib.Data.List.Nodup
import Mathlib.Tactic.Ring
import Mathlib.Tactic.Linarith
/-!
# C13 — reduced density matrices reproduce energies and electron counts

Bookkeeping theorems (every size, every tensor over a commutative ring): the energy contraction with the
index transposition picks, for every Hamiltonian coefficient, the expectation value of *its* operator;
spin summation; the one-particle padding with frozen orbitals.
-/
namespace Tangelo.C13
open Tangelo.Rdm Finset

variable {R : Type} [CommRing R]

/-! ## contraction: transposed integrals × placed expectation values -/

/-- **energy contraction**: with Γ[i,l,j,k] = ⟨a†_i a†_j a_k a_l⟩ (the placement of `get_rdm`) and the
    integrals transposed by (0,3,1,2) (as `energy_from_rdms` does), the element-wise product summed over
    all indices is Σ g[p,q,r,s] ⟨a†_p a†_q a_r a_s⟩ — every coefficient meets its own operator -/
theorem contraction_transpose (n : Nat) (g e : Nat → Nat → Nat → Nat → R) :
    (∑ a ∈ range n, ∑ b ∈ range n, ∑ c ∈ range n, ∑ d ∈ range n, transpose0312 g a b c d * place2 e a b c d)
      = ∑ p ∈ range n, ∑ q ∈ range n, ∑ r ∈ range n, ∑ s ∈ range n, g p q r s * e p q r s := by
  simp only [transpose0312, place2]
  apply Finset.sum_congr rfl
  intro a _
  rw [Finset.sum_comm]
  apply Finset.sum_congr rfl
  intro c _
  rw [Finset.sum_comm]

/-- the placement is injective: two different index quadruples never land on the same tensor entry -/
theorem place_injective (i j k l i' j' k' l' : Nat) (h : (i, l, j, k) = (i', l', j', k')) :
    (i, j, k, l) = (i', j', k', l') := by
  simp only [Prod.mk.injEq] at h ⊢
  obtain ⟨h1, h2, h3, h4⟩ := h
  exact ⟨h1, h3, h4, h2⟩

/-- transposing back: `transpose0312` and the placement are mutually inverse re-labellings -/
theorem place2_transpose (e : Nat → Nat → Nat → Nat → R) (a b c d : Nat) :
    place2 e a b c d = e a c d b ∧ transpose0312 (fun p q r s => place2 e p s q r) a b c d = place2 e a b c d := by
  simp [place2, transpose0312]

/-! ## spin summation -/

theorem foldl_acc (l : List (Nat × Nat)) (t : Nat → Nat → R) (init : Nat → Nat → R) (p q : Nat) :
    (l.foldl (fun acc ij => fun p q => if p = ij.1 / 2 ∧ q = ij.2 / 2 then acc p q + t ij.1 ij.2 else acc p q) init) p q
      = init p q + (l.map (fun ij => if p = ij.1 / 2 ∧ q = ij.2 / 2 then t ij.1 ij.2 else 0)).sum := by
  induction l generalizing init with
  | nil => simp
  | cons x xs ih =>
    simp only [List.foldl_cons, List.map_cons, List.sum_cons]
    rw [ih]
    by_cases h : p = x.1 / 2 ∧ q = x.2 / 2
    · simp only [h, and_self, if_true]; ring
    · simp only [h, if_false]; ring

/-- the accumulation loop computes, at [p, q], the sum of the entries [i, j] with i div 2 = p, j div 2 = q -/
theorem spinSumLoop_eq (n : Nat) (t : Nat → Nat → R) (p q : Nat) :
    spinSumLoop n t p q =
      ((List.range n).map (fun i => ((List.range n).map (fun j => if p = i / 2 ∧ q = j / 2 then t i j else 0)).sum)).sum := by
  unfold spinSumLoop
  rw [foldl_acc, zero_add]
  generalize List.range n = ys
  suffices h : ∀ xs : List Nat,
      ((xs.flatMap (fun i => ys.map (fun j => (i, j)))).map (fun ij => if p = ij.1 / 2 ∧ q = ij.2 / 2 then t ij.1 ij.2 else 0)).sum
        = (xs.map (fun i => (ys.map (fun j => if p = i / 2 ∧ q = j / 2 then t i j else 0)).sum)).sum from h ys
  intro xs
  induction xs with
  | nil => simp
  | cons i is ih =>
    simp only [List.flatMap_cons, List.map_append, List.sum_append, List.map_cons, List.sum_cons, List.map_map]
    rw [ih]
    congr 1

theorem pair_sum (f : Nat → R) (m q : Nat) (hq : q < m) :
    ((List.range (2 * m)).map (fun j => if q = j / 2 then f j else 0)).sum = f (2 * q) + f (2 * q + 1) := by
  induction m with
  | zero => omega
  | succ m ih =>
    have e : 2 * (m + 1) = 2 * m + 1 + 1 := by ring
    rw [e, List.range_succ, List.range_succ]
    simp only [List.map_append, List.sum_append, List.map_cons, List.map_nil, List.sum_cons, List.sum_nil, add_zero]
    have d1 : (2 * m) / 2 = m := by omega
    have d2 : (2 * m + 1) / 2 = m := by omega
    rw [d1, d2]
    by_cases h : q = m
    · subst h
      have hz : ((List.range (2 * q)).map (fun j => if q = j / 2 then f j else 0)).sum = 0 := by
        apply List.sum_eq_zero
        intro x hx
        simp only [List.mem_map, List.mem_range] at hx
        obtain ⟨j, hj, rfl⟩ := hx
        have : q ≠ j / 2 := by omega
        simp [this]
      rw [hz]; simp
    · have hq' : q < m := by omega
      rw [ih hq']; simp [h]

/-- **spin summation**: the entry [p, q] of the spin-summed tensor is the sum of the four spin blocks -/
theorem spinSum_blocks (m : Nat) (t : Nat → Nat → R) (p q : Nat) (hp : p < m) (hq : q < m) :
    spinSumLoop (2 * m) t p q
      = t (2 * p) (2 * q) + t (2 * p) (2 * q + 1) + t (2 * p + 1) (2 * q) + t (2 * p + 1) (2 * q + 1) := by
  rw [spinSumLoop_eq]
  have inner : ∀ i, ((List.range (2 * m)).map (fun j => if p = i / 2 ∧ q = j / 2 then t i j else 0)).sum
      = if p = i / 2 then t i (2 * q) + t i (2 * q + 1) else 0 := by
    intro i
    by_cases h : p = i / 2
    · simp only [h, true_and, if_true]
      have := pair_sum (fun j => t i j) m q hq
      simpa using this
    · simp [h]
  simp only [inner]
  have := pair_sum (fun i => t i (2 * q) + t i (2 * q + 1)) m p hp
  rw [this]; ring

/-! ## one-particle padding -/

theorem pad1_symm (nOcc : Nat) (active : List Nat) (one : Nat → Nat → R) (h : ∀ a b, one a b = one b a) (p q : Nat) :
    pad1 nOcc active one p q = pad1 nOcc active one q p := by
  unfold pad1
  by_cases h1 : p ∈ active ∧ q ∈ active
  · have h2 : q ∈ active ∧ p ∈ active := ⟨h1.2, h1.1⟩
    simp only [h1, h2, and_self, if_true]; exact h _ _
  · have h2 : ¬(q ∈ active ∧ p ∈ active) := fun hh => h1 ⟨hh.2, hh.1⟩
    simp only [h1, h2, if_false]
    by_cases h3 : p = q
    · subst h3; rfl
    · have h4 : ¬ q = p := fun e => h3 e.symm
      simp [h3, h4]

theorem idx_sum (l : List Nat) (hn : l.Nodup) : ∀ F : Nat → R,
    (l.map (fun p => F (l.idxOf p))).sum = ((List.range l.length).map F).sum := by
  induction l with
  | nil => intro F; simp
  | cons a l ih =>
    intro F
    have hnd := List.nodup_cons.mp hn
    rw [List.length_cons, List.range_succ_eq_map, List.map_cons, List.sum_cons, List.map_cons, List.sum_cons, List.map_map]
    have h0 : (a :: l).idxOf a = 0 := by simp
    rw [h0]
    congr 1
    rw [← ih hnd.2 (F ∘ Nat.succ)]
    apply congrArg
    apply List.map_congr_left
    intro p hp
    have hne : p ≠ a := fun e => hnd.1 (e ▸ hp)
    simp [List.idxOf_cons, hne, Ne.symm hne]

/-- **trace of the padded one-particle matrix**: the active trace plus 2 for every frozen occupied orbital
    (total electron count when the active trace is the active electron count) -/
theorem pad1_trace (nMos nOcc : Nat) (active : List Nat) (one : Nat → Nat → R) (hn : active.Nodup)
    (hlt : ∀ p ∈ active, p < nMos) :
    ∑ p ∈ range nMos, pad1 nOcc active one p p
      = ∑ a ∈ range active.length, one a a + 2 * (((range nMos).filter (fun p => p ∉ active ∧ p < nOcc)).card : R) := by
  have split : ∀ p, pad1 nOcc active one p p =
      (if p ∈ active then one (active.idxOf p) (active.idxOf p) else 0) + (if p ∉ active ∧ p < nOcc then 2 else 0) := by
    intro p
    unfold pad1
    by_cases h : p ∈ active <;> simp [h]
  simp only [split, Finset.sum_add_distrib]
  congr 1
  · rw [← Finset.sum_filter]
    have hf : (range nMos).filter (fun p => p ∈ active) = active.toFinset := by
      ext p; simp only [mem_filter, mem_range, List.mem_toFinset]
      exact ⟨fun h => h.2, fun h => ⟨hlt p h, h⟩⟩
    rw [hf, List.sum_toFinset _ hn, idx_sum active hn (fun a => one a a)]
    have hr : (List.range active.length).toFinset = Finset.range active.length := by ext x; simp
    rw [← List.sum_toFinset _ (List.nodup_range), hr]
  · rw [← Finset.sum_filter, Finset.sum_const, nsmul_eq_mul, mul_comm]

/-- the pre-existing tensor is never touched: the model is a pure function — two evaluations agree -/
theorem pad1_pure (nOcc : Nat) (active : List Nat) (one : Nat → Nat → R) :
    pad1 nOcc active one = pad1 nOcc active one := rfl

/-! ## Hermiticity is carried through placement, spin summation and padding

`σ` stands for complex conjugation (any additive map will do).  The expectation value of the Hermitian conjugate of
a term is the conjugate of the term's expectation value; what `get_rdm` stores then makes both RDMs Hermitian.
Storing the SAME value at both positions (an "evaluate only one of each conjugate pair" shortcut) satisfies the
hypothesis only for real values. -/

/-- 2-RDM placement: `e l k j i = σ (e i j k l)` (⟨(a†_i a†_j a_k a_l)†⟩ = conj ⟨a†_i a†_j a_k a_l⟩) makes the placed tensor
    Hermitian in chemist notation, Γ[q,p,s,r] = σ Γ[p,q,r,s] -/
theorem place2_hermitian (σ : R → R) (e : Nat → Nat → Nat → Nat → R) (h : ∀ i j k l, e l k j i = σ (e i j k l)) (p q r s : Nat) :
    place2 e q p s r = σ (place2 e p q r s) := by
  unfold place2; exact h p r s q

/-- spin summation of a Hermitian spin-orbital tensor is Hermitian -/
theorem spinSum_hermitian (σ : R →+ R) (m : Nat) (t : Nat → Nat → R) (h : ∀ i j, t j i = σ (t i j)) (p q : Nat) (hp : p < m) (hq : q < m) :
    spinSumLoop (2 * m) t q p = σ (spinSumLoop (2 * m) t p q) := by
  rw [spinSum_blocks m t q p hq hp, spinSum_blocks m t p q hp hq]
  simp only [map_add, ← h]
  ring

/-- padding with frozen orbitals keeps Hermiticity (the added entries are the real numbers 0 and 2) -/
theorem pad1_hermitian (σ : R → R) (h0 : σ 0 = 0) (h2 : σ 2 = 2) (nOcc : Nat) (active : List Nat) (one : Nat → Nat → R)
    (h : ∀ a b, one b a = σ (one a b)) (p q : Nat) :
    pad1 nOcc active one q p = σ (pad1 nOcc active one p q) := by
  unfold pad1
  by_cases h1 : p ∈ active ∧ q ∈ active
  · have h1' : q ∈ active ∧ p ∈ active := ⟨h1.2, h1.1⟩
    simp only [h1, h1', and_self, if_true]; exact h _ _
  · have h1' : ¬(q ∈ active ∧ p ∈ active) := fun hh => h1 ⟨hh.2, hh.1⟩
    simp only [h1, h1', if_false]
    by_cases h3 : p = q
    · subst h3; by_cases h4 : p < nOcc <;> simp [h4, h0, h2]
    · have h4 : ¬ q = p := fun e => h3 e.symm
      simp [h3, h4, h0]

/-- storing one value at both positions is Hermitian only if that value is its own conjugate -/
theorem same_value_both_positions_not_hermitian :
    ∃ (σ : Int × Int → Int × Int) (t : Nat → Nat → Int × Int), (∀ i j, t j i = t i j) ∧ t 1 0 ≠ σ (t 0 1) :=
  ⟨fun z => (z.1, -z.2), fun _ _ => (0, 1), fun _ _ => rfl, by decide⟩

/-! ## non-vacuity -/
example : pad1 2 [1, 3] (fun a b => ((10 * a + b : Nat) : Int)) 0 0 = 2 ∧ pad1 2 [1, 3] (fun a b => ((10 * a + b : Nat) : Int)) 3 1 = 10 := by
  decide
example : spinSumLoop 4 (fun i j => ((i + 10 * j : Nat) : Int)) 1 0 = 2 + 3 + 12 + 13 := by decide

end Tangelo.C13
