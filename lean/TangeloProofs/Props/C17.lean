import TangeloModel.Export
/-!
# C17 — circuits survive export / import round trips
-/
namespace Tangelo.C17
open Tangelo Export

/-- **IonQ JSON round trip**: every gate the writer accepts is read back as the same gate (CNOT ≡ CX,
    variational flag aside), whatever its targets, controls and parameter. -/
theorem ionq_roundtrip (g : Gate) (r : IonqRec) (hexp : ionqExpressible g = true) (h : ionqWrite g = some r) :
    ∃ g', ionqRead r = some g' ∧ sameGate g g' = true := by
  obtain ⟨nm, tgt, ctl, par, v⟩ := g
  simp only [ionqWrite] at h
  cases hl : lookup Tables.ionqGates nm with
  | none => simp [hl] at h
  | some j =>
    simp only [hl] at h
    -- the dictionary is a finite table: go through its rows
    have hrow : (nm, j) ∈ Tables.ionqGates := by
      simp only [lookup] at hl
      cases hf : Tables.ionqGates.find? (·.1 == nm) with
      | none => simp [hf] at hl
      | some p =>
        simp [hf] at hl
        have := List.find?_some hf
        have hm := List.mem_of_find?_eq_some hf
        simp at this
        obtain ⟨a, b⟩ := p
        simp at this hl
        subst this; subst hl; exact hm
    simp only [Tables.ionqGates, List.mem_cons, Prod.mk.injEq, List.mem_nil_iff, or_false] at hrow
    rcases hrow with ⟨rfl, rfl⟩ | ⟨rfl, rfl⟩ | ⟨rfl, rfl⟩ | ⟨rfl, rfl⟩ | ⟨rfl, rfl⟩ | ⟨rfl, rfl⟩ | ⟨rfl, rfl⟩ | ⟨rfl, rfl⟩ | ⟨rfl, rfl⟩ |
      ⟨rfl, rfl⟩ | ⟨rfl, rfl⟩ | ⟨rfl, rfl⟩ | ⟨rfl, rfl⟩ | ⟨rfl, rfl⟩ | ⟨rfl, rfl⟩ | ⟨rfl, rfl⟩ | ⟨rfl, rfl⟩ | ⟨rfl, rfl⟩ | ⟨rfl, rfl⟩ | ⟨rfl, rfl⟩
    all_goals (
      simp (config := {decide := true}) only [List.contains_cons, List.contains_nil, Bool.or_false, Bool.false_or, Bool.true_or, Bool.or_true,
        if_true, if_false, beq_self_eq_true, String.reduceBEq, Bool.false_eq_true, reduceIte, Option.some.injEq] at h
      subst h
      cases ctl <;> simp (config := {decide := true}) [ionqExpressible] at hexp <;>
      simp (config := {decide := true}) [ionqRead, sameGate, upperName] <;> (try simp_all))

/-- what the IonQ writer refuses is exactly what the format cannot express (no silent alteration) -/
theorem ionq_refuses (g : Gate) (h : lookup Tables.ionqGates g.name = none) : ionqWrite g = none := by
  simp [ionqWrite, h]

/-- the ProjectQ name dictionary is invertible on the names the reader accepts -/
theorem projectq_dictionary_invertible :
    ∀ p ∈ Tables.projectqGates, pqReverse p.2 = some p.1 := by decide

/-- **ProjectQ round trip** for every expressible gate -/
theorem projectq_roundtrip (g : Gate) (l : PqLine) (hexp : pqExpressible g = true) (h : pqWrite g = some l) :
    ∃ g', pqRead l = some g' ∧ sameGate g g' = true := by
  obtain ⟨nm, tgt, ctl, par, v⟩ := g
  have ht : ∃ t, tgt = [t] := by
    simp only [pqExpressible, Bool.or_eq_true, Bool.and_eq_true, beq_iff_eq] at hexp
    have hlen : tgt.length = 1 := by rcases hexp with (h1 | h1) | h1 <;> simp_all
    match tgt, hlen with
    | [t], _ => exact ⟨t, rfl⟩
  obtain ⟨t, rfl⟩ := ht
  simp only [pqWrite] at h
  cases hl : lookup Tables.projectqGates nm with
  | none => simp [hl] at h
  | some j =>
    simp only [hl] at h
    have hrow : (nm, j) ∈ Tables.projectqGates := by
      simp only [lookup] at hl
      cases hf : Tables.projectqGates.find? (·.1 == nm) with
      | none => simp [hf] at hl
      | some p =>
        simp [hf] at hl
        have := List.find?_some hf
        have hm := List.mem_of_find?_eq_some hf
        obtain ⟨a, b⟩ := p
        simp at this hl
        subst this; subst hl; exact hm
    simp only [Tables.projectqGates, List.mem_cons, Prod.mk.injEq, List.mem_nil_iff, or_false] at hrow
    rcases hrow with ⟨rfl, rfl⟩ | ⟨rfl, rfl⟩ | ⟨rfl, rfl⟩ | ⟨rfl, rfl⟩ | ⟨rfl, rfl⟩ | ⟨rfl, rfl⟩ | ⟨rfl, rfl⟩ | ⟨rfl, rfl⟩ | ⟨rfl, rfl⟩ |
      ⟨rfl, rfl⟩ | ⟨rfl, rfl⟩ | ⟨rfl, rfl⟩
    all_goals (
      cases ctl <;> simp (config := {decide := true}) [pqExpressible] at hexp <;>
      simp (config := {decide := true}) at h <;>
      (try (rename_i cs; rcases cs with _ | ⟨c, _ | ⟨c2, cs2⟩⟩ <;> simp at hexp h)) <;>
      (try subst h) <;>
      simp (config := {decide := true}) [pqRead, pqReverse, Tables.projectqGates, sameGate] <;> (try simp_all))

/-! ## non-vacuity -/
example : ionqWrite ⟨"CPHASE", [1], some [0, 2], .ang (Ang.piQuarter 3), false⟩ = some ⟨"z", [1], some [0, 2], some (.ang (Ang.piQuarter 3))⟩ := by decide
example : pqWrite ⟨"PHASE", [1], none, .ang (Ang.piQuarter 3), false⟩ = some ⟨"R", some (.ang (Ang.piQuarter 3)), [1]⟩ := by decide

end Tangelo.C17
