import TangeloModel.Export
import TangeloProofs.Props.C11
/-!
# C17 — circuits survive export / import round trips
-/
namespace Tangelo.C17
open Tangelo Export Circuit

/-- **IonQ JSON round trip**: every gate the writer accepts is read back as the same gate (CNOT ≡ CX,
    variational flag aside), whatever its targets, controls and parameter. -/
theorem ionq_roundtrip (g : Gate) (r : IonqRec) (hexp : ionqExpressible g = true) (h : ionqWrite g = some r) :
    ∃ g', ionqRead r = some g' ∧ sameGate g g' = true := by
  obtain ⟨nm, tgt, ctl, par, v⟩ := g
  simp only [ionqWrite] at h
  cases hl : lookup Tables.ionqGates nm with
  | none => simp [hl] at h
  | some j =>
    simp only [hl] at h
    -- the dictionary is a finite table: go through its rows
    have hrow : (nm, j) ∈ Tables.ionqGates := by
      simp only [lookup] at hl
      cases hf : Tables.ionqGates.find? (·.1 == nm) with
      | none => simp [hf] at hl
      | some p =>
        simp [hf] at hl
        have := List.find?_some hf
        have hm := List.mem_of_find?_eq_some hf
        simp at this
        obtain ⟨a, b⟩ := p
        simp at this hl
        subst this; subst hl; exact hm
    simp only [Tables.ionqGates, List.mem_cons, Prod.mk.injEq, List.mem_nil_iff, or_false] at hrow
    rcases hrow with ⟨rfl, rfl⟩ | ⟨rfl, rfl⟩ | ⟨rfl, rfl⟩ | ⟨rfl, rfl⟩ | ⟨rfl, rfl⟩ | ⟨rfl, rfl⟩ | ⟨rfl, rfl⟩ | ⟨rfl, rfl⟩ | ⟨rfl, rfl⟩ |
      ⟨rfl, rfl⟩ | ⟨rfl, rfl⟩ | ⟨rfl, rfl⟩ | ⟨rfl, rfl⟩ | ⟨rfl, rfl⟩ | ⟨rfl, rfl⟩ | ⟨rfl, rfl⟩ | ⟨rfl, rfl⟩ | ⟨rfl, rfl⟩ | ⟨rfl, rfl⟩ | ⟨rfl, rfl⟩
    all_goals (
      simp (config := {decide := true}) only [List.contains_cons, List.contains_nil, Bool.or_false, Bool.false_or, Bool.true_or, Bool.or_true,
        if_true, if_false, beq_self_eq_true, String.reduceBEq, Bool.false_eq_true, reduceIte, Option.some.injEq] at h
      subst h
      cases ctl <;> simp (config := {decide := true}) [ionqExpressible] at hexp <;>
      simp (config := {decide := true}) [ionqRead, sameGate, upperName] <;> (try simp_all))

/-- what the IonQ writer refuses is exactly what the format cannot express (no silent alteration) -/
theorem ionq_refuses (g : Gate) (h : lookup Tables.ionqGates g.name = none) : ionqWrite g = none := by
  simp [ionqWrite, h]

/-- the ProjectQ name dictionary is invertible on the names the reader accepts -/
theorem projectq_dictionary_invertible :
    ∀ p ∈ Tables.projectqGates, pqReverse p.2 = some p.1 := by decide

/-- **ProjectQ round trip** for every expressible gate -/
theorem projectq_roundtrip (g : Gate) (l : PqLine) (hexp : pqExpressible g = true) (h : pqWrite g = some l) :
    ∃ g', pqRead l = some g' ∧ sameGate g g' = true := by
  obtain ⟨nm, tgt, ctl, par, v⟩ := g
  have ht : ∃ t, tgt = [t] := by
    simp only [pqExpressible, Bool.or_eq_true, Bool.and_eq_true, beq_iff_eq] at hexp
    have hlen : tgt.length = 1 := by rcases hexp with (h1 | h1) | h1 <;> simp_all
    match tgt, hlen with
    | [t], _ => exact ⟨t, rfl⟩
  obtain ⟨t, rfl⟩ := ht
  simp only [pqWrite] at h
  cases hl : lookup Tables.projectqGates nm with
  | none => simp [hl] at h
  | some j =>
    simp only [hl] at h
    have hrow : (nm, j) ∈ Tables.projectqGates := by
      simp only [lookup] at hl
      cases hf : Tables.projectqGates.find? (·.1 == nm) with
      | none => simp [hf] at hl
      | some p =>
        simp [hf] at hl
        have := List.find?_some hf
        have hm := List.mem_of_find?_eq_some hf
        obtain ⟨a, b⟩ := p
        simp at this hl
        subst this; subst hl; exact hm
    simp only [Tables.projectqGates, List.mem_cons, Prod.mk.injEq, List.mem_nil_iff, or_false] at hrow
    rcases hrow with ⟨rfl, rfl⟩ | ⟨rfl, rfl⟩ | ⟨rfl, rfl⟩ | ⟨rfl, rfl⟩ | ⟨rfl, rfl⟩ | ⟨rfl, rfl⟩ | ⟨rfl, rfl⟩ | ⟨rfl, rfl⟩ | ⟨rfl, rfl⟩ |
      ⟨rfl, rfl⟩ | ⟨rfl, rfl⟩ | ⟨rfl, rfl⟩
    all_goals (
      cases ctl <;> simp (config := {decide := true}) [pqExpressible] at hexp <;>
      simp (config := {decide := true}) at h <;>
      (try (rename_i cs; rcases cs with _ | ⟨c, _ | ⟨c2, cs2⟩⟩ <;> simp at hexp h)) <;>
      (try subst h) <;>
      simp (config := {decide := true}) [pqRead, pqReverse, Tables.projectqGates, sameGate] <;> (try simp_all))

/-! ## whole circuits -/

theorem sameGate_qubits (g g' : Gate) (h : sameGate g g' = true) : g'.qubits = g.qubits := by
  simp only [sameGate, Bool.and_eq_true, beq_iff_eq] at h
  simp [Gate.qubits, h.1.1.2, h.1.2]

/-- composing per-gate round trips over a list -/
theorem mapOpt_roundtrip {α : Type} (w : Gate → Option α) (r : α → Option Gate) (P : Gate → Prop)
    (hrt : ∀ g x, P g → w g = some x → ∃ g', r x = some g' ∧ sameGate g g' = true)
    (gs : List Gate) (xs : List α) (hP : ∀ g ∈ gs, P g) (h : mapOpt w gs = some xs) :
    ∃ gs', mapOpt r xs = some gs' ∧ sameGates gs gs' = true := by
  induction gs generalizing xs with
  | nil => simp [mapOpt] at h; subst h; exact ⟨[], rfl, rfl⟩
  | cons g gs ih =>
    simp only [mapOpt] at h
    cases hw : w g with
    | none => simp [hw] at h
    | some x =>
      cases hm : mapOpt w gs with
      | none => simp [hw, hm] at h
      | some xs' =>
        simp [hw, hm] at h; subst h
        obtain ⟨g', hr, hs⟩ := hrt g x (hP g (by simp)) hw
        obtain ⟨gs', hr', hs'⟩ := ih xs' (fun a ha => hP a (by simp [ha])) hm
        exact ⟨g' :: gs', by simp [mapOpt, hr, hr'], by simp [sameGates, hs, hs']⟩

theorem forall₂_qubits (gs gs' : List Gate) (h : sameGates gs gs' = true) (n : Nat)
    (hb : ∀ g ∈ gs, ∀ q ∈ g.qubits, q < n) : ∀ g ∈ gs', ∀ q ∈ g.qubits, q < n := by
  induction gs generalizing gs' with
  | nil => cases gs' <;> simp [sameGates] at h ⊢
  | cons a as ih =>
    cases gs' with
    | nil => simp [sameGates] at h
    | cons b bs =>
      simp only [sameGates, Bool.and_eq_true] at h
      intro g hg q hq
      rcases List.mem_cons.mp hg with e | e
      · subst e; rw [sameGate_qubits _ _ h.1] at hq; exact hb _ (by simp) q hq
      · exact ih bs h.2 (fun x hx => hb x (by simp [hx])) g e q hq

/-- gates inside the register are accepted -/
theorem addGates_ok (gs : List Gate) (c : Circuit) (n : Nat) (hf : c.fixed = some n)
    (hb : ∀ g ∈ gs, ∀ q ∈ g.qubits, q < n) : ∃ c', c.addGates gs = .ok c' := by
  induction gs generalizing c with
  | nil => exact ⟨c, rfl⟩
  | cons g gs ih =>
    have hbad : c.addGateBad g = false := by
      simp only [Circuit.addGateBad, hf]
      have : g.qubits.any (fun q => decide (q ≥ n)) = false := by
        rw [List.any_eq_false]; intro q hq; have := hb g (by simp) q hq; simp; omega
      simp [this]
    simp only [Circuit.addGates, Circuit.addGate, hbad]
    exact ih _ (by simp [Circuit.addGateCore, hf]) (fun a ha => hb a (by simp [ha]))

theorem addGates_free_ok (gs : List Gate) (c : Circuit) (hf : c.fixed = Option.none) : ∃ c', c.addGates gs = .ok c' := by
  induction gs generalizing c with
  | nil => exact ⟨c, rfl⟩
  | cons g gs ih =>
    have hbad : c.addGateBad g = false := by simp [Circuit.addGateBad, hf]
    simp only [Circuit.addGates, Circuit.addGate, hbad]
    exact ih _ (by simp [Circuit.addGateCore, hf])

/-- what a reader rebuilds: the gates `gs'` in a register of the written width `w` -/
theorem rebuilt_width (gs' : List Gate) (w : Nat) (hb : ∀ g ∈ gs', ∀ q ∈ g.qubits, q < w) (hw0 : w = 0 → gs' = []) :
    ∃ c', Circuit.ofGates gs' (if w = 0 then Option.none else some w) = .ok c' ∧ c'.width = w ∧ c'.gates = gs' := by
  by_cases h0 : w = 0
  · have := hw0 h0; subst this; subst h0
    exact ⟨Circuit.empty Option.none, rfl, rfl, rfl⟩
  · obtain ⟨n, rfl⟩ : ∃ n, w = n + 1 := ⟨w - 1, by omega⟩
    simp only [h0, if_false]
    obtain ⟨c', hc'⟩ := addGates_ok gs' (Circuit.empty (some (n + 1))) (n + 1) rfl hb
    exact ⟨c', hc', C11.width_ofGates_fixed gs' n c' hc', Circuit.gates_ofGates gs' _ c' hc'⟩

theorem fixed_addGates (gs : List Gate) (c c' : Circuit) (h : c.addGates gs = .ok c') : c'.fixed = c.fixed := by
  induction gs generalizing c with
  | nil => simp [Circuit.addGates] at h; subst h; rfl
  | cons g gs ih =>
    simp only [Circuit.addGates] at h
    split at h
    · cases h
    · rename_i c1 h1
      rw [ih c1 h]
      unfold Circuit.addGate at h1
      split at h1
      · cases h1
      · injection h1 with h1; subst h1; rfl

theorem width_zero_no_gates (c : Circuit) (hc : c.Inv) (hq : ∀ g ∈ c.gates, g.qubits ≠ []) (hw : c.width = 0) : c.gates = [] := by
  cases hg : c.gates with
  | nil => rfl
  | cons g gs =>
    exfalso
    have hne := hq g (by simp [hg])
    obtain ⟨q, hq'⟩ := List.exists_mem_of_ne_nil _ hne
    have := C11.used_lt_width c hc g (by simp [hg]) q hq'
    omega

theorem sameGates_nil_left (gs' : List Gate) (h : sameGates [] gs' = true) : gs' = [] := by
  cases gs' <;> simp [sameGates] at h ⊢

/-- **IonQ JSON, whole circuits**: a circuit of expressible gates is written, and what is read back has the same
    width - idle qubits included - and the same gates. -/
theorem ionq_circuit_roundtrip (c : Circuit) (j : IonqCirc) (hc : c.Inv) (hq : ∀ g ∈ c.gates, g.qubits ≠ [])
    (hexp : ∀ g ∈ c.gates, ionqExpressible g = true) (h : ionqWriteCirc c = some j) :
    ∃ c', ionqReadCirc j = .ok c' ∧ c'.width = c.width ∧ sameGates c.gates c'.gates = true := by
  simp only [ionqWriteCirc, Option.map_eq_some_iff] at h
  obtain ⟨rs, hrs, rfl⟩ := h
  obtain ⟨gs', hr, hs⟩ := mapOpt_roundtrip ionqWrite ionqRead (fun g => ionqExpressible g = true)
    (fun g x hg hx => ionq_roundtrip g x hg hx) c.gates rs hexp hrs
  have hb := forall₂_qubits _ _ hs c.width (C11.used_lt_width c hc)
  obtain ⟨d, hd⟩ := addGates_free_ok gs' (Circuit.empty Option.none) rfl
  have hdg := Circuit.gates_ofGates gs' _ d hd
  have hdw : d.width ≤ c.width := by
    have hfree := C11.width_ofGates_free gs' d hd
    rcases hfree.2 with e | ⟨g, hg, hq⟩
    · omega
    · have := hb g hg _ hq; omega
  have hdf : d.fixed = Option.none := by
    have := (fixed_addGates gs' _ d hd); simpa [Circuit.empty] using this
  have hw0 : c.width = 0 → gs' = [] := by
    intro h0
    have := width_zero_no_gates c hc hq h0
    rw [this] at hs
    exact sameGates_nil_left _ hs
  obtain ⟨c', hc', hwid, hg'⟩ := rebuilt_width gs' c.width hb hw0
  refine ⟨c', ?_, hwid, by rw [hg']; exact hs⟩
  simp only [ionqReadCirc, hr]
  have hd' : Circuit.ofGates gs' Option.none = .ok d := hd
  simp only [hd', Circuit.add, hdf]
  have he : (Circuit.empty (some c.width)).gates ++ d.gates = gs' := by simp [Circuit.empty, hdg]
  rw [he]
  have hwd : (Circuit.empty (some c.width)).width = c.width := by
    cases hcw : c.width with
    | zero => simp [Circuit.empty, Circuit.truthy, Circuit.width]
    | succ n => simp [Circuit.empty, Circuit.truthy, Circuit.width, List.getLast?_range]
  rw [hwd, Nat.max_eq_left hdw]
  by_cases h0 : c.width = 0
  · simp only [h0, if_true] at hc'
    simpa [h0, Circuit.truthy, Circuit.empty] using hc'
  · simp only [h0, if_false] at hc'
    obtain ⟨n, hn⟩ : ∃ n, c.width = n + 1 := ⟨c.width - 1, by omega⟩
    simpa [hn, Circuit.truthy, Circuit.empty] using hc'

theorem mapOpt_mem {α : Type} (w : Gate → Option α) (gs : List Gate) (xs : List α) (h : mapOpt w gs = some xs) :
    ∀ x ∈ xs, ∃ g ∈ gs, w g = some x := by
  induction gs generalizing xs with
  | nil => simp [mapOpt] at h; subst h; simp
  | cons g gs ih =>
    simp only [mapOpt] at h
    cases hw : w g with
    | none => simp [hw] at h
    | some x =>
      cases hm : mapOpt w gs with
      | none => simp [hw, hm] at h
      | some xs' =>
        simp [hw, hm] at h; subst h
        intro y hy
        rcases List.mem_cons.mp hy with e | e
        · subst e; exact ⟨g, by simp, hw⟩
        · obtain ⟨g', hg', hw'⟩ := ih xs' hm y e
          exact ⟨g', by simp [hg'], hw'⟩

theorem pqRead_measure (l : PqLine) (h : l.name = "Measure") : pqRead l = none := by
  simp (config := {decide := true}) [pqRead, h]

theorem maxIdx_range (w : Nat) : (maxIdx (List.range (w + 1))).map (· + 1) = some (w + 1) := by
  have key : ∀ (n k : Nat), maxIdx ((List.range' k (n + 1))) = some (k + n) := by
    intro n
    induction n with
    | zero => intro k; simp [List.range', maxIdx]
    | succ n ih =>
      intro k
      rw [List.range'_succ]
      simp only [maxIdx, ih (k + 1)]
      congr 1; omega
  rw [List.range_eq_range', key w 0]; simp

theorem pqExpressible_qubits (g : Gate) (h : pqExpressible g = true) : g.qubits ≠ [] := by
  have hlen : g.target.length = 1 := by
    simp only [pqExpressible, Bool.or_eq_true, Bool.and_eq_true, beq_iff_eq] at h
    rcases h with (h1 | h1) | h1 <;> simp_all
  intro e
  simp [Gate.qubits] at e
  simp [e.1] at hlen

/-- **ProjectQ text, whole circuits**: the `Allocate` lines carry the width; reading back gives the same
    width - idle qubits included - and the same gates (for circuits of expressible gates; `MEASURE`, which the
    writer emits and the reader drops, is the recorded finding and is excluded by `pqExpressible`). -/
theorem projectq_circuit_roundtrip (c : Circuit) (p : PqProg) (hc : c.Inv)
    (hexp : ∀ g ∈ c.gates, pqExpressible g = true) (h : pqWriteCirc c = some p) :
    ∃ c', pqReadCirc p = .ok c' ∧ c'.width = c.width ∧ sameGates c.gates c'.gates = true := by
  simp only [pqWriteCirc, Option.map_eq_some_iff] at h
  obtain ⟨ls, hls, rfl⟩ := h
  obtain ⟨gs', hr, hs⟩ := mapOpt_roundtrip pqWrite pqRead (fun g => pqExpressible g = true)
    (fun g x hg hx => projectq_roundtrip g x hg hx) c.gates ls hexp hls
  have hb := forall₂_qubits _ _ hs c.width (C11.used_lt_width c hc)
  have hfilter : ls.filter (fun l => l.name != "Measure") = ls := by
    rw [List.filter_eq_self]
    intro l hl
    obtain ⟨g, hg, hw⟩ := mapOpt_mem pqWrite c.gates ls hls l hl
    obtain ⟨g', hg', _⟩ := projectq_roundtrip g l (hexp g hg) hw
    by_cases hn : l.name = "Measure"
    · rw [pqRead_measure l hn] at hg'; cases hg'
    · simpa using hn
  have hw0 : c.width = 0 → gs' = [] := by
    intro h0
    have := width_zero_no_gates c hc (fun g hg => pqExpressible_qubits g (hexp g hg)) h0
    rw [this] at hs
    exact sameGates_nil_left _ hs
  obtain ⟨c', hc', hwid, hg'⟩ := rebuilt_width gs' c.width hb hw0
  refine ⟨c', ?_, hwid, by rw [hg']; exact hs⟩
  simp only [pqReadCirc, hfilter, hr]
  by_cases h0 : c.width = 0
  · simp only [h0, if_true] at hc'
    simpa [h0, maxIdx] using hc'
  · simp only [h0, if_false] at hc'
    obtain ⟨n, hn⟩ : ∃ n, c.width = n + 1 := ⟨c.width - 1, by omega⟩
    rw [hn, maxIdx_range n, ← hn]; exact hc'

/-! ## non-vacuity: a 4-qubit register with an idle last qubit goes through both formats -/
def demoGates : List Gate := [⟨"H", [0], none, .none, false⟩, ⟨"CNOT", [2], some [0], .none, false⟩, ⟨"RZ", [1], none, .ang (Ang.piQuarter 3), false⟩]
example : ∃ c, Circuit.ofGates demoGates (some 4) = .ok c ∧ c.width = 4 ∧
    (∃ j, ionqWriteCirc c = some j ∧ j.qubits = 4 ∧ (ionqReadCirc j).toOption.map (·.width) = some 4) ∧
    (∃ p, pqWriteCirc c = some p ∧ p.allocs = [0, 1, 2, 3] ∧ (pqReadCirc p).toOption.map (·.width) = some 4) := by
  refine ⟨_, rfl, by decide, ⟨_, rfl, by decide, by decide⟩, ⟨_, rfl, by decide, by decide⟩⟩

/-! ## non-vacuity -/
example : ionqWrite ⟨"CPHASE", [1], some [0, 2], .ang (Ang.piQuarter 3), false⟩ = some ⟨"z", [1], some [0, 2], some (.ang (Ang.piQuarter 3))⟩ := by decide
example : pqWrite ⟨"PHASE", [1], none, .ang (Ang.piQuarter 3), false⟩ = some ⟨"R", some (.ang (Ang.piQuarter 3)), [1]⟩ := by decide

end Tangelo.C17
