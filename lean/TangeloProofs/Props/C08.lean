import TangeloModel.VqeMachine
import Mathlib.Algebra.Order.Ring.Defs
import Mathlib.Algebra.Order.Field.Basic
import Mathlib.Tactic.Ring
import Mathlib.Tactic.Linarith
import Mathlib.Algebra.BigOperators.Group.List.Basic
/-!
# C08 — variational solver energies are faithful and variational

Model: `Tangelo.Vqe` (bookkeeping of `VQESolver.energy_estimation` / `operator_expectation`).
The numerical evaluation of an operator on the circuit is the backend's job (C01/C02); here: *which*
operator and *which* parameters every request evaluates, for every request history, the deflation
arithmetic, and the variational bound in the eigenbasis.
-/
namespace Tangelo.C08
open Tangelo Tangelo.Vqe

/-! ## the target operator survives every request -/

theorem body_ham (s : St) (θ : Nat) (f : Fail) : (body s θ f).1.ham = s.ham := by
  cases f <;> rfl

/-- one request never changes the target operator: energy evaluation does not touch it, a symmetry
    request swaps it and restores it, also when writing the parameters or evaluating raises -/
theorem step_ham (s : St) (r : Req) : (step s r).1.ham = s.ham := by
  cases r with
  | energy θ => rfl
  | expect op θ f =>
    simp only [step]
    split
    · rfl
    · simp [restore, swapIn]

/-- every reachable state: after any history the target is the operator the solver was built with -/
theorem run_ham (s : St) (rs : List Req) : (run step s rs).1.ham = s.ham := by
  induction rs generalizing s with
  | nil => rfl
  | cons r rs ih =>
    simp only [run]
    rw [ih, step_ham]

/-- every energy reported along any history is the evaluation of the *original* operator, at the
    parameters of that request -/
theorem energies_use_original (s : St) (rs : List Req) (h : Int) (θ : Nat)
    (hm : Out.energy h θ ∈ (run step s rs).2) : h = s.ham := by
  induction rs generalizing s with
  | nil => simp [run] at hm
  | cons r rs ih =>
    simp only [run, List.mem_cons] at hm
    rcases hm with hm | hm
    · cases r with
      | energy θ' => simp only [step] at hm; injection hm with h1 _
      | expect op θ' f =>
        cases f <;> simp [step, swapIn, body] at hm
    · have := ih (step s r).1 hm
      rw [this, step_ham]

/-- a symmetry request that succeeds evaluates exactly the requested operator at the requested parameters -/
theorem expect_evaluates_request (s : St) (op : Int) (θ : Nat) :
    (step s (.expect op θ .none)).2 = .expect op θ := by
  simp [step, swapIn, body]

/-- … and leaves the requested parameters in the ansatz, the log untouched -/
theorem expect_state (s : St) (op : Int) (θ : Nat) :
    (step s (.expect op θ .none)).1 = { s with params := some θ } := by
  simp [step, swapIn, body, restore]

/-- a request that raises returns no value, whatever the stage -/
theorem failing_request_raises (s : St) (op : Int) (θ : Nat) (f : Fail) (hf : f ≠ .none) :
    (step s (.expect op θ f)).2 = .raised := by
  cases f <;> simp_all [step, swapIn, body]

/-- the energy log grows by exactly the number of energy evaluations -/
theorem log_counts_energies (s : St) (rs : List Req) :
    (run step s rs).1.nLog = s.nLog + (rs.filter (fun r => match r with | .energy _ => true | _ => false)).length := by
  induction rs generalizing s with
  | nil => rfl
  | cons r rs ih =>
    simp only [run]
    rw [ih]
    cases r with
    | energy θ => simp [step]; omega
    | expect op θ f =>
      have : (step s (.expect op θ f)).1.nLog = s.nLog := by
        simp only [step]; split
        · rfl
        · cases f <;> simp [restore, swapIn, body]
      simp [this]

/-- without the `finally` the invariant is false: a request failing after the swap leaves the requested
    operator as the target, and the next "energy" is that of the wrong operator -/
theorem no_restore_counterexample :
    (run stepNoRestore { ham := 0, params := none, nLog := 0 } [.expect 7 0 .eval, .energy 0]).2
      = [.raised, .energy 7 0] := by decide

/-! ## deflation -/

section
variable {R : Type} [CommRing R]

/-- the deflation loop adds exactly `coeff · Σ overlaps` to the plain energy, for any number of circuits -/
theorem deflated_eq (base coeff : R) (ov : List R) : deflated base coeff ov = base + coeff * ov.sum := by
  unfold deflated
  induction ov generalizing base with
  | nil => simp
  | cons o os ih => simp only [List.foldl_cons, List.sum_cons]; rw [ih]; ring

theorem deflated_nil (base coeff : R) : deflated base coeff [] = base := rfl

/-- the excess over the plain energy does not depend on the order of the deflation circuits -/
theorem deflated_perm (base coeff : R) (a b : List R) (h : a.Perm b) : deflated base coeff a = deflated base coeff b := by
  rw [deflated_eq, deflated_eq, h.sum_eq]
end

/-! ## variational bound in the eigenbasis -/

section
variable {K : Type} [Field K] [LinearOrder K] [IsStrictOrderedRing K]

omit [LinearOrder K] [IsStrictOrderedRing K] in
theorem weightedAvg_eq (ps : List (K × K)) : weightedAvg ps = (ps.map (fun pl => pl.1 * pl.2)).sum := by
  unfold weightedAvg
  suffices h : ∀ acc : K, ps.foldl (fun acc pl => acc + pl.1 * pl.2) acc = acc + (ps.map (fun pl => pl.1 * pl.2)).sum by
    simpa using h 0
  induction ps with
  | nil => intro acc; simp
  | cons p ps ih => intro acc; simp only [List.foldl_cons, List.map_cons, List.sum_cons]; rw [ih]; ring

/-- Σ pᵢ λᵢ ≥ m · Σ pᵢ when every weight is non-negative and every eigenvalue is at least m -/
theorem weightedAvg_ge (ps : List (K × K)) (m : K) (hp : ∀ pl ∈ ps, 0 ≤ pl.1) (hl : ∀ pl ∈ ps, m ≤ pl.2) :
    m * (ps.map Prod.fst).sum ≤ weightedAvg ps := by
  rw [weightedAvg_eq]
  induction ps with
  | nil => simp
  | cons p ps ih =>
    simp only [List.map_cons, List.sum_cons]
    have h1 := ih (fun pl h => hp pl (List.mem_cons_of_mem _ h)) (fun pl h => hl pl (List.mem_cons_of_mem _ h))
    have h2 : m * p.1 ≤ p.1 * p.2 := by
      have := mul_le_mul_of_nonneg_left (hl p (List.mem_cons_self)) (hp p (List.mem_cons_self))
      linarith [mul_comm m p.1]
    linarith [mul_add m p.1 (ps.map Prod.fst).sum]

/-- variational principle: for a normalised state (weights summing to 1) the energy is never below the
    lowest eigenvalue -/
theorem variational_bound (ps : List (K × K)) (m : K) (hp : ∀ pl ∈ ps, 0 ≤ pl.1) (hl : ∀ pl ∈ ps, m ≤ pl.2)
    (hn : (ps.map Prod.fst).sum = 1) : m ≤ weightedAvg ps := by
  have := weightedAvg_ge ps m hp hl
  rw [hn, mul_one] at this
  exact this

/-- deflation with a non-negative weight never lowers the energy (overlap probabilities are ≥ 0) -/
theorem deflated_ge (base coeff : K) (ov : List K) (hc : 0 ≤ coeff) (ho : ∀ o ∈ ov, 0 ≤ o) :
    base ≤ deflated base coeff ov := by
  rw [deflated_eq]
  have : 0 ≤ ov.sum := by
    induction ov with
    | nil => simp
    | cons o os ih =>
      simp only [List.sum_cons]
      have := ih (fun x hx => ho x (List.mem_cons_of_mem _ hx))
      linarith [ho o List.mem_cons_self]
  nlinarith [mul_nonneg hc this]
end

/-! ## non-vacuity -/
example : (run step { ham := 3, params := none, nLog := 0 } [.energy 1, .expect 9 2 .none, .expect 9 2 .eval, .energy 2]).2
    = [.energy 3 1, .expect 9 2, .raised, .energy 3 2] := by decide
example : weightedAvg [((1 : ℚ) / 4, -1), (3 / 4, 2)] = 5 / 4 := by norm_num [weightedAvg]
example : deflated (1 : ℚ) 2 [1 / 2, 1 / 4] = 5 / 2 := by norm_num [deflated]

end Tangelo.C08
