import TangeloModel.QubitOp
import TangeloModel.SymOp
import TangeloProofs.CycRing
import Mathlib.Algebra.BigOperators.Group.List.Basic
import Mathlib.Algebra.Ring.Hom.Defs
import Mathlib.Tactic.Ring
import Mathlib.Tactic.NoncommRing
/-!
# C16 — operator arithmetic: the array ("multiform") form agrees with the symbolic Pauli algebra
-/
namespace Tangelo.C16
open Tangelo PauliAlg

/-! ## single-qubit facts (complete finite tables, checked by the kernel) -/

/-- the array rule "code of the product = XOR of the codes" -/
theorem mul1_code_xor : ∀ a < 4, ∀ b < 4, (mul1 a b).1 = a ^^^ b := by decide

/-- the product is associative including its phase -/
theorem mul1_assoc : ∀ a < 4, ∀ b < 4, ∀ c < 4,
    (mul1 (mul1 a b).1 c).1 = (mul1 a (mul1 b c).1).1 ∧
    ((mul1 a b).2 + (mul1 (mul1 a b).1 c).2) % 4 = ((mul1 b c).2 + (mul1 a (mul1 b c).1).2) % 4 := by decide

/-- every Pauli squares to the identity with phase 1 -/
theorem mul1_self : ∀ a < 4, mul1 a a = (0, 0) := by decide

/-- exchanging the factors changes the phase by (−1)^{symplectic form} -/
theorem mul1_comm_phase : ∀ a < 4, ∀ b < 4,
    (mul1 a b).1 = (mul1 b a).1 ∧ ((mul1 a b).2 + 2 * form1 a b) % 4 = (mul1 b a).2 % 4 := by decide

/-! ## lifted to Pauli words (rows of any length) -/

def Valid (r : Row) : Prop := ∀ a ∈ r, a < 4

theorem mulRow_length : ∀ (a b : Row), a.length = b.length → (mulRow a b).1.length = a.length
  | [], [], _ => rfl
  | [], _ :: _, h => by simp at h
  | _ :: _, [], h => by simp at h
  | a :: as, b :: bs, h => by
    simp only [mulRow, List.length_cons]
    have := mulRow_length as bs (by simpa using h)
    omega

/-- the product row is the element-wise XOR, for rows of any length (what `integer ^ other.integer` computes) -/
theorem mulRow_xor : ∀ (a b : Row), Valid a → Valid b → a.length = b.length →
    (mulRow a b).1 = List.zipWith (· ^^^ ·) a b
  | [], [], _, _, _ => rfl
  | [], _ :: _, _, _, h => by simp at h
  | _ :: _, [], _, _, h => by simp at h
  | a :: as, b :: bs, ha, hb, h => by
    simp only [mulRow, List.zipWith_cons_cons]
    rw [mulRow_xor as bs (fun x hx => ha x (by simp [hx])) (fun x hx => hb x (by simp [hx])) (by simpa using h)]
    rw [mul1_code_xor a (ha a (by simp)) b (hb b (by simp))]

/-- **commutation test is exact**: for words of any length, A·B and B·A are the same word and their phases
    differ by (−1)^{Σ(a_x b_z + a_z b_x)}; so `do_commute` (sum even) ⇔ the symbolic products agree -/
theorem mulRow_comm_phase : ∀ (a b : Row), Valid a → Valid b → a.length = b.length →
    (mulRow a b).1 = (mulRow b a).1 ∧ ((mulRow a b).2 + 2 * formRow a b) % 4 = (mulRow b a).2 % 4
  | [], [], _, _, _ => by simp [mulRow, formRow]
  | [], _ :: _, _, _, h => by simp at h
  | _ :: _, [], _, _, h => by simp at h
  | a :: as, b :: bs, ha, hb, h => by
    obtain ⟨ih1, ih2⟩ := mulRow_comm_phase as bs (fun x hx => ha x (by simp [hx])) (fun x hx => hb x (by simp [hx])) (by simpa using h)
    obtain ⟨h1, h2⟩ := mul1_comm_phase a (ha a (by simp)) b (hb b (by simp))
    simp only [mulRow, formRow]
    refine ⟨by rw [h1, ih1], ?_⟩
    have hf1 : form1 a b < 2 := Nat.mod_lt _ (by decide)
    have hf2 : formRow as bs < 2 := by
      cases as <;> cases bs <;> simp [formRow] <;> omega
    omega

theorem commuteRow_iff_same_phase (a b : Row) (ha : Valid a) (hb : Valid b) (h : a.length = b.length) :
    commuteRow a b = true ↔ (mulRow a b).2 % 4 = (mulRow b a).2 % 4 := by
  obtain ⟨_, h2⟩ := mulRow_comm_phase a b ha hb h
  have hf : formRow a b < 2 := by
    cases a <;> cases b <;> simp [formRow] <;> omega
  simp only [commuteRow, beq_iff_eq]
  omega

/-- the overall answer is "every term of A commutes with every term of B" -/
theorem doCommute_iff (A B : List Row) : doCommute A B = true ↔ ∀ a ∈ A, ∀ b ∈ B, commuteRow a b = true := by
  simp [doCommute, doCommuteResolved, List.all_eq_true]

/-! ## non-vacuity -/
example : mulRow [2, 3, 0] [3, 3, 1] = ([1, 0, 1], 1) := by decide
example : doCommute [[2, 0], [0, 1]] [[1, 0]] = false := by decide

/-! ## the symbolic store: arithmetic is correct under every representation

`eval ι γ ts = Σ γ(c_k) · ι(k)` for a ring homomorphism `γ` of the coefficients into a ring `T` with central
image and any interpretation `ι` of the keys.  Addition, scaling and multiplication of term lists are proved to be
addition, scaling and multiplication of the values — so the canonical-form bookkeeping (sorted keys, merged
coefficients, dropped zeros) never changes what the operator is. -/
section symbolic
open SymOp
variable {T : Type} [Ring T]

def evalT (ι : Key → T) (γ : Cyc →+* T) (ts : List (Key × Cyc)) : T := (ts.map (fun kc => γ kc.2 * ι kc.1)).sum

theorem isZero_iff (c : Cyc) : c.isZero = true ↔ c = 0 := by
  simp [Cyc.isZero]

theorem evalT_addTerm (ι : Key → T) (γ : Cyc →+* T) (ts : List (Key × Cyc)) (k : Key) (c : Cyc) :
    evalT ι γ (addTerm ts k c) = evalT ι γ ts + γ c * ι k := by
  induction ts with
  | nil =>
    simp only [addTerm]
    split
    · rename_i h; rw [(isZero_iff c).mp h]; simp [evalT]
    · simp [evalT]
  | cons kc rest ih =>
    obtain ⟨k', c'⟩ := kc
    simp only [addTerm]
    split
    · rename_i hk
      have hk' : k' = k := by simpa using hk
      subst hk'
      split
      · rename_i hz
        have : c' + c = 0 := (isZero_iff _).mp hz
        have h0 : γ c' + γ c = 0 := by rw [← map_add, this, map_zero]
        simp only [evalT, List.map_cons, List.sum_cons]
        have : γ c' * ι k' + γ c * ι k' = 0 := by rw [← add_mul, h0, zero_mul]
        calc (List.map (fun kc => γ kc.2 * ι kc.1) rest).sum
            = 0 + (List.map (fun kc => γ kc.2 * ι kc.1) rest).sum := by rw [zero_add]
          _ = (γ c' * ι k' + γ c * ι k') + (List.map (fun kc => γ kc.2 * ι kc.1) rest).sum := by rw [this]
          _ = _ := by abel
      · simp only [evalT, List.map_cons, List.sum_cons, map_add, add_mul]; abel
    · split
      · split
        · rename_i h; rw [(isZero_iff c).mp h]; simp
        · simp only [evalT, List.map_cons, List.sum_cons]; abel
      · simp only [evalT, List.map_cons, List.sum_cons] at ih ⊢
        rw [ih]; abel

theorem evalT_addTerms (ι : Key → T) (γ : Cyc →+* T) (a b : List (Key × Cyc)) :
    evalT ι γ (addTerms a b) = evalT ι γ a + evalT ι γ b := by
  unfold addTerms
  induction b generalizing a with
  | nil => simp [evalT]
  | cons kc rest ih =>
    simp only [List.foldl_cons]
    rw [ih, evalT_addTerm]
    simp only [evalT, List.map_cons, List.sum_cons]; abel

theorem evalT_scale (ι : Key → T) (γ : Cyc →+* T) (z : Cyc) (ts : List (Key × Cyc)) :
    evalT ι γ (scale z ts) = γ z * evalT ι γ ts := by
  unfold scale
  split
  · rename_i h; rw [(isZero_iff z).mp h]; simp [evalT]
  · induction ts with
    | nil => simp [evalT]
    | cons kc rest ih =>
      simp only [evalT, List.map_cons, List.sum_cons, List.map_map] at ih ⊢
      rw [mul_add, ← ih, map_mul, mul_assoc]

/-- **multiplication**: if the interpretation respects the product of single keys (concatenation of ladder
    strings; the Pauli table with its phase) and coefficients are central, the product of two operators
    evaluates to the product of their values -/
theorem evalT_mulTerms (kind : OpKind) (ι : Key → T) (γ : Cyc →+* T) (hc : ∀ c t, γ c * t = t * γ c)
    (hι : ∀ ka kb, γ (mulKey kind ka kb).2 * ι (mulKey kind ka kb).1 = ι ka * ι kb) (a b : List (Key × Cyc)) :
    evalT ι γ (mulTerms kind a b) = evalT ι γ a * evalT ι γ b := by
  unfold mulTerms
  have inner : ∀ (ka : Key) (ca : Cyc) (acc : List (Key × Cyc)),
      evalT ι γ (b.foldl (fun acc2 kcb =>
        addTerm acc2 (mulKey kind ka kcb.1).1 (ca * kcb.2 * (mulKey kind ka kcb.1).2)) acc)
        = evalT ι γ acc + (γ ca * ι ka) * evalT ι γ b := by
    intro ka ca
    induction b with
    | nil => intro acc; simp [evalT]
    | cons kcb rest ih =>
      intro acc
      simp only [List.foldl_cons]
      rw [ih, evalT_addTerm]
      simp only [evalT, List.map_cons, List.sum_cons, map_mul]
      have := hι ka kcb.1
      have e : γ ca * γ kcb.2 * γ (mulKey kind ka kcb.1).2 * ι (mulKey kind ka kcb.1).1 = γ ca * ι ka * (γ kcb.2 * ι kcb.1) := by
        calc γ ca * γ kcb.2 * γ (mulKey kind ka kcb.1).2 * ι (mulKey kind ka kcb.1).1
            = γ ca * γ kcb.2 * (γ (mulKey kind ka kcb.1).2 * ι (mulKey kind ka kcb.1).1) := by noncomm_ring
          _ = γ ca * γ kcb.2 * (ι ka * ι kcb.1) := by rw [this]
          _ = γ ca * (γ kcb.2 * ι ka) * ι kcb.1 := by noncomm_ring
          _ = γ ca * (ι ka * γ kcb.2) * ι kcb.1 := by rw [hc kcb.2 (ι ka)]
          _ = _ := by noncomm_ring
      rw [e]; noncomm_ring
  suffices h : ∀ acc, evalT ι γ (a.foldl (fun acc kca => b.foldl (fun acc2 kcb =>
      addTerm acc2 (mulKey kind kca.1 kcb.1).1 (kca.2 * kcb.2 * (mulKey kind kca.1 kcb.1).2)) acc) acc)
      = evalT ι γ acc + evalT ι γ a * evalT ι γ b by
    have := h []
    simpa [evalT] using this
  induction a with
  | nil => intro acc; simp [evalT]
  | cons kca rest ih =>
    intro acc
    simp only [List.foldl_cons]
    rw [ih, inner]
    simp only [evalT, List.map_cons, List.sum_cons]
    noncomm_ring

/-- the fermionic key product (concatenation, phase 1) is respected by every multiplicative interpretation of
    ladder strings -/
theorem fermion_key_respected (ι : Key → T) (γ : Cyc →+* T) (hm : ∀ a b, ι (a ++ b) = ι a * ι b) (ka kb : Key) :
    γ (mulKey .fermion ka kb).2 * ι (mulKey .fermion ka kb).1 = ι ka * ι kb := by
  simp [mulKey, hm]

end symbolic

end Tangelo.C16
