import TangeloModel.QubitOp
/-!
# C16 — operator arithmetic: the array ("multiform") form agrees with the symbolic Pauli algebra
-/
namespace Tangelo.C16
open Tangelo PauliAlg

/-! ## single-qubit facts (complete finite tables, checked by the kernel) -/

/-- the array rule "code of the product = XOR of the codes" -/
theorem mul1_code_xor : ∀ a < 4, ∀ b < 4, (mul1 a b).1 = a ^^^ b := by decide

/-- the product is associative including its phase -/
theorem mul1_assoc : ∀ a < 4, ∀ b < 4, ∀ c < 4,
    (mul1 (mul1 a b).1 c).1 = (mul1 a (mul1 b c).1).1 ∧
    ((mul1 a b).2 + (mul1 (mul1 a b).1 c).2) % 4 = ((mul1 b c).2 + (mul1 a (mul1 b c).1).2) % 4 := by decide

/-- every Pauli squares to the identity with phase 1 -/
theorem mul1_self : ∀ a < 4, mul1 a a = (0, 0) := by decide

/-- exchanging the factors changes the phase by (−1)^{symplectic form} -/
theorem mul1_comm_phase : ∀ a < 4, ∀ b < 4,
    (mul1 a b).1 = (mul1 b a).1 ∧ ((mul1 a b).2 + 2 * form1 a b) % 4 = (mul1 b a).2 % 4 := by decide

/-! ## lifted to Pauli words (rows of any length) -/

def Valid (r : Row) : Prop := ∀ a ∈ r, a < 4

theorem mulRow_length : ∀ (a b : Row), a.length = b.length → (mulRow a b).1.length = a.length
  | [], [], _ => rfl
  | [], _ :: _, h => by simp at h
  | _ :: _, [], h => by simp at h
  | a :: as, b :: bs, h => by
    simp only [mulRow, List.length_cons]
    have := mulRow_length as bs (by simpa using h)
    omega

/-- the product row is the element-wise XOR, for rows of any length (what `integer ^ other.integer` computes) -/
theorem mulRow_xor : ∀ (a b : Row), Valid a → Valid b → a.length = b.length →
    (mulRow a b).1 = List.zipWith (· ^^^ ·) a b
  | [], [], _, _, _ => rfl
  | [], _ :: _, _, _, h => by simp at h
  | _ :: _, [], _, _, h => by simp at h
  | a :: as, b :: bs, ha, hb, h => by
    simp only [mulRow, List.zipWith_cons_cons]
    rw [mulRow_xor as bs (fun x hx => ha x (by simp [hx])) (fun x hx => hb x (by simp [hx])) (by simpa using h)]
    rw [mul1_code_xor a (ha a (by simp)) b (hb b (by simp))]

/-- **commutation test is exact**: for words of any length, A·B and B·A are the same word and their phases
    differ by (−1)^{Σ(a_x b_z + a_z b_x)}; so `do_commute` (sum even) ⇔ the symbolic products agree -/
theorem mulRow_comm_phase : ∀ (a b : Row), Valid a → Valid b → a.length = b.length →
    (mulRow a b).1 = (mulRow b a).1 ∧ ((mulRow a b).2 + 2 * formRow a b) % 4 = (mulRow b a).2 % 4
  | [], [], _, _, _ => by simp [mulRow, formRow]
  | [], _ :: _, _, _, h => by simp at h
  | _ :: _, [], _, _, h => by simp at h
  | a :: as, b :: bs, ha, hb, h => by
    obtain ⟨ih1, ih2⟩ := mulRow_comm_phase as bs (fun x hx => ha x (by simp [hx])) (fun x hx => hb x (by simp [hx])) (by simpa using h)
    obtain ⟨h1, h2⟩ := mul1_comm_phase a (ha a (by simp)) b (hb b (by simp))
    simp only [mulRow, formRow]
    refine ⟨by rw [h1, ih1], ?_⟩
    have hf1 : form1 a b < 2 := Nat.mod_lt _ (by decide)
    have hf2 : formRow as bs < 2 := by
      cases as <;> cases bs <;> simp [formRow] <;> omega
    omega

theorem commuteRow_iff_same_phase (a b : Row) (ha : Valid a) (hb : Valid b) (h : a.length = b.length) :
    commuteRow a b = true ↔ (mulRow a b).2 % 4 = (mulRow b a).2 % 4 := by
  obtain ⟨_, h2⟩ := mulRow_comm_phase a b ha hb h
  have hf : formRow a b < 2 := by
    cases a <;> cases b <;> simp [formRow] <;> omega
  simp only [commuteRow, beq_iff_eq]
  omega

/-- the overall answer is "every term of A commutes with every term of B" -/
theorem doCommute_iff (A B : List Row) : doCommute A B = true ↔ ∀ a ∈ A, ∀ b ∈ B, commuteRow a b = true := by
  simp [doCommute, doCommuteResolved, List.all_eq_true]

/-! ## non-vacuity -/
example : mulRow [2, 3, 0] [3, 3, 1] = ([1, 0, 1], 1) := by decide
example : doCommute [[2, 0], [0, 1]] [[1, 0]] = false := by decide

end Tangelo.C16
