import TangeloModel.AnsatzUpdate
import TangeloProofs.Props.C06
import Mathlib.Data.List.Basic
import Mathlib.Data.List.Nodup
/-!
# C07 — ansatz parameter updates are equivalent to rebuilding the circuit (bookkeeping core)
-/
namespace Tangelo.C07
open Tangelo.AnsatzUpdate
variable {W A P : Type} [DecidableEq W]

/-- reading position `j` after a series of assignments with pairwise distinct target positions -/
theorem getElem?_foldl_set (as : List (Nat × P)) (ps : List P) (hnd : (as.map (·.1)).Nodup) (j : Nat) :
    (as.foldl (fun p (ia : Nat × P) => p.set ia.1 ia.2) ps)[j]? =
      (match as.find? (fun ia => ia.1 == j) with
       | some ia => if j < ps.length then some ia.2 else none
       | none => ps[j]?) := by
  induction as generalizing ps with
  | nil => simp
  | cons ia rest ih =>
    simp only [List.foldl_cons, List.map_cons, List.nodup_cons] at hnd ⊢
    rw [ih (ps.set ia.1 ia.2) hnd.2]
    simp only [List.find?_cons, List.length_set]
    by_cases h : ia.1 = j
    · subst h
      have hnone : rest.find? (fun x => x.1 == ia.1) = none := by
        rw [List.find?_eq_none]
        intro x hx hxe
        have : x.1 = ia.1 := by simpa using hxe
        exact hnd.1 (List.mem_map.mpr ⟨x, hx, this⟩)
      simp only [hnone, beq_self_eq_true]
      rw [List.getElem?_set]
      simp
    · have hb : (ia.1 == j) = false := by simpa using h
      simp only [hb]
      cases hf : rest.find? (fun x => x.1 == j) with
      | some x => simp
      | none => simp [List.getElem?_set, h]

/-- **one layer**: if the new generator output has exactly the words of the block (each once), updating in place
    the block that a build laid out at offset `off` gives exactly what a fresh build of that layer writes
    (for any surrounding gates `pre`, `post`, any old coefficients, any iteration order of the dictionary) -/
theorem updateBlock_eq_build (ang : A → P) (dflt : A) (order : List W) (pre post : List P) (coef0 : W → A) (gen : List (W × A))
    (hord : order.Nodup) (hgen : (gen.map (·.1)).Nodup) (hsub : ∀ w ∈ gen.map (·.1), w ∈ order) (hsup : ∀ w ∈ order, w ∈ gen.map (·.1)) :
    updateBlock ang order pre.length (pre ++ buildBlock ang order coef0 ++ post) gen =
      pre ++ buildBlock ang order (coefOf dflt gen) ++ post := by
  apply List.ext_getElem?
  intro j
  have hidx : ((gen.map (fun (wc : W × A) => (pre.length + order.idxOf wc.1, ang wc.2))).map (·.1)).Nodup := by
    rw [List.map_map]
    have : (fun (wc : W × A) => pre.length + order.idxOf wc.1) = (fun w => pre.length + order.idxOf w) ∘ (·.1) := rfl
    simp only [Function.comp_def]
    rw [this, ← List.map_map]
    apply List.Nodup.map_on _ hgen
    intro a ha b hb hab
    have h1 := hsub a ha
    have : order.idxOf a = order.idxOf b := by omega
    exact (List.idxOf_inj h1).mp this
  have hfold : updateBlock ang order pre.length (pre ++ buildBlock ang order coef0 ++ post) gen =
      (gen.map (fun (wc : W × A) => (pre.length + order.idxOf wc.1, ang wc.2))).foldl (fun p (ia : Nat × P) => p.set ia.1 ia.2)
        (pre ++ buildBlock ang order coef0 ++ post) := by
    simp [updateBlock, List.foldl_map]
  rw [hfold, getElem?_foldl_set _ _ hidx j]
  simp only [List.find?_map, Function.comp_def]
  by_cases hj1 : j < pre.length
  · -- before the block: no assignment targets j
    have hnone : gen.find? (fun (wc : W × A) => pre.length + order.idxOf wc.1 == j) = none := by
      rw [List.find?_eq_none]; intro x _ hx; have : pre.length + order.idxOf x.1 = j := by simpa using hx
      omega
    simp only [hnone, Option.map_none]
    rw [List.append_assoc, List.append_assoc, List.getElem?_append_left hj1, List.getElem?_append_left hj1]
  · by_cases hj2 : j < pre.length + order.length
    · -- inside the block: position j holds the word order[j - pre.length]
      have hk : j - pre.length < order.length := by omega
      let w := order[j - pre.length]
      have hw : w ∈ order := List.getElem_mem hk
      have hwi : order.idxOf w = j - pre.length := List.Nodup.idxOf_getElem hord _ hk
      obtain ⟨wc, hwc, hwc1⟩ := List.mem_map.mp (hsup w hw)
      -- the assignment found for j is the one of the word w
      have hfind : ∃ x, gen.find? (fun (wc : W × A) => pre.length + order.idxOf wc.1 == j) = some x ∧ x.1 = w := by
        cases hf : gen.find? (fun (wc : W × A) => pre.length + order.idxOf wc.1 == j) with
        | none =>
          rw [List.find?_eq_none] at hf
          have := hf wc hwc
          simp [hwc1, hwi] at this
          omega
        | some x =>
          refine ⟨x, rfl, ?_⟩
          have hx := List.find?_some hf
          have hxm := List.mem_of_find?_eq_some hf
          have h1 : pre.length + order.idxOf x.1 = j := by simpa using hx
          have h2 : order.idxOf x.1 = order.idxOf w := by omega
          exact (List.idxOf_inj (hsub x.1 (List.mem_map.mpr ⟨x, hxm, rfl⟩))).mp h2
      obtain ⟨x, hx, hxw⟩ := hfind
      have hlen : j < (pre ++ buildBlock ang order coef0 ++ post).length := by simp [buildBlock]; omega
      simp only [hx, Option.map_some, hlen, if_true]
      -- right-hand side at j
      rw [List.append_assoc, List.getElem?_append_right (by omega), List.getElem?_append_left (by simpa [buildBlock] using hk)]
      simp only [buildBlock, List.getElem?_map, List.getElem?_eq_getElem hk, Option.map_some]
      congr 2
      -- coefOf finds the same entry (keys are unique)
      have hcoef : coefOf dflt gen w = x.2 := by
        unfold coefOf
        have hxm := List.mem_of_find?_eq_some hx
        cases hf2 : gen.find? (fun wc => wc.1 == w) with
        | none =>
          rw [List.find?_eq_none] at hf2
          exact absurd (by simpa using hxw) (by simpa using hf2 x hxm)
        | some y =>
          have hy := List.find?_some hf2
          have hym := List.mem_of_find?_eq_some hf2
          have hy1 : y.1 = w := by simpa using hy
          have : y = x := by
            have hinj := List.inj_on_of_nodup_map hgen
            exact hinj hym hxm (by rw [hy1, hxw])
          simp [this]
      exact hcoef.symm
    · -- after the block
      have hnone : gen.find? (fun (wc : W × A) => pre.length + order.idxOf wc.1 == j) = none := by
        rw [List.find?_eq_none]; intro x hxm hx
        have h1 : pre.length + order.idxOf x.1 = j := by simpa using hx
        have := List.idxOf_lt_length_iff.mpr (hsub x.1 (List.mem_map.mpr ⟨x, hxm, rfl⟩))
        omega
      simp only [hnone, Option.map_none]
      have e1 : (pre ++ buildBlock ang order coef0).length = pre.length + order.length := by simp [buildBlock]
      have e2 : (pre ++ buildBlock ang order (coefOf dflt gen)).length = pre.length + order.length := by simp [buildBlock]
      rw [List.getElem?_append_right (by omega), List.getElem?_append_right (by omega), e1, e2]

/-- the cumulative offsets address consecutive, disjoint blocks: offset of layer k+1 = offset of layer k + size of layer k -/
theorem cumOffsets_step (sizes : List Nat) (k : Nat) (hk : k + 1 < sizes.length) :
    (cumOffsets sizes)[k + 1]! = (cumOffsets sizes)[k]! + sizes[k]! := by
  have h1 : k + 1 < (cumOffsets sizes).length := by simp [cumOffsets]; omega
  have h2 : k < (cumOffsets sizes).length := by omega
  have h3 : k < sizes.length := by omega
  have hr1 : k + 1 < (List.range sizes.length).length := by simpa using hk
  have hr2 : k < (List.range sizes.length).length := by simpa using h3
  rw [getElem!_pos (cumOffsets sizes) (k + 1) h1, getElem!_pos (cumOffsets sizes) k h2, getElem!_pos sizes k h3]
  simp only [cumOffsets, List.getElem_map, List.getElem_range]
  rw [List.take_succ_eq_append_getElem h3, List.sum_append]
  simp

/-- the offsets the code used before the repair are wrong as soon as there are three layers: with layer sizes
    (2, 3, 2) the third layer would start at position 3 instead of 5 (it overlaps the second one) -/
theorem buggy_offsets_counterexample : buggyOffsets [2, 3, 2] = [0, 2, 3] ∧ cumOffsets [2, 3, 2] = [0, 2, 5] := by decide

/-- for one or two layers the two rules coincide (why the defect went unnoticed for k ≤ 2) -/
theorem buggy_offsets_ok_upto_two (a b : Nat) : buggyOffsets [a] = cumOffsets [a] ∧ buggyOffsets [a, b] = cumOffsets [a, b] := by
  simp [buggyOffsets, cumOffsets, List.range_succ]

/-- **every history**: after any sequence of updates whose generator outputs carry the key set of the build,
    the parameters of the block are those of a fresh build with the LAST output (and untouched if there was none) -/
theorem history_eq_build (ang : A → P) (dflt : A) (order : List W) (pre post : List P) (hord : order.Nodup)
    (gens : List (List (W × A)))
    (hg : ∀ gen ∈ gens, (gen.map (·.1)).Nodup ∧ (∀ w ∈ gen.map (·.1), w ∈ order) ∧ (∀ w ∈ order, w ∈ gen.map (·.1)))
    (coef0 : W → A) :
    gens.foldl (fun ps gen => updateBlock ang order pre.length ps gen) (pre ++ buildBlock ang order coef0 ++ post)
      = pre ++ buildBlock ang order (match gens.getLast? with | some g => coefOf dflt g | none => coef0) ++ post := by
  induction gens generalizing coef0 with
  | nil => rfl
  | cons g gs ih =>
    obtain ⟨h1, h2, h3⟩ := hg g List.mem_cons_self
    simp only [List.foldl_cons]
    rw [updateBlock_eq_build ang dflt order pre post coef0 g hord h1 h2 h3]
    rw [ih (fun gen h => hg gen (List.mem_cons_of_mem _ h)) (coefOf dflt g)]
    cases gs with
    | nil => rfl
    | cons g' gs' =>
      have hne : (g' :: gs').getLast? = some ((g' :: gs').getLast (List.cons_ne_nil _ _)) := List.getLast?_eq_some_getLast _
      simp [List.getLast?_cons_cons, hne]


/-! ## histories of `set_var_params` and `update_var_params` on the ansatz object -/
section object
variable {V C : Type}

/-- **every history of sets and updates**: if the in-place write turns the circuit of any parameter vector into the
    circuit of the new one (for the block layout this is `history_eq_build`), then after any sequence of
    `set_var_params` / `update_var_params` calls the circuit is the freshly built circuit of the LAST UPDATE's vector,
    whatever was recorded by `set_var_params` in between. -/
theorem run_circ_eq_build (build : V → C) (write : C → V → C) (hw : ∀ θ' θ, write (build θ') θ = build θ)
    (cs : List (Call V)) (θ0 v0 : V) :
    (Obj.run write ⟨v0, build θ0⟩ cs).circ = build (lastUpdate θ0 cs) := by
  induction cs generalizing θ0 v0 with
  | nil => rfl
  | cons c cs ih =>
    cases c with
    | set θ => exact ih θ0 θ
    | update θ =>
      show (Obj.run write ⟨θ, write (build θ0) θ⟩ cs).circ = _
      rw [hw]; exact ih θ θ

/-- in particular: directly after `update_var_params θ` the circuit is `build θ` and the recorded vector is `θ` -/
theorem run_update_last (build : V → C) (write : C → V → C) (hw : ∀ θ' θ, write (build θ') θ = build θ)
    (cs : List (Call V)) (θ0 v0 θ : V) :
    (Obj.run write ⟨v0, build θ0⟩ (cs ++ [.update θ])).circ = build θ ∧
    (Obj.run write ⟨v0, build θ0⟩ (cs ++ [.update θ])).var = θ := by
  constructor
  · rw [run_circ_eq_build build write hw]
    have : ∀ (cs : List (Call V)) (a : V), lastUpdate a (cs ++ [.update θ]) = θ := by
      intro cs; induction cs with
      | nil => intro a; rfl
      | cons c cs ih => intro a; cases c <;> exact ih _
    rw [this]
  · simp [Obj.run, List.foldl_append, Obj.step]

/-- the shortcut "skip the update when the vector equals the recorded one" is NOT sound: `set_var_params 1` followed
    by `update_var_params 1` leaves the circuit of the old vector in place -/
theorem skip_shortcut_counterexample :
    (([Call.set 1, Call.update 1].foldl (Obj.stepSkip (fun _ θ => θ)) (⟨0, 0⟩ : Obj Nat Nat)).circ = 0) ∧
    ((Obj.run (fun _ θ => θ) (⟨0, 0⟩ : Obj Nat Nat) [Call.set 1, Call.update 1]).circ = 1) := by decide

example : (Obj.run (fun _ θ => θ) (⟨0, 0⟩ : Obj Nat Nat) [.update 3, .set 5, .update 4, .set 9]).circ = 4 := by decide

end object

/-! ## non-vacuity -/
example : updateBlock (fun (c : Int) => 2 * c) ["XY", "YX", "ZZ"] 1 [7, 2, 4, 6, 9] [("ZZ", 5), ("XY", -1), ("YX", 0)] = [7, -2, 0, 10, 9] := by decide
example : buildBlock (fun (c : Int) => 2 * c) ["XY", "YX", "ZZ"] (coefOf 0 [("ZZ", 5), ("XY", -1), ("YX", 0)]) = [-2, 0, 10] := by decide

end Tangelo.C07

/-! ## all-zero parameters prepare the reference state (excitation-style ansaetze) -/
namespace Tangelo.C07
open Tangelo PauliExp C06
variable {S : Type} [CommRing S] [StarRing S]

/-- **one excitation block at parameter zero is the identity**: the gate list emitted for `exp(-i·0·P)` acts as the
    identity on every state - for every word, in both branches of the angle rule (`0` and `4π`) -/
theorem zero_coefficient_block (k : Consts S) (L : k.Laws) (hp : HalfPi k) (w : PWord) (nonneg var : Bool)
    (hne : w ≠ []) (hnd : (w.map (·.1)).Nodup) :
    ∃ gs ops, gates w 0 nonneg var none = some gs ∧ gatesToOps gs = some ops ∧ ∀ ψ : State S, semOps k ops ψ = ψ := by
  obtain ⟨gs, ops, h1, h2, h3⟩ := exp_pauliword_general k L hp w 0 nonneg var none hne hnd (by simp)
  refine ⟨gs, ops, h1, h2, ?_⟩
  intro ψ
  funext x
  rw [h3 ψ x]
  have h0 : (0 : Ang) + 0 = 0 := by decide
  simp [h0, L.cos_zero, L.misin_zero]

/-- blocks emitted one after the other -/
def blocks : List (PWord × Bool × Bool) → Option (List Gate)
  | [] => some []
  | (w, nonneg, var) :: rest => match gates w 0 nonneg var none, blocks rest with
    | some g, some gs => some (g ++ gs)
    | _, _ => none

/-- **all-zero parameters prepare exactly the reference state**: an ansatz circuit that is a reference-state
    preparation followed by any number of Pauli-word exponential blocks (UCCSD, UpCCGSD, QCC, ILC, VSQS, QMF-free part)
    prepares, with every coefficient equal to zero, the state the reference preparation alone prepares. -/
theorem all_zero_parameters_reference (k : Consts S) (L : k.Laws) (hp : HalfPi k) (ref : List Op)
    (ws : List (PWord × Bool × Bool)) (hws : ∀ b ∈ ws, b.1 ≠ [] ∧ (b.1.map (·.1)).Nodup) :
    ∃ gs ops, blocks ws = some gs ∧ gatesToOps gs = some ops ∧
      ∀ ψ : State S, semOps k (ref ++ ops) ψ = semOps k ref ψ := by
  have key : ∃ gs ops, blocks ws = some gs ∧ gatesToOps gs = some ops ∧ ∀ ψ : State S, semOps k ops ψ = ψ := by
    induction ws with
    | nil => exact ⟨[], [], rfl, rfl, fun ψ => rfl⟩
    | cons b rest ih =>
      obtain ⟨w, nonneg, var⟩ := b
      obtain ⟨gs, ops, hg, ho, hs⟩ := ih (fun b hb => hws b (by simp [hb]))
      have hb := hws (w, nonneg, var) (by simp)
      obtain ⟨g1, o1, hg1, ho1, hs1⟩ := zero_coefficient_block k L hp w nonneg var hb.1 hb.2
      refine ⟨g1 ++ gs, o1 ++ ops, by simp [blocks, hg1, hg], gatesToOps_append' _ _ _ _ ho1 ho, ?_⟩
      intro ψ
      rw [semOps_append, hs1, hs]
  obtain ⟨gs, ops, h1, h2, h3⟩ := key
  exact ⟨gs, ops, h1, h2, fun ψ => by rw [semOps_append, h3]⟩

/-- the same for the exact amplitudes the model driver computes -/
theorem all_zero_parameters_reference_exec (ref : List Op)
    (ws : List (PWord × Bool × Bool)) (hws : ∀ b ∈ ws, b.1 ≠ [] ∧ (b.1.map (·.1)).Nodup) :
    ∃ gs ops, blocks ws = some gs ∧ gatesToOps gs = some ops ∧
      ∀ ψ : State Cyc, semOps cycConsts (ref ++ ops) ψ = semOps cycConsts ref ψ :=
  all_zero_parameters_reference cycConsts cycConsts_laws halfPi_exec ref ws hws

/-- non-vacuity: two blocks (a double-excitation word and a single-excitation word, one in each angle branch) -/
example : blocks [([(0, .X), (1, .Y), (2, .X), (3, .X)], true, true), ([(0, .Y), (2, .X)], false, true)] ≠ none := by decide
end Tangelo.C07
