import TangeloModel.Decomp
import Mathlib.Algebra.BigOperators.Group.Finset.Basic
import Mathlib.Algebra.BigOperators.Group.List.Basic
import Mathlib.Data.Finset.Powerset
import Mathlib.Algebra.Field.Basic
import Mathlib.Tactic.Ring
import Mathlib.Tactic.Linarith
/-!
# C15 — problem-decomposition energies satisfy their defining identities
-/
namespace Tangelo.C15
open Tangelo.Decomp

/-! ## ONIOM -/
section oniom
variable {R : Type} [CommRing R]

theorem oniomTotal_eq (fs : List (Frag R)) : oniomTotal fs = (fs.map Frag.energy).sum := by
  unfold oniomTotal
  suffices h : ∀ a : R, fs.foldl (fun acc f => acc + f.energy) a = a + (fs.map Frag.energy).sum by simpa using h 0
  induction fs with
  | nil => intro a; simp
  | cons f fs ih => intro a; simp only [List.foldl_cons, List.map_cons, List.sum_cons]; rw [ih]; ring

/-- a model fragment treated at identical high and low levels contributes nothing -/
theorem model_same_level (e : R) : (Frag.mk e (some e)).energy = 0 := by simp [Frag.energy]

/-- **identical levels**: system + any number of models each at identical high and low level ⇒ E_low(system),
    wherever the system fragment stands in the list -/
theorem oniom_same_levels (eSys : R) (pre post : List R) :
    oniomTotal (pre.map (fun e => Frag.mk e (some e)) ++ [Frag.mk eSys none] ++ post.map (fun e => Frag.mk e (some e))) = eSys := by
  rw [oniomTotal_eq]
  simp only [List.map_append, List.map_map, List.sum_append, List.map_cons, List.map_nil, List.sum_cons, List.sum_nil]
  have z : ∀ l : List R, (l.map (Frag.energy ∘ fun e => Frag.mk e (some e))).sum = 0 := by
    intro l; induction l with
    | nil => rfl
    | cons x xs ih => simp [Frag.energy, ih]
  rw [z pre, z post]; simp [Frag.energy]

/-- **model = whole system**: the low-level energies cancel and the high-level energy of the whole system remains -/
theorem oniom_whole_model (eLow eHigh : R) : oniomTotal [Frag.mk eLow none, Frag.mk eLow (some eHigh)] = eHigh := by
  simp [oniomTotal, Frag.energy]

theorem oniom_whole_model' (eLow eHigh : R) : oniomTotal [Frag.mk eLow (some eHigh), Frag.mk eLow none] = eHigh := by
  simp [oniomTotal, Frag.energy]

/-- the total does not depend on the order of the fragments -/
theorem oniom_perm (a b : List (Frag R)) (h : a.Perm b) : oniomTotal a = oniomTotal b := by
  rw [oniomTotal_eq, oniomTotal_eq]; exact (h.map _).sum_eq

end oniom

/-! ## link atoms -/
section link
variable {K : Type} [Field K]

def sub3 (p q : K × K × K) : K × K × K := (p.1 - q.1, p.2.1 - q.2.1, p.2.2 - q.2.2)
def smul3 (f : K) (p : K × K × K) : K × K × K := (f * p.1, f * p.2.1, f * p.2.2)
def norm2 (p : K × K × K) : K := p.1 * p.1 + p.2.1 * p.2.1 + p.2.2 * p.2.2

/-- **on the bond**: the cap minus the retained atom is `f` times the bond vector -/
theorem place_on_bond (a b : K × K × K) (f : K) : sub3 (place a b f) a = smul3 f (sub3 b a) := by
  simp only [place, sub3, smul3, Prod.mk.injEq]
  refine ⟨?_, ?_, ?_⟩ <;> ring

/-- **at the requested fraction**: |cap − a|² = f² |b − a|² -/
theorem place_distance (a b : K × K × K) (f : K) : norm2 (sub3 (place a b f) a) = f * f * norm2 (sub3 b a) := by
  rw [place_on_bond]; simp only [smul3, norm2, sub3]; ring

theorem place_one (a b : K × K × K) : place a b 1 = b := by
  simp [place]

theorem place_zero (a b : K × K × K) : place a b 0 = a := by
  simp [place]

end link

/-! ## DMET: re-ordering for nested index lists -/
section reorder

theorem block_flatten (frags : List (List Nat)) (i : Nat) (hi : i < frags.length) :
    block (reorder frags).1 (reorder frags).2 i = frags[i] := by
  unfold block reorder
  simp only []
  induction frags generalizing i with
  | nil => simp at hi
  | cons f fs ih =>
    cases i with
    | zero => simp
    | succ i =>
      have hi' : i < fs.length := by simpa using hi
      have := ih i hi'
      simp only [List.map_cons, List.take_succ_cons, List.sum_cons, List.flatten_cons, List.getD_cons_succ,
        List.getElem_cons_succ]
      rw [List.drop_append]
      simp only [Nat.add_sub_cancel_left]
      have hd : List.drop (f.length + (List.take i (List.map List.length fs)).sum) f = [] :=
        List.drop_eq_nil_of_le (by omega)
      rw [hd, List.nil_append]
      exact this

/-- the new order is a re-arrangement of the atoms listed, and the sizes add up to their number -/
theorem reorder_sizes (frags : List (List Nat)) : (reorder frags).2.sum = (reorder frags).1.length := by
  simp [reorder, List.length_flatten]

/-- sorting the fragments while keeping the user's sizes (the seeded slip) breaks the correspondence -/
theorem sorted_bad_counterexample :
    block (reorderSortedBad (fun _ => [[0], [1, 2, 3]]) [[1, 2, 3], [0]]).1 (reorderSortedBad (fun _ => [[0], [1, 2, 3]]) [[1, 2, 3], [0]]).2 0
      ≠ [1, 2, 3] := by decide

end reorder

/-! ## distribution of the atoms over the ONIOM fragments -/
section distribute

theorem distribute_aux (geom : List Atom) : ∀ (fs : List FragSpec) (st : DistSt), st.sys = geom →
    (∀ f ∈ fs, f.sel = Sel.all → f.links = []) →
    match fs.mapM (fragGeom geom) with
    | none => fs.foldlM distStep st = none
    | some gs => ∃ st', fs.foldlM distStep st = some st' ∧ st'.sys = geom ∧
        st'.frags.map (fun g => g.getD geom) = st.frags.map (fun g => g.getD geom) ++ gs
  | [], st, hs, _ => by
    simp only [List.mapM_nil, pure, List.foldlM_nil]
    exact ⟨st, rfl, hs, by simp⟩
  | f :: fs, st, hs, hall => by
    have hrest : ∀ g ∈ fs, g.sel = Sel.all → g.links = [] := fun g hg => hall g (List.mem_cons_of_mem _ hg)
    rw [List.mapM_cons, List.foldlM_cons]
    -- the step agrees with `fragGeom` and leaves the system geometry alone
    have hstep : match fragGeom geom f with
        | none => distStep st f = none
        | some g => ∃ st1, distStep st f = some st1 ∧ st1.sys = geom ∧
            st1.frags.map (fun x => x.getD geom) = st.frags.map (fun x => x.getD geom) ++ [g] := by
      cases hsel : f.sel with
      | all =>
        have hl := hall f List.mem_cons_self hsel
        simp only [fragGeom, hsel, selectAtoms, hl, List.mapM_nil, pure, bind, Option.bind, List.append_nil]
        refine ⟨{ sys := st.sys, frags := st.frags ++ [none] }, ?_, hs, ?_⟩
        · simp [distStep, hsel, hl, pure]
        · simp
      | first n =>
        simp only [fragGeom, hsel, selectAtoms, bind, Option.bind, pure]
        cases hc : f.links.mapM (capOf geom) with
        | none => simp [distStep, hsel, selectAtoms, hs, hc, bind, Option.bind]
        | some caps =>
          refine ⟨{ st with frags := st.frags ++ [some (geom.take n ++ caps)] }, ?_, hs, ?_⟩
          · simp [distStep, hsel, selectAtoms, hs, hc, bind, Option.bind, pure]
          · simp
      | idx l =>
        simp only [fragGeom, hsel, selectAtoms, bind, Option.bind, pure]
        cases ho : l.mapM (fun i => geom[i]?) with
        | none => simp [distStep, hsel, selectAtoms, hs, ho, bind, Option.bind]
        | some own =>
          cases hc : f.links.mapM (capOf geom) with
          | none => simp [distStep, hsel, selectAtoms, hs, ho, hc, bind, Option.bind]
          | some caps =>
            refine ⟨{ st with frags := st.frags ++ [some (own ++ caps)] }, ?_, hs, ?_⟩
            · simp [distStep, hsel, selectAtoms, hs, ho, hc, bind, Option.bind, pure]
            · simp
    cases hf : fragGeom geom f with
    | none =>
      rw [hf] at hstep
      simp only [bind, Option.bind, hstep]
    | some g =>
      rw [hf] at hstep
      obtain ⟨st1, h1, h2, h3⟩ := hstep
      have ih := distribute_aux geom fs st1 h2 hrest
      simp only [bind, Option.bind, h1]
      cases hm : fs.mapM (fragGeom geom) with
      | none => rw [hm] at ih; simpa using ih
      | some gs =>
        rw [hm] at ih
        obtain ⟨st', h4, h5, h6⟩ := ih
        refine ⟨st', h4, h5, ?_⟩
        rw [h6, h3]; simp [pure]

/-- **Every fragment receives its own atoms and its own capping atoms - nothing else.**  Provided no fragment without
    atom selection (the whole system) carries broken links, the loop of `distribute_atoms` - in-place extension and
    shared list object included - gives each fragment exactly `fragGeom` of the ORIGINAL system geometry and of that
    fragment's own specification: the result does not depend on the other fragments nor on their order, and an index
    outside the geometry is an error in the one exactly when it is in the other. -/
theorem distribute_independent (geom : List Atom) (fs : List FragSpec) (h : ∀ f ∈ fs, f.sel = Sel.all → f.links = []) :
    distribute geom fs = fs.mapM (fragGeom geom) := by
  have := distribute_aux geom fs { sys := geom, frags := [] } rfl h
  unfold distribute
  cases hm : fs.mapM (fragGeom geom) with
  | none => rw [hm] at this; simp [this]
  | some gs =>
    rw [hm] at this
    obtain ⟨st', h1, h2, h3⟩ := this
    simp [h1, h2, h3]

/-- without that proviso the shared list object shows: a capped whole-system fragment changes what LATER fragments select -/
theorem distribute_alias_counterexample :
    distribute [(0, 0, 0), (10, 0, 0)] [⟨.all, [⟨0, 1, 5⟩]⟩, ⟨.first 3, []⟩]
      = some [[(0, 0, 0), (10, 0, 0), (5, 0, 0)], [(0, 0, 0), (10, 0, 0), (5, 0, 0)]] ∧
    [FragSpec.mk .all [⟨0, 1, 5⟩], ⟨.first 3, []⟩].mapM (fragGeom [(0, 0, 0), (10, 0, 0)])
      = some [[(0, 0, 0), (10, 0, 0), (5, 0, 0)], [(0, 0, 0), (10, 0, 0)]] := by decide

example : distribute [(0, 0, 0), (10, 0, 0), (20, 0, 0), (30, 0, 0)] [⟨.all, []⟩, ⟨.idx [1, 2], [⟨1, 0, 7⟩, ⟨2, 3, 5⟩]⟩]
    = some [[(0, 0, 0), (10, 0, 0), (20, 0, 0), (30, 0, 0)], [(10, 0, 0), (20, 0, 0), (3, 0, 0), (25, 0, 0)]] := by decide

end distribute

/-! ## method of increments -/
section mi
open Finset
variable {ι : Type} [DecidableEq ι] {R : Type} [CommRing R]

/-- ε_S = c_S − Σ over the non-empty proper subsets T of S of ε_T  (c = correlation energy of the fragment) -/
noncomputable def eps (c : Finset ι → R) : Finset ι → R :=
  Finset.strongInduction (fun S rec => c S - ∑ T ∈ (S.ssubsets.filter (· ≠ ∅)).attach,
    rec T.1 ((Finset.mem_ssubsets.mp (Finset.mem_filter.mp T.2).1)))

theorem eps_eq (c : Finset ι → R) (S : Finset ι) :
    eps c S = c S - ∑ T ∈ S.ssubsets.filter (· ≠ ∅), eps c T := by
  unfold eps
  rw [Finset.strongInduction_eq]
  congr 1
  exact Finset.sum_attach (S.ssubsets.filter (· ≠ ∅)) (fun T => Finset.strongInduction _ T)

/-- **inclusion–exclusion**: the increments of all non-empty subsets of S add up to the correlation energy of S;
    carried to full order the summation returns the energy of the complete fragment -/
theorem mi_full_order (c : Finset ι → R) (S : Finset ι) (hS : S ≠ ∅) :
    ∑ T ∈ S.powerset.filter (· ≠ ∅), eps c T = c S := by
  have hp : S.powerset.filter (· ≠ ∅) = insert S (S.ssubsets.filter (· ≠ ∅)) := by
    ext T
    simp only [mem_filter, mem_powerset, mem_insert, mem_ssubsets]
    constructor
    · rintro ⟨h1, h2⟩
      by_cases e : T = S
      · exact Or.inl e
      · exact Or.inr ⟨⟨h1, fun h => e (Finset.Subset.antisymm h1 h)⟩, h2⟩
    · rintro (rfl | ⟨h1, h2⟩)
      · exact ⟨Finset.Subset.refl _, hS⟩
      · exact ⟨h1.1, h2⟩
  have hn : S ∉ S.ssubsets.filter (· ≠ ∅) := by
    simp only [mem_filter, mem_ssubsets]
    intro h; exact (ssubset_irrefl S) h.1
  rw [hp, sum_insert hn, eps_eq c S]
  ring

/-- total energy: mean-field + all increments = energy of the complete fragment -/
theorem mi_total (eMf : R) (E : Finset ι → R) (S : Finset ι) (hS : S ≠ ∅) :
    eMf + ∑ T ∈ S.powerset.filter (· ≠ ∅), eps (fun T => E T - eMf) T = E S := by
  rw [mi_full_order _ S hS]; ring

end mi

/-! ## non-vacuity -/
example : oniomTotal [Frag.mk (-3 : ℚ) none, Frag.mk (-1) (some (-1))] = -3 := by
  simp [oniomTotal, Frag.energy]
example : place ((0 : ℚ), 0, 0) (2, 0, 4) (1 / 2) = (1, 0, 2) := by
  simp [place]; norm_num
example : block (reorder [[1, 2, 3], [0]]).1 (reorder [[1, 2, 3], [0]]).2 1 = [0] := by decide

end Tangelo.C15
