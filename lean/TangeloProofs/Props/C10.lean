import TangeloModel.Measure
import TangeloProofs.Lemmas.MeasRefines
import TangeloProofs.Lemmas.SemBasic
import TangeloProofs.Lemmas.Isometry
import TangeloProofs.CycLaws
import Mathlib.Algebra.BigOperators.Group.Finset.Basic
import Mathlib.Algebra.Order.Ring.Rat
/-!
# C10 — mid-circuit measurement and classical control follow the Born rule

`proj q b ψ` is the (unnormalised) collapse; the probability of a branch is the squared norm of its
unnormalised state.  "Squared norm" is any additive weight `w` with `w 0 = 0` summed over the 2ⁿ basis
states (for ℂ: `w z = |z|²`), so the theorems hold for every register size and every amplitude ring.
-/
namespace Tangelo.C10
open Tangelo Finset
variable {R : Type} [CommRing R]

/-- total weight of a state on `n` qubits -/
def normN (w : R → R) (n : Nat) (ψ : State R) : R := ∑ i ∈ range (2 ^ n), w (ψ (bitsOf i))

/-- the two outcomes of a measurement are complementary -/
theorem proj_complement (q : Nat) (ψ : State R) (x : Bits) : proj q false ψ x + proj q true ψ x = ψ x := by
  simp only [proj]
  cases x q <;> simp

/-- a projected state vanishes exactly off its outcome -/
theorem proj_off (q : Nat) (b : Bool) (ψ : State R) (x : Bits) (h : x q ≠ b) : proj q b ψ x = 0 := by
  simp [proj, h]

/-- projecting twice on the same outcome changes nothing; on opposite outcomes gives 0 -/
theorem proj_idem (q : Nat) (b : Bool) (ψ : State R) : proj q b (proj q b ψ) = proj q b ψ := by
  funext x; simp only [proj]; split <;> simp_all
theorem proj_orth (q : Nat) (b : Bool) (ψ : State R) : proj q (!b) (proj q b ψ) = fun _ => 0 := by
  funext x; simp only [proj]; cases b <;> cases x q <;> simp

/-- **Born rule for one measurement**: pointwise, the weights of the two branches add up to the weight
    before the measurement (so the probability-weighted branch distributions reproduce the dephased,
    unconditioned distribution) -/
theorem mixture_pointwise (w : R → R) (hw : w 0 = 0) (q : Nat) (ψ : State R) (x : Bits) :
    w (proj q false ψ x) + w (proj q true ψ x) = w (ψ x) := by
  simp only [proj]
  cases x q <;> simp [hw]

/-- the probabilities of the two outcomes add up to the probability before the measurement -/
theorem probs_add (w : R → R) (hw : w 0 = 0) (n q : Nat) (ψ : State R) :
    normN w n (proj q false ψ) + normN w n (proj q true ψ) = normN w n ψ := by
  simp only [normN, ← sum_add_distrib]
  exact sum_congr rfl (fun i _ => mixture_pointwise w hw q ψ (bitsOf i))

/-! ## all outcome strings of a program with (nested) classical control -/

/-- abstract program step: a state transformer, a measurement, or a measurement whose outcome selects
    the steps to run next -/
inductive Step (R : Type)
  | apply (U : State R → State R)
  | measure (q : Nat)
  | cmeasure (q : Nat) (on0 on1 : List (Step R))

/-- sum over all complete outcome strings of the branch probability (each leaf of the recursion is one
    complete outcome string; `fuel` bounds the nesting) -/
def totalProb (w : R → R) (n : Nat) : Nat → List (Step R) → State R → R
  | 0, _, ψ => normN w n ψ
  | _ + 1, [], ψ => normN w n ψ
  | fuel + 1, Step.apply U :: rest, ψ => totalProb w n fuel rest (U ψ)
  | fuel + 1, Step.measure q :: rest, ψ =>
      totalProb w n fuel rest (proj q false ψ) + totalProb w n fuel rest (proj q true ψ)
  | fuel + 1, Step.cmeasure q on0 on1 :: rest, ψ =>
      totalProb w n fuel (on0 ++ rest) (proj q false ψ) + totalProb w n fuel (on1 ++ rest) (proj q true ψ)

/-- every `apply` step in the program (at any nesting depth) preserves the total weight -/
inductive AllPreserve (w : R → R) (n : Nat) : List (Step R) → Prop
  | nil : AllPreserve w n []
  | apply (U : State R → State R) (rest : List (Step R)) : (∀ ψ, normN w n (U ψ) = normN w n ψ) → AllPreserve w n rest →
      AllPreserve w n (Step.apply U :: rest)
  | measure (q : Nat) (rest : List (Step R)) : AllPreserve w n rest → AllPreserve w n (Step.measure q :: rest)
  | cmeasure (q : Nat) (on0 on1 rest : List (Step R)) : AllPreserve w n on0 → AllPreserve w n on1 → AllPreserve w n rest →
      AllPreserve w n (Step.cmeasure q on0 on1 :: rest)

theorem AllPreserve.append {w : R → R} {n : Nat} {xs ys : List (Step R)} (hx : AllPreserve w n xs) (hy : AllPreserve w n ys) :
    AllPreserve w n (xs ++ ys) := by
  induction hx with
  | nil => exact hy
  | apply U rest hU _ ih => exact AllPreserve.apply U _ hU ih
  | measure q rest _ ih => exact AllPreserve.measure q _ ih
  | cmeasure q on0 on1 rest h0 h1 _ _ _ ih => exact AllPreserve.cmeasure q on0 on1 _ h0 h1 ih

/-- **The branch probabilities of all outcome strings sum to the initial norm** (to 1 for a normalised
    start), for any number and placement of MEASURE / CMEASURE steps, nested controls included, as long as
    the gates in between preserve the norm. -/
theorem branch_probs_sum (w : R → R) (hw : w 0 = 0) (n : Nat) :
    ∀ (fuel : Nat) (steps : List (Step R)) (ψ : State R), AllPreserve w n steps →
      totalProb w n fuel steps ψ = normN w n ψ := by
  intro fuel
  induction fuel with
  | zero => intro steps ψ _; rfl
  | succ f ih =>
    intro steps ψ h
    cases h with
    | nil => rfl
    | apply U rest hU hr =>
      simp only [totalProb]
      rw [ih rest (U ψ) hr, hU]
    | measure q rest hr =>
      simp only [totalProb]
      rw [ih rest _ hr, ih rest _ hr, probs_add w hw n q ψ]
    | cmeasure q on0 on1 rest h0 h1 hr =>
      simp only [totalProb]
      rw [ih _ _ (h0.append hr), ih _ _ (h1.append hr), probs_add w hw n q ψ]

/-! ## gate segments do preserve the norm: the hypothesis of `branch_probs_sum` is discharged for the gate set -/
section gates
variable {R : Type} [CommRing R] [StarRing R]

theorem normN_wt (n : Nat) (ψ : State R) : normN (wt (R := R)) n ψ = normSq n ψ := rfl

/-- a segment of gates between two measurements preserves the total weight |·|² -/
theorem gates_preserve (k : Consts R) (L : k.Laws) (S : k.StarLaws) (n : Nat) (ops : List Op) (h : ∀ o ∈ ops, o.inReg n) :
    ∀ ψ : State R, normN (wt (R := R)) n (semOps k ops ψ) = normN (wt (R := R)) n ψ :=
  fun ψ => semOps_isometry k L S n ops h ψ

/-- **Born rule, end to end for the gate set**: gates, a measurement, more gates, a measurement-controlled
    choice between two gate lists, more gates — the probabilities of all outcome strings sum to the norm of
    the input, for every register size and all gate lists inside the register -/
theorem branch_probs_sum_gates (k : Consts R) (L : k.Laws) (S : k.StarLaws) (n : Nat)
    (g0 g1 on0 on1 g2 : List Op) (q1 q2 : Nat)
    (h0 : ∀ o ∈ g0, o.inReg n) (h1 : ∀ o ∈ g1, o.inReg n) (ha : ∀ o ∈ on0, o.inReg n) (hb : ∀ o ∈ on1, o.inReg n)
    (h2 : ∀ o ∈ g2, o.inReg n) (fuel : Nat) (ψ : State R) :
    totalProb (wt (R := R)) n fuel
      [Step.apply (semOps k g0), Step.measure q1, Step.apply (semOps k g1),
       Step.cmeasure q2 [Step.apply (semOps k on0)] [Step.apply (semOps k on1)], Step.apply (semOps k g2)] ψ
      = normSq n ψ := by
  have hw : wt (0 : R) = 0 := by simp [wt]
  rw [branch_probs_sum (wt (R := R)) hw n fuel _ ψ]
  · rfl
  · refine AllPreserve.apply _ _ (gates_preserve k L S n g0 h0) ?_
    refine AllPreserve.measure _ _ ?_
    refine AllPreserve.apply _ _ (gates_preserve k L S n g1 h1) ?_
    refine AllPreserve.cmeasure _ _ _ _ ?_ ?_ ?_
    · exact AllPreserve.apply _ _ (gates_preserve k L S n on0 ha) AllPreserve.nil
    · exact AllPreserve.apply _ _ (gates_preserve k L S n on1 hb) AllPreserve.nil
    · exact AllPreserve.apply _ _ (gates_preserve k L S n g2 h2) AllPreserve.nil

/-- programs whose gate segments are gate lists of the gate set inside the register, with measurements and
    measurement-controlled alternatives nested to any depth -/
inductive GateProgram (k : Consts R) (n : Nat) : List (Step R) → Prop
  | nil : GateProgram k n []
  | gates (ops : List Op) (rest : List (Step R)) : (∀ o ∈ ops, o.inReg n) → GateProgram k n rest →
      GateProgram k n (Step.apply (semOps k ops) :: rest)
  | measure (q : Nat) (rest : List (Step R)) : GateProgram k n rest → GateProgram k n (Step.measure q :: rest)
  | cmeasure (q : Nat) (on0 on1 rest : List (Step R)) : GateProgram k n on0 → GateProgram k n on1 → GateProgram k n rest →
      GateProgram k n (Step.cmeasure q on0 on1 :: rest)

theorem GateProgram.allPreserve (k : Consts R) (L : k.Laws) (S : k.StarLaws) (n : Nat) (steps : List (Step R))
    (h : GateProgram k n steps) : AllPreserve (wt (R := R)) n steps := by
  induction h with
  | nil => exact AllPreserve.nil
  | gates ops rest hops _ ih => exact AllPreserve.apply _ _ (gates_preserve k L S n ops hops) ih
  | measure q rest _ ih => exact AllPreserve.measure q _ ih
  | cmeasure q on0 on1 rest _ _ _ ih0 ih1 ih => exact AllPreserve.cmeasure q on0 on1 _ ih0 ih1 ih

/-- **Born rule for every program of the gate set**: any interleaving of gate lists, MEASURE and CMEASURE
    (alternatives nested to any depth) — the probabilities of all outcome strings sum to the norm of the input,
    for every register size -/
theorem branch_probs_sum_program (k : Consts R) (L : k.Laws) (S : k.StarLaws) (n : Nat) (steps : List (Step R))
    (h : GateProgram k n steps) (fuel : Nat) (ψ : State R) :
    totalProb (wt (R := R)) n fuel steps ψ = normSq n ψ := by
  have hw : wt (0 : R) = 0 := by simp [wt]
  rw [branch_probs_sum (wt (R := R)) hw n fuel steps ψ (GateProgram.allPreserve k L S n steps h)]
  rfl

end gates

/-! ## splitting joint frequencies into mid-circuit and final parts conserves the total -/

theorem total_addTo (d : List (List Bool × Rat)) (k : List Bool) (v : Rat) : total (addTo d k v) = total d + v := by
  induction d with
  | nil => simp [addTo, total]
  | cons p rest ih =>
    obtain ⟨k', v'⟩ := p
    simp only [addTo]
    split
    · simp [total]; ring
    · simp only [total, List.map_cons, List.sum_cons] at ih ⊢
      rw [ih]; ring

theorem split_conserves (freqs : List (List Bool × Rat)) (n : Nat) :
    total (splitLastN freqs n).1 = total freqs ∧ total (splitLastN freqs n).2 = total freqs := by
  have key : ∀ (l : List (List Bool × Rat)) (a b : List (List Bool × Rat)),
      total (l.foldl (fun (acc : List (List Bool × Rat) × List (List Bool × Rat)) (kv : List Bool × Rat) =>
        (addTo acc.1 (kv.1.take (kv.1.length - n)) kv.2, addTo acc.2 (kv.1.drop (kv.1.length - n)) kv.2)) (a, b)).1 = total a + total l ∧
      total (l.foldl (fun (acc : List (List Bool × Rat) × List (List Bool × Rat)) (kv : List Bool × Rat) =>
        (addTo acc.1 (kv.1.take (kv.1.length - n)) kv.2, addTo acc.2 (kv.1.drop (kv.1.length - n)) kv.2)) (a, b)).2 = total b + total l := by
    intro l
    induction l with
    | nil => intro a b; simp [total]
    | cons kv rest ih =>
      intro a b
      simp only [List.foldl_cons]
      obtain ⟨h1, h2⟩ := ih (addTo a (kv.1.take (kv.1.length - n)) kv.2) (addTo b (kv.1.drop (kv.1.length - n)) kv.2)
      rw [h1, h2, total_addTo, total_addTo]
      simp only [total, List.map_cons, List.sum_cons]
      constructor <;> ring
  have := key freqs [] []
  simpa [splitLastN, total] using this

/-! ## non-vacuity -/
example : AllPreserve (fun z : ℚ => z * z) 1 [Step.apply id, Step.cmeasure 0 [Step.measure 0] [], Step.measure 0] :=
  AllPreserve.apply id _ (fun _ => rfl) (AllPreserve.cmeasure 0 _ _ _ (AllPreserve.measure 0 _ AllPreserve.nil) AllPreserve.nil
    (AllPreserve.measure 0 _ AllPreserve.nil))

/-! ## the executable conditioned simulation refines the specification -/

/-- **what the model driver returns for a branch is the specified post-measurement state** (unnormalised projection
    after every measurement, selected gate lists after every controlled measurement), for every program inside the
    register and every outcome string; with `driver_state_is_specified` (C01) this makes the theorems about `proj` and
    `semOps` statements about the vectors the correspondence compares with the backends -/
theorem branch_state_is_specified (n fuel : Nat) (prog : List MGate) (des : List Bool) (acc : BranchOut) (ψ : State Cyc)
    (hp : ProgInReg n prog) (hacc : acc.sv = tabulate n ψ) :
    (runBranch n fuel prog des acc).map (·.sv) = (specBranch fuel prog des ψ).map (tabulate n) :=
  runBranch_refines n fuel prog des acc ψ hp hacc

end Tangelo.C10
