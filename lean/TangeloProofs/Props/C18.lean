import TangeloModel.Histogram
import TangeloProofs.CycRing
import TangeloProofs.Props.C10
import Mathlib.Tactic.Linarith
/-!
# C18 — measurement grouping and histogram processing conserve information
-/
namespace Tangelo.C18
open Tangelo Hist

/-- weighted sum of a histogram: Σ w(key)·count  (w ≡ 1: total counts; w = ±1: expectation numerator) -/
def wsum (w : List Bool → Rat) (h : Hist) : Rat := (h.map (fun kv => w kv.1 * kv.2)).sum

theorem wsum_addTo (w : List Bool → Rat) (d : Hist) (k : List Bool) (v : Rat) : wsum w (addTo d k v) = wsum w d + w k * v := by
  induction d with
  | nil => simp [addTo, wsum]
  | cons p rest ih =>
    obtain ⟨k', v'⟩ := p
    simp only [addTo]
    split
    · rename_i h; subst h; simp [wsum]; ring
    · simp only [wsum, List.map_cons, List.sum_cons] at ih ⊢
      rw [ih]; ring

/-- merging the entries of a histogram under any re-keying `f` preserves every weighted sum that only
    depends on the new key -/
theorem wsum_rekey (w : List Bool → Rat) (f : List Bool → List Bool) (h : Hist) (acc : Hist) :
    wsum w (h.foldl (fun a (kv : List Bool × Rat) => addTo a (f kv.1) kv.2) acc) = wsum w acc + wsum (fun k => w (f k)) h := by
  induction h generalizing acc with
  | nil => simp [wsum]
  | cons kv rest ih =>
    simp only [List.foldl_cons]
    rw [ih, wsum_addTo]
    simp only [wsum, List.map_cons, List.sum_cons]
    ring

theorem total_eq_wsum (h : Hist) : total h = wsum (fun _ => 1) h := by simp [total, wsum]

/-- **removing / marginalising qubits conserves the total** -/
theorem remove_total (idx : List Nat) (h : Hist) : total (removeIdx idx h) = total h := by
  rw [total_eq_wsum, total_eq_wsum, removeIdx, wsum_rekey]
  simp [wsum]

/-- **bit-order reversal conserves the total** -/
theorem reverse_total (h : Hist) : total (reverseKeys h) = total h := by
  simp [total, reverseKeys, List.map_map, Function.comp_def]

/-- **post-selection splits the total**: kept + discarded = total -/
theorem filter_split (p : List Bool → Bool) (h : Hist) :
    total (h.filter (fun kv => p kv.1)) + total (h.filter (fun kv => !p kv.1)) = total h := by
  induction h with
  | nil => simp [total]
  | cons kv rest ih =>
    simp only [total, List.filter_cons] at ih ⊢
    cases hp : p kv.1 <;> simp [hp, List.map_cons, List.sum_cons] <;> linarith

theorem post_select_total (exp : List (Nat × Bool)) (h : Hist) :
    total (postSelect exp h) + total (h.filter (fun kv => !matchesExp exp kv.1)) = total h := by
  rw [postSelect, remove_total]
  exact filter_split (matchesExp exp) h

/-- **aggregation adds the totals** when all counts are positive (what `Counter` addition keeps) -/
theorem aggregate_total_two (h1 h2 : Hist)
    (hpos : ∀ kv ∈ (h2.foldl (fun a (kv : List Bool × Rat) => addTo a kv.1 kv.2) (h1.foldl (fun a (kv : List Bool × Rat) => addTo a kv.1 kv.2) [])), kv.2 > 0) :
    total (aggregate [h1, h2]) = total h1 + total h2 := by
  simp only [aggregate, List.foldl_cons, List.foldl_nil]
  rw [List.filter_eq_self.mpr (by intro kv hkv; simpa using hpos kv hkv)]
  rw [total_eq_wsum]
  have r1 := wsum_rekey (fun _ => 1) id h2 (h1.foldl (fun a (kv : List Bool × Rat) => addTo a kv.1 kv.2) [])
  have r2 := wsum_rekey (fun _ => 1) id h1 []
  simp only [id] at r1 r2
  rw [r1, r2]
  simp [wsum, total]

theorem addTo_pos (d : Hist) (k : List Bool) (v : Rat) (hd : ∀ kv ∈ d, kv.2 > 0) (hv : v > 0) :
    ∀ kv ∈ addTo d k v, kv.2 > 0 := by
  induction d with
  | nil => simp [addTo]; exact hv
  | cons p rest ih =>
    obtain ⟨k', v'⟩ := p
    have hp : v' > 0 := hd (k', v') (by simp)
    simp only [addTo]
    split
    · intro kv hkv
      rcases List.mem_cons.mp hkv with e | e
      · subst e; simp; linarith
      · exact hd kv (by simp [e])
    · intro kv hkv
      rcases List.mem_cons.mp hkv with e | e
      · subst e; exact hp
      · exact ih (fun kv h => hd kv (by simp [h])) kv e

theorem merge_pos (h acc : Hist) (hh : ∀ kv ∈ h, kv.2 > 0) (ha : ∀ kv ∈ acc, kv.2 > 0) :
    ∀ kv ∈ h.foldl (fun a (kv : List Bool × Rat) => addTo a kv.1 kv.2) acc, kv.2 > 0 := by
  induction h generalizing acc with
  | nil => simpa using ha
  | cons p rest ih =>
    simp only [List.foldl_cons]
    exact ih _ (fun kv h => hh kv (by simp [h])) (addTo_pos acc p.1 p.2 ha (hh p (by simp)))

theorem merge_total (h acc : Hist) :
    total (h.foldl (fun a (kv : List Bool × Rat) => addTo a kv.1 kv.2) acc) = total acc + total h := by
  have r := wsum_rekey (fun _ => 1) id h acc
  simp only [id] at r
  rw [total_eq_wsum, r]; simp [wsum, total]

/-- **aggregation of any number of histograms adds the totals** (positive counts, which is what a histogram holds:
    `Counter` addition would drop non-positive entries) -/
theorem aggregate_total (hs : List Hist) (hpos : ∀ h ∈ hs, ∀ kv ∈ h, kv.2 > 0) :
    total (aggregate hs) = (hs.map total).sum := by
  simp only [aggregate]
  have key : ∀ (hs : List Hist) (acc : Hist), (∀ h ∈ hs, ∀ kv ∈ h, kv.2 > 0) → (∀ kv ∈ acc, kv.2 > 0) →
      (∀ kv ∈ hs.foldl (fun acc h => h.foldl (fun a (kv : List Bool × Rat) => addTo a kv.1 kv.2) acc) acc, kv.2 > 0) ∧
      total (hs.foldl (fun acc h => h.foldl (fun a (kv : List Bool × Rat) => addTo a kv.1 kv.2) acc) acc) =
        total acc + (hs.map total).sum := by
    intro hs
    induction hs with
    | nil => intro acc _ ha; exact ⟨by simpa using ha, by simp⟩
    | cons h rest ih =>
      intro acc hh ha
      simp only [List.foldl_cons, List.map_cons, List.sum_cons]
      have h1 := merge_pos h acc (hh h (by simp)) ha
      obtain ⟨p1, p2⟩ := ih _ (fun h' hm => hh h' (by simp [hm])) h1
      refine ⟨p1, ?_⟩
      rw [p2, merge_total]; ring
  obtain ⟨p1, p2⟩ := key hs [] hpos (by simp)
  rw [List.filter_eq_self.mpr (by intro kv hkv; simpa using p1 kv hkv), p2]
  simp [total]

/-- **marginalisation invariance**: if the parity of a term on the shortened bitstring equals its parity on the
    full bitstring (the removed qubits are outside the term's support), removing those qubits leaves the
    signed sum - and with `remove_total` the expectation value - unchanged. -/
theorem marginal_invariance (idx mask mask' : List Nat) (h : Hist)
    (hpar : ∀ kv ∈ h, parityOn mask' (dropIdx idx kv.1) = parityOn mask kv.1) :
    signedSum mask' (removeIdx idx h) = signedSum mask h := by
  have e1 : ∀ (m : List Nat) (g : Hist), signedSum m g = wsum (fun k => if parityOn m k then -1 else 1) g := by
    intro m g; simp only [signedSum, wsum]; congr 1; apply List.map_congr_left; intro kv _; split <;> simp
  rw [e1, e1, removeIdx, wsum_rekey]
  simp only [wsum, List.map_nil, List.sum_nil, zero_add]
  congr 1
  apply List.map_congr_left
  intro kv hkv
  rw [hpar kv hkv]

theorem marginal_expectation (idx mask mask' : List Nat) (h : Hist)
    (hpar : ∀ kv ∈ h, parityOn mask' (dropIdx idx kv.1) = parityOn mask kv.1) :
    expectation mask' (removeIdx idx h) = expectation mask h := by
  simp only [expectation, marginal_invariance idx mask mask' h hpar, remove_total]

/-! ## grouping certificate: a partition evaluates to the same expectation -/

/-- value of a term list under any assignment of term expectation values -/
def evalTerms (v : Key → Cyc) (ts : List (Key × Cyc)) : Cyc := (ts.map (fun kc => kc.2 * v kc.1)).sum

theorem isZero_iff (z : Cyc) : z.isZero = true ↔ z = 0 := by simp [Cyc.isZero]

theorem evalTerms_addTerm (v : Key → Cyc) (ts : List (Key × Cyc)) (k : Key) (c : Cyc) :
    evalTerms v (SymOp.addTerm ts k c) = evalTerms v ts + c * v k := by
  induction ts with
  | nil =>
    simp only [SymOp.addTerm]
    split
    · rename_i hz; rw [(isZero_iff c).mp hz]; simp [evalTerms]
    · simp [evalTerms]
  | cons p rest ih =>
    obtain ⟨k', c'⟩ := p
    simp only [SymOp.addTerm]
    split
    · rename_i hk
      have hk' : k' = k := by simpa using hk
      subst hk'
      split
      · rename_i hz
        have := (isZero_iff (c' + c)).mp hz
        simp only [evalTerms, List.map_cons, List.sum_cons]
        linear_combination (-(v k')) * this
      · simp [evalTerms]; ring
    · split
      · split
        · rename_i hz; rw [(isZero_iff c).mp hz]; simp [evalTerms]
        · simp [evalTerms]; ring
      · simp only [evalTerms, List.map_cons, List.sum_cons] at ih ⊢
        rw [ih]; ring

theorem evalTerms_addTerms (v : Key → Cyc) (a b : List (Key × Cyc)) :
    evalTerms v (SymOp.addTerms a b) = evalTerms v a + evalTerms v b := by
  simp only [SymOp.addTerms]
  induction b generalizing a with
  | nil => simp [evalTerms]
  | cons kc rest ih =>
    simp only [List.foldl_cons]
    rw [ih, evalTerms_addTerm]
    simp only [evalTerms, List.map_cons, List.sum_cons]
    ring

/-- **grouping soundness**: if the certificate check accepts, then for ANY values of the term expectations the
    sum assembled group by group equals the term-by-term value of the operator -/
theorem check_sound (op : List (Key × Cyc)) (groups : List (Key × List (Key × Cyc))) (v : Key → Cyc)
    (h : checkGrouping op groups = true) :
    evalTerms v (groups.flatMap (·.2)) = evalTerms v op := by
  simp only [checkGrouping, Bool.and_eq_true, beq_iff_eq] at h
  have h1 := h.1.1
  have e1 := evalTerms_addTerms v [] (groups.flatMap (·.2))
  have e2 := evalTerms_addTerms v [] op
  rw [h1] at e1
  simp only [evalTerms, List.map_nil, List.sum_nil, zero_add] at e1 e2
  simp only [evalTerms]
  rw [← e1, e2]

/-! ## non-vacuity -/
example : total (removeIdx [1] [([true, false], 3), ([true, true], 2), ([false, true], 1)]) = 6 := by decide +kernel
example : removeIdx [1] [([true, false], 3), ([true, true], 2), ([false, true], 1)] = [([true], 5), ([false], 1)] := by decide +kernel

end Tangelo.C18
