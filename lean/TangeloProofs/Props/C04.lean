import TangeloModel.Frozen
import Mathlib.Algebra.BigOperators.Group.Finset.Basic
import Mathlib.Algebra.BigOperators.Group.Finset.Sigma
import Mathlib.Algebra.BigOperators.Ring.Finset
import Mathlib.Tactic.Ring
import Mathlib.Tactic.Linarith
/-!
# C04 — qubit Hamiltonians reproduce mean-field and full-CI energies

Bookkeeping behind the active-space Hamiltonian: the orbital partition, the electron counts, and the
algebraic identity that folds a closed frozen core into a constant and a one-body correction.
-/
namespace Tangelo.C04
open Tangelo.Frozen

/-! ## orbital partition -/

theorem mem_occupied (occ : List Nat) (i : Nat) : i ∈ occupied occ ↔ i < occ.length ∧ occ.getD i 0 > 0 := by
  simp [occupied]

theorem mem_virtuals (occ : List Nat) (i : Nat) : i ∈ virtuals occ ↔ i < occ.length ∧ occ.getD i 0 = 0 := by
  simp [virtuals]

theorem mem_pick (fr : List Int) (xs : List Nat) (i : Nat) : i ∈ pick fr xs ↔ (i : Int) ∈ fr ∧ i ∈ xs := by
  simp only [pick, List.mem_filterMap]
  constructor
  · rintro ⟨z, hz, h⟩
    split at h
    · rename_i hc
      simp only [Option.some.injEq] at h
      subst h
      have : ((z.toNat : Nat) : Int) = z := Int.toNat_of_nonneg hc.1
      rw [this]
      exact ⟨hz, by simpa using hc.2⟩
    · cases h
  · rintro ⟨h1, h2⟩
    exact ⟨(i : Int), h1, by simp [h2]⟩

/-- every orbital belongs to one of the four classes … -/
theorem classify_cover (occ : List Nat) (spec : Spec) (i : Nat) (hi : i < occ.length) :
    let p := classify occ spec
    i ∈ p.activeOcc ∨ i ∈ p.frozenOcc ∨ i ∈ p.activeVirt ∨ i ∈ p.frozenVirt := by
  simp only [classify, List.mem_filter, mem_occupied, mem_virtuals, Bool.not_eq_true', List.contains_eq_mem,
    decide_eq_false_iff_not]
  by_cases ho : occ.getD i 0 > 0
  · by_cases hf : i ∈ pick (frozenList spec) (occupied occ)
    · exact Or.inr (Or.inl hf)
    · exact Or.inl ⟨⟨hi, ho⟩, hf⟩
  · have hz : occ.getD i 0 = 0 := by omega
    by_cases hf : i ∈ pick (frozenList spec) (virtuals occ)
    · exact Or.inr (Or.inr (Or.inr hf))
    · exact Or.inr (Or.inr (Or.inl ⟨⟨hi, hz⟩, hf⟩))

/-- … and to one only: active and frozen are disjoint, occupied and virtual are disjoint -/
theorem classify_disjoint (occ : List Nat) (spec : Spec) (i : Nat) :
    let p := classify occ spec
    ¬(i ∈ p.activeOcc ∧ i ∈ p.frozenOcc) ∧ ¬(i ∈ p.activeVirt ∧ i ∈ p.frozenVirt) ∧
    ¬((i ∈ p.activeOcc ∨ i ∈ p.frozenOcc) ∧ (i ∈ p.activeVirt ∨ i ∈ p.frozenVirt)) := by
  simp only [classify, List.mem_filter, mem_occupied, mem_virtuals, mem_pick, Bool.not_eq_true', List.contains_eq_mem,
    decide_eq_false_iff_not]
  refine ⟨?_, ?_, ?_⟩
  · rintro ⟨⟨_, h⟩, h2⟩; exact h h2
  · rintro ⟨⟨_, h⟩, h2⟩; exact h h2
  · rintro ⟨h1, h2⟩
    have ho : occ.getD i 0 > 0 := by rcases h1 with h | h; exact h.1.2; exact h.2.2
    have hv : occ.getD i 0 = 0 := by rcases h2 with h | h; exact h.1.2; exact h.2.2
    omega

/-- frozen orbitals are exactly the requested ones that exist -/
theorem frozen_iff (occ : List Nat) (spec : Spec) (i : Nat) :
    let p := classify occ spec
    (i ∈ p.frozenOcc ∨ i ∈ p.frozenVirt) ↔ ((i : Int) ∈ frozenList spec ∧ i < occ.length) := by
  simp only [classify, mem_pick, mem_occupied, mem_virtuals]
  constructor
  · rintro (⟨h1, h2, _⟩ | ⟨h1, h2, _⟩) <;> exact ⟨h1, h2⟩
  · rintro ⟨h1, h2⟩
    by_cases ho : occ.getD i 0 > 0
    · exact Or.inl ⟨h1, h2, ho⟩
    · exact Or.inr ⟨h1, h2, by omega⟩

/-- an int freezes the lowest orbitals -/
theorem frozen_int (k : Nat) (i : Nat) : (i : Int) ∈ frozenList (.int k) ↔ i < k := by
  simp [frozenList]

/-- active lists keep the energy order of the orbitals -/
theorem active_sorted (occ : List Nat) (spec : Spec) :
    (classify occ spec).activeOcc.Pairwise (· < ·) ∧ (classify occ spec).activeVirt.Pairwise (· < ·) := by
  have hr : ∀ n, (List.range n).Pairwise (· < ·) := fun n => List.pairwise_lt_range
  constructor <;> simp only [classify, occupied, virtuals] <;> exact ((hr _).filter _).filter _

/-- acceptance: rejected exactly when no active electron is left or every active orbital is doubly occupied -/
theorem partition_none_iff (occ : List Nat) (spec : Spec) :
    partition occ spec = none ↔
      (nActiveElectrons occ (classify occ spec) = 0 ∨
       nActiveElectrons occ (classify occ spec) = 2 * ((classify occ spec).activeOcc.length + (classify occ spec).activeVirt.length)) := by
  unfold partition
  simp only []
  split
  · simp_all
  · split <;> simp_all

theorem partition_some (occ : List Nat) (spec : Spec) (p : Partition) (h : partition occ spec = some p) : p = classify occ spec := by
  unfold partition at h
  simp only [] at h
  split at h
  · cases h
  · split at h
    · cases h
    · cases h; rfl

/-! ## electron bookkeeping -/

/-- with matching parity and 0 ≤ spin ≤ n the formulas give the numbers of α and β electrons -/
theorem alpha_beta (n spin : Nat) (hp : n % 2 = spin % 2) (hs : spin ≤ n) :
    nAlpha n spin + nBeta n spin = n ∧ nAlpha n spin = nBeta n spin + spin := by
  unfold nAlpha nBeta; omega

/-- with mismatched parity the formulas do not return the requested spin (no such determinant exists) -/
theorem alpha_beta_parity (n spin : Nat) (h : nAlpha n spin = nBeta n spin + spin) (hs : spin ≤ n) : n % 2 = spin % 2 := by
  unfold nAlpha nBeta at h; omega

/-! ## folding a closed frozen core (mean-field functional) -/
section fold
open Finset
variable {R : Type} [CommRing R] {ι : Type} [DecidableEq ι]

/-- closed-shell energy functional of a determinant occupying the orbitals `O` doubly:
    Σ 2 h_i + Σ_{ij} W_ij with W = 2J − K -/
def emf (h : ι → R) (W : ι → ι → R) (O : Finset ι) : R := ∑ i ∈ O, 2 * h i + ∑ i ∈ O, ∑ j ∈ O, W i j

/-- **frozen-core folding**: the energy of core ∪ active equals the core constant, plus the active
    functional with the one-body part corrected by the core's Coulomb/exchange field -/
theorem fold_core (h : ι → R) (W : ι → ι → R) (hW : ∀ i j, W i j = W j i) (F A : Finset ι) (hd : Disjoint F A) :
    emf h W (F ∪ A) = emf h W F + emf (fun p => h p + ∑ i ∈ F, W p i) W A := by
  unfold emf
  rw [sum_union hd, sum_union hd]
  have e1 : ∀ i, ∑ j ∈ F ∪ A, W i j = ∑ j ∈ F, W i j + ∑ j ∈ A, W i j := fun i => sum_union hd
  simp only [e1, sum_add_distrib, mul_add]
  have e2 : ∑ i ∈ F, ∑ j ∈ A, W i j = ∑ p ∈ A, ∑ i ∈ F, W p i := by
    rw [sum_comm]; apply sum_congr rfl; intro p _; apply sum_congr rfl; intro i _; exact hW i p
  rw [e2]
  have e3 : ∑ x ∈ A, 2 * ∑ i ∈ F, W x i = 2 * ∑ x ∈ A, ∑ i ∈ F, W x i := by rw [mul_sum]
  rw [e3]
  ring

end fold

/-! ## folding a frozen core, unrestricted reference (different frozen sets for alpha and beta) -/
section foldU
open Finset
variable {R : Type} [CommRing R] {ι : Type} [DecidableEq ι]

/-- unrestricted mean-field functional of a determinant with alpha orbitals `Oa` and beta orbitals `Ob`:
    Σ_α hα + Σ_β hβ + Σ_{αα} Wαα + Σ_{ββ} Wββ + Σ_{αβ} Jαβ   (Wσσ = ½(J − K) of that spin, symmetric) -/
def emfU (ha hb : ι → R) (Waa Wbb Jab : ι → ι → R) (Oa Ob : Finset ι) : R :=
  ∑ i ∈ Oa, ha i + ∑ i ∈ Ob, hb i + ∑ i ∈ Oa, ∑ j ∈ Oa, Waa i j + ∑ i ∈ Ob, ∑ j ∈ Ob, Wbb i j + ∑ i ∈ Oa, ∑ j ∈ Ob, Jab i j

/-- **frozen-core folding, unrestricted**: with *different* frozen sets for the two spins, the energy of
    (core ∪ active) is the core constant - which contains the alpha-beta Coulomb repulsion between the frozen alpha and
    the frozen beta orbitals - plus the active functional whose one-body parts carry the field of the core: same-spin
    Coulomb/exchange of the frozen orbitals of that spin and the Coulomb field of the frozen orbitals of the other -/
theorem fold_core_uhf (ha hb : ι → R) (Waa Wbb Jab : ι → ι → R)
    (hWa : ∀ i j, Waa i j = Waa j i) (hWb : ∀ i j, Wbb i j = Wbb j i)
    (Fa Aa Fb Ab : Finset ι) (hda : Disjoint Fa Aa) (hdb : Disjoint Fb Ab) :
    emfU ha hb Waa Wbb Jab (Fa ∪ Aa) (Fb ∪ Ab) =
      emfU ha hb Waa Wbb Jab Fa Fb +
      emfU (fun p => ha p + 2 * ∑ i ∈ Fa, Waa p i + ∑ j ∈ Fb, Jab p j)
           (fun p => hb p + 2 * ∑ i ∈ Fb, Wbb p i + ∑ i ∈ Fa, Jab i p) Waa Wbb Jab Aa Ab := by
  unfold emfU
  rw [sum_union hda, sum_union hdb, sum_union hda, sum_union hdb, sum_union hda]
  have ea : ∀ i, ∑ j ∈ Fa ∪ Aa, Waa i j = ∑ j ∈ Fa, Waa i j + ∑ j ∈ Aa, Waa i j := fun i => sum_union hda
  have eb : ∀ i, ∑ j ∈ Fb ∪ Ab, Wbb i j = ∑ j ∈ Fb, Wbb i j + ∑ j ∈ Ab, Wbb i j := fun i => sum_union hdb
  have ej : ∀ i, ∑ j ∈ Fb ∪ Ab, Jab i j = ∑ j ∈ Fb, Jab i j + ∑ j ∈ Ab, Jab i j := fun i => sum_union hdb
  simp only [ea, eb, ej, sum_add_distrib]
  have ca : ∑ i ∈ Fa, ∑ j ∈ Aa, Waa i j = ∑ p ∈ Aa, ∑ i ∈ Fa, Waa p i := by
    rw [sum_comm]; apply sum_congr rfl; intro p _; apply sum_congr rfl; intro i _; exact hWa i p
  have cb : ∑ i ∈ Fb, ∑ j ∈ Ab, Wbb i j = ∑ p ∈ Ab, ∑ i ∈ Fb, Wbb p i := by
    rw [sum_comm]; apply sum_congr rfl; intro p _; apply sum_congr rfl; intro i _; exact hWb i p
  have cj : ∑ i ∈ Fa, ∑ j ∈ Ab, Jab i j = ∑ p ∈ Ab, ∑ i ∈ Fa, Jab i p := sum_comm
  rw [ca, cb, cj]
  simp only [← mul_sum]
  ring
end foldU

/-! ## non-vacuity -/
example : partition [2, 2, 1, 0, 0] (.list [0, 4, -1, 9]) = some ⟨[1, 2], [0], [3], [4]⟩ := by decide
example : partition [2, 2, 0] (.list [2]) = none := by decide
example : nAlpha 5 3 = 4 ∧ nBeta 5 3 = 1 := by decide

end Tangelo.C04
