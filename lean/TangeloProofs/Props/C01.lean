import TangeloModel.Backend
import TangeloProofs.Lemmas.OpInverse
import TangeloProofs.Lemmas.Isometry
import TangeloProofs.CycLaws
import TangeloProofs.Lemmas.SimRefines
/-!
# C01 — backend simulation matches the documented gate semantics

The documented semantics is the model (`Gate.toOp`, `Op.sem`); the backends are tied to it by the
exact-simulation correspondence.  Theorems here: structure of the semantics and of the
index ↔ bitstring glue of `backend.py`.
-/
namespace Tangelo.C01
open Tangelo
variable {R : Type} [CommRing R]

/-! ## semantics of a circuit is the left fold of its gates -/

theorem sem_nil (k : Consts R) (ψ : State R) : semOps k [] ψ = ψ := rfl
theorem sem_cons (k : Consts R) (o : Op) (os : List Op) (ψ : State R) : semOps k (o :: os) ψ = semOps k os (o.sem k ψ) := rfl
theorem sem_append (k : Consts R) (xs ys : List Op) (ψ : State R) :
    semOps k (xs ++ ys) ψ = semOps k ys (semOps k xs ψ) := semOps_append k xs ys ψ

/-- the sympy translator multiplies operators while iterating over the *reversed* gate list
    (`target_circuit *= gate`), i.e. builds Gₙ⋯G₁; applying that product is the same left fold -/
theorem sympy_product_order (k : Consts R) (ops : List Op) (ψ : State R) :
    ops.reverse.foldr (fun o acc => o.sem k acc) ψ = semOps k ops ψ := by
  simp [semOps, List.foldr_reverse]

/-- a gate acts trivially on basis states whose control bits are not all 1 -/
theorem control_off (k : Consts R) (b : Base) (θ : Ang) (t : Nat) (cs : List Nat) (ψ : State R) (x : Bits)
    (h : cs.all (fun c => x c) = false) : (Op.one b θ t cs).sem k ψ x = ψ x := by
  simp [Op.sem, ctl, h]

/-- with an empty control list the controlled form is the plain gate -/
theorem control_nil (k : Consts R) (b : Base) (θ : Ang) (t : Nat) (ψ : State R) :
    (Op.one b θ t []).sem k ψ = app1 (baseMatrix k b θ) t ψ := ctl_nil _ ψ

/-! ## amplitude index ↔ bitstring (`_int_to_binstr`) -/

theorem bitsMSB_length (n i : Nat) : (bitsMSB n i).length = n := by
  induction n generalizing i with
  | zero => rfl
  | succ n ih => simp [bitsMSB, ih]

/-- character `q` of the `lsq_first` string is bit `n-1-q` of the index: qubit 0 is listed first and is
    the most significant bit of the amplitude index -/
theorem bitsMSB_get (n i q : Nat) (hq : q < n) : (bitsMSB n i)[q]'(by rw [bitsMSB_length]; exact hq) = i.testBit (n - 1 - q) := by
  induction n generalizing i q with
  | zero => omega
  | succ n ih =>
    simp only [bitsMSB]
    by_cases h : q < n
    · rw [List.getElem_append_left (by rw [bitsMSB_length]; exact h)]
      rw [ih (i / 2) q h]
      have : n + 1 - 1 - q = (n - 1 - q) + 1 := by omega
      rw [this, Nat.testBit_succ]
    · have hqn : q = n := by omega
      subst hqn
      rw [List.getElem_append_right (by rw [bitsMSB_length])]
      simp only [bitsMSB_length, Nat.sub_self, List.getElem_cons_zero]
      have : q + 1 - 1 - q = 0 := by omega
      rw [this, Nat.testBit_zero]
      simp [BEq.beq]

theorem binstr_lsq_first (n i q : Nat) (hq : q < n) :
    (intToBinstr .lsqFirst i n true)[q]? = some (i.testBit (n - 1 - q)) := by
  simp only [intToBinstr, Bool.true_and, beq_self_eq_true, if_true]
  rw [List.getElem?_eq_getElem (by rw [bitsMSB_length]; exact hq), bitsMSB_get n i q hq]

/-- for a backend that advertises `msq_first` the string is reversed: character `q` is bit `q` -/
theorem binstr_msq_first (n i q : Nat) (hq : q < n) :
    (intToBinstr .msqFirst i n true)[q]? = some (i.testBit q) := by
  have hne : (Order.msqFirst == Order.lsqFirst) = false := by decide
  simp only [intToBinstr, hne, Bool.and_false, Bool.false_eq_true, if_false]
  rw [List.getElem?_reverse (by rw [bitsMSB_length]; exact hq)]
  rw [bitsMSB_length]
  have h2 : n - 1 - q < n := by omega
  rw [List.getElem?_eq_getElem (by rw [bitsMSB_length]; exact h2), bitsMSB_get n i _ h2]
  congr 2
  omega

/-- distinct indices below 2ⁿ give distinct strings (no two amplitudes are merged into one key) -/
theorem bitsMSB_injective (n i j : Nat) (hi : i < 2 ^ n) (hj : j < 2 ^ n) (h : bitsMSB n i = bitsMSB n j) : i = j := by
  apply Nat.eq_of_testBit_eq
  intro q
  by_cases hq : q < n
  · have h1 := bitsMSB_get n i (n - 1 - q) (by omega)
    have h2 := bitsMSB_get n j (n - 1 - q) (by omega)
    have e : n - 1 - (n - 1 - q) = q := by omega
    rw [e] at h1 h2
    rw [← h1, ← h2]
    simp [h]
  · have hq' : n ≤ q := by omega
    have p : 2 ^ n ≤ 2 ^ q := Nat.pow_le_pow_right (by decide) hq'
    rw [Nat.testBit_lt_two_pow (by omega), Nat.testBit_lt_two_pow (by omega)]

/-! ## every gate and every circuit preserves the total probability -/
section isometry
variable {R : Type} [CommRing R] [StarRing R]

/-- **one gate**: any operation of the gate set (any multi-control list, any position) whose qubits are
    distinct and inside an `n`-qubit register preserves Σ|ψ|², for every `n` and every state -/
theorem op_isometry (k : Consts R) (L : k.Laws) (S : k.StarLaws) (n : Nat) (o : Op) (h : o.inReg n) (ψ : State R) :
    normSq n (o.sem k ψ) = normSq n ψ := Op.isometry k L S n o h ψ

/-- **any circuit**: exact outcome probabilities of any gate list sum to the norm of the input state -/
theorem circuit_isometry (k : Consts R) (L : k.Laws) (S : k.StarLaws) (n : Nat) (ops : List Op)
    (h : ∀ o ∈ ops, o.inReg n) (ψ : State R) : normSq n (semOps k ops ψ) = normSq n ψ :=
  semOps_isometry k L S n ops h ψ

end isometry

/-- the same for the amplitudes the model driver computes: frequencies returned by the exact simulation sum to 1
    for a normalised input -/
theorem circuit_isometry_exec (n : Nat) (ops : List Op) (h : ∀ o ∈ ops, o.inReg n) (ψ : State Cyc) :
    normSq n (semOps cycConsts ops ψ) = normSq n ψ :=
  semOps_isometry cycConsts cycConsts_laws cycConsts_starLaws n ops h ψ

/-- |0…0⟩ on an `n`-qubit register -/
def zeroState (n : Nat) : State Cyc := fun x => if (List.range n).all (fun q => !x q) then 1 else 0

/-- |0…0⟩ has norm 1 on every register, hence so does the state prepared by any circuit -/
theorem normSq_zero_state (n : Nat) : normSq n (zeroState n) = 1 := by
  unfold normSq
  have h0 : (0 : Nat) ∈ Finset.range (2 ^ n) := Finset.mem_range.mpr (Nat.two_pow_pos n)
  rw [Finset.sum_eq_single_of_mem 0 h0]
  · have : (List.range n).all (fun q => !(bitsOf 0) q) = true := by simp [bitsOf]
    simp [zeroState, this, wt]
  · intro i hi hne
    have hlt : i < 2 ^ n := Finset.mem_range.mp hi
    have : (List.range n).all (fun q => !(bitsOf i) q) = false := by
      by_contra hc
      have hall : (List.range n).all (fun q => !(bitsOf i) q) = true := by simpa using hc
      apply hne
      apply Nat.eq_of_testBit_eq
      intro q
      by_cases hq : q < n
      · have := List.all_eq_true.mp hall q (List.mem_range.mpr hq)
        simpa [bitsOf] using this
      · have hq' : n ≤ q := by omega
        have p : 2 ^ n ≤ 2 ^ q := Nat.pow_le_pow_right (by decide) hq'
        rw [Nat.testBit_lt_two_pow (by omega)]; simp
    simp [zeroState, this, wt]

theorem prepared_state_normalised (n : Nat) (ops : List Op) (h : ∀ o ∈ ops, o.inReg n) :
    normSq n (semOps cycConsts ops (zeroState n)) = 1 := by
  rw [circuit_isometry_exec n ops h, normSq_zero_state]

/-! ## the executable simulator refines the specification -/

theorem basisSV_zero_state (n : Nat) : basisSV n 0 = tabulate n (zeroState n) := by
  simp only [basisSV, tabulate, zeroState]
  congr 1
  funext idx
  by_cases h0 : idx.val = 0
  · have : (List.range n).all (fun q => !(bitsOf idx.val) q) = true := by rw [h0]; simp [bitsOf]
    rw [if_pos h0, if_pos this]
  · have : (List.range n).all (fun q => !(bitsOf idx.val) q) = false := by
      by_contra hc
      have hall : (List.range n).all (fun q => !(bitsOf idx.val) q) = true := by simpa using hc
      apply h0
      apply Nat.eq_of_testBit_eq
      intro q
      by_cases hq : q < n
      · have := List.all_eq_true.mp hall q (List.mem_range.mpr hq)
        simpa [bitsOf] using this
      · have hq' : n ≤ q := by omega
        have p : 2 ^ n ≤ 2 ^ q := Nat.pow_le_pow_right (by decide) hq'
        have hlt := idx.isLt
        rw [Nat.testBit_lt_two_pow (by omega)]; simp
    rw [if_neg h0, this]; rfl

/-- **what the model driver computes is the specified state**: for every circuit inside an `n`-qubit register, the
    array simulator started from |0…0⟩ returns the table of `semOps` applied to |0…0⟩ - every theorem about `semOps`
    (C01, C06, C09, C10, C20 …) is a theorem about the state vectors the correspondence compares with the backends -/
theorem driver_state_is_specified (n : Nat) (ops : List Op) (h : ∀ o ∈ ops, o.inReg n) :
    simOps n ops (basisSV n 0) = tabulate n (semOps cycConsts ops (zeroState n)) := by
  rw [basisSV_zero_state, simOps_tabulate n ops (fun o ho => (h o ho).2)]

/-- the same from a user-supplied initial state -/
theorem driver_state_is_specified_init (n : Nat) (ops : List Op) (h : ∀ o ∈ ops, o.inReg n) (ψ : State Cyc) :
    simOps n ops (tabulate n ψ) = tabulate n (semOps cycConsts ops ψ) :=
  simOps_tabulate n ops (fun o ho => (h o ho).2) ψ

/-! ## non-vacuity -/
example : intToBinstr .lsqFirst 4 3 true = [true, false, false] := by decide
example : intToBinstr .msqFirst 4 3 true = [false, false, true] := by decide

end Tangelo.C01
