import TangeloModel.Noise
import TangeloProofs.CycRing
import Mathlib.Tactic.FieldSimp
import Mathlib.Tactic.Ring
import Mathlib.Tactic.Positivity
import Mathlib.Algebra.Order.Ring.Rat
import Mathlib.Algebra.Order.Field.Basic
import Mathlib.Tactic.Linarith
import Mathlib.Tactic.NormNum
/-!
# C19 — noisy simulation applies exactly the specified channels
-/
namespace Tangelo.C19
open Tangelo Noise

/-! ## placement -/

/-- channels are inserted gate by gate, in gate order: the translation of a concatenation is the
    concatenation of the translations -/
theorem noisyOps_append (m : Model) (xs ys : List Gate) : noisyOps m (xs ++ ys) = noisyOps m xs ++ noisyOps m ys := by
  simp [noisyOps, List.flatMap_append]

theorem noisyOps_cons (m : Model) (g : Gate) (gs : List Gate) :
    noisyOps m (g :: gs) = NOp.gate g :: (channelsFor m g ++ noisyOps m gs) := by
  simp [noisyOps, List.flatMap_cons]

/-- a gate whose name carries no error gets no channel; with an empty model nothing is inserted -/
theorem no_error_no_channel (m : Model) (g : Gate) (h : m.find? (·.1 == g.name) = none) : channelsFor m g = [] := by
  simp [channelsFor, h]

theorem empty_model (gs : List Gate) : noisyOps [] gs = gs.map NOp.gate := by
  induction gs with
  | nil => rfl
  | cons g gs ih => rw [noisyOps_cons, ih]; simp [channelsFor]

/-- the qubits a channel acts on -/
def NOp.chQubits : NOp → List Nat
  | .gate _ => []
  | .pauliCh _ _ _ q => [q]
  | .depolCh _ qs => qs

/-- every channel inserted after a gate acts on qubits of that gate only (targets and controls) -/
theorem channels_on_gate_qubits (m : Model) (g : Gate) : ∀ c ∈ channelsFor m g, ∀ q ∈ NOp.chQubits c, q ∈ g.target ++ g.control.getD [] := by
  intro c hc q hq
  simp only [channelsFor] at hc
  split at hc
  · simp at hc
  · rename_i ks _
    simp only [List.mem_flatMap] at hc
    obtain ⟨k, _, hk⟩ := hc
    cases k with
    | pauli px py pz =>
      simp only [List.mem_map] at hk
      obtain ⟨q', hq', rfl⟩ := hk
      simp only [NOp.chQubits, List.mem_singleton] at hq
      subst hq; exact hq'
    | depol p =>
      simp only [List.mem_singleton] at hk
      subst hk
      exact hq

/-- a 'pauli' error puts exactly one channel on every target, then on every control, in that order; a 'depol'
    error puts one channel on targets ++ controls with the rate p(4ᵏ−1)/4ᵏ -/
theorem single_error_channels (name : String) (g : Gate) (hn : g.name = name) :
    (∀ px py pz, channelsFor [(name, [.pauli px py pz])] g = (g.target ++ g.control.getD []).map (fun q => NOp.pauliCh px py pz q)) ∧
    (∀ p, channelsFor [(name, [.depol p])] g =
      [NOp.depolCh (depolRate p (g.target ++ g.control.getD []).length) (g.target ++ g.control.getD [])]) := by
  subst hn
  constructor
  · intro px py pz; simp [channelsFor]
  · intro p; simp [channelsFor]

/-! ## rates -/

/-- with the cirq parameter p(4ᵏ−1)/4ᵏ every one of the 4ᵏ−1 non-identity Pauli strings is applied with
    probability p/4ᵏ, and the identity with 1 − p(4ᵏ−1)/4ᵏ -/
theorem depol_rate_per_pauli (p : Rat) (k : Nat) (hk : 0 < k) :
    depolRate p k / ((4 : Rat) ^ k - 1) = p / (4 : Rat) ^ k := by
  have h4 : (4 : Rat) ^ k ≠ 0 := by positivity
  have h1 : (4 : Rat) ^ k - 1 ≠ 0 := by
    have : (1 : Rat) < (4 : Rat) ^ k := one_lt_pow₀ (by norm_num) (by omega)
    linarith
  unfold depolRate
  field_simp

theorem depol_rate_zero (k : Nat) : depolRate 0 k = 0 := by simp [depolRate]

/-! ## zero noise is no noise -/

/-- the mixture formula of the asymmetric depolarising channel with all rates 0 returns the state -/
theorem pauli_mix_zero (v x y z : Cyc) :
    Cyc.ofRat (1 - 0 - 0 - 0) * v + Cyc.ofRat 0 * x + (Cyc.ofRat 0 * y + Cyc.ofRat 0 * z) = v := by
  have h1 : Cyc.ofRat (1 - 0 - 0 - 0) = 1 := by
    have : (1 : Rat) - 0 - 0 - 0 = 1 := by norm_num
    rw [this]; rfl
  have h0 : Cyc.ofRat 0 = 0 := rfl
  rw [h1, h0]; ring

/-! ## validation -/

theorem rejects_unknown_type (m : Model) (g ty : String) (ps : RawParams) (h1 : ty ≠ "pauli") (h2 : ty ≠ "depol") :
    addError m g ty ps = none := by
  have : parseKind ty ps = none := by unfold parseKind; split <;> simp_all
  simp [addError, this]

theorem pauli_needs_three (m : Model) (g : String) (l : List Rat) (h : l.length ≠ 3) : addError m g "pauli" (.list l) = none := by
  have : parseKind "pauli" (.list l) = none := by
    match l, h with
    | [], _ => rfl
    | [_], _ => rfl
    | [_, _], _ => rfl
    | [_, _, _], h => exact absurd rfl h
    | _ :: _ :: _ :: _ :: _, _ => rfl
  simp [addError, this]

theorem depol_needs_float (m : Model) (g : String) (l : List Rat) : addError m g "depol" (.list l) = none := by
  have : parseKind "depol" (.list l) = none := rfl
  simp [addError, this]

theorem no_second_error_of_same_type (g : String) (k k' : Kind) (ht : k.tag = k'.tag) (ty : String) (ps : RawParams)
    (hk : parseKind ty ps = some k') : addError [(g, [k])] g ty ps = none := by
  simp [addError, hk, ht]

/-! ## non-vacuity -/
example : noisyOps [("CNOT", [.depol (1/10)])] [⟨"CNOT", [2], some [0, 1], .none, false⟩] =
    [.gate ⟨"CNOT", [2], some [0, 1], .none, false⟩, .depolCh (depolRate (1/10) 3) [2, 0, 1]] := by
  simp [noisyOps, channelsFor]

/-! ## zero rates: the exact density matrix is the noiseless one -/

theorem addSV_size (a b : SV) : (addSV a b).size = a.size := by simp [addSV]
theorem scaleSV_size (z : Cyc) (a : SV) : (scaleSV z a).size = a.size := by simp [scaleSV]

theorem ofRat_zero : Cyc.ofRat 0 = 0 := rfl
theorem ofRat_one : Cyc.ofRat 1 = 1 := rfl

/-- adding a zero-weighted vector changes nothing (whatever its size) -/
theorem addSV_scale_zero (a w : SV) : addSV a (scaleSV 0 w) = a := by
  apply Array.ext
  · simp [addSV]
  · intro i h1 h2
    simp only [addSV, Array.getElem_ofFn, scaleSV]
    have ha : a.getD i 0 = a[i] := by simp [Array.getD, h2]
    rw [ha]
    by_cases hw : i < w.size
    · have : (Array.map (fun x => (0 : Cyc) * x) w).getD i 0 = 0 * w[i] := by simp [Array.getD, hw]
      rw [this]; ring
    · have : (Array.map (fun x => (0 : Cyc) * x) w).getD i 0 = 0 := by simp [Array.getD, hw]
      rw [this]; ring

theorem scaleSV_one (a : SV) : scaleSV 1 a = a := by
  apply Array.ext
  · simp [scaleSV]
  · intro i h1 h2
    simp [scaleSV]

/-- **a Pauli channel with rates (0, 0, 0) is the identity** on every density matrix -/
theorem pauliCh_zero (n q : Nat) (v : SV) : applyPauliCh n 0 0 0 q v = v := by
  have h1 : Cyc.ofRat (1 - 0 - 0 - 0) = 1 := by
    have : (1 : Rat) - 0 - 0 - 0 = 1 := by norm_num
    rw [this]; rfl
  simp only [applyPauliCh, h1, ofRat_zero, scaleSV_one, addSV_scale_zero]

/-- **a depolarising channel with rate 0 is the identity** on every density matrix, on any number of qubits -/
theorem depolCh_zero (n : Nat) (qs : List Nat) (v : SV) : applyDepolCh n 0 qs v = v := by
  simp only [applyDepolCh]
  have h1 : Cyc.ofRat (1 - 0) = 1 := by
    have : (1 : Rat) - 0 = 1 := by norm_num
    rw [this]; rfl
  have h0 : Cyc.ofRat (0 / ((4 : Rat) ^ qs.length - 1)) = 0 := by simp; rfl
  rw [h1, h0, scaleSV_one]
  generalize (pauliStrings qs).filter (fun s => !s.isEmpty) = strs
  induction strs with
  | nil => rfl
  | cons s rest ih => rw [List.foldl_cons, addSV_scale_zero]; exact ih

/-- every rate of the model is zero -/
def Kind.isZero : Kind → Bool
  | .pauli px py pz => px == 0 && py == 0 && pz == 0
  | .depol p => p == 0
def ZeroModel (m : Model) : Prop := ∀ e ∈ m, ∀ k ∈ e.2, Kind.isZero k = true

/-- with zero rates every inserted channel is an identity channel -/
theorem channels_zero (m : Model) (hm : ZeroModel m) (g : Gate) (n : Nat) (v : SV) :
    ∀ c ∈ channelsFor m g, applyNOp n v c = some v := by
  intro c hc
  simp only [channelsFor] at hc
  cases hf : m.find? (·.1 == g.name) with
  | none => simp [hf] at hc
  | some e =>
    obtain ⟨nm, ks⟩ := e
    simp only [hf, List.mem_flatMap] at hc
    obtain ⟨k, hk, hck⟩ := hc
    have hz := hm (nm, ks) (List.mem_of_find?_eq_some hf) k hk
    cases k with
    | pauli px py pz =>
      simp only [Kind.isZero, Bool.and_eq_true, beq_iff_eq] at hz
      obtain ⟨⟨rfl, rfl⟩, rfl⟩ := hz
      simp only [List.mem_map] at hck
      obtain ⟨q, _, rfl⟩ := hck
      simp [applyNOp, pauliCh_zero]
    | depol p =>
      simp only [Kind.isZero, beq_iff_eq] at hz
      subst hz
      simp only [List.mem_singleton] at hck
      subst hck
      simp [applyNOp, depol_rate_zero, depolCh_zero]

theorem foldlM_channels_zero (n : Nat) (cs : List NOp) (v : SV) (h : ∀ c ∈ cs, ∀ w, applyNOp n w c = some w) :
    cs.foldlM (fun v o => applyNOp n v o) v = some v := by
  induction cs with
  | nil => rfl
  | cons c rest ih =>
    simp only [List.foldlM_cons, h c (by simp) v]
    exact ih (fun c' hc' => h c' (by simp [hc']))

/-- **a model with zero error rates reproduces the noiseless result**: for every circuit, every register size and every
    set of noisy gate names, the exact density matrix with the all-zero noise model is the one without noise -/
theorem zero_rates_noiseless (m : Model) (hm : ZeroModel m) (n : Nat) (gs : List Gate) :
    runNoisy n (noisyOps m gs) = runNoisy n (gs.map NOp.gate) := by
  unfold runNoisy
  generalize basisSV (2 * n) 0 = v0
  induction gs generalizing v0 with
  | nil => rfl
  | cons g rest ih =>
    rw [noisyOps_cons, List.map_cons, List.foldlM_cons, List.foldlM_cons]
    cases hg : applyNOp n v0 (NOp.gate g) with
    | none => rfl
    | some v1 =>
      simp only [Option.bind_eq_bind, Option.bind_some]
      rw [List.foldlM_append, foldlM_channels_zero n _ v1 (fun c hc w => channels_zero m hm g n w c hc)]
      exact ih v1

/-- non-vacuity: a model that names gates and carries both kinds of error, with zero rates -/
example : ZeroModel [("H", [.pauli 0 0 0, .depol 0]), ("CNOT", [.depol 0])] := by
  intro e he k hk
  simp at he
  rcases he with rfl | rfl <;> simp at hk <;> (try rcases hk with rfl | rfl) <;> decide

end Tangelo.C19
