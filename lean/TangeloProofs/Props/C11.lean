import TangeloModel.Circuit
namespace Tangelo.C11
theorem placeholder : True := trivial
end Tangelo.C11
