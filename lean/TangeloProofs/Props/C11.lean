import TangeloProofs.Lemmas.CircuitInv
/-!
# C11 — circuit metadata stays consistent under any operation history

Property theorems only (helper lemmas live in `Lemmas/CircuitInv.lean`).
The model (`TangeloModel/Circuit.lean`, `Store.lean`) mirrors `tangelo/linq/circuit.py`,
`gate.py`; the correspondence check replays histories on both.
-/
namespace Tangelo.C11
open Tangelo Circuit

/-- every circuit of the store satisfies the metadata invariant -/
def AllInv (s : Store) : Prop := ∀ p ∈ s, p.2.Inv

theorem allInv_put (s : Store) (k : String) (c : Circuit) (hs : AllInv s) (hc : c.Inv) : AllInv (s.put k c) := by
  intro p hp
  unfold Store.put at hp
  split at hp
  · obtain ⟨q, hq, rfl⟩ := List.mem_map.mp hp
    split
    · exact hc
    · exact hs q hq
  · rcases List.mem_append.mp hp with h | h
    · exact hs p h
    · simp at h; subst h; exact hc

theorem need_inv (s : Store) (k : String) (c : Circuit) (hs : AllInv s) (h : need s k = .ok c) : c.Inv := by
  unfold need Store.get? at h
  split at h
  · rename_i c' hc'
    injection h with h; subst h
    cases hf : s.find? (·.1 == k) with
    | none => simp [hf] at hc'
    | some p =>
      simp [hf] at hc'
      subst hc'
      exact hs p (List.mem_of_find?_eq_some hf)
  · cases h

/-! ## each operation keeps the invariant -/

theorem inv_add (c d r : Circuit) (h : c.add d = .ok r) : r.Inv := inv_ofGates _ _ r h
theorem inv_mul (c r : Circuit) (n : Int) (h : c.mul n = .ok r) : r.Inv := by
  unfold Circuit.mul at h; split at h
  · cases h
  · exact inv_ofGates _ _ r h
theorem inv_copy (c r : Circuit) (h : c.copy = .ok r) : r.Inv := inv_ofGates _ _ r h
theorem inv_inverse (c r : Circuit) (h : c.inverse = .ok r) : r.Inv := by
  unfold Circuit.inverse at h
  simp only [bind, Except.bind] at h
  split at h
  · cases h
  · exact inv_ofGates _ _ r h
theorem inv_removeSmall (p : Gate → Bool) (c r : Circuit) (rq : Bool) (h : removeSmallWith p c rq = .ok r) : r.Inv := by
  unfold removeSmallWith at h
  split at h <;> exact inv_ofGates _ _ r h

theorem inv_trim (c r : Circuit) (hc : c.Inv) (h : c.trimQubits = .ok r) : r.Inv := by
  unfold Circuit.trimQubits at h
  simp only [bind, Except.bind] at h
  split at h
  · cases h
  · rename_i gs hgs
    simp only [pure, Except.pure] at h
    injection h with h; subst h
    refine inv_remap c _ gs _ hc hgs ?_ (range_sorted _)
    intro q hq
    -- the image of `l.zipIdx` is `range l.length`
    obtain ⟨p, hp, rfl⟩ := List.mem_map.mp hq
    obtain ⟨a, i⟩ := p
    have := List.mem_zipIdx hp
    simp only [List.mem_range]
    omega

theorem inv_reindex (c r : Circuit) (idx : List Nat) (hc : c.Inv) (h : c.reindexQubits idx = .ok r) : r.Inv := by
  unfold Circuit.reindexQubits at h
  split at h
  · cases h
  · simp only [bind, Except.bind] at h
    split at h
    · cases h
    · rename_i gs hgs
      simp only [pure, Except.pure] at h
      injection h with h; subst h
      refine inv_remap c _ gs _ hc hgs ?_ (foldl_setInsert_sorted _ _ (by simp))
      intro q hq
      obtain ⟨p, hp, rfl⟩ := List.mem_map.mp hq
      simp only [setOfList, mem_foldl_setInsert]
      left
      exact (List.of_mem_zip hp).2

/-! ## rejected and read-only operations leave every stored circuit as it was -/

theorem step_rejected_unchanged (d : Decide) (s : Store) (op : COp) (e : Err)
    (h : (step d s op).2 = .err e) : (step d s op).1 = s ∨ ∃ r, stepE d s op = .ok r := by
  unfold step at h ⊢
  split
  · right; exact ⟨_, by assumption⟩
  · left; rfl

/-- an operation that the model rejects returns the store unchanged -/
theorem step_error_store (d : Decide) (s : Store) (op : COp) (e : Err) (h : stepE d s op = .error e) :
    step d s op = (s, .err e) := by
  simp [step, h]

/-- depth, ==, entangled sets, translation and simulation never change the store -/
theorem readonly_store (d : Decide) (s : Store) :
    (∀ a, (step d s (.depth a)).1 = s) ∧ (∀ a b, (step d s (.eq a b)).1 = s) ∧
    (∀ a, (step d s (.entangled a)).1 = s) ∧ (step d s .noop).1 = s := by
  refine ⟨?_, ?_, ?_, ?_⟩
  · intro a
    simp only [step, stepE, bind, Except.bind]
    cases need s a <;> simp [pure, Except.pure]
  · intro a b
    simp only [step, stepE, bind, Except.bind]
    cases need s a <;> cases need s b <;> simp [pure, Except.pure]
  · intro a
    simp only [step, stepE, bind, Except.bind]
    cases need s a <;> simp [pure, Except.pure]
  · simp [step, stepE, pure, Except.pure]

/-! ## reported metadata = recomputation from the gate list -/

theorem filterMap_getElem?_length (gs : List Gate) (idx : List Nat) (h : ∀ i ∈ idx, i < gs.length) :
    (idx.filterMap (fun i => gs[i]?)).length = idx.length := by
  induction idx with
  | nil => rfl
  | cons i is ih =>
    have hi := h i (by simp)
    have := ih (fun j hj => h j (by simp [hj]))
    simp [List.getElem?_eq_getElem hi, this]

theorem varGates_length (c : Circuit) (h : ∀ i ∈ c.varIdx, i < c.gates.length) : c.varGates.length = c.varIdx.length :=
  filterMap_getElem?_length c.gates c.varIdx h

/-- `size`, `counts`, `counts_n_qubit`, `is_variational`, `is_mixed_state` as functions of the gate list -/
theorem meta_recomputed (c : Circuit) (hc : c.Inv) :
    c.size = c.gates.length ∧
    (∀ nm, lookupD c.counts nm = c.gates.countP (fun g => g.name == nm)) ∧
    (∀ k, lookupD c.nqCounts k = c.gates.countP (fun g => g.qubits.length == k)) ∧
    (c.isVariational = c.gates.any (fun g => g.isVar)) ∧
    (c.isMixedState = c.gates.any (fun g => g.name == "MEASURE" || g.name == "CMEASURE")) := by
  refine ⟨rfl, hc.counts, hc.nq, ?_, ?_⟩
  · have hl := varGates_length c hc.varLt
    rw [hc.var] at hl
    unfold Circuit.isVariational
    cases hv : c.varIdx with
    | nil =>
      rw [hv] at hl
      simp only [List.isEmpty_nil, Bool.not_true]
      symm
      rw [List.any_eq_false]
      intro g hg hgv
      have hmem : g ∈ c.gates.filter (fun g => g.isVar) := List.mem_filter.mpr ⟨hg, hgv⟩
      have hnil : c.gates.filter (fun g => g.isVar) = [] := List.length_eq_zero_iff.mp (by simpa using hl)
      rw [hnil] at hmem
      simp at hmem
    | cons i is =>
      rw [hv] at hl
      simp only [List.isEmpty_cons, Bool.not_false]
      symm
      rw [List.any_eq_true]
      have : 0 < (c.gates.filter (fun g => g.isVar)).length := by simp at hl; omega
      obtain ⟨g, hg⟩ := List.exists_mem_of_length_pos this
      exact ⟨g, (List.mem_filter.mp hg).1, (List.mem_filter.mp hg).2⟩
  · unfold Circuit.isMixedState
    rw [hc.counts, hc.counts]
    rw [Bool.eq_iff_iff]
    simp only [Bool.or_eq_true, decide_eq_true_eq, List.countP_pos_iff, List.any_eq_true, beq_iff_eq]
    constructor
    · rintro (⟨g, hg, h⟩ | ⟨g, hg, h⟩)
      · exact ⟨g, hg, Or.inl h⟩
      · exact ⟨g, hg, Or.inr h⟩
    · rintro ⟨g, hg, h | h⟩
      · exact Or.inl ⟨g, hg, h⟩
      · exact Or.inr ⟨g, hg, h⟩

/-- every qubit a gate touches is below the reported width -/
theorem used_lt_width (c : Circuit) (hc : c.Inv) :
    ∀ g ∈ c.gates, ∀ q ∈ g.qubits, q < c.width := by
  intro g hg q hq
  have hs := hc.sorted
  have hm := hc.used g hg q hq
  have hne : c.indices ≠ [] := by intro e; simp [e] at hm
  have := le_getLast_of_sorted c.indices hs hne q hm
  unfold Circuit.width
  rw [List.getLast?_eq_some_getLast hne]
  simp only
  omega

/-! ## gate construction: rejection rules -/

theorem hasDup_false_iff (l : List Nat) : Gate.hasDup l = false ↔ l.Nodup := by
  induction l with
  | nil => simp [Gate.hasDup]
  | cons x xs ih => simp [Gate.hasDup, ih, List.nodup_cons]

theorem checkIdx_some (l : List RawIdx) (r : List Nat) (h : Gate.checkIdx l = some r) :
    ∀ x ∈ l, ∃ i : Int, x = .int i ∧ 0 ≤ i := by
  induction l generalizing r with
  | nil => simp
  | cons x xs ih =>
    cases x with
    | other => simp [Gate.checkIdx] at h
    | int i =>
      simp only [Gate.checkIdx] at h
      split at h
      · cases h
      · rename_i hi
        cases hr : Gate.checkIdx xs with
        | none => simp [hr] at h
        | some r' =>
          intro y hy
          rcases List.mem_cons.mp hy with e | e
          · subst e; exact ⟨i, rfl, by omega⟩
          · exact ih r' hr y e

/-- an accepted gate has: only non-negative integer indices, no duplicate qubit, the target count
    of its name, and a control list only on a name starting with `C` -/
theorem mk?_sound (name : Option String) (t : List RawIdx) (c : Option (List RawIdx)) (p : Param) (v : Bool) (g : Gate)
    (h : Gate.mk? name t c p v = .ok g) :
    (∀ x ∈ t, ∃ i : Int, x = .int i ∧ 0 ≤ i) ∧
    (∀ cs, c = some cs → ∀ x ∈ cs, ∃ i : Int, x = .int i ∧ 0 ≤ i) ∧
    g.qubits.Nodup ∧
    (Tables.oneTargetGates.contains g.name → g.target.length = 1) ∧
    (Tables.twoTargetGates.contains g.name → g.target.length = 1 ∨ g.target.length = 2) ∧
    (g.control.isSome → g.name.front = 'C') := by
  unfold Gate.mk? at h
  split at h
  · cases h
  · rename_i tgt htgt
    split at h
    · cases h
    · rename_i nm0
      simp only at h
      split at h
      · cases h
      · rename_i ctl hctl
        by_cases hdup : Gate.hasDup (tgt ++ ctl.getD []) = true
        · simp [hdup] at h
        · by_cases hnt : (tgt.length != Gate.expectedTargets nm0.toUpper tgt.length) = true
          · simp [hdup, hnt] at h
          · simp only [hdup, hnt] at h
            injection h with h; subst h
            have hlen : tgt.length = Gate.expectedTargets nm0.toUpper tgt.length := by simpa using hnt
            have hT := checkIdx_some t tgt htgt
            refine ⟨hT, ?_, ?_, ?_, ?_, ?_⟩
            · intro cs hcs x hx
              subst hcs
              simp only at hctl
              split at hctl
              · cases hctl
              · split at hctl
                · cases hctl
                · rename_i c' hc'
                  exact checkIdx_some cs c' hc' x hx
            · simp only [Gate.qubits]
              exact (hasDup_false_iff (tgt ++ ctl.getD [])).mp (by simpa using hdup)
            · intro h1
              simp only [Gate.expectedTargets, h1, if_true] at hlen
              exact hlen
            · intro h2
              simp only [Gate.expectedTargets, h2, if_true] at hlen
              split at hlen
              · left; exact hlen
              · right; exact hlen
            · intro hsome
              simp only at hsome
              cases c with
              | none => simp at hctl; subst hctl; simp at hsome
              | some cs =>
                simp only at hctl
                split at hctl
                · cases hctl
                · rename_i hfront
                  simpa using hfront

/-- **spelling of the name is immaterial**: every rule of `Gate.__init__` (control allowed, number of targets, the stored
    name) looks at the upper-cased name only - two spellings of one name are accepted or rejected alike, with the same gate -/
theorem mk?_spelling (nm0 nm1 : String) (h : nm0.toUpper = nm1.toUpper) (t : List RawIdx) (c : Option (List RawIdx)) (p : Param) (v : Bool) :
    Gate.mk? (some nm0) t c p v = Gate.mk? (some nm1) t c p v := by
  simp only [Gate.mk?, h]

-- (`String.toUpper` does not reduce in the kernel; instances of the hypothesis - "swap" / "SWAP", "cRz" / "CRZ" - are
-- evaluated by the compiled driver in every run: the correspondence respells a third of the gate names)

/-- negative or non-integer target index ⇒ `ValueError`, whatever the other arguments -/
theorem mk?_rejects_bad_target (name : Option String) (t : List RawIdx) (c : Option (List RawIdx)) (p : Param) (v : Bool)
    (h : Gate.checkIdx t = none) : Gate.mk? name t c p v = .error .value := by
  simp [Gate.mk?, h]

/-! ## non-vacuity -/
example : (Circuit.ofGates [⟨"H", [0], none, .none, false⟩, ⟨"CRZ", [1], some [0], .ang (Ang.piQuarter 1), true⟩] (some 3)).isOk = true := by decide
example : ∃ c, Circuit.ofGates [⟨"H", [0], none, .none, false⟩] none = .ok c ∧ c.Inv := by
  cases h : Circuit.ofGates [⟨"H", [0], none, .none, false⟩] none with
  | ok c => exact ⟨c, rfl, inv_ofGates _ _ _ h⟩
  | error e => simp [Circuit.ofGates, Circuit.addGates, Circuit.addGate, Circuit.addGateBad, Circuit.empty] at h

end Tangelo.C11

namespace Tangelo.C11
open Tangelo Circuit

/-! ## the remaining operations, and the theorem over whole histories -/

theorem inv_merge (eqv : Gate → Gate → Bool) (c r : Circuit) (h : mergeRotationsWith eqv c = .ok r) : r.Inv := by
  unfold mergeRotationsWith at h
  simp only [bind, Except.bind] at h
  split at h
  · cases h
  · exact inv_ofGates _ _ r h

theorem inv_removeRedundant (eqv : Gate → Gate → Bool) (c r : Circuit) (rq : Bool)
    (h : removeRedundantWith eqv c rq = .ok r) : r.Inv := by
  unfold removeRedundantWith at h
  simp only [bind, Except.bind] at h
  split at h
  · cases h
  · split at h <;> exact inv_ofGates _ _ r h

theorem inv_simplify_loop (eqv : Gate → Gate → Bool) (small : Gate → Bool) (maxCycles : Nat) (rq : Bool) :
    ∀ (fuel i : Nat) (cOld cNew r : Circuit), cOld.Inv →
      simplifyWith.loop eqv small maxCycles rq fuel i cOld cNew = .ok r → r.Inv := by
  intro fuel
  induction fuel with
  | zero => intro i cOld cNew r ho h; simp [simplifyWith.loop] at h; subst h; exact ho
  | succ n ih =>
    intro i cOld cNew r ho h
    simp only [simplifyWith.loop] at h
    split at h
    · simp only [bind, Except.bind] at h
      split at h
      · cases h
      · rename_i m hm
        split at h
        · cases h
        · rename_i s hs
          split at h
          · cases h
          · rename_i rr hrr
            exact ih (i + 1) rr cOld r (inv_removeRedundant eqv s rr rq hrr) h
    · injection h with h; subst h; exact ho

theorem inv_simplify (eqv : Gate → Gate → Bool) (small : Gate → Bool) (c r : Circuit) (n : Nat) (rq : Bool)
    (h : simplifyWith eqv small c n rq = .ok r) : r.Inv := by
  unfold simplifyWith at h
  simp only [bind, Except.bind] at h
  split at h
  · cases h
  · rename_i c0 hc0
    exact inv_simplify_loop eqv small n rq _ _ c0 _ r (inv_copy c c0 hc0) h

/-- `mapM` in `Except` of an invariant-preserving partial function -/
theorem mapM_inv (f : Circuit → Except Err Circuit) (hf : ∀ c r, c.Inv → f c = .ok r → r.Inv)
    (cs rs : List Circuit) (hcs : ∀ c ∈ cs, c.Inv) (h : cs.mapM f = .ok rs) : ∀ r ∈ rs, r.Inv := by
  induction cs generalizing rs with
  | nil => simp [List.mapM_nil, pure, Except.pure] at h; subst h; simp
  | cons c cs ih =>
    rw [List.mapM_cons] at h
    simp only [bind, Except.bind] at h
    split at h
    · cases h
    · rename_i a ha
      split at h
      · cases h
      · rename_i b hb
        simp only [pure, Except.pure] at h
        injection h with h; subst h
        intro r hr
        rcases List.mem_cons.mp hr with e | e
        · subst e; exact hf c _ (hcs c (by simp)) ha
        · exact ih b (fun c' hc' => hcs c' (by simp [hc'])) hb r e

theorem foldlM_inv {β : Type} (P : β → Prop) {α : Type} (f : β → α → Except Err β)
    (hf : ∀ b a b', P b → f b a = .ok b' → P b') (l : List α) (b b' : β) (hb : P b)
    (h : l.foldlM f b = .ok b') : P b' := by
  induction l generalizing b with
  | nil => simp [List.foldlM_nil, pure, Except.pure] at h; subst h; exact hb
  | cons a as ih =>
    rw [List.foldlM_cons] at h
    simp only [bind, Except.bind] at h
    split at h
    · cases h
    · rename_i b1 hb1
      exact ih b1 (hf b a b1 hb hb1) h

theorem inv_split (c : Circuit) (trim : Bool) (rs : List Circuit) (h : c.split trim = .ok rs) : ∀ r ∈ rs, r.Inv := by
  unfold Circuit.split at h
  simp only [bind, Except.bind] at h
  split at h
  · cases h
  · rename_i cs hcs
    have hall : ∀ x ∈ cs, x.Inv := by
      refine foldlM_inv (fun (l : List Circuit) => ∀ x ∈ l, x.Inv) _ ?_ c.gates _ cs ?_ hcs
      · intro b g b' hb hstep
        unfold Circuit.placeGate at hstep
        split at hstep
        · split at hstep
          · rename_i i hi ci hci
            split at hstep
            · rename_i ci' hci'
              injection hstep with hstep; subst hstep
              intro x hx
              rcases List.mem_or_eq_of_mem_set hx with e | e
              · exact hb x e
              · subst e
                exact inv_addGate ci _ g (hb ci (List.mem_of_getElem? hci)) hci'
            · cases hstep
          · injection hstep with hstep; subst hstep; exact hb
        · injection hstep with hstep; subst hstep; exact hb
      · intro x hx
        obtain ⟨_, _, rfl⟩ := List.mem_map.mp hx
        exact inv_empty none
    split at h
    · exact mapM_inv _ inv_trim cs rs hall h
    · simp only [pure, Except.pure] at h
      injection h with h; subst h; exact hall

theorem inv_stack (cs : List Circuit) (r : Circuit) (hcs : ∀ c ∈ cs, c.Inv) (h : Circuit.stack cs = .ok r) : r.Inv := by
  unfold Circuit.stack at h
  split at h
  · injection h with h; subst h; exact inv_empty none
  · simp only [bind, Except.bind] at h
    split at h
    · cases h
    · rename_i tr htr
      have htrInv := mapM_inv _ inv_trim cs tr hcs htr
      split at h
      · injection h with h; subst h; exact inv_empty none
      · rename_i first rest
        refine foldlM_inv (fun (x : Circuit) => x.Inv) _ ?_ rest first r (htrInv first (by simp)) h
        intro b a b' _ hstep
        split at hstep
        · cases hstep
        · exact inv_add _ _ b' hstep

theorem allInv_putAll (s : Store) (dst : String) (cs : List Circuit) (hs : AllInv s) (hcs : ∀ c ∈ cs, c.Inv) :
    AllInv (putAll s dst cs) := by
  unfold putAll
  have : ∀ (l : List (Circuit × Nat)) (st : Store), AllInv st → (∀ p ∈ l, p.1.Inv) →
      AllInv (l.foldl (fun st (c, i) => st.put s!"{dst}{i}" c) st) := by
    intro l
    induction l with
    | nil => intro st h _; exact h
    | cons p ps ih =>
      intro st h hl
      apply ih
      · exact allInv_put st _ p.1 h (hl p (by simp))
      · intro q hq; exact hl q (by simp [hq])
  apply this _ _ hs
  intro p hp
  exact hcs p.1 (List.mem_zipIdx hp |>.2 |> fun h => by
    obtain ⟨a, i⟩ := p
    have := List.mem_zipIdx hp
    simp only at this ⊢
    rw [this.2.2]; exact List.getElem_mem _)

/-- **one step keeps the invariant on every stored circuit**, whatever the operation -/
theorem step_preserves (d : Decide) (s : Store) (op : COp) (hs : AllInv s) : AllInv (step d s op).1 := by
  unfold step
  split
  · rename_i r hr
    cases op <;> simp only [stepE, bind, Except.bind, pure, Except.pure] at hr
    case new dst gs n =>
      split at hr
      · cases hr
      · rename_i c hc
        injection hr with hr; subst hr
        exact allInv_put s dst c hs (inv_ofGates gs n c hc)
    case addGate dst g =>
      split at hr
      · cases hr
      · rename_i c hc
        split at hr
        · cases hr
        · cases hr
        · rename_i gate _
          split at hr
          · cases hr
          · rename_i c' hc'
            injection hr with hr; subst hr
            exact allInv_put s dst c' hs (inv_addGate c c' gate (need_inv s dst c hs hc) hc')
    case add dst a b =>
      split at hr
      · cases hr
      · split at hr
        · cases hr
        · split at hr
          · cases hr
          · rename_i c hc
            injection hr with hr; subst hr
            exact allInv_put s dst c hs (inv_add _ _ c hc)
    case mul dst a n =>
      split at hr
      · cases hr
      · split at hr
        · cases hr
        · rename_i c hc
          injection hr with hr; subst hr
          exact allInv_put s dst c hs (inv_mul _ c n hc)
    case copy dst a =>
      split at hr
      · cases hr
      · split at hr
        · cases hr
        · rename_i c hc
          injection hr with hr; subst hr
          exact allInv_put s dst c hs (inv_copy _ c hc)
    case inverse dst a =>
      split at hr
      · cases hr
      · split at hr
        · cases hr
        · rename_i c hc
          injection hr with hr; subst hr
          exact allInv_put s dst c hs (inv_inverse _ c hc)
    case trim dst =>
      split at hr
      · cases hr
      · rename_i ca hca
        split at hr
        · cases hr
        · rename_i c hc
          injection hr with hr; subst hr
          exact allInv_put s dst c hs (inv_trim ca c (need_inv s dst ca hs hca) hc)
    case reindex dst idx =>
      split at hr
      · cases hr
      · rename_i ca hca
        split at hr
        · cases hr
        · rename_i c hc
          injection hr with hr; subst hr
          exact allInv_put s dst c hs (inv_reindex ca c idx (need_inv s dst ca hs hca) hc)
    case split dst a trim =>
      split at hr
      · cases hr
      · split at hr
        · cases hr
        · rename_i cs hcs
          injection hr with hr; subst hr
          exact allInv_putAll s dst cs hs (inv_split _ trim cs hcs)
    case stack dst ids =>
      split at hr
      · cases hr
      · rename_i cs hcs
        split at hr
        · cases hr
        · rename_i c hc
          injection hr with hr; subst hr
          refine allInv_put s dst c hs (inv_stack cs c ?_ hc)
          -- every operand was read from the store
          have : ∀ (ids : List String) (cs : List Circuit), ids.mapM (need s) = .ok cs → ∀ x ∈ cs, x.Inv := by
            intro ids
            induction ids with
            | nil => intro cs h; simp [List.mapM_nil, pure, Except.pure] at h; subst h; simp
            | cons i is ih =>
              intro cs h
              rw [List.mapM_cons] at h
              simp only [bind, Except.bind] at h
              split at h
              · cases h
              · rename_i a ha
                split at h
                · cases h
                · rename_i b hb
                  simp only [pure, Except.pure] at h
                  injection h with h; subst h
                  intro x hx
                  rcases List.mem_cons.mp hx with e | e
                  · subst e; exact need_inv s i _ hs ha
                  · exact ih b hb x e
          exact this ids cs hcs
    case rsr dst a thr rq =>
      split at hr
      · cases hr
      · split at hr
        · cases hr
        · rename_i c hc
          injection hr with hr; subst hr
          exact allInv_put s dst c hs (inv_removeSmall _ _ c rq hc)
    case rrg dst a rq =>
      split at hr
      · cases hr
      · split at hr
        · cases hr
        · rename_i c hc
          injection hr with hr; subst hr
          exact allInv_put s dst c hs (inv_removeRedundant _ _ c rq hc)
    case merge dst a =>
      split at hr
      · cases hr
      · split at hr
        · cases hr
        · rename_i c hc
          injection hr with hr; subst hr
          exact allInv_put s dst c hs (inv_merge _ _ c hc)
    case simplify dst a cycles thr rq =>
      split at hr
      · cases hr
      · split at hr
        · cases hr
        · rename_i c hc
          injection hr with hr; subst hr
          exact allInv_put s dst c hs (inv_simplify _ _ _ c cycles rq hc)
    case depth a =>
      split at hr
      · cases hr
      · injection hr with hr; subst hr; exact hs
    case eq a b =>
      split at hr
      · cases hr
      · split at hr
        · cases hr
        · injection hr with hr; subst hr; exact hs
    case entangled a =>
      split at hr
      · cases hr
      · injection hr with hr; subst hr; exact hs
    case noop => injection hr with hr; subst hr; exact hs
  · exact hs

/-- **C11, model level**: after *any* finite history of operations, starting from the empty store,
    every stored circuit reports metadata equal to the recomputation from its gate list. -/
theorem run_preserves (d : Decide) (ops : List COp) (s : Store) (hs : AllInv s) : AllInv (run d s ops) := by
  induction ops generalizing s with
  | nil => exact hs
  | cons op ops ih => exact ih _ (step_preserves d s op hs)

theorem reachable_inv (d : Decide) (ops : List COp) : AllInv (run d [] ops) :=
  run_preserves d ops [] (fun _ h => by simp at h)

/-- **fixed width**: a circuit built with `n_qubits = n > 0` reports width `n` whatever its gates -/
theorem width_ofGates_fixed (gs : List Gate) (n : Nat) (c : Circuit) (h : Circuit.ofGates gs (some (n + 1)) = .ok c) :
    c.width = n + 1 := by
  have hinv := Circuit.inv_ofGates gs _ c h
  have hb := addGates_fixed_bound gs _ c n (by simp [Circuit.empty]) h
  have hm := mem_indices_addGates gs _ c h
  have : c.indices.getLast? = some n := by
    apply width_of_sorted _ hinv.sorted
    · rw [hm]; left; simp [Circuit.empty, Circuit.truthy]
    · intro q hq
      rcases (hm q).mp hq with e | ⟨g, hg, hq⟩
      · simp [Circuit.empty, Circuit.truthy] at e; omega
      · have := hb.2 g hg q hq; omega
  simp [Circuit.width, this]

/-- **free width**: without `n_qubits`, the width is one more than the largest qubit index any gate touches
    (0 for no gates) -/
theorem width_ofGates_free (gs : List Gate) (c : Circuit) (h : Circuit.ofGates gs Option.none = .ok c) :
    (∀ g ∈ gs, ∀ q ∈ g.qubits, q < c.width) ∧ (c.width = 0 ∨ ∃ g ∈ gs, c.width - 1 ∈ g.qubits) := by
  have hinv := Circuit.inv_ofGates gs _ c h
  have hg := Circuit.gates_ofGates gs _ c h
  have hm := mem_indices_addGates gs _ c h
  refine ⟨?_, ?_⟩
  · have := used_lt_width c hinv
    rw [hg] at this
    exact this
  · unfold Circuit.width
    cases hl : c.indices.getLast? with
    | none => left; rfl
    | some m =>
      right
      have hmem : m ∈ c.indices := List.mem_of_getLast? hl
      rcases (hm m).mp hmem with e | e
      · simp [Circuit.empty, Circuit.truthy] at e
      · simpa using e

/-- **C11, width**: after any finite history of operations every stored circuit has all the qubits its gates
    touch strictly below the width it reports -/
theorem reachable_used_lt_width (d : Decide) (ops : List COp) :
    ∀ p ∈ run d [] ops, ∀ g ∈ p.2.gates, ∀ q ∈ g.qubits, q < p.2.width :=
  fun p hp => used_lt_width p.2 (reachable_inv d ops p hp)

end Tangelo.C11
