import TangeloModel.Qft
import TangeloProofs.Lemmas.OpInverse
import TangeloProofs.CycLaws
import Mathlib.Tactic.Ring
import Mathlib.Tactic.Linarith
import Mathlib.Tactic.NormNum
import Mathlib.Tactic.FieldSimp
import Mathlib.Tactic.Push
import Mathlib.Data.List.Nodup
/-!
# C20 — Fourier transform, state initialisation and phase estimation are exact

* structure of the QFT gate list: the `inverse=True` list is the gate-by-gate inverse of the forward list
  and cancels it on every register (semantics of `TangeloModel.Sem`);
* the iterative phase-estimation controller returns the binary expansion of every representable phase,
  on every shot;
* bitstring → phase decoding;
* multiplexor identities used by the state-preparation recursion.
-/
namespace Tangelo.C20
open Tangelo Tangelo.Qft

/-! ## QFT gate list -/
section qft
variable {A : Type}

theorem swaps_inv (neg : A → A) (qs : List Nat) : (swaps qs : List (QG A)).map (QG.inv neg) = swaps qs := by
  simp [swaps, List.map_map, Function.comp_def, QG.inv]

/-- without the register swap the `inverse=True` list is literally the inverse of the forward list -/
theorem qft_inverse_noswap (ang : Nat → A) (neg : A → A) (qs : List Nat) :
    qft ang neg qs true false = invList neg (qft ang neg qs false false) := by
  simp [qft, invList]

/-- with the swap: the swaps come first, followed by the inverted rotation ladder … -/
theorem qft_inverse_swap (ang : Nat → A) (neg : A → A) (qs : List Nat) :
    qft ang neg qs true true = swaps qs ++ invList neg (rotations ang qs) := by
  simp [qft, invList]

/-- … and the inverse of the forward list is the same up to the order of the (disjoint) swaps -/
theorem invList_forward_swap (ang : Nat → A) (neg : A → A) (qs : List Nat) :
    invList neg (qft ang neg qs false true) = (swaps qs).reverse ++ invList neg (rotations ang qs) := by
  simp only [qft, invList, if_true, Bool.false_eq_true, if_false, List.map_append, List.reverse_append, swaps_inv]

theorem invList_invList (neg : A → A) (hn : ∀ a, neg (neg a) = a) (l : List (QG A)) : invList neg (invList neg l) = l := by
  have h1 : ∀ g : QG A, QG.inv neg (QG.inv neg g) = g := by intro g; cases g <;> simp [QG.inv, hn]
  simp [invList, List.map_reverse, List.map_map, Function.comp_def, h1]

theorem rotationsRev_length (ang : Nat → A) (r : List Nat) :
    (rotationsRev ang r).length = r.length + r.length * (r.length - 1) / 2 := by
  induction r with
  | nil => rfl
  | cons q r ih =>
    simp only [rotationsRev, List.length_append, List.length_cons, List.length_map, List.length_zipIdx, List.length_reverse, ih]
    have h2 : (r.length + 1) * (r.length + 1 - 1) = r.length * (r.length - 1) + 2 * r.length := by
      cases r.length with
      | zero => rfl
      | succ n => simp only [Nat.add_sub_cancel]; ring
    rw [h2, Nat.add_mul_div_left _ _ (by decide : 0 < 2)]
    omega

/-- gate count: n Hadamards and n(n−1)/2 controlled phases -/
theorem rotations_length (ang : Nat → A) (qs : List Nat) :
    (rotations ang qs).length = qs.length + qs.length * (qs.length - 1) / 2 := by
  simp [rotations, rotationsRev_length]

theorem swaps_length (qs : List Nat) : (swaps qs : List (QG A)).length = qs.length / 2 := by simp [swaps]

/-- qubits a gate touches -/
def _root_.Tangelo.Qft.QG.qubits : QG A → List Nat
  | .h t => [t]
  | .cp c t _ => [c, t]
  | .swap a b => [a, b]

theorem rotationsRev_qubits (ang : Nat → A) (r : List Nat) : ∀ g ∈ rotationsRev ang r, ∀ q ∈ g.qubits, q ∈ r := by
  induction r with
  | nil => intro g hg; simp [rotationsRev] at hg
  | cons last r ih =>
    intro g hg q hq
    simp only [rotationsRev, List.cons_append, List.mem_cons, List.mem_append, List.mem_map] at hg
    rcases hg with hg | ⟨qi, hqi, hg⟩ | hg
    · subst hg; simp [QG.qubits] at hq; simp [hq]
    · subst hg
      simp only [QG.qubits, List.mem_cons, List.not_mem_nil, or_false] at hq
      rcases hq with hq | hq
      · have := (List.mem_zipIdx hqi).2.2
        subst hq
        have hm : qi.1 ∈ r.reverse := by rw [this]; exact List.getElem_mem _
        simp at hm; simp [hm]
      · simp [hq]
    · exact List.mem_cons_of_mem _ (ih g hg q hq)

/-- every rotation gate acts inside the listed qubits -/
theorem rotations_qubits (ang : Nat → A) (qs : List Nat) : ∀ g ∈ rotations ang qs, ∀ q ∈ g.qubits, q ∈ qs := by
  intro g hg q hq
  have := rotationsRev_qubits ang qs.reverse g hg q hq
  simpa using this

/-- control ≠ target in every controlled phase when the listed qubits are distinct -/
def _root_.Tangelo.Qft.QG.wf : QG A → Prop
  | .cp c t _ => t ≠ c
  | _ => True

theorem rotationsRev_wf (ang : Nat → A) (r : List Nat) (hn : r.Nodup) : ∀ g ∈ rotationsRev ang r, g.wf := by
  induction r with
  | nil => intro g hg; simp [rotationsRev] at hg
  | cons last r ih =>
    intro g hg
    simp only [rotationsRev, List.cons_append, List.mem_cons, List.mem_append, List.mem_map] at hg
    rcases hg with hg | ⟨qi, hqi, hg⟩ | hg
    · subst hg; trivial
    · subst hg
      show last ≠ qi.1
      have := (List.mem_zipIdx hqi).2.2
      have hm : qi.1 ∈ r.reverse := by rw [this]; exact List.getElem_mem _
      have hm' : qi.1 ∈ r := by simpa using hm
      intro e
      exact (List.nodup_cons.mp hn).1 (e ▸ hm')
    · exact ih (List.nodup_cons.mp hn).2 g hg

theorem rotations_wf (ang : Nat → A) (qs : List Nat) (hn : qs.Nodup) : ∀ g ∈ rotations ang qs, g.wf :=
  rotationsRev_wf ang qs.reverse (List.nodup_reverse.mpr hn)

/-! ### semantics: the inverse list undoes the forward list -/
variable {R : Type} [CommRing R]

/-- meaning of the generated gates; `ph a` = e^{i a} -/
def semG (k : Consts R) (ph : A → R) : QG A → State R → State R
  | .h t => app1 (baseMatrix k .H 0) t
  | .cp c t a => ctl [c] (app1 ⟨1, 0, 0, ph a⟩ t)
  | .swap a b => appSwap a b

def semL (k : Consts R) (ph : A → R) (l : List (QG A)) (ψ : State R) : State R :=
  l.foldl (fun acc g => semG k ph g acc) ψ

theorem semL_append (k : Consts R) (ph : A → R) (l l' : List (QG A)) (ψ : State R) :
    semL k ph (l ++ l') ψ = semL k ph l' (semL k ph l ψ) := by simp [semL]

theorem appSwap_appSwap (a b : Nat) (ψ : State R) : appSwap a b (appSwap a b ψ) = ψ := by
  funext x; simp [appSwap, Bits.swap_swap]

theorem semG_inv (k : Consts R) (L : k.Laws) (ph : A → R) (neg : A → A) (hph : ∀ a, ph (neg a) * ph a = 1)
    (g : QG A) (hwf : g.wf) (ψ : State R) : semG k ph (g.inv neg) (semG k ph g ψ) = ψ := by
  cases g with
  | h t =>
    simp only [QG.inv, semG]
    rw [app1_app1]
    have : (baseMatrix k Base.H 0).mul (baseMatrix k Base.H 0) = (M2.one : M2 R) := by
      apply M2.ext' <;> simp only [baseMatrix, M2.mul, M2.one] <;> first | ring1 | linear_combination L.rsqrt2_sq
    rw [this, app1_one]
  | cp c t a =>
    simp only [QG.inv, semG]
    have ht : t ∉ [c] := by intro h; simp at h; exact hwf h
    rw [ctl_app1_app1 [c] _ _ t ht]
    have : (⟨1, 0, 0, ph (neg a)⟩ : M2 R).mul ⟨1, 0, 0, ph a⟩ = (M2.one : M2 R) := by
      apply M2.ext' <;> simp [M2.mul, M2.one, hph]
    rw [this, ctl_app1_one]
  | swap a b => simp only [QG.inv, semG]; exact appSwap_appSwap a b ψ

/-- for any generated list: running the gate-by-gate inverse after the list restores every state -/
theorem invList_cancels (k : Consts R) (L : k.Laws) (ph : A → R) (neg : A → A) (hph : ∀ a, ph (neg a) * ph a = 1)
    (l : List (QG A)) (hwf : ∀ g ∈ l, g.wf) (ψ : State R) : semL k ph (invList neg l) (semL k ph l ψ) = ψ := by
  induction l generalizing ψ with
  | nil => rfl
  | cons g l ih =>
    have e : invList neg (g :: l) = invList neg l ++ [g.inv neg] := by simp [invList]
    rw [e, semL_append]
    have : semL k ph (g :: l) ψ = semL k ph l (semG k ph g ψ) := rfl
    rw [this, ih (fun g' hg' => hwf g' (List.mem_cons_of_mem _ hg'))]
    exact semG_inv k L ph neg hph g (hwf g List.mem_cons_self) ψ

/-- **inverse option = adjoint** (swap off): QFT followed by the `inverse=True` circuit is the identity on
    every register that contains the (distinct) listed qubits, for every state -/
theorem qft_inverse_cancels_noswap (k : Consts R) (L : k.Laws) (ph : A → R) (ang : Nat → A) (neg : A → A)
    (hph : ∀ a, ph (neg a) * ph a = 1) (qs : List Nat) (hn : qs.Nodup) (ψ : State R) :
    semL k ph (qft ang neg qs true false) (semL k ph (qft ang neg qs false false) ψ) = ψ := by
  rw [qft_inverse_noswap]
  apply invList_cancels k L ph neg hph
  intro g hg
  simp only [qft, Bool.false_eq_true, if_false, List.append_nil] at hg
  exact rotations_wf ang qs hn g hg

/-- … and in the other order (inverse first), so the two circuits are mutually inverse bijections -/
theorem qft_forward_cancels_noswap (k : Consts R) (L : k.Laws) (ph : A → R) (ang : Nat → A) (neg : A → A)
    (hph : ∀ a, ph (neg a) * ph a = 1) (hn2 : ∀ a, neg (neg a) = a) (qs : List Nat) (hn : qs.Nodup) (ψ : State R) :
    semL k ph (qft ang neg qs false false) (semL k ph (qft ang neg qs true false) ψ) = ψ := by
  have h := invList_cancels k L ph neg hph (invList neg (qft ang neg qs false false)) (by
    intro g hg
    simp only [invList, List.mem_reverse, List.mem_map] at hg
    obtain ⟨g', hg', rfl⟩ := hg
    simp only [qft, Bool.false_eq_true, if_false, List.append_nil] at hg'
    have := rotations_wf ang qs hn g' hg'
    cases g' <;> simpa [QG.inv, QG.wf] using this) ψ
  rw [invList_invList neg hn2] at h
  rw [qft_inverse_noswap]
  exact h

/-! ### with the register swap: the swap layer is an involution, so the inverse circuit still cancels -/
section swapcase
variable {A : Type} {R : Type} [CommRing R]

theorem Bits.swap_comm_disjoint (x : Bits) (a b c d : Nat) (h1 : a ≠ c) (h2 : a ≠ d) (h3 : b ≠ c) (h4 : b ≠ d) :
    (x.swap a b).swap c d = (x.swap c d).swap a b := by
  funext r
  simp only [Bits.swap]
  grind

theorem appSwap_comm (a b c d : Nat) (h1 : a ≠ c) (h2 : a ≠ d) (h3 : b ≠ c) (h4 : b ≠ d) (ψ : State R) :
    appSwap a b (appSwap c d ψ) = appSwap c d (appSwap a b ψ) := by
  funext x
  simp only [appSwap]
  rw [Bits.swap_comm_disjoint x a b c d h1 h2 h3 h4]

/-- two swap gates on disjoint pairs -/
def DisjSwap : QG A → QG A → Prop
  | .swap a b, .swap c d => a ≠ c ∧ a ≠ d ∧ b ≠ c ∧ b ≠ d
  | _, _ => False

def IsSwap : QG A → Prop
  | .swap _ _ => True
  | _ => False

theorem semG_comm_list (k : Consts R) (ph : A → R) (g : QG A) (l : List (QG A)) (h : ∀ g' ∈ l, DisjSwap g g') (ψ : State R) :
    semG k ph g (semL k ph l ψ) = semL k ph l (semG k ph g ψ) := by
  induction l generalizing ψ with
  | nil => rfl
  | cons g' l ih =>
    have hd := h g' List.mem_cons_self
    have : semL k ph (g' :: l) ψ = semL k ph l (semG k ph g' ψ) := rfl
    rw [this, ih (fun x hx => h x (List.mem_cons_of_mem _ hx))]
    have : semL k ph (g' :: l) (semG k ph g ψ) = semL k ph l (semG k ph g' (semG k ph g ψ)) := rfl
    rw [this]
    congr 1
    cases g with
    | h t => cases g' <;> simp only [DisjSwap] at hd
    | cp c t a => cases g' <;> simp only [DisjSwap] at hd
    | swap a b =>
      cases g' with
      | h t => simp only [DisjSwap] at hd
      | cp c t a' => simp only [DisjSwap] at hd
      | swap c d =>
        simp only [DisjSwap] at hd
        simp only [semG]
        exact appSwap_comm a b c d hd.1 hd.2.1 hd.2.2.1 hd.2.2.2 ψ

/-- a layer of pairwise disjoint swaps applied twice is the identity -/
theorem swap_layer_involution (k : Consts R) (ph : A → R) (l : List (QG A)) (hs : ∀ g ∈ l, IsSwap g)
    (hd : l.Pairwise DisjSwap) (ψ : State R) : semL k ph l (semL k ph l ψ) = ψ := by
  induction l generalizing ψ with
  | nil => rfl
  | cons g l ih =>
    have hpw := List.pairwise_cons.mp hd
    have e1 : semL k ph (g :: l) ψ = semL k ph l (semG k ph g ψ) := rfl
    rw [e1]
    have e2 : semL k ph (g :: l) (semL k ph l (semG k ph g ψ)) = semL k ph l (semG k ph g (semL k ph l (semG k ph g ψ))) := rfl
    rw [e2, semG_comm_list k ph g l hpw.1, ih (fun x hx => hs x (List.mem_cons_of_mem _ hx)) hpw.2]
    have := hs g List.mem_cons_self
    cases g <;> simp only [IsSwap] at this
    simp only [semG]
    exact appSwap_appSwap _ _ ψ

theorem getD_inj (qs : List Nat) (hn : qs.Nodup) (i j : Nat) (hi : i < qs.length) (hj : j < qs.length)
    (h : qs.getD i 0 = qs.getD j 0) : i = j := by
  have e1 : qs.getD i 0 = qs[i] := by simp [List.getD, List.getElem?_eq_getElem hi]
  have e2 : qs.getD j 0 = qs[j] := by simp [List.getD, List.getElem?_eq_getElem hj]
  rw [e1, e2] at h
  exact (List.Nodup.getElem_inj_iff hn).mp h

theorem swaps_isSwap (qs : List Nat) : ∀ g ∈ (swaps qs : List (QG A)), IsSwap g := by
  intro g hg
  simp only [swaps, List.mem_map] at hg
  obtain ⟨i, _, rfl⟩ := hg
  trivial

theorem swaps_disjoint (qs : List Nat) (hn : qs.Nodup) : (swaps qs : List (QG A)).Pairwise DisjSwap := by
  simp only [swaps]
  rw [List.pairwise_map]
  have hr : (List.range (qs.length / 2)).Pairwise (· < ·) := List.pairwise_lt_range
  apply List.Pairwise.imp_of_mem _ hr
  intro i j hi hj hij
  have hi' : i < qs.length / 2 := List.mem_range.mp hi
  have hj' : j < qs.length / 2 := List.mem_range.mp hj
  simp only [DisjSwap]
  refine ⟨?_, ?_, ?_, ?_⟩ <;> intro e
  · have := getD_inj qs hn i j (by omega) (by omega) e; omega
  · have := getD_inj qs hn i (qs.length - j - 1) (by omega) (by omega) e; omega
  · have := getD_inj qs hn (qs.length - i - 1) j (by omega) (by omega) e; omega
  · have := getD_inj qs hn (qs.length - i - 1) (qs.length - j - 1) (by omega) (by omega) e; omega

/-- **inverse option = adjoint, with the register swap**: QFT followed by the `inverse=True` circuit is the
    identity for every list of distinct qubits, every state, every register size -/
theorem qft_inverse_cancels_swap (k : Consts R) (L : k.Laws) (ph : A → R) (ang : Nat → A) (neg : A → A)
    (hph : ∀ a, ph (neg a) * ph a = 1) (qs : List Nat) (hn : qs.Nodup) (ψ : State R) :
    semL k ph (qft ang neg qs true true) (semL k ph (qft ang neg qs false true) ψ) = ψ := by
  rw [qft_inverse_swap]
  have hf : qft ang neg qs false true = rotations ang qs ++ swaps qs := by simp [qft]
  rw [hf, semL_append, semL_append]
  rw [swap_layer_involution k ph (swaps qs) (swaps_isSwap qs) (swaps_disjoint qs hn)]
  exact invList_cancels k L ph neg hph (rotations ang qs) (rotations_wf ang qs hn) ψ

end swapcase

/-- the slip seeded against this property (same order, conjugated angles) is not the inverse list -/
example : qft (fun j => (j : Int)) (fun a => -a) [0, 1] true false ≠
    (rotations (fun j => (j : Int)) [0, 1]).map (QG.inv (fun a => -a)) := by decide

end qft

/-! ## iterative phase estimation -/
section iqpe

/-- controller state once `k` bits have been recorded and round `k` has been issued -/
def st (n m k : Nat) : Ctl := ⟨n, n - 1 - k, 2 * (m % 2 ^ k), (List.range k).map m.testBit, true⟩

theorem step_init (n m : Nat) (hn : 0 < n) : (Ctl.init n).step false = (st n m 0, some (n - 1)) := by
  simp [Ctl.step, Ctl.init, st, hn, Nat.mod_one]

theorem step_st (n m k : Nat) (hk : k + 1 < n) :
    (st n m k).step (m.testBit k) = (st n m (k + 1), some (n - 1 - (k + 1))) := by
  have hb : n - 1 - k > 0 := by omega
  have he : n - (n - 1 - k) = k + 1 := by omega
  have hmod : m % 2 ^ (k + 1) = m % 2 ^ k + 2 ^ k * (m / 2 ^ k % 2) := Nat.mod_pow_succ
  have hbit := Nat.toNat_testBit m k
  have hr : List.range (k + 1) = List.range k ++ [k] := List.range_succ
  have key : 2 * (m % 2 ^ k) + (if m.testBit k then 2 ^ (k + 1) else 0) = 2 * (m % 2 ^ (k + 1)) := by
    rw [hmod, ← hbit]
    cases m.testBit k <;> simp [pow_succ] <;> ring
  have hbp : n - 1 - k - 1 = n - 1 - (k + 1) := by omega
  cases hbt : m.testBit k
  · rw [hbt] at key
    simp only [Ctl.step, st, if_true, hb, he, hr, List.map_append, List.map_cons, List.map_nil, hbt,
      Bool.false_eq_true, if_false, hbp]
    simp only [Bool.false_eq_true, if_false, Nat.add_zero] at key
    rw [key]
  · rw [hbt] at key
    simp only [Ctl.step, st, if_true, hb, he, hr, List.map_append, List.map_cons, List.map_nil, hbt, hbp]
    simp only [if_true] at key
    rw [key]

/-- final state of a shot -/
def fin (n m : Nat) : Ctl := ⟨n, 0, 2 * (m % 2 ^ (n - 1)), (List.range n).map m.testBit, true⟩

theorem step_last (n m : Nat) (hn : 0 < n) : (st n m (n - 1)).step (m.testBit (n - 1)) = (fin n m, none) := by
  have hr : List.range n = List.range (n - 1) ++ [n - 1] := by
    have : n = (n - 1) + 1 := by omega
    conv_lhs => rw [this]
    exact List.range_succ
  simp [Ctl.step, st, fin, hr]

/-- **the outcome of every round is certain and equals the next bit of the phase** -/
theorem outcome_st (n m k : Nat) (hk : k < n) : outcome m (st n m k) (n - 1 - k) = some (m.testBit k) := by
  have hnum : roundNum m (st n m k) (n - 1 - k) = (2 ^ n : Int) * ((m / 2 ^ k : Nat) : Int) := by
    simp only [roundNum, st]
    have hdm := Nat.div_add_mod m (2 ^ k)
    generalize m / 2 ^ k = q at *
    generalize m % 2 ^ k = r at *
    have hp : (2 : Int) ^ n = 2 * 2 ^ k * 2 ^ (n - 1 - k) := by
      rw [← pow_succ', ← pow_add]; congr 1; omega
    rw [hp, ← hdm]
    push_cast
    ring
  have hpos : (2 ^ n : Int) ≠ 0 := by positivity
  simp only [outcome, hnum]
  have h0 : (2 ^ n : Int) * ((m / 2 ^ k : Nat) : Int) % (2 ^ (st n m k).n : Int) = 0 := by
    simp [st, Int.mul_emod_right]
  rw [if_pos h0]
  have h1 : (2 ^ n : Int) * ((m / 2 ^ k : Nat) : Int) / (2 ^ (st n m k).n : Int) = ((m / 2 ^ k : Nat) : Int) := by
    simp only [st]; exact Int.mul_ediv_cancel_left _ hpos
  rw [h1, Nat.testBit_eq_decide_div_mod_eq]
  congr 1
  apply decide_eq_decide.mpr
  omega

theorem runShotFrom_st (n m : Nat) (d : Nat) : ∀ k fuel, k + d + 1 = n → d + 1 ≤ fuel →
    runShotFrom m fuel (st n m k) (m.testBit k) = some (fin n m) := by
  induction d with
  | zero =>
    intro k fuel hk hf
    obtain ⟨f, rfl⟩ : ∃ f, fuel = f + 1 := ⟨fuel - 1, by omega⟩
    have hk' : k = n - 1 := by omega
    subst hk'
    simp only [runShotFrom, step_last n m (by omega)]
  | succ d ih =>
    intro k fuel hk hf
    obtain ⟨f, rfl⟩ : ∃ f, fuel = f + 1 := ⟨fuel - 1, by omega⟩
    simp only [runShotFrom, step_st n m k (by omega)]
    rw [outcome_st n m (k + 1) (by omega)]
    exact ih (k + 1) f (by omega) (by omega)

/-- **one shot returns the binary expansion of the phase**, least significant bit first, for every register
    size and every phase numerator -/
theorem runShot_exact (n m : Nat) (hn : 0 < n) : runShot m (Ctl.init n) = some (fin n m) := by
  simp only [runShot, Ctl.init, runShotFrom]
  have := step_init n m hn
  simp only [Ctl.init] at this
  rw [this]
  simp only []
  have ho := outcome_st n m 0 hn
  simp only [Nat.sub_zero] at ho
  rw [ho]
  exact runShotFrom_st n m (n - 1) 0 (n + 1) (by omega) (by omega)

theorem finalize_fin (n m : Nat) : (fin n m).finalize = (Ctl.init n, (List.range n).map m.testBit) := rfl

/-- **every shot** of any number of shots returns the same exact record: the controller is fully reset -/
theorem runShots_exact (n m : Nat) (hn : 0 < n) (k : Nat) :
    runShots Ctl.finalize m k (Ctl.init n) = some (List.replicate k ((List.range n).map m.testBit)) := by
  induction k with
  | zero => rfl
  | succ k ih =>
    simp only [runShots, runShot_exact n m hn, finalize_fin, ih, Option.map_some, List.replicate_succ]

/-- if the feedback phase is not reset (the seeded change) the second shot is no longer certain / exact -/
theorem keep_phase_counterexample :
    runShots Ctl.finalizeKeepPhase 5 2 (Ctl.init 3) ≠ some (List.replicate 2 ((List.range 3).map (Nat.testBit 5))) := by
  decide

end iqpe

/-! ## bitstring → phase -/
section decode

theorem binFrac_append (xs : List Bool) (b : Bool) :
    binFrac (xs ++ [b]) = binFrac xs + (if b then 1 else 0) / 2 ^ (xs.length + 1) := by
  induction xs with
  | nil => simp [binFrac]
  | cons x xs ih => simp only [List.cons_append, binFrac, ih, List.length_cons]; ring

theorem natOfLSB_append (xs : List Bool) (b : Bool) :
    natOfLSB (xs ++ [b]) = natOfLSB xs + 2 ^ xs.length * (if b then 1 else 0) := by
  induction xs with
  | nil => simp [natOfLSB]
  | cons x xs ih => simp only [List.cons_append, natOfLSB, ih, List.length_cons]; ring

/-- reading a most-significant-first string as a binary fraction -/
theorem binFrac_reverse (l : List Bool) : binFrac l.reverse = (natOfLSB l : Rat) / 2 ^ l.length := by
  induction l with
  | nil => simp [binFrac, natOfLSB]
  | cons b l ih =>
    simp only [List.reverse_cons, binFrac_append, ih, natOfLSB, List.length_reverse, List.length_cons]
    have h2 : (2 : Rat) ^ l.length ≠ 0 := by positivity
    push_cast
    field_simp
    ring

theorem natOfLSB_bits (m n : Nat) : natOfLSB ((List.range n).map m.testBit) = m % 2 ^ n := by
  induction n with
  | zero => simp [natOfLSB, Nat.mod_one]
  | succ n ih =>
    rw [List.range_succ, List.map_append, List.map_singleton, natOfLSB_append, ih]
    simp only [List.length_map, List.length_range]
    rw [Nat.mod_pow_succ, ← Nat.toNat_testBit]
    cases m.testBit n <;> simp

/-- **decoding inverts the expansion**: the reversed iQPE record (and the QPE bitstring, most significant
    bit first) of a representable phase m / 2^n is read back as exactly m / 2^n -/
theorem decode_exact (m n : Nat) (hm : m < 2 ^ n) :
    binFrac ((List.range n).map m.testBit).reverse = (m : Rat) / 2 ^ n := by
  rw [binFrac_reverse, natOfLSB_bits, Nat.mod_eq_of_lt hm]
  simp

end decode

/-! ## multiplexor identities (state preparation) -/
section mux
variable {R : Type} [CommRing R]

/-- select bit 0: the two half-angle rotations add up -/
theorem mux_select0 (k : Consts R) (L : k.Laws) (b : Base) (hb : b = .RY ∨ b = .RZ) (a c : Ang) :
    (baseMatrix k b a).mul (baseMatrix k b c) = baseMatrix k b (c + a) := by
  rcases hb with h | h <;> subst h <;> apply M2.ext' <;>
    simp only [baseMatrix, M2.mul, Consts.sinH, L.cos_add, L.misin_add, L.e_add, Ang.neg_add'] <;>
    first
      | ring1
      | linear_combination (k.misinH a * k.misinH c) * L.i_sq
      | linear_combination (-(k.misinH a * k.misinH c)) * L.i_sq

/-- conjugation by X (the CNOT pair when the select bit is 1) reverses the rotation -/
theorem mux_conj_x (k : Consts R) (L : k.Laws) (b : Base) (hb : b = .RY ∨ b = .RZ) (c : Ang) :
    ((baseMatrix k .X 0).mul (baseMatrix k b c)).mul (baseMatrix k .X 0) = baseMatrix k b (-c) := by
  rcases hb with h | h <;> subst h <;> apply M2.ext' <;>
    simp [baseMatrix, M2.mul, Consts.sinH, L.cos_neg, L.misin_neg]

/-- select bit 1: R(a) · X · R(c) · X = R(a − c) — the angle-weight matrix [[½, ½], [½, −½]] of the recursion -/
theorem mux_select1 (k : Consts R) (L : k.Laws) (b : Base) (hb : b = .RY ∨ b = .RZ) (a c : Ang) :
    (baseMatrix k b a).mul (((baseMatrix k .X 0).mul (baseMatrix k b c)).mul (baseMatrix k .X 0)) = baseMatrix k b (-c + a) := by
  rw [mux_conj_x k L b hb c, mux_select0 k L b hb a (-c)]

end mux

/-! ## executable instance: angles j ↦ π/2^j for j ≤ 2 live in `Ang`; the cancellation theorem for `cycConsts` -/

/-- QFT followed by its `inverse=True` circuit (swap off) is the identity for the amplitudes the driver computes,
    for any phase map with `ph(−a)·ph(a) = 1` -/
theorem qft_inverse_cancels_noswap_exec {A : Type} (ph : A → Cyc) (ang : Nat → A) (neg : A → A)
    (hph : ∀ a, ph (neg a) * ph a = 1) (qs : List Nat) (hn : qs.Nodup) (ψ : State Cyc) :
    semL cycConsts ph (qft ang neg qs true false) (semL cycConsts ph (qft ang neg qs false false) ψ) = ψ :=
  qft_inverse_cancels_noswap cycConsts cycConsts_laws ph ang neg hph qs hn ψ

/-! ## non-vacuity -/
example : qft (fun j => (j : Int)) (fun a => -a) [3, 1, 2] true true =
    [.swap 3 2, .h 3, .cp 3 1 (-1), .h 1, .cp 1 2 (-1), .cp 3 2 (-2), .h 2] := by decide
example : (runShot 5 (Ctl.init 4)).map (·.record) = some [true, false, true, false] := by decide
example : binFrac [true, false, true] = 5 / 8 := by norm_num [binFrac]

end Tangelo.C20
